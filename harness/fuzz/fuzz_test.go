//go:build verif

// Coverage-guided search (Go native fuzzing) for inputs on which Parse panics, exceeds the proved step bound, or is
// accepted and then cannot be marshalled / explained.  It is a bug-FINDING aid: findings are written to $FUZZ_OUT
// (one file per distinct finding, the input in hex on the first line) and the target returns normally, so the run
// continues; the inputs the fuzzer keeps (its corpus) are exported to /verif/corpus/fuzz_corpus.txt and replayed
// deterministically by the C01/C02/C03 checks.  Never a substitute for the theorems.
package fuzz

import (
	"bufio"
	"bytes"
	"context"
	"crypto/sha1"
	"encoding/hex"
	"encoding/json"
	"fmt"
	"os"
	"path/filepath"
	"strings"
	"testing"

	"github.com/sqlc-dev/doubleclick/lexer"
	"github.com/sqlc-dev/doubleclick/parser"
)

func record(kind string, data []byte, detail string) {
	dir := os.Getenv("FUZZ_OUT")
	if dir == "" {
		dir = "/tmp/fuzzfind"
	}
	os.MkdirAll(dir, 0o755)
	// one file per (kind, first line of detail): keeps the smallest input
	key := kind + ":" + strings.SplitN(detail, "\n", 2)[0]
	if i := strings.Index(key, "0x"); i > 0 {
		key = key[:i]
	}
	h := sha1.Sum([]byte(key))
	p := filepath.Join(dir, kind+"-"+hex.EncodeToString(h[:6]))
	if old, err := os.ReadFile(p); err == nil {
		first := strings.SplitN(string(old), "\n", 2)[0]
		if len(first) <= 2*len(data) {
			return
		}
	}
	os.WriteFile(p, []byte(hex.EncodeToString(data)+"\n"+detail+"\n"+string(data)+"\n"), 0o644)
}

func FuzzParseExplain(f *testing.F) {
	if fh, err := os.Open("/verif/corpus/statements.txt"); err == nil {
		sc := bufio.NewScanner(fh)
		sc.Buffer(make([]byte, 1<<20), 1<<24)
		n := 0
		for sc.Scan() {
			if n%3 == 0 && len(sc.Bytes()) < 600 {
				f.Add(append([]byte(nil), sc.Bytes()...))
			}
			n++
		}
		fh.Close()
	}
	f.Fuzz(func(t *testing.T, data []byte) {
		if len(data) > 2048 {
			return
		}
		var stage = "Parse"
		defer func() {
			if x := recover(); x != nil {
				s := fmt.Sprint(x)
				if _, ok := x.(parser.VerifBudgetExceeded); ok {
					record("BUDGET", data, stage+": step budget exceeded")
					return
				}
				record("PANIC-"+stage, data, stage+": "+s)
			}
		}()
		ntok := len(lexer.Tokenize(bytes.NewReader(data)))
		p := parser.New(bytes.NewReader(data))
		p.VerifSetBudget(int64(42 + 305*(ntok+1)))
		stmts, err := p.ParseStatements(context.Background())
		if err != nil {
			return
		}
		p.VerifSetBudget(0)
		for _, s := range stmts {
			if s == nil {
				record("C03-nil", data, "nil statement returned with err == nil")
				return
			}
			stage = "Marshal"
			if _, merr := json.Marshal(s); merr != nil {
				record("C03-marshal", data, "json.Marshal: "+merr.Error())
			}
			stage = "Explain"
			if parser.Explain(s) == "" {
				record("C03-empty", data, "Explain returned empty text")
			}
		}
		stage = "ExplainStatements"
		_ = parser.ExplainStatements(stmts)
	})
}
