module verif/harness

go 1.25

require github.com/sqlc-dev/doubleclick v0.0.0

replace github.com/sqlc-dev/doubleclick => /repo
