// Package rdr hands the same text to parser.Parse through the different io.Reader types a caller might use.  By C14 the
// result of Parse does not depend on how the reader delivers the bytes, so every harness may rotate through them: a
// change that makes the public entry points depend on the reader's dynamic type, its method set or its chunking then
// shows up in the property whose harness happened to use that reader, with the statement as the failing input.
package rdr

import (
	"bufio"
	"bytes"
	"io"
	"strings"
	"testing/iotest"
)

var n int
var last string

type only struct{ r io.Reader }

func (o only) Read(p []byte) (int, error) { return o.r.Read(p) }

// Last names the reader type handed out by the latest call of For.
func Last() string { return last }

// For returns a reader over s; the kind rotates with every call.
func For(s string) io.Reader {
	n++
	k := n % 12
	if len(s) > 4096 && (k == 4 || k == 9) {
		k = 0 // one byte per Read is quadratic-ish in wall time for big inputs: keep those on the plain reader
	}
	switch k {
	case 1:
		last = "bytes.Reader"
		return bytes.NewReader([]byte(s))
	case 2:
		last = "io.MultiReader(halves)"
		h := len(s) / 2
		return io.MultiReader(strings.NewReader(s[:h]), strings.NewReader(s[h:]))
	case 3:
		last = "bufio.Reader(8192)"
		return bufio.NewReaderSize(strings.NewReader(s), 8192)
	case 4:
		last = "iotest.OneByteReader"
		return iotest.OneByteReader(strings.NewReader(s))
	case 5:
		last = "bytes.Buffer"
		return bytes.NewBufferString(s)
	case 6:
		last = "iotest.DataErrReader"
		return iotest.DataErrReader(strings.NewReader(s))
	case 7:
		last = "plain io.Reader"
		return only{strings.NewReader(s)}
	case 8:
		last = "io.MultiReader(thirds, with empty readers)"
		a, b := len(s)/3, 2*len(s)/3
		return io.MultiReader(strings.NewReader(""), strings.NewReader(s[:a]), strings.NewReader(s[a:b]), strings.NewReader(""), strings.NewReader(s[b:]))
	case 9:
		last = "iotest.HalfReader"
		return iotest.HalfReader(strings.NewReader(s))
	case 10:
		last = "bufio.Reader(65536)"
		return bufio.NewReaderSize(strings.NewReader(s), 65536)
	case 11:
		last = "bufio.Reader(16)"
		return bufio.NewReaderSize(strings.NewReader(s), 16)
	}
	last = "strings.Reader"
	return strings.NewReader(s)
}

// Twice calls explain on the same statement twice and returns the first text; when the second differs (Explain modified the
// tree, or kept state from its first call) a marker line is appended, which no model, spec or oracle accepts.
func Twice(explain func() string) string {
	a := explain()
	if b := explain(); b != a {
		return a + "!!UNSTABLE second Explain of the same statement differs from the first\n"
	}
	return a
}
