//go:build verif

// bufioops: the REAL bufio.Reader side of the correspondence check for
// /verif/coq/Stream/BufioModel.v (properties C14, C15).
//
// stdin: one case per line, "<script>\t<ops>".
//
//	script: comma-separated chunks, one per Read call of the user's io.Reader:
//	          d<hex>        Read returns (len, nil)     (d- : a (0, nil) read)
//	          e<code>       Read returns (0, err)       (code 0 = io.EOF)
//	          x<hex>:<code> Read returns (len, err)     (x-:<code> allowed)
//	        a chunk longer than len(p) is split: the first len(p) bytes are returned with a nil
//	        error, the rest (with its error) stays for the next Read.  After the script: (0, io.EOF).
//	        An empty script is written "-".
//	ops:    comma-separated: p<n> = Peek(n), r = ReadRune().  ("-" = none)
//
// stdout: one line per case:
//
//	p:<hex bytes returned>:<errclass>  or  r:<rune>:<size>:<errclass>  per op, joined by ","
//	\ttracked=<code or ->          (errorTrackingReader.err, as in lexer.New / Lexer.Err)
//	\treads=<number of Read calls>:<checksum over (len(p), n, err) of every call>
//
// errclass: "-" nil, "eof", "full" (bufio.ErrBufferFull), "noprogress" (io.ErrNoProgress), "e<code>".
package main

import (
	"bufio"
	"encoding/hex"
	"fmt"
	"io"
	"os"
	"strconv"
	"strings"
)

// errorTrackingReader is copied verbatim from /repo/lexer/lexer.go (it is unexported there).
type errorTrackingReader struct {
	r   io.Reader
	err error
}

func (e *errorTrackingReader) Read(p []byte) (int, error) {
	n, err := e.r.Read(p)
	if err != nil && err != io.EOF && e.err == nil {
		e.err = err
	}
	return n, err
}

type codeErr struct{ code uint64 }

func (c *codeErr) Error() string { return "E" + strconv.FormatUint(c.code, 10) }

type chunk struct {
	bs     []byte
	hasErr bool
	code   uint64
}

type scriptReader struct {
	chunks []chunk
	errs   map[uint64]error
	reads  int
	sum    uint64
}

const sumMod = 1000000007

func (s *scriptReader) errOf(code uint64) error {
	if code == 0 {
		return io.EOF
	}
	if e, ok := s.errs[code]; ok {
		return e
	}
	e := &codeErr{code}
	s.errs[code] = e
	return e
}

func (s *scriptReader) note(free, n int, hasErr bool, code uint64) {
	s.reads++
	ev := uint64(0)
	if hasErr {
		ev = code%1000000 + 1
	}
	s.sum = (s.sum*1000003 + uint64(free)*131 + uint64(n)*7 + ev) % sumMod
}

func (s *scriptReader) Read(p []byte) (int, error) {
	if len(s.chunks) == 0 {
		s.note(len(p), 0, true, 0)
		return 0, io.EOF
	}
	c := &s.chunks[0]
	if len(c.bs) > len(p) {
		n := copy(p, c.bs[:len(p)])
		c.bs = c.bs[n:]
		s.note(len(p), n, false, 0)
		return n, nil
	}
	n := copy(p, c.bs)
	hasErr, code := c.hasErr, c.code
	s.chunks = s.chunks[1:]
	s.note(len(p), n, hasErr, code)
	if hasErr {
		return n, s.errOf(code)
	}
	return n, nil
}

func unhex(s string) ([]byte, error) {
	if s == "-" || s == "" {
		return nil, nil
	}
	return hex.DecodeString(s)
}

func parseScript(s string) ([]chunk, error) {
	var out []chunk
	if s == "-" || s == "" {
		return out, nil
	}
	for _, f := range strings.Split(s, ",") {
		if f == "" {
			return nil, fmt.Errorf("empty chunk")
		}
		switch f[0] {
		case 'd':
			b, err := unhex(f[1:])
			if err != nil {
				return nil, err
			}
			out = append(out, chunk{bs: b})
		case 'e':
			c, err := strconv.ParseUint(f[1:], 10, 64)
			if err != nil {
				return nil, err
			}
			out = append(out, chunk{hasErr: true, code: c})
		case 'x':
			i := strings.IndexByte(f, ':')
			if i < 0 {
				return nil, fmt.Errorf("bad chunk %q", f)
			}
			b, err := unhex(f[1:i])
			if err != nil {
				return nil, err
			}
			c, err := strconv.ParseUint(f[i+1:], 10, 64)
			if err != nil {
				return nil, err
			}
			out = append(out, chunk{bs: b, hasErr: true, code: c})
		default:
			return nil, fmt.Errorf("bad chunk %q", f)
		}
	}
	return out, nil
}

func hexOf(b []byte) string {
	if len(b) == 0 {
		return "-"
	}
	return hex.EncodeToString(b)
}

func errClass(err error) string {
	switch {
	case err == nil:
		return "-"
	case err == io.EOF:
		return "eof"
	case err == bufio.ErrBufferFull:
		return "full"
	case err == io.ErrNoProgress:
		return "noprogress"
	}
	if c, ok := err.(*codeErr); ok {
		return "e" + strconv.FormatUint(c.code, 10)
	}
	return "other(" + err.Error() + ")"
}

func runCase(line string) (string, error) {
	fields := strings.Split(line, "\t")
	if len(fields) != 2 {
		return "", fmt.Errorf("want 2 tab-separated fields, got %d", len(fields))
	}
	chunks, err := parseScript(fields[0])
	if err != nil {
		return "", err
	}
	src := &scriptReader{chunks: chunks, errs: map[uint64]error{}}
	// exactly as lexer.New
	source := &errorTrackingReader{r: src}
	reader := bufio.NewReader(source)

	var sb strings.Builder
	first := true
	if fields[1] != "-" && fields[1] != "" {
		for _, o := range strings.Split(fields[1], ",") {
			if !first {
				sb.WriteByte(',')
			}
			first = false
			switch {
			case o == "r":
				r, size, err := reader.ReadRune()
				fmt.Fprintf(&sb, "r:%d:%d:%s", r, size, errClass(err))
			case strings.HasPrefix(o, "p"):
				n, perr := strconv.Atoi(o[1:])
				if perr != nil || n < 0 {
					return "", fmt.Errorf("bad op %q", o)
				}
				b, err := reader.Peek(n)
				fmt.Fprintf(&sb, "p:%s:%s", hexOf(b), errClass(err))
			default:
				return "", fmt.Errorf("bad op %q", o)
			}
		}
	}
	if first {
		sb.WriteByte('-')
	}
	sb.WriteString("\ttracked=")
	switch e := source.err.(type) {
	case nil:
		sb.WriteByte('-')
	case *codeErr:
		sb.WriteString(strconv.FormatUint(e.code, 10))
	default:
		sb.WriteString("other(" + e.Error() + ")")
	}
	fmt.Fprintf(&sb, "\treads=%d:%d", src.reads, src.sum)
	return sb.String(), nil
}

func main() {
	in := bufio.NewReaderSize(os.Stdin, 1<<20)
	out := bufio.NewWriterSize(os.Stdout, 1<<20)
	defer out.Flush()
	lineNo := 0
	for {
		line, err := in.ReadString('\n')
		if len(line) > 0 {
			lineNo++
			line = strings.TrimRight(line, "\r\n")
			res, cerr := runCase(line)
			if cerr != nil {
				fmt.Fprintf(out, "ERROR line %d: %v\n", lineNo, cerr)
			} else {
				out.WriteString(res)
				out.WriteByte('\n')
			}
		}
		if err != nil {
			break
		}
	}
}
