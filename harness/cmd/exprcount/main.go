//go:build verif

// exprcount: the implementation side of the C04 count-vs-emit correspondence for the EXPRESSION
// printers of /repo/internal/explain (expressions.go, functions.go, the expression cases of Node).
//
// It BUILDS the ast values directly from a term (no parsing of SQL), so that every combination of
// the fields the printers branch on is reachable, including the ones the parser never produces,
// puts the expression into the column list of a SELECT, calls parser.Explain and reports, for the
// subtree printed for the expression: the "(children N)" count of its first line, the number of
// lines printed one level below that line, the md5 of the (de-indented, literal-normalised) text,
// and whether the WHOLE subtree is a well-formed tree.
//
// stdin: one case per line, [<kind> TAB] <term>, the term's tokens separated by single spaces (the model side
// /verif/driver/exprcount/main.ml decodes the same terms):
//
//	e ::= nil | op K | id NAME ALIAS | lit TY P BIG V | ll TY P [ e* ] | un M e | bin OP P e e
//	    | fn CLS PARAMS [ e* ] SET DIST FILTER OVER ALIAS STD | lam K e | cast e TE ALIAS OPS
//	    | in e NOT GLOB [ e* ] Q TRAIL | tern e e e | aacc e e | tacc e e | like e e NOT CI ALIAS
//	    | btw e e e NOT | isnull e NOT | case OPT [ e* ] OPT ALIAS | ivl e UNIT | exists Q
//	    | subq Q ALIAS | extr FIELD e ALIAS | param NAME TY
//	    | ast TABLE NEXC [ OPT* ] NAPP [ tr* ] | cols QUAL [ e* ] NEXC [ OPT* ] NAPP [ tr* ]
//	    | al e ALIAS | with NAME e SCALAR
//	tr ::= tr TYPE PAT NEXC [ OPT* ]              OPT ::= - | e      PARAMS ::= - | [ e* ]
//	OVER ::= - | ov NAME [ e* ] NORD OPT
//	TY: s i f b n a t   V: nil int uint flt bool str:K oth   OP: cat and or plus
//	CLS: kql pos dadd dsub ddiff trim view toint plain qaN qlN (N = 0..6: equals notequals less lessorequals greater
//	greaterorequals other)   NAME/ALIAS/TABLE/QUAL/UNIT: - for "", else the text   Q: 0 nil, 1 a SELECT
//
// stdout: <header count> TAB <direct children> TAB <md5> TAB <T|F> TAB M   (with -text: hex of the text),
// or PANIC TAB M.  Every line "Literal <text>[ (alias a)]" is rewritten to "Literal _[ (alias a)]" first:
// the text of a Literal line is format.go's business, not this model's.
//
// Build: cd /verif/harness && go build -tags verif -o /verif/build/exprcount ./cmd/exprcount
package main

import (
	"bufio"
	"crypto/md5"
	"encoding/hex"
	"flag"
	"fmt"
	"os"
	"regexp"
	"strconv"
	"strings"

	"github.com/sqlc-dev/doubleclick/ast"
	"github.com/sqlc-dev/doubleclick/parser"
)

// the strings a Literal can hold (the model side has the matching table of what the printers' three
// string parsers return for them)
var strTable = []string{
	"s", "", "99999999999999999999", "1 DAY", "-1 SECOND 2 MINUTE", "1 DAY 2 HOUR 3 MINUTE",
	"T|project a, b", "T|project a|filter x=='y'", "T|filter x>z",
}

var clsNames = map[string]string{
	"kql": "kql", "pos": "position", "dadd": "date_add", "dsub": "DATE_SUB", "ddiff": "dateDiff", "trim": "trim",
	"view": "view", "toint": "toIntervalDay", "plain": "f",
	"qa0": "anyEquals", "qa1": "anyNotEquals", "qa2": "anyLess", "qa3": "anyLessOrEquals", "qa4": "anyGreater",
	"qa5": "anyGreaterOrEquals", "qa6": "anyLast",
	"ql0": "allEquals", "ql1": "allNotEquals", "ql2": "allLess", "ql3": "allLessOrEquals", "ql4": "allGreater",
	"ql5": "allGreaterOrEquals", "ql6": "allx",
}

type tp struct {
	toks []string
	i    int
}

func (p *tp) next() string {
	if p.i >= len(p.toks) {
		panic("term ends early")
	}
	t := p.toks[p.i]
	p.i++
	return t
}

func (p *tp) peek() string {
	if p.i >= len(p.toks) {
		panic("term ends early")
	}
	return p.toks[p.i]
}

func (p *tp) flag() bool {
	switch p.next() {
	case "0":
		return false
	case "1":
		return true
	}
	panic("bad flag")
}

func (p *tp) num() int {
	n, err := strconv.Atoi(p.next())
	if err != nil {
		panic("bad number")
	}
	return n
}

func (p *tp) str() string {
	t := p.next()
	if t == "-" {
		return ""
	}
	return t
}

func (p *tp) expect(t string) {
	if g := p.next(); g != t {
		panic("expected " + t + " got " + g)
	}
}

func (p *tp) list() []ast.Expression {
	p.expect("[")
	out := []ast.Expression{}
	for p.peek() != "]" {
		out = append(out, p.expr())
	}
	p.next()
	return out
}

func (p *tp) opt() ast.Expression {
	if p.peek() == "-" {
		p.next()
		return nil
	}
	return p.expr()
}

func selectQ() ast.Statement {
	return &ast.SelectWithUnionQuery{Selects: []ast.Statement{&ast.SelectQuery{Columns: []ast.Expression{&ast.Identifier{Parts: []string{"q"}}}}}}
}

func (p *tp) query() ast.Statement {
	if p.flag() {
		return selectQ()
	}
	return nil
}

func names(prefix string, n int) []string {
	var out []string
	for i := 1; i <= n; i++ {
		out = append(out, fmt.Sprintf("%s%d", prefix, i))
	}
	return out
}

func (p *tp) replaces() []*ast.ReplaceExpr {
	p.expect("[")
	var out []*ast.ReplaceExpr
	for p.peek() != "]" {
		out = append(out, &ast.ReplaceExpr{Expr: p.opt(), Name: "r"})
	}
	p.next()
	return out
}

func (p *tp) transformers() []*ast.ColumnTransformer {
	p.expect("[")
	var out []*ast.ColumnTransformer
	for p.peek() != "]" {
		p.expect("tr")
		t := &ast.ColumnTransformer{}
		switch p.num() {
		case 0:
			t.Type = "apply"
			t.Apply = "f"
		case 1:
			t.Type = "except"
		case 2:
			t.Type = "replace"
		default:
			t.Type = "other"
		}
		if p.flag() {
			t.Pattern = "pat"
		}
		t.Except = names("x", p.num())
		t.Replaces = p.replaces()
		out = append(out, t)
	}
	p.next()
	return out
}

func (p *tp) expr() ast.Expression {
	switch tag := p.next(); tag {
	case "nil":
		return nil
	case "op":
		return &ast.DataType{Name: "T", HasParentheses: p.num() == 1}
	case "id":
		name, alias := p.str(), p.str()
		id := &ast.Identifier{Alias: alias}
		if name != "" {
			id.Parts = []string{name}
		}
		return id
	case "lit":
		l := &ast.Literal{}
		l.Type = litType(p.next())
		l.Parenthesized = p.flag()
		l.IsBigInt = p.flag()
		switch v := p.next(); {
		case v == "nil":
		case v == "int":
			l.Value = int64(5)
		case v == "uint":
			l.Value = uint64(7)
		case v == "flt":
			l.Value = float64(1.5)
		case v == "bool":
			l.Value = true
		case v == "oth":
			l.Value = struct{}{}
		case strings.HasPrefix(v, "str:"):
			k, err := strconv.Atoi(v[4:])
			if err != nil || k < 0 || k >= len(strTable) {
				panic("bad string index")
			}
			l.Value = strTable[k]
		default:
			panic("bad literal value " + v)
		}
		return l
	case "ll":
		l := &ast.Literal{}
		l.Type = litType(p.next())
		l.Parenthesized = p.flag()
		l.Value = p.list()
		return l
	case "un":
		op := "NOT"
		if p.flag() {
			op = "-"
		}
		return &ast.UnaryExpr{Op: op, Operand: p.expr()}
	case "bin":
		var op string
		switch p.next() {
		case "cat":
			op = "||"
		case "and":
			op = "AND"
		case "or":
			op = "OR"
		case "plus":
			op = "+"
		default:
			panic("bad operator")
		}
		b := &ast.BinaryExpr{Op: op, Parenthesized: p.flag()}
		b.Left = p.expr()
		b.Right = p.expr()
		return b
	case "fn":
		cls := p.next()
		name, ok := clsNames[cls]
		if !ok {
			panic("bad function class " + cls)
		}
		f := &ast.FunctionCall{Name: name}
		if p.peek() == "-" {
			p.next()
		} else {
			f.Parameters = p.list()
		}
		f.Arguments = p.list()
		if p.flag() {
			f.Settings = []*ast.SettingExpr{{Name: "s", Value: &ast.Identifier{Parts: []string{"v"}}}}
		}
		f.Distinct = p.flag()
		f.Filter = p.opt()
		if p.peek() == "-" {
			p.next()
		} else {
			p.expect("ov")
			w := &ast.WindowSpec{Name: p.str()}
			w.PartitionBy = p.list()
			for i, n := 0, p.num(); i < n; i++ {
				w.OrderBy = append(w.OrderBy, &ast.OrderByElement{Expression: &ast.Identifier{Parts: []string{"o"}}})
			}
			if off := p.opt(); off != nil {
				w.Frame = &ast.WindowFrame{StartBound: &ast.FrameBound{Offset: off}}
			}
			f.Over = w
		}
		f.Alias = p.str()
		f.SQLStandard = p.flag()
		return f
	case "lam":
		l := &ast.Lambda{Parameters: names("p", p.num())}
		l.Body = p.expr()
		return l
	case "cast":
		c := &ast.CastExpr{}
		c.Expr = p.expr()
		c.TypeExpr = p.opt()
		c.Type = &ast.DataType{Name: "Int32"}
		c.Alias = p.str()
		c.OperatorSyntax = p.flag()
		return c
	case "in":
		n := &ast.InExpr{}
		n.Expr = p.expr()
		n.Not = p.flag()
		n.Global = p.flag()
		n.List = p.list()
		n.Query = p.query()
		n.TrailingComma = p.flag()
		return n
	case "tern":
		return &ast.TernaryExpr{Condition: p.expr(), Then: p.expr(), Else: p.expr()}
	case "aacc":
		return &ast.ArrayAccess{Array: p.expr(), Index: p.expr()}
	case "tacc":
		return &ast.TupleAccess{Tuple: p.expr(), Index: p.expr()}
	case "like":
		l := &ast.LikeExpr{}
		l.Expr = p.expr()
		l.Pattern = p.expr()
		l.Not = p.flag()
		l.CaseInsensitive = p.flag()
		l.Alias = p.str()
		return l
	case "btw":
		b := &ast.BetweenExpr{}
		b.Expr = p.expr()
		b.Low = p.expr()
		b.High = p.expr()
		b.Not = p.flag()
		return b
	case "isnull":
		n := &ast.IsNullExpr{}
		n.Expr = p.expr()
		n.Not = p.flag()
		return n
	case "case":
		c := &ast.CaseExpr{}
		c.Operand = p.opt()
		ws := p.list()
		for i := 0; i+1 < len(ws); i += 2 {
			c.Whens = append(c.Whens, &ast.WhenClause{Condition: ws[i], Result: ws[i+1]})
		}
		c.Else = p.opt()
		c.Alias = p.str()
		return c
	case "ivl":
		n := &ast.IntervalExpr{}
		n.Value = p.expr()
		n.Unit = p.str()
		return n
	case "exists":
		return &ast.ExistsExpr{Query: p.query()}
	case "subq":
		return &ast.Subquery{Query: p.query(), Alias: p.str()}
	case "extr":
		n := &ast.ExtractExpr{Field: p.next()}
		n.From = p.expr()
		n.Alias = p.str()
		return n
	case "param":
		n := &ast.Parameter{Name: p.str()}
		if p.flag() {
			n.Type = &ast.DataType{Name: "Int32"}
		}
		return n
	case "ast":
		n := &ast.Asterisk{Table: p.str()}
		n.Except = names("x", p.num())
		n.Replace = p.replaces()
		n.Apply = names("f", p.num())
		n.Transformers = p.transformers()
		return n
	case "cols":
		n := &ast.ColumnsMatcher{Pattern: "pat", Qualifier: p.str()}
		if cs := p.list(); len(cs) > 0 {
			n.Columns = cs
		}
		n.Except = names("x", p.num())
		n.Replace = p.replaces()
		n.Apply = names("f", p.num())
		n.Transformers = p.transformers()
		return n
	case "al":
		n := &ast.AliasedExpr{}
		n.Expr = p.expr()
		n.Alias = p.str()
		return n
	case "with":
		n := &ast.WithElement{Name: p.str()}
		n.Query = p.expr()
		n.ScalarWith = p.flag()
		return n
	default:
		panic("unknown tag " + tag)
	}
}

func litType(t string) ast.LiteralType {
	switch t {
	case "s":
		return ast.LiteralString
	case "i":
		return ast.LiteralInteger
	case "f":
		return ast.LiteralFloat
	case "b":
		return ast.LiteralBoolean
	case "n":
		return ast.LiteralNull
	case "a":
		return ast.LiteralArray
	case "t":
		return ast.LiteralTuple
	}
	panic("bad literal type " + t)
}

func build(line string) (e ast.Expression, err error) {
	defer func() {
		if r := recover(); r != nil {
			err = fmt.Errorf("%v", r)
		}
	}()
	p := &tp{toks: strings.Split(line, " ")}
	e = p.expr()
	if p.i != len(p.toks) {
		return nil, fmt.Errorf("trailing tokens")
	}
	return e, nil
}

func explain(e ast.Expression) (text string, panicked bool) {
	defer func() {
		if r := recover(); r != nil {
			panicked = true
		}
	}()
	st := &ast.SelectWithUnionQuery{Selects: []ast.Statement{&ast.SelectQuery{Columns: []ast.Expression{e}}}}
	return parser.Explain(st), false
}

var countRe = regexp.MustCompile(` \(children (\d+)\)$`)
var litRe = regexp.MustCompile(`^( *)Literal .*?( \(alias [A-Za-z0-9_]*\))?$`)

func indentOf(l string) int { return len(l) - len(strings.TrimLeft(l, " ")) }

func countOf(l string) int {
	m := countRe.FindStringSubmatch(l)
	if m == nil {
		return 0
	}
	n, _ := strconv.Atoi(m[1])
	return n
}

// isTree: the lines are exactly one rooted tree, every (children N) equals the number of lines directly beneath
func isTree(lines []string) bool {
	if len(lines) == 0 || indentOf(lines[0]) != 0 {
		return false
	}
	pos := 0
	var parse func(d int) bool
	parse = func(d int) bool {
		if pos >= len(lines) || indentOf(lines[pos]) != d {
			return false
		}
		n := countOf(lines[pos])
		pos++
		for i := 0; i < n; i++ {
			if !parse(d + 1) {
				return false
			}
		}
		return true
	}
	return parse(0) && pos == len(lines)
}

func main() {
	asText := flag.Bool("text", false, "print the hex of the text instead of its md5")
	flag.Parse()
	in := bufio.NewScanner(os.Stdin)
	in.Buffer(make([]byte, 1<<20), 1<<26)
	out := bufio.NewWriterSize(os.Stdout, 1<<20)
	defer out.Flush()
	for in.Scan() {
		line := in.Text()
		if line == "" {
			continue
		}
		if k := strings.LastIndexByte(line, '\t'); k >= 0 {
			line = line[k+1:] // <kind> TAB <term>
		}
		e, err := build(line)
		if err != nil {
			fmt.Fprintf(os.Stderr, "exprcount: %v in %q\n", err, line)
			os.Exit(2)
		}
		text, p := explain(e)
		if p {
			fmt.Fprintln(out, "PANIC\tM")
			continue
		}
		all := strings.Split(strings.TrimSuffix(text, "\n"), "\n")
		// SelectWithUnionQuery / ExpressionList / SelectQuery / ExpressionList / <the expression at depth 4>
		var lines []string
		for _, l := range all[min(4, len(all)):] {
			if len(l) < 4 || l[:4] != "    " {
				lines = nil
				break
			}
			l = l[4:]
			if m := litRe.FindStringSubmatch(l); m != nil {
				l = m[1] + "Literal _" + m[2]
			}
			lines = append(lines, l)
		}
		if len(lines) == 0 {
			fmt.Fprintln(out, "NOSUBTREE\tM")
			continue
		}
		text = strings.Join(lines, "\n") + "\n"
		header, direct := countOf(lines[0]), 0
		for _, l := range lines[1:] {
			if indentOf(l) == 1 {
				direct++
			}
		}
		tree := "F"
		if isTree(lines) {
			tree = "T"
		}
		var third string
		if *asText {
			third = hex.EncodeToString([]byte(text))
		} else {
			sum := md5.Sum([]byte(text))
			third = hex.EncodeToString(sum[:])
		}
		fmt.Fprintf(out, "%d\t%d\t%s\t%s\tM\n", header, direct, third, tree)
	}
}
