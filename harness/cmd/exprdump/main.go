//go:build verif

// exprdump: the implementation side of the C08 correspondence.
//
// stdin : one expression source text per line, lowercase hex ("-" = empty).
// stdout: one line per input line.
//
//	default mode :  <hex e> TAB <hex of the EXPLAIN text of the first select column of `SELECT <e>`, de-indented>
//	                or <hex e> TAB ERR (parse error / not exactly one statement / unexpected shape)
//	                or <hex e> TAB PANIC
//	-tokens mode :  <hex e> TAB <tok>:<hex value>,<tok>:<hex value>,...   ("-" for no tokens / empty value)
//	                the tokens of <e> as the parser sees them: lexer.Tokenize output without
//	                WHITESPACE / LINE_COMMENT (parser.nextToken skips exactly those) and without the final EOF.
//	                <tok> is the decimal value of token.Token (= the numbering of coq/Gen/TokenTable.v).
//	-contexts FILE : the context-aware mode, see contexts.go.
//
// Build: cd /verif/harness && go build -tags verif -o /verif/build/exprdump ./cmd/exprdump
package main

import (
	"bufio"
	"context"
	"encoding/hex"
	"flag"
	"fmt"
	"os"
	"strings"
	"verif/harness/rdr"

	"github.com/sqlc-dev/doubleclick/lexer"
	"github.com/sqlc-dev/doubleclick/parser"
	"github.com/sqlc-dev/doubleclick/token"
)

func hexOrDash(b []byte) string {
	if len(b) == 0 {
		return "-"
	}
	return hex.EncodeToString(b)
}

func indentOf(s string) int {
	n := 0
	for n < len(s) && s[n] == ' ' {
		n++
	}
	return n
}

// columnSubtree extracts the subtree of the first select column from the EXPLAIN text of
// a statement of the shape SELECT <e>, and removes its indentation.
func columnSubtree(text string) (string, bool) {
	lines := strings.Split(strings.TrimSuffix(text, "\n"), "\n")
	if len(lines) < 5 {
		return "", false
	}
	if !strings.HasPrefix(lines[0], "SelectWithUnionQuery (children 1)") ||
		lines[1] != " ExpressionList (children 1)" ||
		lines[2] != "  SelectQuery (children 1)" ||
		!strings.HasPrefix(lines[3], "   ExpressionList (children ") {
		return "", false
	}
	base := 4
	var out []string
	for i := 4; i < len(lines); i++ {
		ind := indentOf(lines[i])
		if ind < base || (ind == base && i > 4) {
			break
		}
		out = append(out, lines[i][base:])
	}
	return strings.Join(out, "\n") + "\n", true
}

func explainOne(src string) (res string) {
	defer func() {
		if r := recover(); r != nil {
			res = "PANIC"
		}
	}()
	stmts, err := parser.Parse(context.Background(), rdr.For("SELECT "+src))
	if err != nil || len(stmts) != 1 {
		return "ERR"
	}
	text := rdr.Twice(func() string { return parser.Explain(stmts[0]) })
	sub, ok := columnSubtree(text)
	if !ok {
		return "ERR"
	}
	return hexOrDash([]byte(sub))
}

func tokensOf(src string) string {
	items := lexer.Tokenize(strings.NewReader(src))
	var parts []string
	for _, it := range items {
		if it.Token == token.EOF {
			break
		}
		if it.Token == token.WHITESPACE || it.Token == token.LINE_COMMENT {
			continue
		}
		parts = append(parts, fmt.Sprintf("%d:%s", int(it.Token), hexOrDash([]byte(it.Value))))
	}
	if len(parts) == 0 {
		return "-"
	}
	return strings.Join(parts, ",")
}

func main() {
	tokens := flag.Bool("tokens", false, "print the token stream instead of the EXPLAIN subtree")
	ctxFile := flag.String("contexts", "", "context table (name TAB template with {e}); evaluate every expression inside the contexts")
	ctxShow := flag.Bool("show-calibration", false, "with -contexts: print the calibration (sentinel EXPLAIN) of every context and exit")
	explainMode := flag.Bool("explain", false, "stdin: whole statements (hex); print the full EXPLAIN text of each")
	flag.Parse()
	if *explainMode {
		os.Exit(runExplain())
	}
	if *ctxFile != "" {
		os.Exit(runContexts(*ctxFile, *ctxShow))
	}
	in := bufio.NewReaderSize(os.Stdin, 1<<20)
	out := bufio.NewWriterSize(os.Stdout, 1<<20)
	defer out.Flush()
	for {
		line, err := in.ReadString('\n')
		line = strings.TrimRight(line, "\r\n")
		if line != "" {
			var src []byte
			if line != "-" {
				b, herr := hex.DecodeString(line)
				if herr != nil {
					fmt.Fprintf(out, "%s\tBADHEX\n", line)
					if err != nil {
						break
					}
					continue
				}
				src = b
			}
			if *tokens {
				fmt.Fprintf(out, "%s\t%s\n", line, tokensOf(string(src)))
			} else {
				fmt.Fprintf(out, "%s\t%s\n", line, explainOne(string(src)))
			}
		}
		if err != nil {
			break
		}
	}
}
