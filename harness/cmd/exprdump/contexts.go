//go:build verif

// The context-aware mode of exprdump (C08): one process evaluates every expression inside a set of
// EMBEDDING CONTEXTS — statements with a hole for an expression — and prints, per context, the
// subtree that EXPLAIN shows at the hole.
//
//	exprdump -contexts FILE [-show-calibration]
//
// FILE: one context per line, `<name> TAB <template>`; the template is a complete statement with the
// hole written `{e}` (one or more times).  Lines starting with '#' are ignored.  The table lives in
// checks/gen_expr_cases.py (CONTEXTS) together with the restriction rules; nothing about a particular
// context is hard-wired here.
//
// Calibration (at start, per context): the statement with the SENTINEL identifier `zzq` in every hole
// is parsed and explained.  Every EXPLAIN line whose text is `Identifier zzq` + <suffix> is a HOLE
// LINE; the rest of the EXPLAIN text is the FRAME of the context.  <suffix> is what the context
// attaches to the root line of the expression (` (alias x)` in the aliasing contexts, else empty).
// The calibration is reported on stdout before any result:
//
//	#ctx TAB <name> TAB OK TAB <number of hole lines> TAB <hex suffix of hole 1>,<hex suffix of hole 2>,...
//	#ctx TAB <name> TAB <ERR|PANIC|NOHOLE> TAB 0 TAB -        (the context is unusable)
//
// stdin: `<hex e>` [TAB <hex expected subtree> | "-"] [TAB <name>,<name>,... | "*"]
// stdout, per input line: `<hex e> TAB *` if every selected context has the result `=`, otherwise
// `<hex e>` followed by one field ` TAB <name>=<result>` per selected context:
//
//	<result> = `=`                       every hole shows exactly the expected subtree (only when an
//	                                     expected subtree was given)
//	         | <r1>,<r2>,...             one <r> per hole line, in EXPLAIN order:
//	               <hex subtree>         the subtree at the hole: its lines with the hole's indentation
//	                                     removed and the hole's <suffix> removed from its first line
//	                                     (from its end, or from just before a final ` (children N)`)
//	               NOSUFFIX:<hex subtree>  the first line does not carry the hole's <suffix> there
//	         | ERR | PANIC               the statement does not parse to exactly one statement / panics
//	         | FRAME                     the EXPLAIN text outside the holes differs from the calibrated
//	                                     frame (a line is missing, added or different, or a hole's root
//	                                     line is not at the hole's indentation)
//
// So a context statement is accepted only if its WHOLE EXPLAIN text is the calibrated text with each
// hole line replaced by the (indented) subtree: the comparison is modulo indentation depth and modulo
// the suffix on the root line, and nothing else.
//
//	exprdump -explain : stdin one statement per line (hex); stdout `<hex stmt> TAB <hex EXPLAIN text>`
//	                    or `<hex stmt> TAB ERR:<hex error text>` / PANIC (used for reports and replays).
package main

import (
	"bufio"
	"context"
	"encoding/hex"
	"fmt"
	"os"
	"runtime"
	"runtime/debug"
	"strings"
	"sync"
	"verif/harness/rdr"

	"github.com/sqlc-dev/doubleclick/parser"
)

const sentinel = "zzq"
const sentinelLine = "Identifier " + sentinel

type frameLine struct {
	text   string // the full line (frame lines) — unused for hole lines
	hole   bool
	indent int    // hole lines: indentation of the hole
	suffix string // hole lines: what follows `Identifier zzq`
}

type ctxDef struct {
	name   string
	parts  []string // template split at {e}
	status string   // OK | ERR | PANIC | NOHOLE
	frame  []frameLine
	holes  int
	calib  string // the calibration EXPLAIN text (for -show-calibration)
}

func (c *ctxDef) stmt(e string) string {
	return strings.Join(c.parts, e)
}

func explainStmt(src string) (text string, status string) {
	defer func() {
		if r := recover(); r != nil {
			text, status = fmt.Sprint(r), "PANIC"
		}
	}()
	// a template that starts with #last# is a SCRIPT: the statement with the hole is the last one, the statements before it
	// (valid ones, or ones that fail and leave parse errors behind) must not change how it is parsed
	if strings.HasPrefix(src, "#last#") {
		stmts, _ := parser.Parse(context.Background(), rdr.For(strings.TrimPrefix(src, "#last#")))
		if len(stmts) == 0 {
			return "no statements", "ERR"
		}
		last := stmts[len(stmts)-1]
		return rdr.Twice(func() string { return parser.Explain(last) }), "OK"
	}
	stmts, err := parser.Parse(context.Background(), rdr.For(src))
	if err != nil {
		return err.Error(), "ERR"
	}
	if len(stmts) != 1 {
		return fmt.Sprintf("%d statements", len(stmts)), "ERR"
	}
	return rdr.Twice(func() string { return parser.Explain(stmts[0]) }), "OK"
}

func splitLines(text string) []string {
	return strings.Split(strings.TrimSuffix(text, "\n"), "\n")
}

func (c *ctxDef) calibrate() {
	text, st := explainStmt(c.stmt(sentinel))
	c.calib = text
	if st != "OK" {
		c.status = st
		return
	}
	for _, l := range splitLines(text) {
		ind := indentOf(l)
		body := l[ind:]
		if strings.HasPrefix(body, sentinelLine) && (len(body) == len(sentinelLine) || body[len(sentinelLine)] == ' ') {
			c.frame = append(c.frame, frameLine{hole: true, indent: ind, suffix: body[len(sentinelLine):]})
			c.holes++
		} else {
			c.frame = append(c.frame, frameLine{text: l})
		}
	}
	if c.holes == 0 {
		c.status = "NOHOLE"
		return
	}
	c.status = "OK"
}

// eval returns the result field of context c for expression e (see the file comment).
func (c *ctxDef) eval(e string, expected string, haveExpected bool) string {
	text, st := explainStmt(c.stmt(e))
	if st != "OK" {
		return st
	}
	lines := splitLines(text)
	j := 0
	subs := make([]string, 0, c.holes)
	allEq := haveExpected
	for _, f := range c.frame {
		if j >= len(lines) {
			return "FRAME"
		}
		if !f.hole {
			if lines[j] != f.text {
				return "FRAME"
			}
			j++
			continue
		}
		if indentOf(lines[j]) != f.indent {
			return "FRAME"
		}
		var b strings.Builder
		root := lines[j][f.indent:]
		nosuffix := false
		if r, ok := stripAnnotation(root, f.suffix); ok {
			root = r
		} else {
			nosuffix = true
		}
		b.WriteString(root)
		b.WriteByte('\n')
		j++
		for j < len(lines) && indentOf(lines[j]) > f.indent {
			b.WriteString(lines[j][f.indent:])
			b.WriteByte('\n')
			j++
		}
		sub := b.String()
		if nosuffix {
			allEq = false
			subs = append(subs, "NOSUFFIX:"+hexOrDash([]byte(sub)))
		} else {
			if allEq && sub != expected {
				allEq = false
			}
			subs = append(subs, hexOrDash([]byte(sub)))
		}
	}
	if j != len(lines) {
		return "FRAME"
	}
	if allEq {
		return "="
	}
	return strings.Join(subs, ",")
}

// stripAnnotation removes the hole's annotation (` (alias x)`) from the root line of a subtree.  EXPLAIN
// writes it after the node's own text and before a final ` (children N)`:
//
//	Identifier a (alias x)            Function plus (alias x) (children 1)
//
// so the annotation is accepted exactly at the end of the line or immediately before a final
// ` (children <digits>)`.
func stripAnnotation(root, ann string) (string, bool) {
	if ann == "" {
		return root, true
	}
	if strings.HasSuffix(root, ann) {
		return root[:len(root)-len(ann)], true
	}
	if k := strings.LastIndex(root, " (children "); k >= 0 && strings.HasSuffix(root, ")") {
		digits := root[k+len(" (children ") : len(root)-1]
		ok := digits != ""
		for _, ch := range digits {
			if ch < '0' || ch > '9' {
				ok = false
			}
		}
		if ok && strings.HasSuffix(root[:k], ann) {
			return root[:k-len(ann)] + root[k:], true
		}
	}
	return root, false
}

func loadContexts(path string) ([]*ctxDef, error) {
	data, err := os.ReadFile(path)
	if err != nil {
		return nil, err
	}
	var out []*ctxDef
	for _, l := range strings.Split(string(data), "\n") {
		l = strings.TrimRight(l, "\r")
		if l == "" || strings.HasPrefix(l, "#") {
			continue
		}
		f := strings.SplitN(l, "\t", 2)
		if len(f) != 2 || !strings.Contains(f[1], "{e}") {
			return nil, fmt.Errorf("bad context line %q", l)
		}
		out = append(out, &ctxDef{name: f[0], parts: strings.Split(f[1], "{e}")})
	}
	return out, nil
}

func unhexField(h string) (string, bool) {
	if h == "-" {
		return "", true
	}
	b, err := hex.DecodeString(h)
	if err != nil {
		return "", false
	}
	return string(b), true
}

func runContexts(path string, show bool) int {
	ctxs, err := loadContexts(path)
	if err != nil {
		fmt.Fprintln(os.Stderr, err)
		return 2
	}
	out := bufio.NewWriterSize(os.Stdout, 1<<20)
	defer out.Flush()
	byName := map[string]*ctxDef{}
	for _, c := range ctxs {
		c.calibrate()
		byName[c.name] = c
		var sx []string
		for _, f := range c.frame {
			if f.hole {
				sx = append(sx, hexOrDash([]byte(f.suffix)))
			}
		}
		s := "-"
		if len(sx) > 0 {
			s = strings.Join(sx, ",")
		}
		fmt.Fprintf(out, "#ctx\t%s\t%s\t%d\t%s\n", c.name, c.status, c.holes, s)
		if show {
			fmt.Fprintf(out, "%s\n%s\n", c.stmt(sentinel), c.calib)
		}
	}
	if show {
		return 0
	}

	// parse + explain is allocation-bound and the live heap is tiny: collect less often
	debug.SetGCPercent(800)
	workers := runtime.NumCPU()
	if workers > 12 {
		workers = 12
	}
	in := bufio.NewReaderSize(os.Stdin, 1<<20)
	const chunk = 4096
	for {
		var lines []string
		eof := false
		for len(lines) < chunk {
			line, err := in.ReadString('\n')
			line = strings.TrimRight(line, "\r\n")
			if line != "" {
				lines = append(lines, line)
			}
			if err != nil {
				eof = true
				break
			}
		}
		res := make([]string, len(lines))
		var wg sync.WaitGroup
		next := make(chan int, len(lines))
		for i := range lines {
			next <- i
		}
		close(next)
		for w := 0; w < workers; w++ {
			wg.Add(1)
			go func() {
				defer wg.Done()
				for i := range next {
					res[i] = evalLine(lines[i], ctxs, byName)
				}
			}()
		}
		wg.Wait()
		for _, r := range res {
			out.WriteString(r)
			out.WriteByte('\n')
		}
		if eof {
			break
		}
	}
	return 0
}

func evalLine(line string, ctxs []*ctxDef, byName map[string]*ctxDef) string {
	f := strings.Split(line, "\t")
	e, ok := unhexField(f[0])
	if !ok {
		return f[0] + "\tBADHEX"
	}
	expected, have := "", false
	if len(f) > 1 && f[1] != "-" {
		x, ok := unhexField(f[1])
		if !ok {
			return f[0] + "\tBADHEX"
		}
		expected, have = x, true
	}
	sel := ctxs
	if len(f) > 2 && f[2] != "*" {
		sel = nil
		for _, n := range strings.Split(f[2], ",") {
			c := byName[n]
			if c == nil {
				return f[0] + "\tBADCTX:" + n
			}
			sel = append(sel, c)
		}
	}
	var b strings.Builder
	b.WriteString(f[0])
	allEq := true
	for _, c := range sel {
		b.WriteByte('\t')
		b.WriteString(c.name)
		b.WriteByte('=')
		if c.status != "OK" {
			b.WriteString("UNCALIBRATED")
			allEq = false
			continue
		}
		r := c.eval(e, expected, have)
		if r != "=" {
			allEq = false
		}
		b.WriteString(r)
	}
	if allEq && len(sel) > 0 {
		return f[0] + "\t*"
	}
	return b.String()
}

func runExplain() int {
	in := bufio.NewReaderSize(os.Stdin, 1<<20)
	out := bufio.NewWriterSize(os.Stdout, 1<<20)
	defer out.Flush()
	for {
		line, err := in.ReadString('\n')
		line = strings.TrimRight(line, "\r\n")
		if line != "" {
			src, ok := unhexField(line)
			if !ok {
				fmt.Fprintf(out, "%s\tBADHEX\n", line)
			} else {
				text, st := explainStmt(src)
				switch st {
				case "OK":
					fmt.Fprintf(out, "%s\t%s\n", line, hexOrDash([]byte(text)))
				case "ERR":
					fmt.Fprintf(out, "%s\tERR:%s\n", line, hexOrDash([]byte(text)))
				default:
					fmt.Fprintf(out, "%s\tPANIC\n", line)
				}
			}
		}
		if err != nil {
			break
		}
	}
	return 0
}
