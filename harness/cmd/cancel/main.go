//go:build verif

// cancel: the tie between the driver model (/verif/coq/Driver/DriverModel.v, theorems in
// Properties/C16.v and Properties/C06_driver.v) and parser.Parse.
//
// Input (stdin): one case per line, TAB-separated fields in lowercase hex ("-" = empty):
//
//	<script>[\t<part1>\t<part2>...]
//
// Default mode (C16) uses <script> only.  For every script:
//
//   - baseline: Parse(context.Background(), one-byte reader) -> statements (by Explain text), error;
//     the same with bytes.Reader must agree.
//   - reader-driven cancellation: a one-byte reader that calls cancel() when byte number b is
//     REQUESTED, for every b in [0, len] (sampled when len+1 > -maxruns: all statement
//     boundaries +-2 are always kept).  The context is a real context.WithCancel.
//   - oracle-driven cancellation: a context whose k-th poll (call of Done() or Err()) reports
//     done, for every k in [0, polls of the baseline run]; this is literally the model's
//     `done : nat -> bool` with first_done k.  With context.Canceled and, for the same k,
//     context.DeadlineExceeded.
//   - pre-cancelled context.WithCancel and already expired context.WithDeadline.
//
// Checked on every run (the set of outcomes the model allows):
//
//	P  cut (error is the context's error)  => statements are a prefix of the baseline's;
//	   not cut                             => the run equals the baseline (statements and error);
//	N  err == nil  => statements == baseline statements, baseline err == nil, and the reader was
//	   asked for the byte after the last one (the input was finished)      [C16 (iii)]
//	C  a context error only if the context really was cancelled, with errors.Is(err,
//	   context.Canceled) resp. context.DeadlineExceeded matching the context   [C16 (i)]
//	M  the number of statements is non-decreasing in b, and in k              [cancel_monotone]
//	S  oracle runs: |R(k+1)| - |R(k)| is 0 or 1 (one iteration appends at most one statement);
//	   R(0) = ([], ctx error) if the script has a token, ([], nil) otherwise   [C16 (iv)];
//	   R(k) = baseline for k >= polls; for a script whose n semicolon-separated segments are its
//	   n statements and whose baseline error is nil, |R(k)| = k for k <= n     [C16_script]
//	X  reader run at b == oracle run at k = (polls before byte b was first requested in the
//	   baseline run)                                                           [C16 (ii)]
//	G  the baseline run polls the context at most once per token (every iteration consumes a
//	   token: the progress premise of the theorems)
//	B  position bounds that do not depend on how the context is polled (only for clean
//	   segmentations): L(b) <= |stmts(b)| <= U(b), computed from the token positions and the
//	   parser's three-token window (lexer look-ahead W = 64 bytes, 8192 if the script has a '$')
//
// Output, one line per script:
//
//	<hex script>\t<n_baseline>\t<runs>\t<violations>\t<first violation description or ->
//
// Mode -semis (C06 driver half / C05 semicolon clause): uses <script> and the parts.  Checks
// that Parse(script) returns exactly the concatenation, in order, of the statements (by Explain
// text) returned by Parse(part_i) for each part on its own, that the error is nil iff every
// part's error is nil, and that the input was read to the end.  Lines without parts are
// skipped.  Output:
//
//	<hex script>\t<n_script>\t<n_parts>\t<violations>\t<first violation description or ->
//
// Mode -filter: reads candidate statements as PLAIN TEXT, one per line, and prints those usable
// as corpus statements (parse to exactly one statement with nil error, Explain does not panic,
// and they still do so when followed by ";").
//
// Exit status: 0 no violation, 1 violations, 2 usage / input error, 3 a run did not terminate.
//
// Build: cd /verif/harness && GOFLAGS=-mod=mod GOPROXY=off go build -tags verif -o /verif/build/cancel ./cmd/cancel
package main

import (
	"bufio"
	"bytes"
	"context"
	"encoding/hex"
	"errors"
	"flag"
	"fmt"
	"io"
	"os"
	"sort"
	"strings"
	"time"

	"github.com/sqlc-dev/doubleclick/ast"
	"github.com/sqlc-dev/doubleclick/lexer"
	"github.com/sqlc-dev/doubleclick/parser"
	"github.com/sqlc-dev/doubleclick/token"
)

// ---------------------------------------------------------------------------------------------
// readers and contexts

// byteReader delivers one byte per Read and calls onAt when byte number `at` is requested
// (at == len(src): when the byte after the last one is requested).  onReq, if set, is called
// at the first request of every byte number.
type ctxKey struct{}

type byteReader struct {
	ctx      context.Context // context-bound source: fails with ctx.Err() once the context is done
	withData bool            // ... together with the byte that had arrived
	src      []byte
	pos      int
	at       int
	onAt     func()
	onReq    func(b int)
	fired    bool
	eof      bool
	maxRq    int
}

func (r *byteReader) Read(p []byte) (int, error) {
	if len(p) == 0 {
		return 0, nil
	}
	if r.pos > r.maxRq {
		r.maxRq = r.pos
		if r.onReq != nil {
			r.onReq(r.pos)
		}
	}
	if r.pos == r.at && !r.fired {
		r.fired = true
		if r.onAt != nil {
			r.onAt()
		}
	}
	if r.ctx != nil && r.ctx.Err() != nil {
		if r.withData && r.pos < len(r.src) {
			p[0] = r.src[r.pos]
			r.pos++
			return 1, r.ctx.Err()
		}
		return 0, r.ctx.Err()
	}
	if r.pos >= len(r.src) {
		r.eof = true
		return 0, io.EOF
	}
	p[0] = r.src[r.pos]
	r.pos++
	return 1, nil
}

func newByteReader(src []byte, at int, onAt func()) *byteReader {
	return &byteReader{src: src, at: at, onAt: onAt, maxRq: -1}
}

// pollCtx is the model's oracle: poll number fireAt (counting calls of Done and Err from 0)
// and all later ones report done.  fireAt < 0: never.
type pollCtx struct {
	context.Context
	fireAt int
	polls  int
	fired  bool
	err    error
	open   chan struct{}
	closed chan struct{}
	// cancelled from outside after forcedAt polls
	forced   bool
	forcedAt int
}

func newPollCtx(fireAt int, err error) *pollCtx {
	c := &pollCtx{Context: context.Background(), fireAt: fireAt, err: err,
		open: make(chan struct{}), closed: make(chan struct{})}
	close(c.closed)
	return c
}

func (c *pollCtx) poll() {
	if c.fired {
		return
	}
	if c.polls == c.fireAt || c.forced {
		c.fired = true
	}
	c.polls++
}

// force cancels the oracle context from outside (a reader's Read): every poll from now on reports done, which is the
// model's oracle with first_done k for k = the number of polls answered so far.
func (c *pollCtx) force() {
	if !c.forced {
		c.forced = true
		c.forcedAt = c.polls
	}
}

// in-memory sources with their WHOLE method set visible to Parse (Len, Size, ReadByte, ReadRune, Seek, WriteTo, ...): the
// standard readers embedded in a struct that only overrides Read, to call a hook before its j-th call.
type readHook struct {
	calls, at int
	onAt      func()
	fired     bool
	eof       bool
}

func (h *readHook) before() {
	if h.calls == h.at && !h.fired {
		h.fired = true
		if h.onAt != nil {
			h.onAt()
		}
	}
	h.calls++
}

type memStrings struct {
	*strings.Reader
	h *readHook
}

func (m memStrings) Read(p []byte) (int, error) {
	m.h.before()
	n, err := m.Reader.Read(p)
	m.h.eof = m.h.eof || err == io.EOF
	return n, err
}

type memBytes struct {
	*bytes.Reader
	h *readHook
}

func (m memBytes) Read(p []byte) (int, error) {
	m.h.before()
	n, err := m.Reader.Read(p)
	m.h.eof = m.h.eof || err == io.EOF
	return n, err
}

type memBuffer struct {
	*bytes.Buffer
	h *readHook
}

func (m memBuffer) Read(p []byte) (int, error) {
	m.h.before()
	n, err := m.Buffer.Read(p)
	m.h.eof = m.h.eof || err == io.EOF
	return n, err
}

func memReader(kind int, src []byte, h *readHook) (io.Reader, string) {
	switch kind {
	case 0:
		return memStrings{strings.NewReader(string(src)), h}, "struct{*strings.Reader}"
	case 1:
		return memBytes{bytes.NewReader(src), h}, "struct{*bytes.Reader}"
	}
	return memBuffer{bytes.NewBuffer(append([]byte(nil), src...)), h}, "struct{*bytes.Buffer}"
}

func (c *pollCtx) Done() <-chan struct{} {
	c.poll()
	if c.fired {
		return c.closed
	}
	return c.open
}

func (c *pollCtx) Err() error {
	c.poll()
	if c.fired {
		return c.err
	}
	return nil
}

// ---------------------------------------------------------------------------------------------
// one run

type result struct {
	n        int
	explains []string
	err      error
	class    string // nil | canceled | deadline | read | parse | other | panic
	panicked string
}

func classify(err error) string {
	switch {
	case err == nil:
		return "nil"
	case errors.Is(err, context.Canceled):
		return "canceled"
	case errors.Is(err, context.DeadlineExceeded):
		return "deadline"
	case strings.HasPrefix(err.Error(), "read error"):
		return "read"
	case strings.HasPrefix(err.Error(), "parse errors"):
		return "parse"
	}
	return "other"
}

func explainOf(s ast.Statement) (out string) {
	defer func() {
		if r := recover(); r != nil {
			out = fmt.Sprintf("EXPLAIN-PANIC: %v", r)
		}
	}()
	return parser.Explain(s)
}

var runTimeout = 20 * time.Second
var totalRuns int

func parseOnce(ctx context.Context, r io.Reader) result {
	totalRuns++
	ch := make(chan result, 1)
	go func() {
		var res result
		defer func() {
			if p := recover(); p != nil {
				res = result{class: "panic", panicked: fmt.Sprint(p)}
			}
			ch <- res
		}()
		stmts, err := parser.Parse(ctx, r)
		res.n = len(stmts)
		res.err = err
		res.class = classify(err)
		for _, s := range stmts {
			res.explains = append(res.explains, explainOf(s))
		}
	}()
	select {
	case res := <-ch:
		return res
	case <-time.After(runTimeout):
		out.Flush()
		fmt.Fprintln(os.Stderr, "cancel: a Parse call did not return within", runTimeout)
		os.Exit(3)
	}
	panic("unreachable")
}

func errString(e error) string {
	if e == nil {
		return "<nil>"
	}
	return e.Error()
}

func sameResult(a, b result) bool {
	if a.n != b.n || a.class != b.class || errString(a.err) != errString(b.err) || a.panicked != b.panicked {
		return false
	}
	for i := range a.explains {
		if a.explains[i] != b.explains[i] {
			return false
		}
	}
	return true
}

func isPrefix(p, l []string) bool {
	if len(p) > len(l) {
		return false
	}
	for i := range p {
		if p[i] != l[i] {
			return false
		}
	}
	return true
}

// ---------------------------------------------------------------------------------------------
// token geometry of a script (for the sampling of b and for the position bounds)

type geometry struct {
	starts   []int // byte index of the first byte of every parser-visible token (no comments, no EOF)
	isSemi   []bool
	firstTok []int // index (into starts) of the first token of each non-empty segment
	clean    bool  // the segmentation is usable for the bounds
}

func geometryOf(src []byte) geometry {
	var g geometry
	for _, it := range lexer.Tokenize(bytes.NewReader(src)) {
		switch it.Token {
		case token.WHITESPACE, token.LINE_COMMENT, token.EOF:
			continue
		}
		g.starts = append(g.starts, it.Pos.Offset-1)
		g.isSemi = append(g.isSemi, it.Token == token.SEMICOLON)
	}
	inSeg := false
	for i := range g.starts {
		if g.isSemi[i] {
			inSeg = false
		} else if !inSeg {
			inSeg = true
			g.firstTok = append(g.firstTok, i)
		}
	}
	g.clean = true
	for i := 1; i < len(g.starts); i++ {
		if g.starts[i] <= g.starts[i-1] || g.starts[i] >= len(src) {
			g.clean = false // positions unusable (C13 territory), no bounds
		}
	}
	return g
}

// bounds on the number of statements returned when cancel() runs at the first request of byte b
func (g geometry) bounds(b, w int) (lo, hi int) {
	nt := len(g.starts)
	// end of token t is over-approximated by the start of token t+1
	endOf := func(t int) int {
		if t+1 < nt {
			return g.starts[t+1]
		}
		return 1 << 30
	}
	// earliest slot whose filling can request byte b
	tmin := nt
	for t := 0; t < nt; t++ {
		if endOf(t)+w >= b {
			tmin = t
			break
		}
	}
	// latest slot whose filling can be the first to request byte b
	tmax := 0
	for t := 0; t < nt; t++ {
		if g.starts[t] < b {
			tmax = t + 1
		}
	}
	// current = slot - 2.  Iteration j-1 (which appends statement j) starts with current at the
	// first token of statement j, because the previous iteration has skipped the semicolons
	// in between; iteration 0 starts at token 0 (it skips the leading semicolons itself).
	// Statement j is certainly appended or in progress when current is strictly after that
	// token, and it cannot have started when current is before it.  Slots 0..2 are filled by
	// parser.New, before the first check.
	if tmax <= 2 {
		return 0, 0
	}
	for j, ft := range g.firstTok {
		if j == 0 {
			ft = 0
		}
		if ft < tmin-2 {
			lo++
		}
		if ft <= tmax-2 {
			hi++
		}
	}
	return lo, hi
}

// ---------------------------------------------------------------------------------------------
// C16 mode

type violations struct {
	count int
	first string
	all   []string
}

func (v *violations) add(format string, args ...any) {
	s := fmt.Sprintf(format, args...)
	v.count++
	if v.first == "" {
		v.first = s
	}
	if verbose {
		v.all = append(v.all, s)
	}
}

var (
	verbose bool
	maxRuns int
	out     *bufio.Writer
)

func sampleBs(src []byte, g geometry) []int {
	n := len(src)
	if n+1 <= maxRuns {
		bs := make([]int, n+1)
		for i := range bs {
			bs[i] = i
		}
		return bs
	}
	keep := map[int]bool{0: true, 1: true, 2: true, n: true, n - 1: true, n - 2: true}
	add := func(c int) {
		for d := -2; d <= 2; d++ {
			if c+d >= 0 && c+d <= n {
				keep[c+d] = true
			}
		}
	}
	for i, s := range g.starts {
		if g.isSemi[i] {
			add(s)
		}
	}
	for _, ft := range g.firstTok {
		add(g.starts[ft])
	}
	// fill up deterministically with an even spread
	if rest := maxRuns - len(keep); rest > 0 {
		for i := 0; i < rest; i++ {
			keep[int(int64(i)*int64(n)/int64(rest))] = true
		}
	}
	bs := make([]int, 0, len(keep))
	for b := range keep {
		bs = append(bs, b)
	}
	sort.Ints(bs)
	return bs
}

func checkScript(src []byte) (nBase int, runs int, v violations) {
	start := totalRuns
	defer func() { runs = totalRuns - start }()
	g := geometryOf(src)
	hasToken := len(g.starts) > 0

	// baseline, instrumented: polls before the first request of each byte
	kAt := make([]int, len(src)+1)
	for i := range kAt {
		kAt[i] = -1
	}
	bctx := newPollCtx(-1, nil)
	br := newByteReader(src, -1, nil)
	br.onReq = func(b int) {
		if b >= 0 && b < len(kAt) {
			kAt[b] = bctx.polls
		}
	}
	base := parseOnce(bctx, br)
	nBase = base.n
	polls := bctx.polls
	if base.class == "panic" {
		v.add("baseline panics: %s", base.panicked)
		return
	}
	if base.class == "canceled" || base.class == "deadline" {
		v.add("baseline (context never done) returned a context error: %v", base.err)
	}
	if base.class == "nil" && !br.eof {
		v.add("baseline: nil error but the input was not read to the end (reader at %d of %d)", br.pos, len(src))
	}
	// every iteration consumes at least one token (ps_progress, the premise of the theorems)
	if polls > len(g.starts) {
		v.add("baseline: %d loop iterations for %d tokens (an iteration consumed nothing)", polls, len(g.starts))
	}
	// the same with context.Background() and bytes.Reader
	plain := parseOnce(context.Background(), bytes.NewReader(src))
	if !sameResult(plain, base) {
		v.add("baseline differs between one-byte reader and bytes.Reader: %d/%s vs %d/%s", base.n, base.class, plain.n, plain.class)
	}

	segClean := g.clean && base.class == "nil" && len(g.firstTok) == base.n
	w := 64
	if bytes.IndexByte(src, '$') >= 0 {
		w = 8192
	}

	check := func(what string, r result, ctxErr error, wasCancelled bool, finished bool) {
		wantClass := "canceled"
		if ctxErr == context.DeadlineExceeded {
			wantClass = "deadline"
		}
		switch {
		case r.class == "panic":
			v.add("%s: panic %s", what, r.panicked)
		case r.class == "canceled" || r.class == "deadline":
			if !wasCancelled {
				v.add("%s: context error %v although the context was not cancelled", what, r.err)
			}
			if r.class != wantClass || !errors.Is(r.err, ctxErr) {
				v.add("%s: error %v is not the context's error %v", what, r.err, ctxErr)
			}
			if !isPrefix(r.explains, base.explains) {
				v.add("%s: cut result (%d statements) is not a prefix of the baseline (%d)", what, r.n, base.n)
			}
		default:
			if !sameResult(r, base) {
				if r.class == "nil" {
					v.add("%s: nil error with %d statements, baseline has %d with error %s", what, r.n, base.n, base.class)
				} else {
					v.add("%s: not cut but differs from baseline: %d/%s vs %d/%s", what, r.n, r.class, base.n, base.class)
				}
			}
			if r.class == "nil" && !finished {
				v.add("%s: nil error but the input was not read to the end", what)
			}
		}
	}

	// oracle-driven: R(k)
	oracle := make(map[int]result)
	prevN := -1
	for k := 0; k <= polls; k++ {
		c := newPollCtx(k, context.Canceled)
		rd := newByteReader(src, -1, nil)
		r := parseOnce(c, rd)
		oracle[k] = r
		what := fmt.Sprintf("oracle k=%d", k)
		check(what, r, context.Canceled, c.fired, rd.eof)
		if k == 0 {
			if hasToken && !(r.n == 0 && r.class == "canceled") {
				v.add("%s: expected ([], context canceled) for input with a token, got %d/%s", what, r.n, r.class)
			}
			if !hasToken && !(r.n == 0 && r.class == "nil") {
				v.add("%s: expected ([], nil) for input without a token, got %d/%s", what, r.n, r.class)
			}
		}
		if prevN >= 0 && (r.n < prevN || r.n > prevN+1) {
			v.add("%s: %d statements after %d at k-1 (an iteration appends 0 or 1)", what, r.n, prevN)
		}
		prevN = r.n
		if k == polls && !sameResult(r, base) {
			v.add("%s: k = number of polls of the baseline, result should be the baseline", what)
		}
		if k < polls && r.class != "canceled" {
			v.add("%s: check k is reached in the baseline run but the result is not cut (%d/%s)", what, r.n, r.class)
		}
		if segClean && k <= base.n && k < polls && r.n != k {
			v.add("%s: clean script of %d statements, expected exactly %d statements, got %d", what, base.n, k, r.n)
		}
		// the same k with a deadline error
		cd := newPollCtx(k, context.DeadlineExceeded)
		rdd := newByteReader(src, -1, nil)
		rd2 := parseOnce(cd, rdd)
		check(fmt.Sprintf("oracle(deadline) k=%d", k), rd2, context.DeadlineExceeded, cd.fired, rdd.eof)
		if rd2.n != r.n || (r.class == "canceled") != (rd2.class == "deadline") {
			v.add("oracle k=%d: canceled and deadline variants differ: %d/%s vs %d/%s", k, r.n, r.class, rd2.n, rd2.class)
		}
	}
	if wantPolls := max(base.n, min(1, len(g.starts))); segClean && polls != wantPolls {
		v.add("baseline: clean script of %d statements polled the context %d times, expected %d", base.n, polls, wantPolls)
	}

	// reader-driven
	prevN = -1
	prevB := -1
	for bi, b := range sampleBs(src, g) {
		// the same cancellation through contexts of different shapes: plain WithCancel, a context that also carries a
		// far deadline and is cancelled explicitly, a deadline context whose PARENT is cancelled, a value context on top
		var ctx context.Context
		var cancel func()
		shape := "WithCancel"
		switch bi % 4 {
		case 1:
			c, cf := context.WithTimeout(context.Background(), time.Hour)
			ctx, cancel, shape = c, cf, "WithTimeout(1h)+cancel"
		case 2:
			parent, pc := context.WithCancel(context.Background())
			c, cf := context.WithDeadline(parent, time.Now().Add(24*time.Hour))
			ctx, cancel, shape = c, func() { pc(); cf() }, "WithDeadline(child of cancelled parent)"
		case 3:
			c, cf := context.WithCancel(context.Background())
			ctx, cancel, shape = context.WithValue(c, ctxKey{}, 1), cf, "WithValue(WithCancel)"
		default:
			ctx, cancel = context.WithCancel(context.Background())
		}
		rd := newByteReader(src, b, cancel)
		r := parseOnce(ctx, rd)
		cancel()
		what := fmt.Sprintf("cancel at byte %d (%s)", b, shape)
		check(what, r, context.Canceled, rd.fired, rd.eof)
		if prevN >= 0 && r.n < prevN {
			v.add("%s: %d statements, but %d when cancelled at byte %d (not monotone)", what, r.n, prevN, prevB)
		}
		prevN, prevB = r.n, b
		if k := kAt[b]; k >= 0 {
			if want, ok := oracle[k]; ok && r.class != "panic" {
				if r.n != want.n || r.class != want.class || !isPrefix(r.explains, want.explains) {
					v.add("%s: byte first requested after %d polls, result %d/%s differs from oracle k=%d: %d/%s",
						what, k, r.n, r.class, k, want.n, want.class)
				}
			}
		} else {
			v.add("%s: byte never requested in the baseline run", what)
		}
		if segClean && rd.fired {
			lo, hi := g.bounds(b, w)
			if r.n < lo || r.n > hi {
				v.add("%s: %d statements outside the position bounds [%d,%d]", what, r.n, lo, hi)
			}
		}
	}

	// in-memory sources (whole method set visible: Len, Size, WriteTo, ...) whose j-th Read call cancels the context, for every
	// j up to the Read that returns io.EOF and one more.  The context is the oracle context cancelled from outside, so the
	// expected result is exactly the oracle run R(k) for k = the polls answered before the cancellation.
	for kind := 0; kind < 3; kind++ {
		for j := 0; j < 64; j++ {
			c := newPollCtx(-1, context.Canceled)
			h := &readHook{at: j}
			h.onAt = c.force
			rd, name := memReader(kind, src, h)
			r := parseOnce(c, rd)
			what := fmt.Sprintf("%s cancelling at its Read call %d", name, j)
			if !h.fired {
				if !sameResult(r, base) {
					v.add("%s: never reached, but the result differs from the baseline: %d/%s vs %d/%s", what, r.n, r.class, base.n, base.class)
				}
				break
			}
			check(what, r, context.Canceled, true, h.eof)
			k := c.forcedAt
			if k > polls {
				k = polls
			}
			if want, ok := oracle[k]; ok && r.class != "panic" {
				if r.n != want.n || r.class != want.class || !isPrefix(r.explains, want.explains) {
					v.add("%s: cancelled after %d polls, result %d/%s differs from oracle k=%d: %d/%s", what, c.forcedAt, r.n, r.class, k, want.n, want.class)
				}
			}
		}
	}

	// a source bound to the same context: once the context is cancelled the reader itself fails with ctx.Err(), with or
	// without the bytes that had arrived.  Whatever was being parsed, Parse must not return a nil error, the error must be
	// the context's (possibly wrapped as a read error), and everything before the statement in progress is a prefix
	for bi, b := range sampleBs(src, g) {
		if b >= len(src) {
			continue
		}
		ctx, cancel := context.WithCancel(context.Background())
		rd := newByteReader(src, b, cancel)
		rd.ctx = ctx
		rd.withData = bi%2 == 1
		r := parseOnce(ctx, rd)
		cancel()
		what := fmt.Sprintf("context-bound reader failing at byte %d (withData=%v)", b, rd.withData)
		switch {
		case r.class == "panic":
			v.add("%s: panic %s", what, r.panicked)
		case !rd.fired:
			// the parse ended before that byte was requested
		case r.err == nil:
			v.add("%s: nil error with %d statements although the source failed with the context's error", what, r.n)
		case !errors.Is(r.err, context.Canceled):
			v.add("%s: error %v is not (and does not wrap) the context's error", what, r.err)
		default:
			k := len(r.explains) - 1
			if k > 0 && !isPrefix(r.explains[:k], base.explains) {
				v.add("%s: the statements before the one in progress are not a prefix of the baseline", what)
			}
		}
	}

	// a source bound to ANOTHER context (a request body with its own deadline): it fails with that context's error while the
	// context handed to Parse is still live.  The input was not finished, so the error must not be nil, whatever its value is
	for bi, b := range sampleBs(src, g) {
		if b >= len(src) || bi%5 != 0 {
			continue
		}
		other, ocancel := context.WithCancel(context.Background())
		if bi%2 == 1 {
			ocancel()
			other, ocancel = context.WithDeadline(context.Background(), time.Now().Add(-time.Minute))
		}
		rd := newByteReader(src, b, ocancel)
		rd.ctx = other
		rd.withData = bi%3 == 1
		live, lcancel := context.WithCancel(context.Background())
		r := parseOnce(live, rd)
		lcancel()
		ocancel()
		what := fmt.Sprintf("reader bound to another context failing at byte %d with %v (withData=%v), Parse's context live", b, other.Err(), rd.withData)
		switch {
		case r.class == "panic":
			v.add("%s: panic %s", what, r.panicked)
		case !rd.fired:
		case r.err == nil:
			v.add("%s: nil error with %d statements although the input was not finished", what, r.n)
		}
		// (no prefix requirement here: Parse's own context is live, so the parser goes on over what was delivered, and a stream
		// cut inside a comment or string is another input)
	}

	// pre-cancelled and expired-deadline contexts
	{
		ctx, cancel := context.WithCancel(context.Background())
		cancel()
		rd := newByteReader(src, -1, nil)
		r := parseOnce(ctx, rd)
		check("pre-cancelled", r, context.Canceled, true, rd.eof)
		if hasToken && !(r.n == 0 && r.class == "canceled") {
			v.add("pre-cancelled: expected ([], context canceled), got %d/%s", r.n, r.class)
		}
		if !hasToken && !(r.n == 0 && r.class == "nil") {
			v.add("pre-cancelled: input without a token, expected ([], nil), got %d/%s", r.n, r.class)
		}
	}
	{
		ctx, cancel := context.WithDeadline(context.Background(), time.Now().Add(-time.Hour))
		rd := newByteReader(src, -1, nil)
		r := parseOnce(ctx, rd)
		cancel()
		check("expired deadline", r, context.DeadlineExceeded, true, rd.eof)
		if hasToken && !(r.n == 0 && r.class == "deadline") {
			v.add("expired deadline: expected ([], deadline exceeded), got %d/%s", r.n, r.class)
		}
		if !hasToken && !(r.n == 0 && r.class == "nil") {
			v.add("expired deadline: input without a token, expected ([], nil), got %d/%s", r.n, r.class)
		}
	}
	return
}

// ---------------------------------------------------------------------------------------------
// -semis mode

func checkSemis(script []byte, parts [][]byte) (nScript int, v violations) {
	rd := newByteReader(script, -1, nil)
	whole := parseOnce(context.Background(), rd)
	nScript = whole.n
	if whole.class == "panic" {
		v.add("script panics: %s", whole.panicked)
		return
	}
	if whole.class == "nil" && !rd.eof {
		v.add("script: nil error but the input was not read to the end (reader at %d of %d)", rd.pos, len(script))
	}
	var want []string
	allNil := true
	for i, p := range parts {
		r := parseOnce(context.Background(), bytes.NewReader(p))
		if r.class == "panic" {
			v.add("part %d panics: %s", i, r.panicked)
			return
		}
		if r.class != "nil" {
			allNil = false
		}
		want = append(want, r.explains...)
	}
	if (whole.class == "nil") != allNil {
		v.add("script error class %s, but all parts nil = %v", whole.class, allNil)
	}
	if len(want) != whole.n {
		v.add("script has %d statements, the parts parsed alone give %d", whole.n, len(want))
		return
	}
	for i := range want {
		if want[i] != whole.explains[i] {
			v.add("statement %d of the script explains differently from the part parsed alone", i)
			return
		}
	}
	return
}

// ---------------------------------------------------------------------------------------------

func unhex(s string) ([]byte, error) {
	if s == "-" || s == "" {
		return nil, nil
	}
	return hex.DecodeString(s)
}

func hexOf(b []byte) string {
	if len(b) == 0 {
		return "-"
	}
	return hex.EncodeToString(b)
}

func filterMode(in *bufio.Scanner) {
	ok := func(src []byte) (string, bool) {
		r := parseOnce(context.Background(), bytes.NewReader(src))
		if r.class != "nil" || r.n != 1 || strings.HasPrefix(r.explains[0], "EXPLAIN-PANIC") {
			return "", false
		}
		return r.explains[0], true
	}
	for in.Scan() {
		line := strings.TrimSpace(in.Text())
		if line == "" {
			continue
		}
		e1, ok1 := ok([]byte(line))
		if !ok1 {
			continue
		}
		e2, ok2 := ok([]byte(line + ";"))
		e3, ok3 := ok([]byte(";" + line + " ;"))
		if ok2 && ok3 && e1 == e2 && e1 == e3 {
			fmt.Fprintln(out, line)
		}
	}
}

func main() {
	semis := flag.Bool("semis", false, "C06/C05 mode: compare the script with its parts parsed alone")
	filter := flag.Bool("filter", false, "corpus filter mode (plain-text statements in, usable ones out)")
	flag.BoolVar(&verbose, "v", false, "print every violation to stderr")
	flag.IntVar(&maxRuns, "maxruns", 600, "maximal number of reader-driven cancellation points per script")
	flag.Parse()

	out = bufio.NewWriterSize(os.Stdout, 1<<20)
	defer out.Flush()
	in := bufio.NewScanner(os.Stdin)
	in.Buffer(make([]byte, 1<<20), 1<<28)

	if *filter {
		filterMode(in)
		return
	}

	scripts, bad := 0, 0
	for in.Scan() {
		line := strings.TrimRight(in.Text(), "\r\n")
		if line == "" {
			continue
		}
		fields := strings.Split(line, "\t")
		script, err := unhex(fields[0])
		if err != nil {
			out.Flush()
			fmt.Fprintf(os.Stderr, "cancel: bad hex input: %v\n", err)
			os.Exit(2)
		}
		scripts++
		var v violations
		if *semis && len(fields) == 1 {
			// a case without parts (generator option --with-invalid): nothing to compare
			fmt.Fprintf(out, "%s\t-\t0\t0\tskipped: no parts\n", hexOf(script))
			continue
		}
		if *semis {
			var parts [][]byte
			for _, f := range fields[1:] {
				p, err := unhex(f)
				if err != nil {
					out.Flush()
					fmt.Fprintf(os.Stderr, "cancel: bad hex input: %v\n", err)
					os.Exit(2)
				}
				parts = append(parts, p)
			}
			var n int
			n, v = checkSemis(script, parts)
			fmt.Fprintf(out, "%s\t%d\t%d\t%d\t%s\n", hexOf(script), n, len(parts), v.count, orDash(v.first))
		} else {
			var n, runs int
			n, runs, v = checkScript(script)
			fmt.Fprintf(out, "%s\t%d\t%d\t%d\t%s\n", hexOf(script), n, runs, v.count, orDash(v.first))
		}
		if v.count > 0 {
			bad++
			if verbose {
				for _, s := range v.all {
					fmt.Fprintf(os.Stderr, "%s: %s\n", hexOf(script), s)
				}
			}
		}
	}
	out.Flush()
	fmt.Fprintf(os.Stderr, "cancel: scripts=%d with_violations=%d parse_runs=%d\n", scripts, bad, totalRuns)
	if bad > 0 {
		os.Exit(1)
	}
}

func orDash(s string) string {
	if s == "" {
		return "-"
	}
	return strings.ReplaceAll(strings.ReplaceAll(s, "\t", " "), "\n", " ")
}
