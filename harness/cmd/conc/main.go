//go:build verif

// conc is the dynamic tie of C10 and C11: it runs the real Parse / Explain / ExplainStatements /
// json.Marshal concurrently and sequentially and compares every result with a baseline.
//
//	stdin        hex-encoded SQL statements, one per line ("-" for the empty string)
//	-phase A     parse each statement, compute the sequential baseline, print counts
//	-phase B     N goroutines x R rounds, every call on a freshly parsed tree of its own
//	-phase C     N goroutines x R rounds, all goroutines share ONE parsed tree per statement
//	-phase D     sequential (C11): deep snapshot before/after every call, repeated calls, random
//	             histories (panicking inputs included), panics injected inside the temporary-edit
//	             windows, comparison with the output of a fresh process
//	-phase F     (internal) print the results for the statements on stdin, one line each
//
// One JSON line on stdout per invocation; exit status 0 always (the check decides). Built with -race:
// run with GORACE="exitcode=66 halt_on_error=0", the race reports go to stderr.
package main

import (
	"bufio"
	"context"
	"encoding/hex"
	"encoding/json"
	"flag"
	"fmt"
	"math"
	"os"
	"os/exec"
	"reflect"
	"sort"
	"strconv"
	"strings"
	"sync"
	"sync/atomic"

	"github.com/sqlc-dev/doubleclick/ast"
	"github.com/sqlc-dev/doubleclick/parser"
)

// ---------------------------------------------------------------------------------------------
// results

type result struct {
	ParseErr string   // "" when Parse returned no error; "PANIC: ..." when it panicked
	Explain  []string // parser.Explain per statement
	All      string   // parser.ExplainStatements
	JSON     string   // json.Marshal of the statement list
}

func guard(f func() string) (out string) {
	defer func() {
		if r := recover(); r != nil {
			out = "PANIC: " + fmt.Sprint(r)
		}
	}()
	return f()
}

func parse(sql string) (stmts []ast.Statement, perr string) {
	defer func() {
		if r := recover(); r != nil {
			stmts, perr = nil, "PANIC: "+fmt.Sprint(r)
		}
	}()
	s, err := parser.Parse(context.Background(), strings.NewReader(sql))
	if err != nil {
		return s, "error: " + err.Error()
	}
	return s, ""
}

func explainAll(stmts []ast.Statement) result {
	var r result
	for _, s := range stmts {
		s := s
		r.Explain = append(r.Explain, guard(func() string { return parser.Explain(s) }))
	}
	r.All = guard(func() string { return parser.ExplainStatements(stmts) })
	r.JSON = guard(func() string {
		b, err := json.Marshal(stmts)
		if err != nil {
			return "error: " + err.Error()
		}
		return string(b)
	})
	return r
}

func compute(sql string) result {
	stmts, perr := parse(sql)
	r := explainAll(stmts)
	r.ParseErr = perr
	return r
}

func (r result) encode() string {
	parts := []string{hexs(r.ParseErr), strconv.Itoa(len(r.Explain))}
	for _, e := range r.Explain {
		parts = append(parts, hexs(e))
	}
	parts = append(parts, hexs(r.All), hexs(r.JSON))
	return strings.Join(parts, "\t")
}

func hexs(s string) string {
	if s == "" {
		return "-"
	}
	return hex.EncodeToString([]byte(s))
}

type mismatch struct {
	Idx      int    `json:"idx"`
	SQL      string `json:"statement"`
	What     string `json:"what"`
	Expected string `json:"expected"`
	Got      string `json:"got"`
}

func clip(s string) string {
	if len(s) > 600 {
		return s[:600] + "...(" + strconv.Itoa(len(s)) + " bytes)"
	}
	return s
}

type collector struct {
	mu     sync.Mutex
	count  int64
	list   []mismatch
	byStmt map[int]int // statement index -> number of mismatches
}

func (c *collector) add(idx int, sql, what, exp, got string) {
	c.mu.Lock()
	defer c.mu.Unlock()
	c.count++
	if c.byStmt == nil {
		c.byStmt = map[int]int{}
	}
	c.byStmt[idx]++
	if len(c.list) < 25 {
		c.list = append(c.list, mismatch{idx, sql, what, clip(exp), clip(got)})
	}
}

func (c *collector) byStatement() map[string]int {
	out := map[string]int{}
	for k, v := range c.byStmt {
		out[strconv.Itoa(k)] = v
	}
	return out
}

func (c *collector) diff(idx int, sql, ctx string, exp, got result) {
	if exp.ParseErr != got.ParseErr {
		c.add(idx, sql, ctx+"parse", exp.ParseErr, got.ParseErr)
	}
	if len(exp.Explain) != len(got.Explain) {
		c.add(idx, sql, ctx+"statement-count", strconv.Itoa(len(exp.Explain)), strconv.Itoa(len(got.Explain)))
	} else {
		for k := range exp.Explain {
			if exp.Explain[k] != got.Explain[k] {
				c.add(idx, sql, fmt.Sprintf("%sExplain[%d]", ctx, k), exp.Explain[k], got.Explain[k])
			}
		}
	}
	if exp.All != got.All {
		c.add(idx, sql, ctx+"ExplainStatements", exp.All, got.All)
	}
	if exp.JSON != got.JSON {
		c.add(idx, sql, ctx+"json.Marshal", exp.JSON, got.JSON)
	}
}

// ---------------------------------------------------------------------------------------------
// random choices: splitmix64 from VERIF_SEED

type rng struct{ s uint64 }

func (r *rng) next() uint64 {
	r.s += 0x9e3779b97f4a7c15
	z := r.s
	z = (z ^ (z >> 30)) * 0xbf58476d1ce4e5b9
	z = (z ^ (z >> 27)) * 0x94d049bb133111eb
	return z ^ (z >> 31)
}
func (r *rng) intn(n int) int { return int(r.next() % uint64(n)) }

func seed() uint64 {
	if v := os.Getenv("VERIF_SEED"); v != "" {
		if n, err := strconv.ParseUint(v, 10, 64); err == nil {
			return n
		}
	}
	return 1
}

// ---------------------------------------------------------------------------------------------
// deep snapshot: a canonical string of everything reachable from a value -- every field (exported or
// not), nil-ness and address of every pointer / slice / map, length AND capacity of every slice and
// the elements hidden between them (an append into spare capacity changes those)

func snapshot(v interface{}) string {
	var b strings.Builder
	seen := map[uintptr]int{}
	snap(&b, reflect.ValueOf(v), seen)
	return b.String()
}

func snap(b *strings.Builder, v reflect.Value, seen map[uintptr]int) {
	if !v.IsValid() {
		b.WriteString("<invalid>")
		return
	}
	switch v.Kind() {
	case reflect.Bool:
		fmt.Fprintf(b, "%t", v.Bool())
	case reflect.Int, reflect.Int8, reflect.Int16, reflect.Int32, reflect.Int64:
		fmt.Fprintf(b, "%d", v.Int())
	case reflect.Uint, reflect.Uint8, reflect.Uint16, reflect.Uint32, reflect.Uint64, reflect.Uintptr:
		fmt.Fprintf(b, "%du", v.Uint())
	case reflect.Float32, reflect.Float64:
		fmt.Fprintf(b, "f%x", mathBits(v.Float()))
	case reflect.Complex64, reflect.Complex128:
		fmt.Fprintf(b, "c%v", v.Complex())
	case reflect.String:
		fmt.Fprintf(b, "%q", v.String())
	case reflect.Ptr:
		if v.IsNil() {
			b.WriteString("nil")
			return
		}
		p := v.Pointer()
		if id, ok := seen[p]; ok {
			fmt.Fprintf(b, "&#%d", id)
			return
		}
		seen[p] = len(seen)
		fmt.Fprintf(b, "&@%x#%d(", p, seen[p])
		snap(b, v.Elem(), seen)
		b.WriteString(")")
	case reflect.Interface:
		if v.IsNil() {
			b.WriteString("nil-interface")
			return
		}
		fmt.Fprintf(b, "<%s>", v.Elem().Type().String())
		snap(b, v.Elem(), seen)
	case reflect.Slice:
		if v.IsNil() {
			b.WriteString("nil-slice")
			return
		}
		fmt.Fprintf(b, "[@%x len=%d cap=%d:", v.Pointer(), v.Len(), v.Cap())
		full := v.Slice(0, v.Cap())
		for i := 0; i < full.Len(); i++ {
			if i == v.Len() {
				b.WriteString(" | ")
			} else if i > 0 {
				b.WriteString(", ")
			}
			snap(b, full.Index(i), seen)
		}
		b.WriteString("]")
	case reflect.Array:
		b.WriteString("[")
		for i := 0; i < v.Len(); i++ {
			if i > 0 {
				b.WriteString(", ")
			}
			snap(b, v.Index(i), seen)
		}
		b.WriteString("]")
	case reflect.Map:
		if v.IsNil() {
			b.WriteString("nil-map")
			return
		}
		type kv struct{ k, v string }
		var kvs []kv
		it := v.MapRange()
		for it.Next() {
			var kb, vb strings.Builder
			snap(&kb, it.Key(), seen)
			snap(&vb, it.Value(), seen)
			kvs = append(kvs, kv{kb.String(), vb.String()})
		}
		sort.Slice(kvs, func(i, j int) bool { return kvs[i].k < kvs[j].k })
		fmt.Fprintf(b, "map@%x{", v.Pointer())
		for _, e := range kvs {
			b.WriteString(e.k + ": " + e.v + "; ")
		}
		b.WriteString("}")
	case reflect.Struct:
		b.WriteString(v.Type().String() + "{")
		for i := 0; i < v.NumField(); i++ {
			if i > 0 {
				b.WriteString(", ")
			}
			b.WriteString(v.Type().Field(i).Name + ": ")
			snap(b, v.Field(i), seen)
		}
		b.WriteString("}")
	case reflect.Func, reflect.Chan, reflect.UnsafePointer:
		if v.IsNil() {
			b.WriteString("nil-" + v.Kind().String())
		} else {
			fmt.Fprintf(b, "%s@%x", v.Kind(), v.Pointer())
		}
	default:
		b.WriteString("<" + v.Kind().String() + ">")
	}
}

func mathBits(f float64) uint64 { return math.Float64bits(f) }

// ---------------------------------------------------------------------------------------------

func readHexLines(f *os.File) []string {
	var out []string
	sc := bufio.NewScanner(f)
	sc.Buffer(make([]byte, 1<<20), 1<<26)
	for sc.Scan() {
		ln := strings.TrimSpace(sc.Text())
		if ln == "" {
			continue
		}
		if ln == "-" {
			out = append(out, "")
			continue
		}
		b, err := hex.DecodeString(ln)
		if err != nil {
			fmt.Fprintln(os.Stderr, "conc: bad hex line:", err)
			os.Exit(2)
		}
		out = append(out, string(b))
	}
	return out
}

type report struct {
	Phase         string         `json:"phase"`
	Statements    int            `json:"statements"`
	Goroutines    int            `json:"goroutines,omitempty"`
	Rounds        int            `json:"rounds,omitempty"`
	Calls         int64          `json:"calls"`
	Counts        map[string]int `json:"counts,omitempty"`
	MismatchCount int64          `json:"mismatch_count"`
	ByStatement   map[string]int `json:"mismatches_by_statement"` // statement index (0-based line of the input) -> count
	Mismatches    []mismatch     `json:"mismatches"`
}

func emit(r report) {
	if r.Mismatches == nil {
		r.Mismatches = []mismatch{}
	}
	if r.ByStatement == nil {
		r.ByStatement = map[string]int{}
	}
	b, _ := json.Marshal(r)
	fmt.Println(string(b))
}

func main() {
	phase := flag.String("phase", "A", "A | B | C | D | F")
	n := flag.Int("n", 16, "goroutines (phases B, C)")
	rounds := flag.Int("rounds", 20, "rounds per goroutine (phases B, C)")
	panicsFile := flag.String("panics", "", "file of hex-encoded inputs known to panic (phase D histories)")
	histories := flag.Int("histories", 200, "random histories (phase D)")
	fresh := flag.Bool("fresh", true, "phase D: compare with the output of a fresh process per statement")
	flag.Parse()

	sqls := readHexLines(os.Stdin)

	if *phase == "F" {
		w := bufio.NewWriter(os.Stdout)
		for _, q := range sqls {
			fmt.Fprintln(w, compute(q).encode())
		}
		w.Flush()
		return
	}

	baseline := make([]result, len(sqls))
	counts := map[string]int{}
	for i, q := range sqls {
		baseline[i] = compute(q)
		switch {
		case strings.HasPrefix(baseline[i].ParseErr, "PANIC"):
			counts["parse_panics"]++
		case baseline[i].ParseErr != "":
			counts["parse_errors"]++
		default:
			counts["parsed"]++
		}
		counts["parsed_statements"] += len(baseline[i].Explain)
		for _, e := range append(append([]string{}, baseline[i].Explain...), baseline[i].All, baseline[i].JSON) {
			if strings.HasPrefix(e, "PANIC") {
				counts["explain_panics"]++
			}
		}
	}

	switch *phase {
	case "A":
		emit(report{Phase: "A", Statements: len(sqls), Calls: int64(len(sqls)), Counts: counts})

	case "B", "C":
		var col collector
		var calls int64
		var shared [][]ast.Statement
		if *phase == "C" {
			shared = make([][]ast.Statement, len(sqls))
			for i, q := range sqls {
				shared[i], _ = parse(q)
			}
		}
		start := make(chan struct{})
		var wg sync.WaitGroup
		for g := 0; g < *n; g++ {
			wg.Add(1)
			go func(g int) {
				defer wg.Done()
				<-start
				for r := 0; r < *rounds; r++ {
					for k := range sqls {
						i := k
						if r%2 == 1 {
							i = (k + g) % len(sqls) // odd rounds: staggered; even rounds: lock-step on the same statement
						}
						var got result
						if *phase == "B" {
							got = compute(sqls[i])
						} else {
							got = explainAll(shared[i])
							got.ParseErr = baseline[i].ParseErr
						}
						atomic.AddInt64(&calls, 1)
						col.diff(i, sqls[i], "", baseline[i], got)
					}
				}
			}(g)
		}
		close(start)
		wg.Wait()
		if *phase == "C" {
			// after all goroutines are done the shared trees must print as before
			for i := range sqls {
				got := explainAll(shared[i])
				got.ParseErr = baseline[i].ParseErr
				col.diff(i, sqls[i], "after-concurrent-use:", baseline[i], got)
			}
		}
		emit(report{Phase: *phase, Statements: len(sqls), Goroutines: *n, Rounds: *rounds, Calls: calls,
			Counts: counts, MismatchCount: col.count, ByStatement: col.byStatement(), Mismatches: col.list})

	case "D":
		phaseD(sqls, baseline, counts, *panicsFile, *histories, *fresh)
	default:
		fmt.Fprintln(os.Stderr, "conc: unknown phase", *phase)
		os.Exit(2)
	}
}

// call runs f (recovering a panic) between two deep snapshots of the tree
func (c *collector) unchanged(idx int, sql, what string, tree interface{}, f func() string) string {
	before := snapshot(tree)
	out := guard(f)
	after := snapshot(tree)
	if before != after {
		c.add(idx, sql, "tree changed by "+what, firstDiff(before, after), firstDiff(after, before))
	}
	return out
}

func firstDiff(a, b string) string {
	i := 0
	for i < len(a) && i < len(b) && a[i] == b[i] {
		i++
	}
	lo := i - 80
	if lo < 0 {
		lo = 0
	}
	hi := i + 200
	if hi > len(a) {
		hi = len(a)
	}
	return fmt.Sprintf("@%d: ...%s", i, a[lo:hi])
}

func phaseD(sqls []string, baseline []result, counts map[string]int, panicsFile string, histories int, fresh bool) {
	var col collector
	var calls int64
	rnd := &rng{s: seed()}

	var panicky []string
	if panicsFile != "" {
		f, err := os.Open(panicsFile)
		if err == nil {
			panicky = readHexLines(f)
			f.Close()
		} else {
			fmt.Fprintln(os.Stderr, "conc: cannot read the panics file:", err)
		}
	}
	counts["panicking_inputs"] = len(panicky)

	// D0: the output of a fresh process, one process per statement
	if fresh {
		self, err := os.Executable()
		if err != nil {
			self = os.Args[0]
		}
		for i, q := range sqls {
			cmd := exec.Command(self, "-phase", "F")
			cmd.Stdin = strings.NewReader(hexs(q) + "\n")
			cmd.Stderr = os.Stderr
			// the race run time sleeps one second at exit by default
			cmd.Env = append(os.Environ(), "GORACE="+strings.TrimSpace(os.Getenv("GORACE")+" atexit_sleep_ms=0"))
			out, err := cmd.Output()
			if err != nil {
				col.add(i, q, "fresh process failed", "", err.Error())
				continue
			}
			counts["fresh_processes"]++
			if got := strings.TrimRight(string(out), "\n"); got != baseline[i].encode() {
				col.add(i, q, "fresh process vs. process with earlier calls", got, baseline[i].encode())
			}
		}
	}

	// D1: every call leaves the tree deeply unchanged; repeated calls are byte-identical
	trees := make([][]ast.Statement, len(sqls))
	for i, q := range sqls {
		stmts, _ := parse(q)
		trees[i] = stmts
		for rep := 0; rep < 3; rep++ {
			var got result
			got.ParseErr = baseline[i].ParseErr
			for k, s := range stmts {
				s := s
				got.Explain = append(got.Explain, col.unchanged(i, q, fmt.Sprintf("Explain[%d] (call %d)", k, rep+1), stmts,
					func() string { return parser.Explain(s) }))
				calls++
			}
			got.All = col.unchanged(i, q, fmt.Sprintf("ExplainStatements (call %d)", rep+1), stmts,
				func() string { return parser.ExplainStatements(stmts) })
			got.JSON = col.unchanged(i, q, fmt.Sprintf("json.Marshal (call %d)", rep+1), stmts, func() string {
				b, err := json.Marshal(stmts)
				if err != nil {
					return "error: " + err.Error()
				}
				return string(b)
			})
			calls += 2
			col.diff(i, q, fmt.Sprintf("repeat %d: ", rep+1), baseline[i], got)
		}
	}

	// D2: the same for the inputs known to panic (the panic is recovered; the tree must be restored)
	for i, q := range panicky {
		stmts, perr := parse(q)
		if strings.HasPrefix(perr, "PANIC") {
			counts["panicking_inputs_parse_panic"]++
		}
		for k, s := range stmts {
			s := s
			out := col.unchanged(-1-i, q, fmt.Sprintf("Explain[%d] of a panicking input", k), stmts, func() string { return parser.Explain(s) })
			if strings.HasPrefix(out, "PANIC") {
				counts["panicking_inputs_explain_panic"]++
			}
			calls++
		}
	}

	// D3: panics injected inside the temporary-edit windows: a typed nil expression is appended to the
	// column list of every SELECT of a copy of the tree, so that printing the SELECT panics while the
	// enclosing INSERT / EXPLAIN has its edits in place; the deferred restores must still run
	for i, q := range sqls {
		stmts, _ := parse(q)
		injected := 0
		for _, s := range stmts {
			injected += poison(reflect.ValueOf(s), map[uintptr]bool{})
		}
		if injected == 0 {
			continue
		}
		counts["poisoned_trees"]++
		for k, s := range stmts {
			s := s
			out := col.unchanged(i, q, fmt.Sprintf("Explain[%d] with an injected panic", k), stmts, func() string { return parser.Explain(s) })
			if strings.HasPrefix(out, "PANIC") {
				counts["injected_panics"]++
			}
			calls++
		}
		out := col.unchanged(i, q, "ExplainStatements with an injected panic", stmts, func() string { return parser.ExplainStatements(stmts) })
		if strings.HasPrefix(out, "PANIC") {
			counts["injected_panics"]++
		}
		calls++
	}

	// D4: histories: a random sequence of earlier Parse / Explain calls (panicking ones included and
	// recovered), then the target: on a tree parsed before the history, and on a tree parsed after it
	pool := append(append([]string{}, sqls...), panicky...)
	for h := 0; h < histories && len(sqls) > 0; h++ {
		t := rnd.intn(len(sqls))
		ln := 1 + rnd.intn(8)
		for j := 0; j < ln; j++ {
			q := pool[rnd.intn(len(pool))]
			r := compute(q)
			calls++
			for _, e := range r.Explain {
				if strings.HasPrefix(e, "PANIC") {
					counts["history_panics"]++
				}
			}
			if rnd.intn(4) == 0 { // sometimes with an injected panic as well
				stmts, _ := parse(q)
				for _, s := range stmts {
					poison(reflect.ValueOf(s), map[uintptr]bool{})
				}
				r := explainAll(stmts)
				if strings.HasPrefix(r.All, "PANIC") {
					counts["history_panics"]++
				}
			}
		}
		old := explainAll(trees[t])
		old.ParseErr = baseline[t].ParseErr
		col.diff(t, sqls[t], fmt.Sprintf("history %d, old tree: ", h), baseline[t], old)
		col.diff(t, sqls[t], fmt.Sprintf("history %d, new tree: ", h), baseline[t], compute(sqls[t]))
		calls += 2
	}
	counts["histories"] = histories

	emit(report{Phase: "D", Statements: len(sqls), Calls: calls, Counts: counts, MismatchCount: col.count,
		ByStatement: col.byStatement(), Mismatches: col.list})
}

var selectQueryType = reflect.TypeOf(ast.SelectQuery{})

// poison appends a typed nil *ast.BinaryExpr to the Columns of every *ast.SelectQuery reachable from v.
func poison(v reflect.Value, seen map[uintptr]bool) int {
	if !v.IsValid() {
		return 0
	}
	n := 0
	switch v.Kind() {
	case reflect.Ptr:
		if v.IsNil() || seen[v.Pointer()] {
			return 0
		}
		seen[v.Pointer()] = true
		if v.Elem().Type() == selectQueryType {
			sq := v.Interface().(*ast.SelectQuery)
			// recurse first: the nested SELECTs of this one
			n += poison(v.Elem(), seen)
			cols := make([]ast.Expression, 0, len(sq.Columns)+1)
			cols = append(cols, sq.Columns...)
			sq.Columns = append(cols, (*ast.BinaryExpr)(nil))
			return n + 1
		}
		return poison(v.Elem(), seen)
	case reflect.Interface:
		if v.IsNil() {
			return 0
		}
		return poison(v.Elem(), seen)
	case reflect.Slice, reflect.Array:
		for i := 0; i < v.Len(); i++ {
			n += poison(v.Index(i), seen)
		}
	case reflect.Struct:
		for i := 0; i < v.NumField(); i++ {
			if v.Type().Field(i).IsExported() {
				n += poison(v.Field(i), seen)
			}
		}
	case reflect.Map:
		it := v.MapRange()
		for it.Next() {
			n += poison(it.Value(), seen)
		}
	}
	return n
}
