//go:build verif

// embed: the metamorphic harness of property C07 ("a query renders the same wherever it is
// embedded").
//
//	"The EXPLAIN text of a SELECT query (starting with SELECT or WITH, without its own
//	 FORMAT/SETTINGS/INTO OUTFILE tail) appears verbatim, merely indented, inside the EXPLAIN
//	 text of any statement that embeds it as a FROM subquery, IN/EXISTS/scalar subquery, CTE
//	 body, JOIN operand, CREATE VIEW ... AS, INSERT ... SELECT or EXPLAIN target, and wrapping
//	 the whole query in parentheses at statement level changes nothing.  Rendering a query never
//	 depends on what surrounds it or on what was rendered before it."
//
// For every input query q that (a) starts with the keyword SELECT or WITH, (b) parses alone to
// exactly one statement without error, (c) is a *ast.SelectWithUnionQuery and (d) has no FORMAT /
// SETTINGS / INTO OUTFILE tail (decided on the parsed AST, see hasTail), the embeddings listed in
// `contexts` are built, parsed and explained, and the lines of Explain(q) must occur in the
// embedding's text as ONE CONTIGUOUS BLOCK, every line prefixed by the same k spaces, the block
// being a whole subtree (the line after it, if any, is indented by at most k).  For the
// statement-level parenthesised form `(q)` the two texts must be identical.
//
// "What was rendered before": before every Explain call of a check a random prefix (0..4) of
// Explain calls on EARLIER input statements (any kind of statement, successes and panics alike)
// is executed; every embedding is explained twice (after two different histories) and the two
// texts must agree; Explain(q) is re-evaluated after all embeddings and must still be the same;
// with -fresh N every N-th checked query is additionally re-evaluated in a FRESH child process
// (`embed -child`), in reverse order (embeddings first, q last), and the SHA-256 of every text
// must agree with the parent's.
//
// Input : one query per line on stdin (plain text; -hex: lowercase hex, "-" = empty), or
//
//	-corpus DIR: the statements of DIR/*/query.sql split like splitStatements of
//	/repo/parser/parser_test.go (all entries; non-SELECT statements only feed the history pool).
//	-compose K : append the hand-written `adversarial` inputs and K random compositions of the
//	SELECT/WITH inputs (set operations, nesting, WITH) to the inputs.
//	-fresh N, -only I, -ctx a,b, -extra, -tails, -q, -seed N: see the flag descriptions.
//
// Output: one line per input, `<verdict>\t<query as given (hex with -hex)>`; verdict is
//
//	ok <n embeddings checked>
//	BAD <context> <what>: <first differing line, expected ⟂ found>
//	skip <reason>           reason ∈ not-select | parse-error | parse-panic | multi | not-union |
//	                                 label-newline | tail | explain-panic
//
// and a SUMMARY line on stderr.  Exit code 0 unless usage error (the python check decides).
//
// EXCLUSIONS (each one quotes the property text that justifies it; all are counted in SUMMARY):
//
//   - queries with a tail (skip tail): "without its own FORMAT/SETTINGS/INTO OUTFILE tail".  With the
//     diagnostic flag -tails they are checked all the same; what then differs is (1) `(q FORMAT x)`
//     is a parse error in every parenthesised context, (2) CREATE VIEW / INSERT / EXPLAIN print the
//     FORMAT / SETTINGS children at their own level instead of inside the SelectWithUnionQuery.
//
//   - queries not starting with SELECT / WITH (skip not-select; e.g. `(SELECT 1) UNION ALL (SELECT
//     2)`, `FROM t SELECT x`): "a SELECT query (starting with SELECT or WITH ...)".
//
//   - inputs that are not one SelectWithUnionQuery (skip not-union: `WITH x AS (..) INSERT ...` is
//     an INSERT; skip multi / parse-error: not "a SELECT query").
//
//   - see `contexts` below for the per-context notes; NO context of the property is excluded and
//     no query class is excluded beyond the three above.
//
//   - queries in which an identifier token contains a line break (skip label-newline; a back-quoted
//     name with a raw newline is printed raw inside a label, so Explain(q) has a physical line that
//     no embedding indents): outside the property, C04 restricts identifiers to names without line
//     breaks.  String literals are escaped by the printer and are NOT skipped.
//
// HISTORY of the search (see `adversarial`, which keeps one input per class):
//
//   - FIXED in /repo 5f679c112: statement-level `WITH ... SELECT ... UNION SELECT ... UNION ALL
//     SELECT ...` was printed flat alone and grouped inside any parentheses (the WITH path of the
//     parser recorded a bare UNION as mode "ALL").
//   - with -extra only (outside the property's list): `((q))` and `CREATE VIEW v AS (q)` lose the
//     DISTINCT->ALL grouping of `a UNION b UNION ALL c`.
//
// Build: cd /verif/harness && go build -tags verif -o /verif/build/embed ./cmd/embed
package main

import (
	"bufio"
	"bytes"
	"context"
	"crypto/sha256"
	"encoding/hex"
	"flag"
	"fmt"
	"os"
	"os/exec"
	"path/filepath"
	"sort"
	"strconv"
	"strings"
	"time"
	"verif/harness/rdr"

	"github.com/sqlc-dev/doubleclick/ast"
	"github.com/sqlc-dev/doubleclick/lexer"
	"github.com/sqlc-dev/doubleclick/parser"
	"github.com/sqlc-dev/doubleclick/token"
)

// ---------------------------------------------------------------------------------------------
// contexts

type ctxKind int

const (
	ctxBlock    ctxKind = iota // Explain(q) occurs as an indented block
	ctxSame                    // the text is identical to Explain(q)
	ctxOptional                // like ctxBlock, but an embedding that does not parse is not a finding
)

type embedCtx struct {
	name string
	pre  string
	post string
	kind ctxKind
}

// The contexts of the property text, in its order:
// "FROM subquery, IN/EXISTS/scalar subquery, CTE body, JOIN operand, CREATE VIEW ... AS,
//
//	INSERT ... SELECT or EXPLAIN target, and wrapping the whole query in parentheses".
//
// Notes (none of them weakens the check):
//   - cte: the body is printed inside `WithElement (children 1)` / `Subquery (children 1)`
//     wrappers (and, since the main query here has a single SELECT, only once); the block search
//     finds it there.
//   - scalar: `SELECT (q)` prints `Subquery (children 1)` + the query at depth+1.
//   - explain*: the SelectWithUnionQuery is a child of `Explain EXPLAIN[ TYPE] (children 1)`; the
//     FORMAT/SETTINGS children that EXPLAIN moves to its own level do not exist for tail-free q.
//   - matview is "if accepted": ENGINE before AS is one of several accepted spellings.
var contexts = []embedCtx{
	{"from", "SELECT * FROM (", ")", ctxBlock},
	{"from-alias", "SELECT * FROM (", ") AS sub", ctxBlock},
	{"in", "SELECT 1 WHERE 1 IN (", ")", ctxBlock},
	{"exists", "SELECT EXISTS (", ")", ctxBlock},
	{"scalar", "SELECT (", ")", ctxBlock},
	{"cte", "WITH cte AS (", ") SELECT * FROM cte", ctxBlock},
	{"join", "SELECT * FROM t1 JOIN (", ") AS j ON 1", ctxBlock},
	{"view", "CREATE VIEW v AS ", "", ctxBlock},
	{"matview", "CREATE MATERIALIZED VIEW mv ENGINE = Memory AS ", "", ctxOptional},
	{"insert", "INSERT INTO t ", "", ctxBlock},
	{"explain", "EXPLAIN ", "", ctxBlock},
	{"explain-ast", "EXPLAIN AST ", "", ctxBlock},
	{"explain-syntax", "EXPLAIN SYNTAX ", "", ctxBlock},
	{"paren", "(", ")", ctxSame},
}

// Further contexts outside the property's list, checked with -extra only (informative; a
// difference here is reported as BAD like any other, the flag is off in the registered check).
// NOT a context, by design: a parenthesised operand of a set operation (`SELECT 0 UNION ALL (q)`):
// the printer dissolves the operand's SelectWithUnionQuery into the enclosing member list
// (expandNestedUnions) and lets it inherit the first member's WITH clause.
var extraContexts = []embedCtx{
	{"x-view-fn", "SELECT * FROM view(", ")", ctxBlock},
	{"x-explain-paren", "EXPLAIN (", ")", ctxBlock},
	{"x-view-paren", "CREATE VIEW v AS (", ")", ctxBlock},
	{"x-ctas", "CREATE TABLE t ENGINE = Memory AS ", "", ctxBlock},
	{"x-cte-union", "WITH cte AS (", ") SELECT * FROM cte UNION ALL SELECT 1", ctxBlock},
	{"x-from-explain", "SELECT * FROM (EXPLAIN ", ")", ctxBlock},
	{"x-in-func", "SELECT f(x, (", ")) FROM t WHERE y IN (SELECT 1)", ctxBlock},
	{"x-double-paren", "((", "))", ctxSame},
}

// ---------------------------------------------------------------------------------------------
// helpers

func hexOf(s string) string {
	if s == "" {
		return "-"
	}
	return hex.EncodeToString([]byte(s))
}

// splitmix64
type rng struct{ s uint64 }

func (r *rng) next() uint64 {
	r.s += 0x9e3779b97f4a7c15
	z := r.s
	z = (z ^ (z >> 30)) * 0xbf58476d1ce4e5b9
	z = (z ^ (z >> 27)) * 0x94d049bb133111eb
	return z ^ (z >> 31)
}
func (r *rng) intn(n int) int { return int(r.next() % uint64(n)) }

func caseRng(seed uint64, idx int) *rng {
	a := rng{s: seed}
	b := rng{s: a.next() ^ uint64(idx)}
	return &rng{s: b.next()}
}

func parseOne(sql string, timeout time.Duration) (stmts []ast.Statement, err error, panicked bool) {
	defer func() {
		if r := recover(); r != nil {
			panicked = true
		}
	}()
	ctx, cancel := context.WithTimeout(context.Background(), timeout)
	defer cancel()
	stmts, err = parser.Parse(ctx, rdr.For(sql))
	return
}

func explainOne(stmt ast.Statement) (out string, panicked bool) {
	defer func() {
		if r := recover(); r != nil {
			panicked = true
		}
	}()
	return parser.Explain(stmt), false
}

// firstWord returns the upper-cased first identifier-shaped word of the text after leading
// white space (comments are not skipped: corpus statements have none in front).
func firstWord(s string) string {
	s = strings.TrimLeft(s, " \t\r\n")
	i := 0
	for i < len(s) && (s[i] == '_' || s[i] >= 'a' && s[i] <= 'z' || s[i] >= 'A' && s[i] <= 'Z') {
		i++
	}
	return strings.ToUpper(s[:i])
}

// hasTail: does the query have a FORMAT / SETTINGS / INTO OUTFILE tail of its own?
// "no Format, no Settings at select or union level, no IntoOutfile": every SelectQuery member of
// the top-level set-operation structure is looked at (through nested unions / intersects, which is
// where the parser may leave the tail of a parenthesised or last operand); subqueries inside
// expressions and FROM clauses are NOT looked at, their tails are not q's own.
func hasTail(s ast.Statement) bool {
	switch n := s.(type) {
	case *ast.SelectWithUnionQuery:
		if n == nil {
			return false
		}
		if len(n.Settings) > 0 || n.SettingsAfterFormat || n.SettingsBeforeFormat {
			return true
		}
		for _, m := range n.Selects {
			if hasTail(m) {
				return true
			}
		}
	case *ast.SelectIntersectExceptQuery:
		if n == nil {
			return false
		}
		for _, m := range n.Selects {
			if hasTail(m) {
				return true
			}
		}
	case *ast.SelectQuery:
		if n == nil {
			return false
		}
		return n.Format != nil || len(n.Settings) > 0 || n.IntoOutfile != nil
	}
	return false
}

func splitLines(text string) []string {
	if text == "" {
		return nil
	}
	return strings.Split(strings.TrimSuffix(text, "\n"), "\n")
}

func leadingSpaces(s string) int {
	i := 0
	for i < len(s) && s[i] == ' ' {
		i++
	}
	return i
}

// findBlock looks for `want` as a contiguous block of `have`, every line prefixed by the same k
// spaces, the block being a whole subtree.  On failure it describes the best candidate.
func findBlock(want, have []string) (ok bool, what string) {
	if len(want) == 0 {
		return false, "empty: Explain(q) is empty"
	}
	if leadingSpaces(want[0]) != 0 {
		return false, "root-indented: " + want[0]
	}
	best, bestAt, bestK := -1, -1, 0
	extended := ""
	for i := range have {
		k := leadingSpaces(have[i])
		if have[i][k:] != want[0] {
			continue
		}
		pad := have[i][:k]
		j := 0
		for j < len(want) && i+j < len(have) && have[i+j] == pad+want[j] {
			j++
		}
		if j == len(want) {
			// whole subtree: the next line is not deeper than the root of the block
			if i+j < len(have) && leadingSpaces(have[i+j]) > k {
				extended = fmt.Sprintf("subtree-extended: after the block at line %d (indent %d) follows %q", i, k, have[i+j])
				continue
			}
			return true, ""
		}
		if j > best {
			best, bestAt, bestK = j, i, k
		}
	}
	if extended != "" {
		return false, extended
	}
	if best < 0 {
		return false, fmt.Sprintf("root-missing: no line %q", want[0])
	}
	found := "<end of text>"
	if bestAt+best < len(have) {
		found = have[bestAt+best]
	}
	return false, fmt.Sprintf("line %d of q (block at line %d, indent %d): %q ⟂ %q", best, bestAt, bestK, strings.Repeat(" ", bestK)+want[best], found)
}

func firstDiff(a, b []string) string {
	for i := 0; i < len(a) || i < len(b); i++ {
		x, y := "<end of text>", "<end of text>"
		if i < len(a) {
			x = a[i]
		}
		if i < len(b) {
			y = b[i]
		}
		if x != y {
			return fmt.Sprintf("line %d: %q ⟂ %q", i, x, y)
		}
	}
	return "equal"
}

// nameWithNewline: does the query contain an identifier token (back-quoted / double-quoted name,
// alias, table name) whose value has a line break?  Such a name is printed raw inside a label,
// so the EXPLAIN text has a physical line that is no node line.  Outside the property: C04
// restricts identifiers to names without line breaks (string literals are escaped and are fine).
func nameWithNewline(q string) bool {
	for _, it := range lexer.Tokenize(strings.NewReader(q)) {
		if it.Token == token.IDENT && strings.ContainsAny(it.Value, "\n\r") {
			return true
		}
	}
	return false
}

// bodyOf is the text of the query as it is put into the embeddings: the input cut at its first
// SEMICOLON token (found with the repository's own lexer, so that a `;` inside a string, a quoted
// identifier or a comment does not count; what follows that token in a one-statement input is
// white space, comments and further semicolons).  A body that contains a comment gets a newline
// so that a trailing line comment does not swallow the closing parenthesis of the embedding.
func bodyOf(q string) string {
	b := q
	comment := false
	for _, it := range lexer.Tokenize(strings.NewReader(q)) {
		if it.Token == token.SEMICOLON {
			// Item.Pos.Offset is the byte offset of the END of the token's first rune
			if off := it.Pos.Offset - 1; off >= 0 && off < len(q) && q[off] == ';' {
				b = q[:off]
			}
			break
		}
		if it.Token == token.COMMENT || it.Token == token.LINE_COMMENT {
			comment = true
		}
	}
	b = strings.TrimRight(b, " \t\r\n")
	if comment {
		b += "\n"
	}
	return b
}

// ---------------------------------------------------------------------------------------------
// corpus (copies of splitStatements / findCommentStart of /repo/parser/parser_test.go)

func splitStatements(content string) []string {
	var statements []string
	var current strings.Builder
	for _, line := range strings.Split(content, "\n") {
		trimmed := strings.TrimSpace(line)
		if trimmed == "" || strings.HasPrefix(trimmed, "--") {
			continue
		}
		if idx := findCommentStart(trimmed); idx >= 0 {
			trimmed = strings.TrimSpace(trimmed[:idx])
			if trimmed == "" {
				continue
			}
		}
		if current.Len() > 0 {
			current.WriteString(" ")
		}
		current.WriteString(trimmed)
		if strings.HasSuffix(trimmed, ";") {
			stmt := strings.TrimSpace(current.String())
			if stmt != "" && stmt != ";" {
				statements = append(statements, stmt)
			}
			current.Reset()
		}
	}
	if current.Len() > 0 {
		stmt := strings.TrimSpace(current.String())
		if stmt != "" {
			statements = append(statements, stmt)
		}
	}
	return statements
}

func findCommentStart(line string) int {
	inString := false
	var stringChar byte
	for i := 0; i < len(line); i++ {
		c := line[i]
		if inString {
			if c == '\\' && i+1 < len(line) {
				i++
				continue
			}
			if c == stringChar {
				inString = false
			}
		} else {
			if c == '\'' || c == '"' || c == '`' {
				inString = true
				stringChar = c
			} else if c == '-' && i+1 < len(line) && line[i+1] == '-' {
				if i+2 >= len(line) || line[i+2] == ' ' || line[i+2] == '\t' {
					return i
				}
			}
		}
	}
	return -1
}

func corpusStatements(dir string) []string {
	entries, err := os.ReadDir(dir)
	if err != nil {
		fmt.Fprintln(os.Stderr, "embed:", err)
		os.Exit(2)
	}
	names := make([]string, 0, len(entries))
	for _, e := range entries {
		if e.IsDir() {
			names = append(names, e.Name())
		}
	}
	sort.Strings(names)
	var out []string
	for _, n := range names {
		q, err := os.ReadFile(filepath.Join(dir, n, "query.sql"))
		if err != nil {
			continue
		}
		out = append(out, splitStatements(string(q))...)
	}
	fmt.Fprintf(os.Stderr, "embed: corpus %s: %d entries, %d statements\n", dir, len(names), len(out))
	return out
}

// ---------------------------------------------------------------------------------------------
// composed queries: the corpus has few set operations with WITH clauses, nested unions with mode
// changes, etc.; -compose K builds K more inputs out of random SELECT/WITH inputs.  A composition
// whose parts have tails or that does not parse is skipped by the ordinary rules.

// adversarial: hand-written inputs for the classes the search has found (always appended first by
// -compose, so that a run on any corpus exercises them):
//   - statement-level WITH followed by a bare UNION and a mode change (until /repo 5f679c112 the
//     parser's parseSelectWithUnionWithParsedWith recorded a bare UNION as "ALL", the ordinary path
//     as "UNION "; the DISTINCT->ALL grouping of the printer then differed between `q` and `(q)`);
//   - names that contain a newline byte (skipped as label-newline; the string-literal variant must
//     still be ok);
//   - nested EXPLAIN (the `depth == 0` test of explainExplainQuery), view(), several subqueries.
var adversarial = []string{
	"WITH 1 AS x SELECT x UNION SELECT 2 UNION ALL SELECT 3",
	"WITH 1 AS x SELECT x UNION DISTINCT SELECT 2 UNION SELECT 3",
	"WITH 1 AS x SELECT x UNION ALL SELECT 2 UNION SELECT 3 UNION ALL SELECT 4",
	"SELECT 1 UNION SELECT 2 UNION ALL SELECT 3",
	"SELECT 1 UNION DISTINCT SELECT 2 UNION ALL SELECT 3 UNION SELECT 4",
	"WITH 1 AS x SELECT x INTERSECT SELECT 2 UNION SELECT 3 UNION ALL SELECT 4",
	"SELECT `a\nb`",
	"SELECT 1 AS `a\nb`",
	"SELECT * FROM `a\nb`",
	"SELECT 'a\nb', \"c\\nd\"",
	"SELECT (EXPLAIN SELECT 1)",
	"SELECT * FROM (EXPLAIN SELECT 1)",
	"SELECT * FROM (EXPLAIN AST SELECT * FROM (EXPLAIN SELECT 1))",
	"SELECT * FROM view(SELECT 1 UNION ALL SELECT 2)",
	"SELECT 1 IN (SELECT 1), EXISTS (SELECT 2), (SELECT 3)",
}

func composeQueries(inputs []string, k int, seed uint64) []string {
	var sel []string
	for _, q := range inputs {
		if w := firstWord(q); (w == "SELECT" || w == "WITH") && len(q) < 400 {
			sel = append(sel, bodyOf(q))
		}
	}
	if len(sel) == 0 {
		return nil
	}
	g := caseRng(seed, -1)
	pick := func() string { return sel[g.intn(len(sel))] }
	ops := []string{"UNION ALL", "UNION DISTINCT", "UNION", "INTERSECT", "EXCEPT", "INTERSECT DISTINCT", "EXCEPT ALL"}
	op := func() string { return ops[g.intn(len(ops))] }
	out := make([]string, 0, k+len(adversarial))
	out = append(out, adversarial...)
	for i := 0; i < k; i++ {
		a, b, c := pick(), pick(), pick()
		var q string
		switch g.intn(12) {
		case 0, 1:
			q = a + " " + op() + " " + b
		case 2:
			q = a + " " + op() + " " + b + " " + op() + " " + c
		case 3:
			q = a + " UNION DISTINCT " + b + " UNION ALL " + c
		case 4:
			q = a + " " + op() + " (" + b + ")"
		case 5:
			q = a + " " + op() + " (" + b + " " + op() + " " + c + ")"
		case 6:
			q = "SELECT * FROM (" + a + ") WHERE 1 IN (" + b + ")"
		case 7:
			q = "WITH w AS (" + a + ") " + b
		case 8:
			q = "WITH 1 AS one " + "SELECT one " + op() + " " + b
		case 9:
			q = "WITH (" + a + ") AS s SELECT s " + op() + " " + b + " " + op() + " " + c
		case 10:
			q = "SELECT (" + a + "), EXISTS (" + b + ") FROM (" + c + ") AS x"
		case 11:
			q = "SELECT * FROM view(" + a + ") " + op() + " " + b
		}
		out = append(out, strings.ReplaceAll(q, "\n", " "))
	}
	return out
}

// ---------------------------------------------------------------------------------------------
// the fresh-process oracle

func digest(text string, panicked bool) string {
	if panicked {
		return "PANIC"
	}
	h := sha256.Sum256([]byte(text))
	return hex.EncodeToString(h[:8])
}

// child: stdin = one hex SQL per line; stdout = digest of Explain of the single statement, or ERR
func childMain(timeout time.Duration) {
	in := bufio.NewScanner(os.Stdin)
	in.Buffer(make([]byte, 1<<20), 1<<26)
	out := bufio.NewWriter(os.Stdout)
	defer out.Flush()
	for in.Scan() {
		b, err := hex.DecodeString(strings.TrimSpace(in.Text()))
		if err != nil {
			fmt.Fprintln(out, "ERR")
			continue
		}
		stmts, perr, pp := parseOne(string(b), timeout)
		if pp || perr != nil || len(stmts) != 1 {
			fmt.Fprintln(out, "ERR")
			continue
		}
		fmt.Fprintln(out, digest(explainOne(stmts[0])))
	}
}

func freshDigests(self string, sqls []string) ([]string, error) {
	var in bytes.Buffer
	for _, s := range sqls {
		in.WriteString(hex.EncodeToString([]byte(s)))
		in.WriteByte('\n')
	}
	cmd := exec.Command(self, "-child")
	cmd.Stdin = &in
	outb, err := cmd.Output()
	if err != nil {
		return nil, err
	}
	return strings.Split(strings.TrimSuffix(string(outb), "\n"), "\n"), nil
}

// ---------------------------------------------------------------------------------------------

type runner struct {
	inputs  []string
	parsed  map[int][]ast.Statement // cache of the history pool
	timeout time.Duration
	nhist   int  // Explain calls executed as history
	tails   bool // diagnostic: do not skip queries with a tail
}

// history executes a random prefix of Explain calls on statements of earlier inputs.
func (r *runner) history(g *rng, idx int) {
	if idx == 0 {
		return
	}
	n := g.intn(5)
	for i := 0; i < n; i++ {
		j := g.intn(idx)
		st, ok := r.parsed[j]
		if !ok {
			stmts, err, pp := parseOne(r.inputs[j], r.timeout)
			if pp || err != nil {
				stmts = nil
			}
			st = stmts
			if len(r.parsed) < 20000 {
				r.parsed[j] = st
			}
		}
		for _, s := range st {
			explainOne(s)
			r.nhist++
		}
	}
}

type verdict struct {
	status string // ok | BAD | skip
	detail string
	n      int
}

func (r *runner) check(idx int, seed uint64, fresh bool, self string, only map[string]bool) verdict {
	var bads []string // every failing context; the verdict carries the first one in full
	bad := func(detail string) { bads = append(bads, detail) }
	q := r.inputs[idx]
	if w := firstWord(q); w != "SELECT" && w != "WITH" {
		return verdict{status: "skip", detail: "not-select"}
	}
	g := caseRng(seed, idx)
	stmts, err, pp := parseOne(q, r.timeout)
	switch {
	case pp:
		return verdict{status: "skip", detail: "parse-panic"}
	case err != nil:
		return verdict{status: "skip", detail: "parse-error"}
	case len(stmts) != 1:
		return verdict{status: "skip", detail: "multi"}
	}
	if _, isUnion := stmts[0].(*ast.SelectWithUnionQuery); !isUnion {
		return verdict{status: "skip", detail: "not-union"}
	}
	if nameWithNewline(q) {
		return verdict{status: "skip", detail: "label-newline"}
	}
	if hasTail(stmts[0]) && !r.tails {
		return verdict{status: "skip", detail: "tail"}
	}
	r.history(g, idx)
	base, bp := explainOne(stmts[0])
	if bp {
		return verdict{status: "skip", detail: "explain-panic"}
	}
	want := splitLines(base)
	body := bodyOf(q)

	var freshSQL []string
	var freshWant []string
	n := 0
	for _, c := range contexts {
		if len(only) > 0 && !only[c.name] {
			continue
		}
		sql := c.pre + body + c.post
		es, eerr, epp := parseOne(sql, r.timeout)
		if epp || eerr != nil || len(es) != 1 {
			if c.kind == ctxOptional {
				continue
			}
			why := "parse-error"
			if epp {
				why = "parse-panic"
			} else if eerr == nil {
				why = fmt.Sprintf("parse-count %d", len(es))
			} else {
				why += ": " + strings.SplitN(eerr.Error(), "\n", 2)[0]
			}
			bad(c.name + " " + why)
			continue
		}
		r.history(g, idx)
		text, tp := explainOne(es[0])
		if tp {
			bad(c.name + " explain-panic")
			continue
		}
		// what was rendered before: a second evaluation after another history
		r.history(g, idx)
		text2, tp2 := explainOne(es[0])
		if tp2 || text2 != text {
			bad(c.name + " history: " + firstDiff(splitLines(text), splitLines(text2)))
			continue
		}
		have := splitLines(text)
		if c.kind == ctxSame {
			if text != base {
				bad(c.name + " differs: " + firstDiff(want, have))
				continue
			}
		} else if ok, what := findBlock(want, have); !ok {
			bad(c.name + " " + what)
			continue
		}
		n++
		if fresh {
			freshSQL = append(freshSQL, sql)
			freshWant = append(freshWant, digest(text, false))
		}
	}
	// Explain(q) again, after everything else
	r.history(g, idx)
	if again, ap := explainOne(stmts[0]); ap || again != base {
		bad("self history: " + firstDiff(want, splitLines(again)))
	}
	if len(bads) > 0 {
		d := bads[0]
		if len(bads) > 1 {
			var names []string
			for _, b := range bads[1:] {
				names = append(names, strings.SplitN(b, " ", 2)[0])
			}
			d += " [also: " + strings.Join(names, ",") + "]"
		}
		return verdict{status: "BAD", detail: d}
	}
	if fresh {
		// reverse order in the child: embeddings first (last one first), q last
		for i, j := 0, len(freshSQL)-1; i < j; i, j = i+1, j-1 {
			freshSQL[i], freshSQL[j] = freshSQL[j], freshSQL[i]
			freshWant[i], freshWant[j] = freshWant[j], freshWant[i]
		}
		freshSQL = append(freshSQL, q)
		freshWant = append(freshWant, digest(base, false))
		got, ferr := freshDigests(self, freshSQL)
		if ferr != nil || len(got) != len(freshWant) {
			return verdict{status: "BAD", detail: fmt.Sprintf("fresh child failed: %v", ferr)}
		}
		for i := range got {
			if got[i] != freshWant[i] {
				return verdict{status: "BAD", detail: fmt.Sprintf("fresh: digest %s in a fresh process, %s here, for %q", got[i], freshWant[i], freshSQL[i])}
			}
		}
	}
	return verdict{status: "ok", n: n}
}

func main() {
	useHex := flag.Bool("hex", false, "input (and echoed) queries are lowercase hex")
	corpus := flag.String("corpus", "", "take the statements from <dir>/*/query.sql instead of stdin")
	inFile := flag.String("in", "", "read the queries from FILE instead of stdin")
	timeout := flag.Duration("timeout", 5*time.Second, "context timeout per Parse call")
	seedFlag := flag.Uint64("seed", 0, "random seed (default $VERIF_SEED, default 1)")
	freshEvery := flag.Int("fresh", 0, "re-evaluate every N-th checked query in a fresh child process (0 = never)")
	onlyIdx := flag.Int("only", -1, "check the input with this 0-based index only (earlier inputs still feed the history)")
	ctxList := flag.String("ctx", "", "comma-separated context names to check (default all)")
	quiet := flag.Bool("q", false, "print BAD lines only")
	child := flag.Bool("child", false, "internal: fresh-process digest mode")
	compose := flag.Int("compose", 0, "append K queries composed from random inputs (set operations, nesting, WITH) to the inputs")
	extra := flag.Bool("extra", false, "also check the contexts of extraContexts (outside the property's list)")
	tails := flag.Bool("tails", false, "DIAGNOSTIC: also check queries with a FORMAT/SETTINGS/INTO OUTFILE tail (outside the property)")
	flag.Parse()

	if *child {
		childMain(*timeout)
		return
	}
	seed := *seedFlag
	if seed == 0 {
		seed = 1
		if s := os.Getenv("VERIF_SEED"); s != "" {
			if v, err := strconv.ParseUint(s, 10, 64); err == nil {
				seed = v
			}
		}
	}
	only := map[string]bool{}
	for _, c := range strings.Split(*ctxList, ",") {
		if c != "" {
			only[c] = true
		}
	}
	self, _ := os.Executable()
	if *extra {
		contexts = append(contexts, extraContexts...)
	}

	var inputs []string
	if *corpus != "" {
		inputs = corpusStatements(*corpus)
	} else {
		f := os.Stdin
		if *inFile != "" {
			var err error
			if f, err = os.Open(*inFile); err != nil {
				fmt.Fprintln(os.Stderr, "embed:", err)
				os.Exit(2)
			}
		}
		sc := bufio.NewScanner(f)
		sc.Buffer(make([]byte, 1<<20), 1<<26)
		for sc.Scan() {
			line := strings.TrimRight(sc.Text(), "\r")
			if *useHex {
				if line == "-" {
					line = ""
				} else if b, err := hex.DecodeString(line); err == nil {
					line = string(b)
				} else {
					fmt.Fprintf(os.Stderr, "embed: bad hex input line skipped: %.40s\n", line)
					continue
				}
			}
			inputs = append(inputs, line)
		}
	}

	if *compose > 0 {
		inputs = append(inputs, composeQueries(inputs, *compose, seed)...)
	}

	r := &runner{inputs: inputs, parsed: map[int][]ast.Statement{}, timeout: *timeout, tails: *tails}
	out := bufio.NewWriterSize(os.Stdout, 1<<20)
	defer out.Flush()
	counts := map[string]int{}
	badCtx := map[string]int{}
	checked, embeddings, freshRuns := 0, 0, 0
	for idx := range inputs {
		if *onlyIdx >= 0 && idx != *onlyIdx {
			continue
		}
		if strings.TrimSpace(inputs[idx]) == "" {
			continue
		}
		fresh := false
		if *freshEvery > 0 {
			// decided on the index so that the choice does not depend on earlier verdicts
			fresh = idx%*freshEvery == 0
		}
		v := r.check(idx, seed, fresh, self, only)
		echo := inputs[idx]
		if *useHex {
			echo = hexOf(echo)
		} else if strings.ContainsAny(echo, "\n\r\t") {
			echo = "quoted:" + strconv.Quote(echo) // keep one output line per input
		}
		switch v.status {
		case "ok":
			counts["ok"]++
			checked++
			embeddings += v.n
			if fresh {
				freshRuns++
			}
			if !*quiet {
				fmt.Fprintf(out, "ok %d\t%s\n", v.n, echo)
			}
		case "BAD":
			counts["BAD"]++
			checked++
			badCtx[strings.SplitN(v.detail, " ", 2)[0]]++
			fmt.Fprintf(out, "BAD %s\t%s\n", v.detail, echo)
		default:
			counts["skip "+v.detail]++
			if !*quiet {
				fmt.Fprintf(out, "skip %s\t%s\n", v.detail, echo)
			}
		}
	}
	keys := make([]string, 0, len(counts))
	for k := range counts {
		keys = append(keys, k)
	}
	sort.Strings(keys)
	var sb strings.Builder
	for _, k := range keys {
		fmt.Fprintf(&sb, " %s=%d", strings.ReplaceAll(k, " ", ":"), counts[k])
	}
	bk := make([]string, 0, len(badCtx))
	for k := range badCtx {
		bk = append(bk, k)
	}
	sort.Strings(bk)
	for _, k := range bk {
		fmt.Fprintf(&sb, " bad[%s]=%d", k, badCtx[k])
	}
	fmt.Fprintf(os.Stderr, "SUMMARY inputs=%d checked=%d embeddings=%d history-explains=%d fresh-processes=%d seed=%d%s\n",
		len(inputs), checked, embeddings, r.nhist, freshRuns, seed, sb.String())
}
