//go:build verif

// stmtcount: the implementation side of the C04 count-vs-emit correspondence for the statement
// printers of /repo/internal/explain outside the SELECT and DDL models: statements.go
// (INSERT, DROP, UNDROP, RENAME, EXCHANGE, TRUNCATE, OPTIMIZE, DELETE, CHECK, USE, DESCRIBE, EXISTS,
// SHOW, SYSTEM, EXPLAIN, DETACH, ATTACH, BACKUP, RESTORE, KILL, CREATE INDEX, UPDATE / Assignment,
// PARALLEL WITH), the statements Node prints inline (explain.go), dictionary.go and tables.go.
//
// It BUILDS the ast values directly (no parsing), so that every combination of optional fields is
// reachable, including the ones the parser never produces, calls parser.Explain on a statement
// containing the value and reports, for the subtree printed for it: the "(children N)" count of
// its first line, the number of lines printed one level below that line, the md5 of the
// (de-indented) text, and whether the WHOLE subtree is a well-formed tree.
//
// stdin : one case per line:  <kind> TAB <spec>      (digits, one per field; see the build* functions;
//
//	        the model side /verif/driver/stmtcount/main.ml decodes the same specs)
//
//		INS 12  Infile Compression Function Database Table len(ColumnExpressions)0..2 len(Columns)0..2 AllColumns
//		        PartitionBy(0 nil,1 identifier,2 call) Select(0 nil,1 union SELECT q,2 union SELECT q FORMAT Null SETTINGS s,
//		        3 a SelectQuery, 4 union of two with union-level SETTINGS) len(With)0..2 HasSettings
//		DRP 16  User Function Role Quota Policy RowPolicy SettingsProfile Index len(Tables)0..3 Database Table View
//		        Dictionary DropDatabase Format len(Settings)0..2
//		UND 3   Database Table Format
//		REN 9   RenameDatabase len(Settings)0..2 npairs0..3 then (FromDatabase ToDatabase) x 3
//		EXC 2   Database1 Database2
//		TRU 3   Database TruncateDatabase len(Settings)
//		OPT 7   Database Final Cleanup Dedupe Partition(0 nil,1 identifier aLl,2 string literal,3 identifier) PartitionByID len(Settings)
//		DEL 3   Partition Where len(Settings)
//		CHK 3   Database Format len(Settings)
//		USE 1   (ignored)
//		DSC 6   TableExpr TableFunction Database Table Format len(Settings)
//		EXS 3   ExistsType(0 TABLE,1 DICTIONARY,2 DATABASE,3 VIEW,4 "") Database len(Settings)
//		SHW <ShowType string>:5   Database From Format HasSettings MultipleUsers
//		SYS 5   Command(0 RELOAD CONFIG,1 FLUSH LOGS,2 flush logs query_log) Database Table DuplicateTableOutput len(Settings)
//		EXP 11  ExplainType(0 AST,1 SYNTAX,2 PLAN,3 PIPELINE,4 ESTIMATE,5 QUERY TREE,6 CURRENT TRANSACTION,7 "",8 OTHER)
//		        ExplicitType HasSettings Statement(0 nil,1 union of one select,2 union of two,3 a SelectQuery,4 union whose first
//		        member is a parenthesised select) Format(of the first select) len(Settings)(of it) SettingsAfterFormat(of it)
//		        len(union Settings) union SettingsAfterFormat union SettingsBeforeFormat nested(0 top level,1 inside PARALLEL WITH)
//		DET 3   Database Table Dictionary
//		ATT 14  Database Table Dictionary ncolumns0..2 len(ColumnsPrimaryKey)0..3 HasEmptyColumnsPrimaryKey nindexes0..2
//		        Engine(0..4) len(OrderBy)0..2 len(PrimaryKey)0..2 IsMaterializedView PartitionBy SelectQuery len(Settings)
//		BAK 3   restore(0 BACKUP,1 RESTORE) Target(0 nil,1..3: 0..2 arguments) Format
//		KIL 5   Where(0 nil,1 a = b,2 call,3 identifier,4 a <> b,5 a AND b) Sync Test Format len(Settings)
//		CIX 4   Type ColumnsParenthesized len(Columns)0..3 kind of the first (0 identifier,3 call)
//		ASG 1   Value                      (inside an UpdateQuery; subtree: the Assignment line)
//		UPD 3   Database Where nassignments0..3 (the third has a nil Value)
//		PAR 2   nstatements0..3 (the third is a nil Statement) kind of the first(0 DropQuery with Tables,1 CreateQuery,2 InsertQuery,3 UseQuery)
//		ONE 2   index into singleLine (two digits)
//		FMT 3   which(0 quota,1 settings profile,2 row policy,3 role,4 grants) Format several
//		RES 1   (ignored)        WRK 1  Parent
//		DAT 3   Type Default Expression     (inside CREATE DICTIONARY; subtree: the DictionaryAttributeDeclaration line)
//		DDF 6   len(PrimaryKey)0..2 Source(0 nil,1 no args,2 two args, the second with a nil Value) Lifetime
//		        Layout(0 nil,1 no args,2 one arg) Range len(Settings)      (subtree: the "Dictionary definition" line)
//		TEL 3   ArrayJoin(0 nil,1 no columns,2 two columns) Table Join   (inside SELECT .. FROM; subtree: TablesInSelectQueryElement)
//		TEX 3   Table(0 nil,1 subquery,2 subquery of EXPLAIN,3 subquery of EXPLAIN SYNTAX with options,4 function,5 table identifier,
//		        6 db.table identifier,7 another expression) Alias Sample(0 nil,1 ratio,2 ratio and offset)   (subtree: TableExpression)
//		TJN 2   On Using(0 nil,1 non-nil empty,2 two)                     (subtree: TableJoin)
//
// stdout: one line per case:
//
//	<header count> TAB <direct children> TAB <md5 of the text> TAB <T|F: the subtree is a tree> TAB M
//
// (with -text: the lowercase hex of the text instead of its md5), or PANIC TAB M, or
// NOSUBTREE TAB M.  The OCaml driver /verif/driver/stmtcount prints the same line from the model.
//
// Build: cd /verif/harness && go build -tags verif -o /verif/build/stmtcount ./cmd/stmtcount
package main

import (
	"bufio"
	"crypto/md5"
	"encoding/hex"
	"flag"
	"fmt"
	"os"
	"regexp"
	"strconv"
	"strings"

	"github.com/sqlc-dev/doubleclick/ast"
	"github.com/sqlc-dev/doubleclick/parser"
)

func id(s string) *ast.Identifier { return &ast.Identifier{Parts: []string{s}} }

func ids(prefix string, n int) []ast.Expression {
	var out []ast.Expression
	for i := 1; i <= n; i++ {
		out = append(out, id(fmt.Sprintf("%s%d", prefix, i)))
	}
	return out
}

func names(prefix string, n int) []string {
	var out []string
	for i := 1; i <= n; i++ {
		out = append(out, fmt.Sprintf("%s%d", prefix, i))
	}
	return out
}

func opt(name string, d int) ast.Expression {
	if d == 0 {
		return nil
	}
	return id(name)
}

func str(name string, d int) string {
	if d == 0 {
		return ""
	}
	return name
}

func settings(prefix string, n int) []*ast.SettingExpr {
	var out []*ast.SettingExpr
	for i := 1; i <= n; i++ {
		out = append(out, &ast.SettingExpr{Name: fmt.Sprintf("%s%d", prefix, i), Value: id("v")})
	}
	return out
}

func digits(spec string, n int, what string) ([]int, error) {
	if len(spec) != n {
		return nil, fmt.Errorf("%s spec must have %d characters: %q", what, n, spec)
	}
	d := make([]int, n)
	for i := 0; i < n; i++ {
		if spec[i] < '0' || spec[i] > '9' {
			return nil, fmt.Errorf("bad digit in %s spec %q", what, spec)
		}
		d[i] = int(spec[i] - '0')
	}
	return d, nil
}

// kinds of a column's STATISTICS(...) / CODEC(...): kind j (from 1) has (j-1)%3 arguments
func fnList(prefix, argPrefix string, n int) []*ast.FunctionCall {
	var out []*ast.FunctionCall
	for j := 1; j <= n; j++ {
		out = append(out, &ast.FunctionCall{Name: fmt.Sprintf("%s%d", prefix, j), Arguments: ids(argPrefix, (j-1)%3)})
	}
	return out
}

func buildColumn(spec, name string) (*ast.ColumnDeclaration, error) {
	d, err := digits(spec, 9, "column")
	if err != nil {
		return nil, err
	}
	c := &ast.ColumnDeclaration{Name: name}
	if d[0] != 0 {
		c.Type = &ast.DataType{Name: "Int32"}
	}
	c.Statistics = fnList("st", "sa", d[1])
	c.Default = opt("dflt", d[2])
	switch d[3] {
	case 1:
		c.DefaultKind = "DEFAULT"
	case 2:
		c.DefaultKind = "EPHEMERAL"
	}
	c.TTL = opt("cttl", d[4])
	if d[5] == 9 {
		c.Codec = &ast.CodecExpr{}
	} else if d[5] != 0 {
		c.Codec = &ast.CodecExpr{Codecs: fnList("cd", "ca", d[5])}
	}
	c.Settings = settings("cs", d[6])
	c.Comment = str("cmt", d[7])
	c.PrimaryKey = d[8] != 0
	return c, nil
}

func fcall(name string, args ...ast.Expression) *ast.FunctionCall {
	return &ast.FunctionCall{Name: name, Arguments: args}
}

// an expression of the given kind: 0 identifier, 1 tuple literal of two identifiers, 2 empty tuple
// literal, 3 function call, 4 tuple literal with a nil Value
func keyExpr(kind int, name string) ast.Expression {
	switch kind {
	case 1:
		return &ast.Literal{Type: ast.LiteralTuple, Value: []ast.Expression{id(name + "a"), id(name + "b")}}
	case 2:
		return &ast.Literal{Type: ast.LiteralTuple, Value: []ast.Expression{}}
	case 3:
		return fcall("f", id(name))
	case 4:
		return &ast.Literal{Type: ast.LiteralTuple}
	}
	return id(name)
}

func keyList(n, firstKind int, prefix string) []ast.Expression {
	var out []ast.Expression
	for j := 1; j <= n; j++ {
		k := 0
		if j == 1 {
			k = firstKind
		}
		out = append(out, keyExpr(k, fmt.Sprintf("%s%d", prefix, j)))
	}
	return out
}

func buildIndex(spec string) (*ast.IndexDefinition, error) {
	d, err := digits(spec, 2, "index")
	if err != nil {
		return nil, err
	}
	i := &ast.IndexDefinition{Name: "i1"}
	switch d[0] {
	case 1:
		i.Expression = id("ie")
	case 2:
		i.Expression = fcall("f", id("ie"))
	case 3:
		i.Expression = keyExpr(1, "ie")
	}
	switch d[1] {
	case 1:
		i.Type = fcall("minmax")
	case 2:
		i.Type = fcall("set", id("ta"))
	}
	return i, nil
}

func selectQ(withFormat bool) *ast.SelectWithUnionQuery {
	q := &ast.SelectQuery{Columns: []ast.Expression{id("q")}}
	if withFormat {
		q.Format = id("Null")
	}
	return &ast.SelectWithUnionQuery{Selects: []ast.Statement{q}}
}

func buildEngine(d int, name, argPrefix string) *ast.EngineClause {
	switch d {
	case 0:
		return nil
	case 1:
		return &ast.EngineClause{Name: name}
	}
	return &ast.EngineClause{Name: name, HasParentheses: true, Parameters: ids(argPrefix, d-2)}
}

var childrenSuffix = regexp.MustCompile(` \(children ([0-9]+)\)$`)

func explain(st ast.Statement) (text string, panicked bool) {
	defer func() {
		if r := recover(); r != nil {
			panicked = true
		}
	}()
	return parser.Explain(st), false
}

func indentOf(l string) int { return len(l) - len(strings.TrimLeft(l, " ")) }

func countOf(l string) int {
	if m := childrenSuffix.FindStringSubmatch(l); m != nil {
		n, _ := strconv.Atoi(m[1])
		return n
	}
	return 0
}

// parseTree reads one tree rooted at indentation d from lines[i:]; returns the index after it, or -1
func parseTree(lines []string, i, d int) int {
	if i >= len(lines) || indentOf(lines[i]) != d {
		return -1
	}
	k := countOf(lines[i])
	i++
	for ; k > 0; k-- {
		if i = parseTree(lines, i, d+1); i < 0 {
			return -1
		}
	}
	return i
}

func isTree(lines []string) bool {
	return len(lines) > 0 && parseTree(lines, 0, 0) == len(lines)
}

// SELECT <name> [FORMAT Null] [SETTINGS s1 = v]
func simpleSelect(name string, format, nsettings int, after bool) *ast.SelectQuery {
	q := &ast.SelectQuery{Columns: []ast.Expression{id(name)}, SettingsAfterFormat: after}
	if format != 0 {
		q.Format = id("Null")
	}
	q.Settings = settings("s", nsettings)
	return q
}

func unionOf(nsettings int, after, before bool, sel ...ast.Statement) *ast.SelectWithUnionQuery {
	u := &ast.SelectWithUnionQuery{Selects: sel, SettingsAfterFormat: after, SettingsBeforeFormat: before}
	for i := 1; i < len(sel); i++ {
		u.UnionModes = append(u.UnionModes, "UNION ALL")
	}
	u.Settings = settings("us", nsettings)
	return u
}

func buildInsert(spec string) (ast.Statement, string, error) {
	d, err := digits(spec, 12, "insert")
	if err != nil {
		return nil, "", err
	}
	n := &ast.InsertQuery{Infile: str("in.csv", d[0]), Compression: str("gzip", d[1]), Database: str("db", d[3]), Table: str("tb", d[4])}
	if d[2] != 0 {
		n.Function = fcall("tf", id("ta"))
	}
	n.ColumnExpressions = ids("ce", d[5])
	for j := 1; j <= d[6]; j++ {
		c := &ast.Identifier{Parts: []string{fmt.Sprintf("col%d", j)}}
		if j == 2 {
			c = &ast.Identifier{Parts: []string{"tt", "col2"}}
		}
		n.Columns = append(n.Columns, c)
	}
	n.AllColumns = d[7] != 0
	switch d[8] {
	case 1:
		n.PartitionBy = id("pb")
	case 2:
		n.PartitionBy = fcall("f", id("pb"))
	}
	switch d[9] {
	case 1:
		n.Select = unionOf(0, false, false, simpleSelect("q", 0, 0, false))
	case 2:
		n.Select = unionOf(0, false, false, simpleSelect("q", 1, 1, false))
	case 3:
		n.Select = simpleSelect("q", 0, 0, false)
	case 4:
		n.Select = unionOf(1, false, false, simpleSelect("q", 0, 0, false), simpleSelect("r", 1, 0, false))
	}
	n.With = ids("iw", d[10])
	n.HasSettings = d[11] != 0
	return n, "", nil
}

func buildDrop(spec string) (ast.Statement, string, error) {
	d, err := digits(spec, 16, "drop")
	if err != nil {
		return nil, "", err
	}
	n := &ast.DropQuery{User: str("u", d[0]), Function: str("fn", d[1]), Role: str("r", d[2]), Quota: str("q", d[3]),
		Policy: str("p", d[4]), RowPolicy: str("rp", d[5]), SettingsProfile: str("sp", d[6]), Index: str("ix", d[7]),
		Database: str("db", d[9]), Table: str("tb", d[10]), View: str("vw", d[11]), Dictionary: str("dc", d[12]),
		DropDatabase: d[13] != 0, Format: str("Null", d[14]), Settings: settings("s", d[15])}
	for j := 1; j <= d[8]; j++ {
		t := &ast.TableIdentifier{Table: fmt.Sprintf("t%d", j)}
		if j == 2 {
			t.Database = "d2"
		}
		n.Tables = append(n.Tables, t)
	}
	return n, "", nil
}

func buildRename(spec string) (ast.Statement, string, error) {
	d, err := digits(spec, 9, "rename")
	if err != nil {
		return nil, "", err
	}
	n := &ast.RenameQuery{RenameDatabase: d[0] != 0, Settings: settings("s", d[1])}
	for j := 1; j <= d[2]; j++ {
		n.Pairs = append(n.Pairs, &ast.RenamePair{FromDatabase: str(fmt.Sprintf("fd%d", j), d[1+2*j]), FromTable: fmt.Sprintf("ft%d", j),
			ToDatabase: str(fmt.Sprintf("td%d", j), d[2+2*j]), ToTable: fmt.Sprintf("tt%d", j)})
	}
	return n, "", nil
}

func partitionExpr(k int) ast.Expression {
	switch k {
	case 1:
		return id("aLl")
	case 2:
		return &ast.Literal{Type: ast.LiteralString, Value: "p1"}
	case 3:
		return id("pp")
	}
	return nil
}

func buildExplainStmt(spec string) (ast.Statement, string, error) {
	d, err := digits(spec, 11, "explain")
	if err != nil {
		return nil, "", err
	}
	types := []ast.ExplainType{ast.ExplainAST, ast.ExplainSyntax, ast.ExplainPlan, ast.ExplainPipeline, ast.ExplainEstimate,
		ast.ExplainQueryTree, ast.ExplainCurrentTransaction, "", "OTHER"}
	n := &ast.ExplainQuery{ExplainType: types[d[0]], ExplicitType: d[1] != 0, HasSettings: d[2] != 0}
	first := simpleSelect("q", d[4], d[5], d[6] != 0)
	switch d[3] {
	case 1:
		n.Statement = unionOf(d[7], d[8] != 0, d[9] != 0, first)
	case 2:
		n.Statement = unionOf(d[7], d[8] != 0, d[9] != 0, first, simpleSelect("r", 1, 1, true))
	case 3:
		n.Statement = first
	case 4:
		n.Statement = unionOf(d[7], d[8] != 0, d[9] != 0, unionOf(0, false, false, simpleSelect("p", 1, 1, true)), first)
	}
	if d[10] != 0 {
		return &ast.ParallelWithQuery{Statements: []ast.Statement{n}}, "Explain", nil
	}
	return n, "", nil
}

func buildAttach(spec string) (ast.Statement, string, error) {
	d, err := digits(spec, 14, "attach")
	if err != nil {
		return nil, "", err
	}
	n := &ast.AttachQuery{Database: str("db", d[0]), Table: str("tb", d[1]), Dictionary: str("dc", d[2])}
	colSpecs := []string{"100000000", "131219111"}
	for j := 0; j < d[3]; j++ {
		c, err := buildColumn(colSpecs[j], fmt.Sprintf("c%d", j+1))
		if err != nil {
			return nil, "", err
		}
		n.Columns = append(n.Columns, c)
	}
	n.ColumnsPrimaryKey = ids("ck", d[4])
	n.HasEmptyColumnsPrimaryKey = d[5] != 0
	idxSpecs := []string{"11", "21"}
	for j := 0; j < d[6]; j++ {
		i, err := buildIndex(idxSpecs[j])
		if err != nil {
			return nil, "", err
		}
		n.Indexes = append(n.Indexes, i)
	}
	n.Engine = buildEngine(d[7], "Eng", "ep")
	n.OrderBy = ids("ob", d[8])
	n.PrimaryKey = ids("pk", d[9])
	n.IsMaterializedView = d[10] != 0
	n.PartitionBy = opt("pb", d[11])
	if d[12] != 0 {
		n.SelectQuery = selectQ(false)
	}
	n.Settings = settings("s", d[13])
	return n, "", nil
}

func targetFn(k int) *ast.FunctionCall {
	if k == 0 {
		return nil
	}
	return &ast.FunctionCall{Name: "Disk", Arguments: ids("ta", k-1)}
}

// the statements Node prints as one line without children
var singleLine = []func() ast.Statement{
	func() ast.Statement { return &ast.SetQuery{Settings: settings("s", 1)} },
	func() ast.Statement { return &ast.SetRoleQuery{} },
	func() ast.Statement { return &ast.TransactionControlQuery{Action: "BEGIN"} },
	func() ast.Statement { return &ast.TransactionControlQuery{Action: "COMMIT"} },
	func() ast.Statement { return &ast.TransactionControlQuery{Action: "ROLLBACK"} },
	func() ast.Statement { return &ast.TransactionControlQuery{Action: "SET_SNAPSHOT", Snapshot: 3} },
	func() ast.Statement { return &ast.ShowPrivilegesQuery{} },
	func() ast.Statement { return &ast.CreateQuotaQuery{} },
	func() ast.Statement { return &ast.CreateSettingsProfileQuery{} },
	func() ast.Statement { return &ast.AlterSettingsProfileQuery{} },
	func() ast.Statement { return &ast.DropSettingsProfileQuery{} },
	func() ast.Statement { return &ast.CreateNamedCollectionQuery{} },
	func() ast.Statement { return &ast.AlterNamedCollectionQuery{} },
	func() ast.Statement { return &ast.DropNamedCollectionQuery{} },
	func() ast.Statement { return &ast.CreateRowPolicyQuery{} },
	func() ast.Statement { return &ast.DropRowPolicyQuery{} },
	func() ast.Statement { return &ast.CreateRoleQuery{} },
	func() ast.Statement { return &ast.DropRoleQuery{} },
	func() ast.Statement { return &ast.DropResourceQuery{} },
	func() ast.Statement { return &ast.DropWorkloadQuery{} },
	func() ast.Statement { return &ast.GrantQuery{} },
	func() ast.Statement { return &ast.GrantQuery{IsRevoke: true} },
}

func kvPairs(prefix string, n int) []*ast.KeyValuePair {
	var out []*ast.KeyValuePair
	for j := 1; j <= n; j++ {
		p := &ast.KeyValuePair{Key: fmt.Sprintf("%s%d", prefix, j), Value: id(fmt.Sprintf("%sv%d", prefix, j))}
		if j == 2 {
			p.Value = nil
		}
		out = append(out, p)
	}
	return out
}

func intLit(v int64) *ast.Literal { return &ast.Literal{Type: ast.LiteralInteger, Value: v} }

// SELECT c FROM <element>
func fromElement(e *ast.TablesInSelectQueryElement) ast.Statement {
	return &ast.SelectQuery{Columns: []ast.Expression{id("c")}, From: &ast.TablesInSelectQuery{Tables: []*ast.TablesInSelectQueryElement{e}}}
}

// buildCase returns the statement and the label of the subtree to report ("" = the whole text)
func buildCase(kind, spec string) (ast.Statement, string, error) {
	switch kind {
	case "INS":
		return buildInsert(spec)
	case "DRP":
		return buildDrop(spec)
	case "UND":
		d, err := digits(spec, 3, "undrop")
		if err != nil {
			return nil, "", err
		}
		return &ast.UndropQuery{Database: str("db", d[0]), Table: str("tb", d[1]), Format: str("Null", d[2])}, "", nil
	case "REN":
		return buildRename(spec)
	case "EXC":
		d, err := digits(spec, 2, "exchange")
		if err != nil {
			return nil, "", err
		}
		return &ast.ExchangeQuery{Database1: str("d1", d[0]), Table1: "t1", Database2: str("d2", d[1]), Table2: "t2"}, "", nil
	case "TRU":
		d, err := digits(spec, 3, "truncate")
		if err != nil {
			return nil, "", err
		}
		return &ast.TruncateQuery{Database: str("db", d[0]), Table: "tb", TruncateDatabase: d[1] != 0, Settings: settings("s", d[2])}, "", nil
	case "OPT":
		d, err := digits(spec, 7, "optimize")
		if err != nil {
			return nil, "", err
		}
		return &ast.OptimizeQuery{Database: str("db", d[0]), Table: "tb", Final: d[1] != 0, Cleanup: d[2] != 0, Dedupe: d[3] != 0,
			Partition: partitionExpr(d[4]), PartitionByID: d[5] != 0, Settings: settings("s", d[6])}, "", nil
	case "DEL":
		d, err := digits(spec, 3, "delete")
		if err != nil {
			return nil, "", err
		}
		return &ast.DeleteQuery{Table: "tb", Partition: opt("pt", d[0]), Where: opt("wh", d[1]), Settings: settings("s", d[2])}, "", nil
	case "CHK":
		d, err := digits(spec, 3, "check")
		if err != nil {
			return nil, "", err
		}
		return &ast.CheckQuery{Database: str("db", d[0]), Table: "tb", Format: str("Null", d[1]), Settings: settings("s", d[2])}, "", nil
	case "USE":
		return &ast.UseQuery{Database: "db"}, "", nil
	case "DSC":
		d, err := digits(spec, 6, "describe")
		if err != nil {
			return nil, "", err
		}
		n := &ast.DescribeQuery{Database: str("db", d[2]), Table: str("tb", d[3]), Format: str("Null", d[4]), Settings: settings("s", d[5])}
		if d[0] != 0 {
			n.TableExpr = &ast.TableExpression{Table: &ast.TableIdentifier{Table: "te"}}
		}
		if d[1] != 0 {
			n.TableFunction = fcall("tf", id("ta"))
		}
		return n, "", nil
	case "EXS":
		d, err := digits(spec, 3, "exists")
		if err != nil {
			return nil, "", err
		}
		types := []ast.ExistsType{ast.ExistsTable, ast.ExistsDictionary, ast.ExistsDatabase, ast.ExistsView, ""}
		return &ast.ExistsQuery{ExistsType: types[d[0]], Database: str("db", d[1]), Table: "tb", Settings: settings("s", d[2])}, "", nil
	case "SHW":
		f := strings.SplitN(spec, ":", 2)
		if len(f) != 2 {
			return nil, "", fmt.Errorf("show spec must be <type>:<digits>: %q", spec)
		}
		d, err := digits(f[1], 5, "show")
		if err != nil {
			return nil, "", err
		}
		return &ast.ShowQuery{ShowType: ast.ShowType(f[0]), Database: str("db", d[0]), From: str("fr", d[1]), Format: str("Null", d[2]),
			HasSettings: d[3] != 0, MultipleUsers: d[4] != 0}, "", nil
	case "SYS":
		d, err := digits(spec, 5, "system")
		if err != nil {
			return nil, "", err
		}
		cmds := []string{"RELOAD CONFIG", "FLUSH LOGS", "flush logs query_log"}
		return &ast.SystemQuery{Command: cmds[d[0]], Database: str("db", d[1]), Table: str("tb", d[2]), DuplicateTableOutput: d[3] != 0,
			Settings: settings("s", d[4])}, "", nil
	case "EXP":
		return buildExplainStmt(spec)
	case "DET":
		d, err := digits(spec, 3, "detach")
		if err != nil {
			return nil, "", err
		}
		return &ast.DetachQuery{Database: str("db", d[0]), Table: str("tb", d[1]), Dictionary: str("dc", d[2])}, "", nil
	case "ATT":
		return buildAttach(spec)
	case "BAK":
		d, err := digits(spec, 3, "backup")
		if err != nil {
			return nil, "", err
		}
		if d[0] != 0 {
			return &ast.RestoreQuery{Table: "tb", Source: targetFn(d[1]), Format: str("Null", d[2])}, "", nil
		}
		return &ast.BackupQuery{Table: "tb", Target: targetFn(d[1]), Format: str("Null", d[2])}, "", nil
	case "KIL":
		d, err := digits(spec, 5, "kill")
		if err != nil {
			return nil, "", err
		}
		n := &ast.KillQuery{Type: "QUERY", Sync: d[1] != 0, Test: d[2] != 0, Format: str("Null", d[3]), Settings: settings("s", d[4])}
		switch d[0] {
		case 1:
			n.Where = &ast.BinaryExpr{Left: id("ka"), Op: "=", Right: id("kb")}
		case 2:
			n.Where = fcall("kf", id("ka"))
		case 3:
			n.Where = id("kw")
		case 4:
			n.Where = &ast.BinaryExpr{Left: id("ka"), Op: "<>", Right: id("kb")}
		case 5:
			n.Where = &ast.BinaryExpr{Left: id("ka"), Op: "AND", Right: id("kb")}
		}
		return n, "", nil
	case "CIX":
		d, err := digits(spec, 4, "create index")
		if err != nil {
			return nil, "", err
		}
		return &ast.CreateIndexQuery{Table: "tb", IndexName: "ix", Type: str("minmax", d[0]), ColumnsParenthesized: d[1] != 0,
			Columns: keyList(d[2], d[3], "c")}, "", nil
	case "ASG":
		d, err := digits(spec, 1, "assignment")
		if err != nil {
			return nil, "", err
		}
		return &ast.UpdateQuery{Table: "tb", Where: id("wh"), Assignments: []*ast.Assignment{{Column: "a1", Value: opt("v1", d[0])}}}, "Assignment", nil
	case "UPD":
		d, err := digits(spec, 3, "update")
		if err != nil {
			return nil, "", err
		}
		n := &ast.UpdateQuery{Database: str("db", d[0]), Table: "tb", Where: opt("wh", d[1])}
		for j := 1; j <= d[2]; j++ {
			a := &ast.Assignment{Column: fmt.Sprintf("a%d", j), Value: id(fmt.Sprintf("v%d", j))}
			if j == 3 {
				a.Value = nil
			}
			n.Assignments = append(n.Assignments, a)
		}
		return n, "", nil
	case "PAR":
		d, err := digits(spec, 2, "parallel with")
		if err != nil {
			return nil, "", err
		}
		n := &ast.ParallelWithQuery{}
		for j := 1; j <= d[0]; j++ {
			var s ast.Statement = &ast.UseQuery{Database: fmt.Sprintf("u%d", j)}
			if j == 1 {
				switch d[1] {
				case 0:
					s = &ast.DropQuery{Tables: []*ast.TableIdentifier{{Table: "x1"}, {Table: "x2"}}}
				case 1:
					s = &ast.CreateQuery{Table: "ct"}
				case 2:
					s = &ast.InsertQuery{Table: "it"}
				}
			}
			if j == 3 {
				s = nil
			}
			n.Statements = append(n.Statements, s)
		}
		return n, "", nil
	case "ONE":
		d, err := digits(spec, 2, "single line")
		if err != nil {
			return nil, "", err
		}
		k := 10*d[0] + d[1]
		if k >= len(singleLine) {
			return nil, "", fmt.Errorf("no single-line statement %d", k)
		}
		return singleLine[k](), "", nil
	case "FMT":
		d, err := digits(spec, 3, "format child")
		if err != nil {
			return nil, "", err
		}
		f := str("Null", d[1])
		switch d[0] {
		case 0:
			return &ast.ShowCreateQuotaQuery{Name: "q", Format: f}, "", nil
		case 1:
			return &ast.ShowCreateSettingsProfileQuery{Names: names("p", 1+d[2]), Format: f}, "", nil
		case 2:
			return &ast.ShowCreateRowPolicyQuery{Format: f}, "", nil
		case 3:
			return &ast.ShowCreateRoleQuery{RoleCount: 1 + d[2], Format: f}, "", nil
		}
		return &ast.ShowGrantsQuery{Format: f}, "", nil
	case "RES":
		return &ast.CreateResourceQuery{Name: "res"}, "", nil
	case "WRK":
		d, err := digits(spec, 1, "workload")
		if err != nil {
			return nil, "", err
		}
		return &ast.CreateWorkloadQuery{Name: "wl", Parent: str("par", d[0])}, "", nil
	case "DAT":
		d, err := digits(spec, 3, "dictionary attribute")
		if err != nil {
			return nil, "", err
		}
		a := &ast.DictionaryAttributeDeclaration{Name: "da1", Default: opt("dd", d[1]), Expression: opt("de", d[2])}
		if d[0] != 0 {
			a.Type = &ast.DataType{Name: "UInt64"}
		}
		return &ast.CreateQuery{CreateDictionary: true, Table: "dict", DictionaryAttrs: []*ast.DictionaryAttributeDeclaration{a}},
			"DictionaryAttributeDeclaration", nil
	case "DDF":
		d, err := digits(spec, 6, "dictionary definition")
		if err != nil {
			return nil, "", err
		}
		def := &ast.DictionaryDefinition{PrimaryKey: ids("pk", d[0]), Settings: settings("s", d[5])}
		if d[1] != 0 {
			def.Source = &ast.DictionarySource{Type: "ClickHouse", Args: kvPairs("sa", 2*(d[1]-1))}
		}
		if d[2] != 0 {
			def.Lifetime = &ast.DictionaryLifetime{Min: id("lmin"), Max: id("lmax")}
		}
		if d[3] != 0 {
			def.Layout = &ast.DictionaryLayout{Type: "FLAT", Args: kvPairs("la", d[3]-1)}
		}
		if d[4] != 0 {
			def.Range = &ast.DictionaryRange{Min: id("rmin"), Max: id("rmax")}
		}
		return &ast.CreateQuery{CreateDictionary: true, Table: "dict", DictionaryDef: def}, "Dictionary definition", nil
	case "TEL":
		d, err := digits(spec, 3, "tables element")
		if err != nil {
			return nil, "", err
		}
		e := &ast.TablesInSelectQueryElement{}
		switch d[0] {
		case 1:
			e.ArrayJoin = &ast.ArrayJoinClause{}
		case 2:
			e.ArrayJoin = &ast.ArrayJoinClause{Columns: ids("aj", 2)}
		}
		if d[1] != 0 {
			e.Table = &ast.TableExpression{Table: &ast.TableIdentifier{Table: "t1"}}
		}
		if d[2] != 0 {
			e.Join = &ast.TableJoin{On: id("jo")}
		}
		return fromElement(e), "TablesInSelectQueryElement", nil
	case "TEX":
		d, err := digits(spec, 3, "table expression")
		if err != nil {
			return nil, "", err
		}
		t := &ast.TableExpression{Alias: str("al", d[1])}
		switch d[0] {
		case 1:
			t.Table = &ast.Subquery{Query: selectQ(false)}
		case 2:
			t.Table = &ast.Subquery{Query: &ast.ExplainQuery{ExplainType: ast.ExplainPlan, Statement: selectQ(false)}}
		case 3:
			t.Table = &ast.Subquery{Query: &ast.ExplainQuery{ExplainType: ast.ExplainSyntax, ExplicitType: true, OptionsString: "oneline = 1"}}
		case 4:
			t.Table = fcall("tf", id("ta"))
		case 5:
			t.Table = &ast.TableIdentifier{Table: "t1"}
		case 6:
			t.Table = &ast.TableIdentifier{Database: "d1", Table: "t1"}
		case 7:
			t.Table = id("other")
		}
		switch d[2] {
		case 1:
			t.Sample = &ast.SampleClause{Ratio: &ast.BinaryExpr{Left: intLit(1), Op: "/", Right: intLit(10)}}
		case 2:
			t.Sample = &ast.SampleClause{Ratio: &ast.BinaryExpr{Left: intLit(1), Op: "/", Right: intLit(10)}, Offset: intLit(2)}
		}
		return fromElement(&ast.TablesInSelectQueryElement{Table: t}), "TableExpression", nil
	case "TJN":
		d, err := digits(spec, 2, "table join")
		if err != nil {
			return nil, "", err
		}
		j := &ast.TableJoin{On: opt("jo", d[0])}
		switch d[1] {
		case 1:
			j.Using = []ast.Expression{}
		case 2:
			j.Using = ids("ju", 2)
		}
		return fromElement(&ast.TablesInSelectQueryElement{Table: &ast.TableExpression{Table: &ast.TableIdentifier{Table: "t1"}}, Join: j}), "TableJoin", nil
	}
	return nil, "", fmt.Errorf("unknown kind %q", kind)
}

func main() {
	asText := flag.Bool("text", false, "print the hex of the text instead of its md5")
	flag.Parse()
	in := bufio.NewScanner(os.Stdin)
	in.Buffer(make([]byte, 1<<20), 1<<26)
	out := bufio.NewWriterSize(os.Stdout, 1<<20)
	defer out.Flush()
	for in.Scan() {
		line := in.Text()
		if line == "" {
			continue
		}
		f := strings.Split(line, "\t")
		if len(f) != 2 {
			fmt.Fprintf(os.Stderr, "stmtcount: bad case line %q\n", line)
			os.Exit(2)
		}
		st, label, err := buildCase(f[0], f[1])
		if err != nil {
			fmt.Fprintf(os.Stderr, "stmtcount: %v in %q\n", err, line)
			os.Exit(2)
		}
		text, p := explain(st)
		if p {
			fmt.Fprintln(out, "PANIC\tM")
			continue
		}
		lines := strings.Split(text, "\n")
		if n := len(lines); n > 0 && lines[n-1] == "" {
			lines = lines[:n-1]
		}
		if label != "" {
			start, ind := -1, 0
			for i := 1; i < len(lines); i++ {
				t := strings.TrimLeft(lines[i], " ")
				if t == label || strings.HasPrefix(t, label+" ") {
					start, ind = i, len(lines[i])-len(t)
					break
				}
			}
			if start < 0 {
				fmt.Fprintln(out, "NOSUBTREE\tM")
				continue
			}
			end := start + 1
			for end < len(lines) && indentOf(lines[end]) > ind {
				end++
			}
			sub := make([]string, 0, end-start)
			for _, l := range lines[start:end] {
				sub = append(sub, l[ind:])
			}
			lines = sub
			text = strings.Join(sub, "\n") + "\n"
		}
		header, direct := 0, 0
		if len(lines) > 0 {
			header = countOf(lines[0])
			for _, l := range lines[1:] {
				if indentOf(l) == 1 {
					direct++
				}
			}
		}
		tree := "F"
		if isTree(lines) {
			tree = "T"
		}
		var third string
		if *asText {
			third = "-"
			if text != "" {
				third = hex.EncodeToString([]byte(text))
			}
		} else {
			sum := md5.Sum([]byte(text))
			third = hex.EncodeToString(sum[:])
		}
		fmt.Fprintf(out, "%d\t%d\t%s\t%s\tM\n", header, direct, third, tree)
	}
}
