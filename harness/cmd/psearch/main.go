//go:build verif

// psearch: implementation-side search shared by C01 (no panic), C02 (step bound), C03 (usable AST) and C04
// (well-formed EXPLAIN; the text is handed to the verified checker).
//
//	psearch gen -mode mutate|exhaustive|nest -seed S -n N [-corpus file]   -> hex inputs on stdout
//	psearch run [-E e -B b] [-explain]                                     <- hex inputs on stdin
//
// run prints per input:  <status>\t<tokens>\t<steps>\t<detail>[\t<hex explain>]
// status: ok (err == nil, all C03 clauses hold) | err | PANIC | BUDGET (proved bound exceeded) | SLOW (empirical bound exceeded) | C03
package main

import (
	"bufio"
	"io"
	"bytes"
	"context"
	"encoding/hex"
	"encoding/json"
	"flag"
	"fmt"
	"os"
	"reflect"
	"runtime"
	"strings"
	"time"

	"github.com/sqlc-dev/doubleclick/ast"
	"github.com/sqlc-dev/doubleclick/lexer"
	"github.com/sqlc-dev/doubleclick/parser"
	"github.com/sqlc-dev/doubleclick/token"
)

type rng struct{ s uint64 }

func (r *rng) next() uint64 {
	r.s += 0x9e3779b97f4a7c15
	z := r.s
	z = (z ^ (z >> 30)) * 0xbf58476d1ce4e5b9
	z = (z ^ (z >> 27)) * 0x94d049bb133111eb
	return z ^ (z >> 31)
}
func (r *rng) intn(n int) int { return int(r.next() % uint64(n)) }

func hx(b []byte) string {
	if len(b) == 0 {
		return "-"
	}
	return hex.EncodeToString(b)
}

var pool = strings.Fields(`SELECT FROM WHERE GROUP BY HAVING ORDER LIMIT OFFSET UNION ALL DISTINCT INTERSECT EXCEPT WITH AS ON USING JOIN LEFT INNER CROSS ARRAY
 PREWHERE SAMPLE FINAL SETTINGS FORMAT INTO OUTFILE INSERT VALUES CREATE TABLE VIEW MATERIALIZED DICTIONARY DATABASE ALTER DROP RENAME EXCHANGE TO
 ADD COLUMN MODIFY DELETE UPDATE SET SHOW DESCRIBE EXPLAIN AST SYNTAX OPTIMIZE SYSTEM GRANT REVOKE KILL ATTACH DETACH CHECK TRUNCATE USE EXISTS
 PARALLEL CASE WHEN THEN ELSE END CAST EXTRACT INTERVAL BETWEEN AND OR NOT IN LIKE ILIKE IS NULL GLOBAL ANY ALL TRUE FALSE OVER PARTITION ROWS RANGE
 WINDOW QUALIFY GROUPING SETS CUBE ROLLUP TOTALS FILL INTERPOLATE TOP APPLY REPLACE COLUMNS PRIMARY KEY ENGINE TTL CODEC DEFAULT NULLABLE TUPLE MAP
 ( ) [ ] { } , . ; : :: ? ^ + - * / % = == != <> < > <= >= <=> || -> @ @@ $ 1 0 1.5 1e3 0x1f 'a' '' "q" ` + "`b`" + ` x t a.b f( count(*) {p:UInt8} $$h$$ -- /* */ DIV MOD
 SOURCE LAYOUT LIFETIME RANGE_HASHED FLAT MIN MAX IF TEMPORARY ON CLUSTER POPULATE EMPTY REFRESH EVERY DAY SECOND YEAR TRANSACTION COMMIT ROLLBACK BEGIN
 0b1111111111111111111111111111111111111111111111111111111111111111111111 0o7777777777777777777777777777777 0xFFFFFFFFFFFFFFFFFFFFFFFF -0x10::Int8 18446744073709551616 -9223372036854775809
 340282366920938463463374607431768211456 1e999 nan inf -inf 0x1p-1074 1_000_000 00 007 .5e-3 x'4142' b'0101' 'é' '\\x' [] () [1,'a',NULL] (1,2)::Tuple(UInt8,UInt8) {} a.1 t.* *.*`)

// degenerate spellings: empty quoted identifiers (alone and as a part of a dotted name), empty hex / binary strings, an empty
// heredoc, radix prefixes and exponents without digits
var degenerate = []string{`""`, `"".a`, `a.""`, "``", "``.x", "a.``", `x''`, `b''`, `$$$$`, `0x`, `1e`, `..`, `("".a)(1)`, "(``.x, y) -> 1"}

func init() { pool = append(pool, degenerate...) }

var prefixes = []string{"", "SELECT ", "SELECT 1 FROM t ", "SELECT 1 ", "CREATE TABLE t ", "ALTER TABLE t ", "INSERT INTO t ", "WITH ", "SELECT * FROM t GROUP BY ", "CREATE DICTIONARY d (a UInt8) PRIMARY KEY a ", "EXPLAIN ", "SELECT CAST(", "SELECT f(", "SYSTEM ", "SHOW ", "GRANT ", "CREATE ", "SELECT a FROM t ORDER BY a "}

var boundaryNumbers = strings.Fields(`0 1 00 007 0.0 1. .5 0.0000000000000000001 0.00000000000000000000000001 0.99999999999999999999 1e-19 1e19 1e308 1e309 1e-400 4.9e-324
 9223372036854775807 9223372036854775808 18446744073709551615 18446744073709551616 340282366920938463463374607431768211456 0x7fffffffffffffff 0xFFFFFFFFFFFFFFFFF
 0b101 0b11111111111111111111111111111111111111111111111111111111111111111 0o17 0o7777777777777777777777777777777 1_000 000000000000000000001 000018446744073709551615
 123456789012345678901234567890.123456789 0x1p-1074 0x1.8p1 1e+3 1E3 1.5e-3 255 256 65535 65536 4294967296 100000000000000000000 0.1 1.0 10.50`)

var boundaryStrings = []string{`''`, `'a'`, `'it''s'`, `'\''`, `'\\'`, `'\n'`, `'a\tb'`, `'\0'`, `'\x41'`, `'\xff'`, `'é'`, `'日本'`, `'%x%'`, `'a;b'`, `'--c'`, `'/*d*/'`, `' '`,
	"'" + strings.Repeat("x", 300) + "'", `'{}'`, `'$1'`, `'\e'`, `'\q'`, "'a\nb'", "'line1\r\nline2'", `'a"b'`, "'a`b'", `'NULL'`, `'0'`, `'1e5'`, `'2020-01-01'`, `'\\\''`, `'\b\f\v\a'`}

// tokenTextsKinds is tokenTexts together with the token kind of every text.
func tokenTextsKinds(src []byte) ([]string, []token.Token) {
	items := lexer.Tokenize(bytes.NewReader(src))
	var starts []int
	var kinds []token.Token
	for _, it := range items {
		if it.Token == token.EOF {
			break
		}
		st := it.Pos.Offset - 1
		for st > 0 && st < len(src) && src[st]&0xC0 == 0x80 {
			st--
		}
		if st < 0 {
			st = 0
		}
		starts = append(starts, st)
		kinds = append(kinds, it.Token)
	}
	var out []string
	var ks []token.Token
	for i, st := range starts {
		end := len(src)
		if i+1 < len(starts) {
			end = starts[i+1]
		}
		if st > end {
			continue
		}
		out = append(out, strings.TrimSpace(string(src[st:end])))
		ks = append(ks, kinds[i])
	}
	return out, ks
}

// tokenSpans returns the source text of every non-comment token and the gaps before them.
func tokenTexts(src []byte) []string {
	items := lexer.Tokenize(bytes.NewReader(src))
	var starts []int
	for _, it := range items {
		if it.Token == token.EOF {
			break
		}
		// Offset is the end of the first rune; find its start
		st := it.Pos.Offset - 1
		for st > 0 && st < len(src) && src[st]&0xC0 == 0x80 {
			st--
		}
		if st < 0 {
			st = 0
		}
		starts = append(starts, st)
	}
	var out []string
	for i, st := range starts {
		end := len(src)
		if i+1 < len(starts) {
			end = starts[i+1]
		}
		if st > end {
			continue
		}
		out = append(out, strings.TrimSpace(string(src[st:end])))
	}
	return out
}

func mutate(r *rng, toks []string) string {
	t := append([]string(nil), toks...)
	n := 1 + r.intn(3)
	for k := 0; k < n && len(t) > 0; k++ {
		i := r.intn(len(t))
		switch r.intn(9) {
		case 0: // truncate after i
			t = t[:i+1]
		case 1: // delete
			t = append(t[:i], t[i+1:]...)
		case 2: // duplicate
			t = append(t[:i+1], t[i:]...)
		case 3: // swap with neighbour
			if i+1 < len(t) {
				t[i], t[i+1] = t[i+1], t[i]
			}
		case 4, 5: // splice a pool word
			w := pool[r.intn(len(pool))]
			t = append(t[:i], append([]string{w}, t[i:]...)...)
		case 6: // replace by a pool word
			t[i] = pool[r.intn(len(pool))]
		case 7: // drop the partner of a bracket
			for j := i; j < len(t); j++ {
				if t[j] == ")" || t[j] == "]" || t[j] == "(" || t[j] == "[" {
					t = append(t[:j], t[j+1:]...)
					break
				}
			}
		case 8: // empty a range
			j := i + r.intn(len(t)-i)
			t = append(t[:i], t[j:]...)
		}
	}
	return strings.Join(t, " ")
}

func gen(args []string) {
	fs := flag.NewFlagSet("gen", flag.ExitOnError)
	mode := fs.String("mode", "mutate", "mutate | exhaustive | nest | corpus")
	seed := fs.Uint64("seed", 1, "seed")
	n := fs.Int("n", 1000, "number of cases (mutate) / sequence length (exhaustive) / size in bytes (nest)")
	corpus := fs.String("corpus", "/verif/corpus/statements.txt", "one statement per line")
	fs.Parse(args)
	out := bufio.NewWriter(os.Stdout)
	defer out.Flush()
	r := &rng{s: *seed}
	switch *mode {
	case "corpus", "mutate":
		data, err := os.ReadFile(*corpus)
		if err != nil {
			fmt.Fprintln(os.Stderr, err)
			os.Exit(2)
		}
		lines := strings.Split(strings.TrimRight(string(data), "\n"), "\n")
		if *mode == "corpus" {
			for i, l := range lines {
				if *n > 0 && i >= *n {
					break
				}
				fmt.Fprintln(out, hx([]byte(l)))
			}
			return
		}
		for i := 0; i < *n; i++ {
			l := lines[r.intn(len(lines))]
			toks := tokenTexts([]byte(l))
			if len(toks) == 0 {
				continue
			}
			if r.intn(8) == 0 { // byte-level mutation
				b := []byte(l)
				for k := 0; k < 1+r.intn(3) && len(b) > 0; k++ {
					j := r.intn(len(b))
					switch r.intn(3) {
					case 0:
						b[j] = byte(r.intn(256))
					case 1:
						b = append(b[:j], b[j+1:]...)
					default:
						b = append(b[:j+1], b[j:]...)
					}
				}
				fmt.Fprintln(out, hx(b))
				continue
			}
			fmt.Fprintln(out, hx([]byte(mutate(r, toks))))
		}
	case "truncate":
		// every token-prefix of every corpus statement (at most n statements, 0 = all)
		data, err := os.ReadFile(*corpus)
		if err != nil {
			fmt.Fprintln(os.Stderr, err)
			os.Exit(2)
		}
		lines := strings.Split(strings.TrimRight(string(data), "\n"), "\n")
		stride := 1
		if *n > 0 && len(lines) > *n {
			stride = len(lines) / *n // an even sample of the corpus, not its first n lines
		}
		for i, l := range lines {
			if i%stride != 0 {
				continue
			}
			toks := tokenTexts([]byte(l))
			for k := 1; k < len(toks); k++ {
				fmt.Fprintln(out, hx([]byte(strings.Join(toks[:k], " "))))
			}
		}
	case "repeat":
		// super-linear probes: a comma-separated element of a corpus statement repeated many times
		data, err := os.ReadFile(*corpus)
		if err != nil {
			fmt.Fprintln(os.Stderr, err)
			os.Exit(2)
		}
		lines := strings.Split(strings.TrimRight(string(data), "\n"), "\n")
		reps := []int{600, 3000}
		for c := 0; c < *n; c++ {
			l := lines[r.intn(len(lines))]
			toks := tokenTexts([]byte(l))
			var commas []int
			for i, t := range toks {
				if t == "," {
					commas = append(commas, i)
				}
			}
			if len(commas) == 0 {
				continue
			}
			ci := commas[r.intn(len(commas))]
			// the element after this comma, up to the next comma / closing bracket at depth 0
			j := ci + 1
			depth := 0
			for j < len(toks) {
				t := toks[j]
				if t == "(" || t == "[" {
					depth++
				} else if t == ")" || t == "]" {
					if depth == 0 {
						break
					}
					depth--
				} else if t == "," && depth == 0 {
					break
				}
				j++
			}
			k := reps[c%len(reps)]
			if c%2 == 0 {
				// the element BEFORE the comma: back to the previous comma / opening bracket / clause keyword at depth 0
				i0 := ci - 1
				depth = 0
				for i0 >= 0 {
					t := toks[i0]
					up := strings.ToUpper(t)
					if t == ")" || t == "]" {
						depth++
					} else if t == "(" || t == "[" {
						if depth == 0 {
							break
						}
						depth--
					} else if depth == 0 && (t == "," || up == "WITH" || up == "SELECT" || up == "BY" || up == "FROM" || up == "VALUES" || up == "SET" || up == "DISTINCT") {
						break
					}
					i0--
				}
				if ci-i0 > 1 && ci-i0 <= 60 {
					elem := strings.Join(toks[i0+1:ci+1], " ") // "element ,"
					fmt.Fprintln(out, hx([]byte(strings.Join(toks[:i0+1], " ")+" "+strings.Repeat(elem+" ", k)+strings.Join(toks[i0+1:], " "))))
					continue
				}
			}
			if j <= ci+1 || j-ci > 60 {
				continue
			}
			elem := strings.Join(toks[ci:j], " ") // ", element"
			fmt.Fprintln(out, hx([]byte(strings.Join(toks[:j], " ")+" "+strings.Repeat(elem+" ", k)+strings.Join(toks[j:], " "))))
		}
	case "exhaustive":
		// every sequence of up to n pool words behind every prefix (n <= 2 is quick: 18 * 170^2)
		var rec func(prefix string, k int)
		rec = func(prefix string, k int) {
			fmt.Fprintln(out, hx([]byte(prefix)))
			if k == 0 {
				return
			}
			for _, w := range pool {
				rec(prefix+w+" ", k-1)
			}
		}
		for _, p := range prefixes {
			rec(p, *n)
		}
	case "typo":
		// a keyword (or an upper-case contextual word) of a valid statement misspelt into an identifier: reaches the
		// "expected X, got IDENT" branches of every clause parser, multi-line variants included
		data, err := os.ReadFile(*corpus)
		if err != nil {
			fmt.Fprintln(os.Stderr, err)
			os.Exit(2)
		}
		lines := strings.Split(strings.TrimRight(string(data), "\n"), "\n")
		for i := 0; i < *n; i++ {
			l := lines[r.intn(len(lines))]
			toks, kinds := tokenTextsKinds([]byte(l))
			var idx []int
			for j, k := range kinds {
				if k.IsKeyword() || (k == token.IDENT && len(toks[j]) >= 3 && toks[j] == strings.ToUpper(toks[j]) && toks[j] != strings.ToLower(toks[j])) {
					idx = append(idx, j)
				}
			}
			if len(idx) == 0 {
				continue
			}
			j := idx[r.intn(len(idx))]
			w := toks[j]
			k := r.intn(len(w))
			switch r.intn(4) {
			case 0:
				w = w[:k] + w[k:k+1] + w[k:] // doubled letter
			case 1:
				w = w[:k] + w[k+1:] // dropped letter
			case 2:
				w = w + "X"
			default:
				w = "X" + w
			}
			if w == "" {
				w = "x"
			}
			toks[j] = w
			sep := " "
			if r.intn(3) == 0 {
				sep = "\n  "
			}
			fmt.Fprintln(out, hx([]byte(strings.Join(toks, sep))))
		}
	case "litsub":
		// literal substitution: a NUMBER / STRING token of a (valid) corpus statement replaced by a boundary literal of
		// the same class; the statement stays valid, so the boundary value reaches the printers and the marshaller
		data, err := os.ReadFile(*corpus)
		if err != nil {
			fmt.Fprintln(os.Stderr, err)
			os.Exit(2)
		}
		lines := strings.Split(strings.TrimRight(string(data), "\n"), "\n")
		for i := 0; i < *n; i++ {
			l := lines[r.intn(len(lines))]
			toks, kinds := tokenTextsKinds([]byte(l))
			var idx []int
			for j, k := range kinds {
				if k == token.NUMBER || k == token.STRING {
					idx = append(idx, j)
				}
			}
			if len(idx) == 0 {
				continue
			}
			for c := 0; c < 1+r.intn(2); c++ {
				j := idx[r.intn(len(idx))]
				if kinds[j] == token.NUMBER {
					toks[j] = boundaryNumbers[r.intn(len(boundaryNumbers))]
				} else {
					toks[j] = boundaryStrings[r.intn(len(boundaryStrings))]
				}
			}
			fmt.Fprintln(out, hx([]byte(strings.Join(toks, " "))))
		}
	case "chains":
		// flat chains of n elements of every list-like construct (n = -n argument): work and memory must stay linear
		k := *n
		rep := func(unit, sep string) string {
			var sb strings.Builder
			for i := 0; i < k; i++ {
				if i > 0 {
					sb.WriteString(sep)
				}
				sb.WriteString(unit)
			}
			return sb.String()
		}
		for _, op := range []string{"OR", "AND", "||", "+", "-", "*", "=", "<", "LIKE", "IN", "IS NOT DISTINCT FROM", "<=>", "DIV", "MOD", "."} {
			sep := " " + op + " "
			if op == "." {
				sep = "."
			}
			fmt.Fprintln(out, hx([]byte("SELECT "+rep("c = 1", sep)+" FROM t")))
			fmt.Fprintln(out, hx([]byte("SELECT * FROM t WHERE "+rep("c", sep))))
		}
		for _, c := range []string{
			"SELECT " + rep("a", ", ") + " FROM t", "SELECT f(" + rep("1", ", ") + ")", "SELECT [" + rep("1", ", ") + "]", "SELECT (" + rep("'s'", ", ") + ")",
			"SELECT x IN (" + rep("1", ", ") + ")", "SELECT x IN (" + rep("'a'", ", ") + ") AS y", "SELECT CASE " + rep("WHEN a THEN 1", " ") + " END",
			rep("SELECT 1", " UNION ALL "), rep("SELECT 1", " UNION DISTINCT "), rep("SELECT 1", " INTERSECT "), rep("SELECT 1", "; "), rep("(SELECT 1)", " UNION ALL "),
			"SELECT 1 FROM " + rep("t", ", "), "SELECT 1 FROM t " + rep("JOIN u ON a = b", " "), "SELECT 1 FROM t ORDER BY " + rep("a DESC", ", "), "SELECT 1 FROM t GROUP BY " + rep("a", ", "),
			"WITH " + rep("1 AS a", ", ") + " SELECT a", "SELECT 1 SETTINGS " + rep("a = 1", ", "), "INSERT INTO t VALUES " + rep("(1, 'a')", ", "), "INSERT INTO t (" + rep("c", ", ") + ") SELECT 1",
			"CREATE TABLE t (" + rep("c UInt8", ", ") + ") ENGINE = Memory", "ALTER TABLE t " + rep("ADD COLUMN c UInt8", ", "), "SELECT CAST(1 AS Tuple(" + rep("a UInt8", ", ") + "))",
			"SELECT CAST(1 AS Enum8(" + rep("'a' = 1", ", ") + "))", "SELECT " + rep("a ? b :", " ") + " c", "SELECT a" + rep("[1]", ""), "SELECT a" + rep(".1", ""), "SELECT a" + rep("::Int8", ""),
			"SELECT " + rep("NOT", " ") + " a", "SELECT " + rep("-", " ") + " a", "SELECT f(x)" + rep(" OVER ()", ""), "SELECT " + rep("x -> ", "") + "1", "SET " + rep("a = 1", ", "),
			"SELECT 1 FROM t WINDOW " + rep("w AS ()", ", "), "SELECT 1 ORDER BY a WITH FILL INTERPOLATE (" + rep("a AS a", ", ") + ")", "GRANT " + rep("SELECT", ", ") + " ON t TO u",
			"SELECT * EXCEPT (" + rep("a", ", ") + ") FROM t", "SELECT * REPLACE (" + rep("1 AS a", ", ") + ") FROM t", "SELECT " + rep("/* c */", " ") + " 1", "SELECT " + rep("'a'", " "),
		} {
			fmt.Fprintln(out, hx([]byte(c)))
		}
	case "amplify":
		k := *n
		// error amplification: k unclosed openers followed by ONE long token (16*k bytes) at the failure point -- every
		// level reports an error while the recursion unwinds; what is allocated per level must not grow with the token
		for _, op := range []string{"(", "[", "f(", "CASE WHEN ", "(SELECT ", "x IN (", "a.1 + (", "CAST(", "tuple(1, "} {
			for _, long := range []string{"'" + strings.Repeat("x", 16*k) + "'", strings.Repeat("y", 16*k), "1" + strings.Repeat("0", 16*k), "`" + strings.Repeat("z", 16*k) + "`", "/* " + strings.Repeat("c", 16*k) + " */ ]"} {
				fmt.Fprintln(out, hx([]byte("SELECT "+strings.Repeat(op, k)+"1 "+long)))
			}
		}
	case "nest":
		size := *n
		units := []struct{ open, close string }{{"(", ")"}, {"[", "]"}, {"f(", ")"}, {"CASE WHEN ", " THEN 1 END"}, {"(SELECT ", ")"}, {"NOT ", ""}, {"- ", ""}, {"a.", ""}, {"1 + ", ""}, {"x IN (", ")"}}
		for _, u := range units {
			k := size / (len(u.open) + len(u.close) + 1)
			fmt.Fprintln(out, hx([]byte("SELECT "+strings.Repeat(u.open, k)+"1"+strings.Repeat(u.close, k))))
			fmt.Fprintln(out, hx([]byte("SELECT "+strings.Repeat(u.open, k)))) // unterminated
		}
	}
}

var stmtType = reflect.TypeOf((*ast.Statement)(nil)).Elem()

// typedNil walks the tree and reports the first interface-typed field / element that holds a typed nil pointer.
func typedNil(v reflect.Value, path string, depth int) string {
	if depth > 1200 {
		return ""
	}
	switch v.Kind() {
	case reflect.Interface:
		if v.IsNil() {
			return ""
		}
		e := v.Elem()
		if e.Kind() == reflect.Ptr && e.IsNil() {
			return path + " holds a typed nil " + e.Type().String()
		}
		return typedNil(e, path, depth+1)
	case reflect.Ptr:
		if v.IsNil() {
			return ""
		}
		return typedNil(v.Elem(), path, depth+1)
	case reflect.Struct:
		for i := 0; i < v.NumField(); i++ {
			if v.Type().Field(i).PkgPath != "" {
				continue
			}
			if s := typedNil(v.Field(i), path+"."+v.Type().Field(i).Name, depth+1); s != "" {
				return s
			}
		}
	case reflect.Slice:
		for i := 0; i < v.Len(); i++ {
			if s := typedNil(v.Index(i), fmt.Sprintf("%s[%d]", path, i), depth+1); s != "" {
				return s
			}
		}
	case reflect.Map:
		for _, k := range v.MapKeys() {
			if s := typedNil(v.MapIndex(k), path+"[k]", depth+1); s != "" {
				return s
			}
		}
	}
	return ""
}

func maxNesting(src []byte) int {
	d, m := 0, 0
	for _, c := range src {
		switch c {
		case '(', '[':
			d++
			if d > m {
				m = d
			}
		case ')', ']':
			if d > 0 {
				d--
			}
		}
	}
	return m
}

// measureAlloc / parseAlloc: bytes allocated by ParseStatements alone (set by run when -mem is given)
var measureAlloc bool
var parseAlloc int64

var caseNo int

type onlyReader struct{ r io.Reader }

func (o onlyReader) Read(p []byte) (int, error) { return o.r.Read(p) }

func readerName(i int) string {
	return [...]string{"strings.Reader", "bytes.Reader", "bytes.Buffer", "bufio.Reader(16)", "bufio.Reader(4096)", "bufio.Reader(8192)", "bufio.Reader(65536)",
		"io.MultiReader(halves)", "plain io.Reader", "io.LimitReader", "io.TeeReader", "bufio.Reader(1<<20)"}[i%12]
}

func publicReader(src []byte, i int) io.Reader {
	switch i % 12 {
	case 0:
		return strings.NewReader(string(src))
	case 1:
		return bytes.NewReader(src)
	case 2:
		return bytes.NewBuffer(append([]byte(nil), src...))
	case 3:
		return bufio.NewReaderSize(bytes.NewReader(src), 16)
	case 4:
		return bufio.NewReaderSize(bytes.NewReader(src), 4096)
	case 5:
		return bufio.NewReaderSize(bytes.NewReader(src), 8192)
	case 6:
		return bufio.NewReaderSize(bytes.NewReader(src), 65536)
	case 7:
		h := len(src) / 2
		return io.MultiReader(bytes.NewReader(src[:h]), bytes.NewReader(src[h:]))
	case 8:
		return onlyReader{bytes.NewReader(src)}
	case 9:
		return io.LimitReader(bytes.NewReader(src), int64(len(src))+1)
	case 10:
		return io.TeeReader(bytes.NewReader(src), io.Discard)
	}
	return bufio.NewReaderSize(bytes.NewReader(src), 1<<20)
}

func runOne(src []byte, E, B int64, wantExplain bool) (status string, tokens, steps int64, detail, explain string) {
	func() {
		defer func() {
			if r := recover(); r != nil {
				status, detail = "PANIC", "Tokenize: "+fmt.Sprint(r)
			}
		}()
		// stepped with a cap (C12: at most one token per byte plus EOF): a lexer that stops advancing is an observation, not
		// a harness that allocates until it is killed
		l := lexer.New(bytes.NewReader(src))
		for n := 0; ; n++ {
			it := l.NextToken()
			if it.Token == token.EOF {
				break
			}
			if n > len(src)+2 {
				status, detail = "BUDGET", "the lexer hands out more than len+2 tokens without reaching EOF (Parse cannot terminate)"
				return
			}
			switch it.Token {
			case token.WHITESPACE, token.LINE_COMMENT:
			default:
				tokens++
			}
		}
	}()
	if status != "" {
		return
	}
	var p *parser.Parser
	func() {
		defer func() {
			if r := recover(); r != nil {
				status, detail = "PANIC", "parser.New: "+fmt.Sprint(r)
			}
		}()
		p = parser.New(bytes.NewReader(src))
	}()
	if status != "" {
		return
	}
	p.VerifSetBudget(E + B*tokens + 3)
	var stmts []ast.Statement
	var err error
	func() {
		defer func() {
			if r := recover(); r != nil {
				if _, ok := r.(parser.VerifBudgetExceeded); ok {
					status = "BUDGET"
				} else {
					status = "PANIC"
					detail = "Parse: " + fmt.Sprint(r)
				}
			}
		}()
		var m0, m1 runtime.MemStats
		if measureAlloc {
			runtime.ReadMemStats(&m0)
		}
		stmts, err = p.ParseStatements(context.Background())
		if measureAlloc {
			runtime.ReadMemStats(&m1)
			parseAlloc = int64(m1.TotalAlloc - m0.TotalAlloc)
		}
	}()
	steps = p.VerifSteps()
	if status != "" {
		return
	}
	// the same input through the PUBLIC entry point parser.Parse, handed over as one of the reader types a caller would use
	// (the budgeted run above goes through parser.New + ParseStatements on a bytes.Reader): it must not panic and must
	// return as many statements, with an error or without, as the run above
	caseNo++
	if len(src) < 4096 || caseNo%4 == 0 {
		func() {
			defer func() {
				if r := recover(); r != nil {
					status, detail = "PANIC", fmt.Sprintf("parser.Parse(ctx, %s): %v", readerName(caseNo), r)
				}
			}()
			st2, err2 := parser.Parse(context.Background(), publicReader(src, caseNo))
			if len(st2) != len(stmts) || (err2 == nil) != (err == nil) {
				status, detail = "PANIC", fmt.Sprintf("parser.Parse(ctx, %s) returns %d statements, err=%v; parser.New(bytes.Reader).ParseStatements returns %d, err=%v",
					readerName(caseNo), len(st2), err2, len(stmts), err)
			}
		}()
		if status != "" {
			return
		}
	}
	if err != nil {
		return "err", tokens, steps, "", ""
	}
	// C03: err == nil => usable AST (nesting capped at 1000 as in the property)
	// (prefix-operator and left-deep operator chains nest without brackets: EXPLAIN text is quadratic in the nesting depth by its
	// format, a 30000-deep `- - - x` chain prints gigabytes of indentation)
	if maxNesting(src) > 1000 || bytes.Count(src, []byte("CASE")) > 1000 || bytes.Count(src, []byte("SELECT")) > 1000 ||
		bytes.Count(src, []byte("NOT ")) > 1000 || bytes.Count(src, []byte("- ")) > 1000 || bytes.Count(src, []byte(" + ")) > 1000 ||
		bytes.Count(src, []byte("a.a.")) > 10000 { // (a name of > 20000 dotted parts: Explain's name formatting is quadratic in the parts, Parse is linear)
		return "ok", tokens, steps, "deep", ""
	}
	var sb strings.Builder
	for i, s := range stmts {
		if s == nil {
			return "C03", tokens, steps, fmt.Sprintf("statement %d is nil", i), ""
		}
		if v := reflect.ValueOf(s); v.Kind() == reflect.Ptr && v.IsNil() {
			return "C03", tokens, steps, fmt.Sprintf("statement %d is a typed nil %T", i, s), ""
		}
		if tn := typedNil(reflect.ValueOf(s), fmt.Sprintf("stmt%d", i), 0); tn != "" {
			return "C03", tokens, steps, tn, ""
		}
		func() {
			defer func() {
				if r := recover(); r != nil {
					status, detail = "C03", "Explain/Marshal panics: "+fmt.Sprint(r)
				}
			}()
			if _, merr := json.Marshal(s); merr != nil {
				status, detail = "C03", "json.Marshal: "+merr.Error()
				return
			}
			t := parser.Explain(s)
			if t == "" {
				status, detail = "C03", "Explain returned empty text"
				return
			}
			sb.WriteString(t)
			sb.WriteString("\x00")
		}()
		if status != "" {
			return
		}
	}
	if len(stmts) > 0 {
		func() {
			defer func() {
				if r := recover(); r != nil {
					status, detail = "C03", "ExplainStatements panics: "+fmt.Sprint(r)
				}
			}()
			if parser.ExplainStatements(stmts) == "" {
				status, detail = "C03", "ExplainStatements returned empty text"
			}
		}()
		if status != "" {
			return
		}
	}
	if wantExplain {
		explain = hx([]byte(sb.String()))
	}
	return "ok", tokens, steps, "", explain
}

func run(args []string) {
	fs := flag.NewFlagSet("run", flag.ExitOnError)
	E := fs.Int64("E", 42, "E_main of the proved step bound")
	B := fs.Int64("B", 305, "B of the proved step bound")
	K := fs.Int64("K", 64, "empirical bound of the property: steps <= K*(tokens+16), K calibrated on the corpus (max observed 13.5) with a safety factor")
	ex := fs.Bool("explain", false, "append the hex EXPLAIN text of accepted inputs")
	memBound := fs.Int64("mem", 0, "if > 0: status MEM when more than this many bytes per token are allocated (inputs of at least 512 tokens)")
	hang := fs.Duration("hang", 300*time.Second, "wall-clock watchdog per input")
	fs.Parse(args)
	in := bufio.NewScanner(os.Stdin)
	in.Buffer(make([]byte, 1<<22), 1<<26)
	out := bufio.NewWriter(os.Stdout)
	defer out.Flush()
	hung := false
	for in.Scan() {
		line := in.Text()
		var src []byte
		if line != "-" {
			var err error
			if src, err = hex.DecodeString(line); err != nil {
				fmt.Fprintln(os.Stderr, "bad hex")
				os.Exit(2)
			}
		}
		measureAlloc = *memBound > 0
		if hung {
			// a call that never returned is still running in its goroutine: nothing measured after it would be reliable
			fmt.Fprintf(out, "SKIP\t0\t0\tafter a hang\n")
			continue
		}
		var st, detail, expl string
		var tk, steps int64
		done := make(chan struct{})
		go func() {
			defer close(done)
			st, tk, steps, detail, expl = runOne(src, *E, *B, *ex)
		}()
		select {
		case <-done:
		case <-time.After(*hang):
			hung = true
			st, tk, steps, detail, expl = "BUDGET", 0, 0, fmt.Sprintf("HANG: Parse / Explain did not return within %v (no parser step was counted: a loop outside the step-counted parser code)", *hang), ""
		}
		if st != "BUDGET" && st != "PANIC" && steps > *K*(tk+16) {
			st, detail = "SLOW", fmt.Sprintf("steps %d > %d*(tokens+16)", steps, *K)
		}
		if *memBound > 0 && st != "BUDGET" && st != "PANIC" && st != "SLOW" {
			// memory "bounded likewise": bytes allocated by Parse (+ Marshal/Explain of accepted input) per token
			alloc := parseAlloc
			if tk >= 512 && alloc > *memBound*(tk+16) {
				st, detail = "MEM", fmt.Sprintf("allocated %d bytes = %d per token > %d*(tokens+16)", alloc, alloc/(tk+16), *memBound)
			}
		}
		if *ex {
			fmt.Fprintf(out, "%s\t%d\t%d\t%s\t%s\n", st, tk, steps, detail, expl)
		} else {
			fmt.Fprintf(out, "%s\t%d\t%d\t%s\n", st, tk, steps, detail)
		}
	}
}

func main() {
	if len(os.Args) < 2 {
		fmt.Fprintln(os.Stderr, "usage: psearch gen|run ...")
		os.Exit(2)
	}
	switch os.Args[1] {
	case "gen":
		gen(os.Args[2:])
	case "run":
		run(os.Args[2:])
	default:
		os.Exit(2)
	}
}
