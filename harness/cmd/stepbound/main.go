//go:build verif

// stepbound: dynamic side of C02. Reads SQL inputs from stdin, one per line,
// hex-encoded ("-" for the empty input), parses each with parser.New +
// ParseStatements under recover with a step budget of K*(tokens+16), and prints
// one line per input:
//
//	<tokens>\t<steps>\t<status>
//
// tokens = number of tokens returned by lexer.Tokenize that are neither
// WHITESPACE nor LINE_COMMENT nor the final EOF (this is `length toks` of the Coq
// model, where EOF is the empty list); steps = (*Parser).VerifSteps() when the
// parse stopped (the three nextToken calls of parser.New are included);
// status = ok | err | panic | budget.
//
// Flags: -K <n> budget multiplier (default 4096); -E/-B: when both given, the
// status gets the suffix "!bound" if steps > E + B*tokens (the bound proved by
// the kernel for the skeleton).
//
// Build: cd /verif/harness && GOFLAGS=-mod=mod GOPROXY=off go build -tags verif -o /verif/build/stepbound ./cmd/stepbound
package main

import (
	"bufio"
	"bytes"
	"context"
	"encoding/hex"
	"flag"
	"fmt"
	"os"

	"github.com/sqlc-dev/doubleclick/lexer"
	"github.com/sqlc-dev/doubleclick/parser"
	"github.com/sqlc-dev/doubleclick/token"
)

func countTokens(src []byte) int64 {
	var n int64
	for _, it := range lexer.Tokenize(bytes.NewReader(src)) {
		switch it.Token {
		case token.WHITESPACE, token.LINE_COMMENT, token.EOF:
		default:
			n++
		}
	}
	return n
}

func runOne(src []byte, budget int64) (steps int64, status string) {
	p := parser.New(bytes.NewReader(src))
	p.VerifSetBudget(budget)
	defer func() {
		if r := recover(); r != nil {
			steps = p.VerifSteps()
			if _, ok := r.(parser.VerifBudgetExceeded); ok {
				status = "budget"
			} else {
				status = "panic"
			}
		}
	}()
	_, err := p.ParseStatements(context.Background())
	steps = p.VerifSteps()
	if err != nil {
		return steps, "err"
	}
	return steps, "ok"
}

func main() {
	k := flag.Int64("K", 4096, "budget multiplier: budget = K*(tokens+16)")
	e := flag.Int64("E", -1, "E_main of the proved bound (optional)")
	b := flag.Int64("B", -1, "B of the proved bound (optional)")
	flag.Parse()
	in := bufio.NewReaderSize(os.Stdin, 1<<20)
	out := bufio.NewWriterSize(os.Stdout, 1<<20)
	defer out.Flush()
	for {
		line, err := in.ReadBytes('\n')
		if len(line) == 0 && err != nil {
			break
		}
		line = bytes.TrimRight(line, "\r\n")
		var src []byte
		if !bytes.Equal(line, []byte("-")) {
			src = make([]byte, hex.DecodedLen(len(line)))
			n, herr := hex.Decode(src, line)
			if herr != nil {
				fmt.Fprintf(out, "0\t0\tbadhex\n")
				if err != nil {
					break
				}
				continue
			}
			src = src[:n]
		}
		toks := countTokens(src)
		steps, status := runOne(src, *k*(toks+16))
		if *e >= 0 && *b >= 0 && steps > *e+*b*toks {
			status += "!bound"
		}
		fmt.Fprintf(out, "%d\t%d\t%s\n", toks, steps, status)
		if err != nil {
			break
		}
	}
}
