// kwnames: C17 on the implementation, exhaustively over the CURRENT keyword table: table consistency
// (unique non-empty upper-case spelling, Lookup round trip, IsKeyword) and every keyword, in four letter cases, as a
// column name after a dot, as a column alias after AS and as a table alias after AS.
// Output: one line per probe "ok|BAD\t<keyword>\t<position>\t<spelling>\t<detail>", then a summary line.
package main

import (
	"context"
	"flag"
	"fmt"
	"sort"
	"strings"
	"verif/harness/rdr"

	"github.com/sqlc-dev/doubleclick/parser"
	"github.com/sqlc-dev/doubleclick/token"
)

func cases(w string, i int) []string {
	lower := strings.ToLower(w)
	var mixed, alt strings.Builder
	for j, c := range lower {
		if j%2 == 0 {
			mixed.WriteString(strings.ToUpper(string(c)))
		} else {
			mixed.WriteRune(c)
		}
		if (j+i)%3 == 0 {
			alt.WriteString(strings.ToUpper(string(c)))
		} else {
			alt.WriteRune(c)
		}
	}
	return []string{w, lower, mixed.String(), alt.String()}
}

func probe(sql, want string) string {
	stmts, err := func() (s []interface{}, e error) {
		defer func() {
			if r := recover(); r != nil {
				e = fmt.Errorf("panic: %v", r)
			}
		}()
		ss, err := parser.Parse(context.Background(), rdr.For(sql))
		for _, x := range ss {
			s = append(s, x)
		}
		return s, err
	}()
	if err != nil {
		return "error: " + err.Error()
	}
	if len(stmts) != 1 {
		return fmt.Sprintf("%d statements", len(stmts))
	}
	ss, _ := parser.Parse(context.Background(), rdr.For(sql))
	text := parser.Explain(ss[0])
	for _, l := range strings.Split(text, "\n") {
		if strings.TrimLeft(l, " ") == want {
			return ""
		}
	}
	return "EXPLAIN lacks line " + strconvQ(want) + ": " + strings.ReplaceAll(text, "\n", "\\n")
}

func strconvQ(s string) string { return fmt.Sprintf("%q", s) }

func main() {
	extended := flag.Bool("x", false, "also the extended product of contexts before and after the name")
	flag.Parse()
	bad, n := 0, 0
	report := func(ok bool, kw, pos, sp, detail string) {
		n++
		st := "ok"
		if !ok {
			st = "BAD"
			bad++
		}
		fmt.Printf("%s\t%s\t%s\t%s\t%s\n", st, kw, pos, sp, detail)
	}
	// table half: enumerate every Token value until String() runs out, classify by IsKeyword
	seen := map[string]token.Token{}
	var kws []string
	for t := token.Token(0); t < 4096; t++ {
		if !t.IsKeyword() {
			continue
		}
		s := t.String()
		ok := s != "" && s == strings.ToUpper(s) && token.Lookup(s) == t
		if prev, dup := seen[s]; dup && prev != t {
			ok = false
		}
		seen[s] = t
		report(ok, s, "table", s, fmt.Sprintf("token %d Lookup=%d", int(t), int(token.Lookup(s))))
		if s != "" {
			kws = append(kws, s)
		}
	}
	for s, t := range token.Keywords {
		if !t.IsKeyword() || t.String() != s {
			report(false, s, "table", s, "Keywords entry that is not a keyword token's own spelling")
		}
	}
	sort.Strings(kws)
	// the three naming positions, at statement level and inside every kind of statement that embeds a query (the
	// property does not restrict where the SELECT stands)
	ctxs := []struct{ name, pre, post string }{
		{"", "", ""}, {"@from-subquery", "SELECT * FROM (", ")"}, {"@create-view", "CREATE VIEW v AS ", ""},
		{"@insert-select", "INSERT INTO t2 ", ""}, {"@cte", "WITH c AS (", ") SELECT 1"}, {"@union-branch", "SELECT 0 UNION ALL ", ""},
		{"@explain", "EXPLAIN ", ""}, {"@in-subquery", "SELECT x IN (", ")"}, {"@create-matview", "CREATE MATERIALIZED VIEW mv ENGINE = Memory AS ", ""},
		{"@create-table-as", "CREATE TABLE t3 ENGINE = Memory AS ", ""}, {"@paren", "(", ")"},
	}
	for i, kw := range kws {
		for ci, c := range ctxs {
			sps := cases(kw, i)
			if ci > 0 {
				sps = sps[1:3] // lower case and one mixed spelling inside the embedding contexts
			}
			for _, sp := range sps {
				d := probe(c.pre+"SELECT t."+sp+" FROM t"+c.post, "Identifier t."+sp)
				report(d == "", kw, "column-after-dot"+c.name, sp, d)
				d = probe(c.pre+"SELECT 1 AS "+sp+c.post, "Literal UInt64_1 (alias "+sp+")")
				report(d == "", kw, "column-alias"+c.name, sp, d)
				d = probe(c.pre+"SELECT 1 FROM t AS "+sp+c.post, "TableIdentifier t (alias "+sp+")")
				report(d == "", kw, "table-alias"+c.name, sp, d)
			}
		}
	}
	// extended product: what stands before the name (qualifier / aliased expression / table expression) and what follows it
	if *extended {
		exprs := []string{"1", "'a'", "a", "f(x)", "a + b", "[1, 2]", "[1, NULL]::Array(Nullable(UInt8))", "(1, 2)", "x::UInt8", "CAST(x AS UInt8)", "(SELECT 1)",
			"CASE WHEN a THEN 1 END", "-1", "NULL", "count(*)", "a.b", "NOT a", "[true]::Array(Bool)", "(1, NULL)::Tuple(UInt8, Nullable(UInt8))",
			"a BETWEEN 1 AND 2", "a NOT BETWEEN 1 AND 2", "a LIKE 'x'", "a IS NULL", "a IS NOT NULL", "a ? b : c", "INTERVAL 1 DAY", "EXTRACT(DAY FROM d)", "a[1]", "t.1",
			"a IN (1, 2)", "a IN (SELECT 1)", "EXISTS (SELECT 1)", "trim(BOTH 'x' FROM s)", "substring(s FROM 1 FOR 2)", "position('a' IN s)", "CAST(x, 'UInt8')", "a || b", "a AND b",
			"-a", "(a, b)", "[a, b]", "(a)", "{p:UInt8}", "sum(x) OVER ()", "count(DISTINCT a)", "sumIf(a, b)", "quantile(0.5)(x)", "DATE '2020-01-01'", "a = ANY (SELECT 1)"}
		colFollow := []string{"", ", 2", " FROM t", " FROM t WHERE 1", " UNION ALL SELECT 2", " ORDER BY 1", " FORMAT Null", " SETTINGS a = 1", " LIMIT 1", " FROM t GROUP BY 1 WITH TOTALS"}
		tables := []string{"t", "db.t", "(SELECT 1)", "numbers(10)"}
		tabFollow := []string{"", " WHERE 1", " WITH TOTALS", " GROUP BY 1", " ORDER BY 1", " LIMIT 1", " JOIN u ON 1", ", u", " SAMPLE 0.1", " PREWHERE 1", " ARRAY JOIN a",
			" UNION ALL SELECT 2", " FORMAT Null", " SETTINGS a = 1", " FINAL", " GROUP BY 1 WITH TOTALS"}
		quals := []struct{ q, from string }{{"t", "t"}, {"db.t", "db.t"}, {"left", "a AS left"}, {"key", "a AS key"}, {"u", "(SELECT 1) AS u"}}
		has := func(sql, want string) string {
			stmts, err := func() (s []interface{}, e error) {
				defer func() {
					if r := recover(); r != nil {
						e = fmt.Errorf("panic: %v", r)
					}
				}()
				ss, err := parser.Parse(context.Background(), rdr.For(sql))
				for _, x := range ss {
					s = append(s, x)
				}
				return s, err
			}()
			if err != nil {
				return "error: " + err.Error()
			}
			if len(stmts) != 1 {
				return fmt.Sprintf("%d statements", len(stmts))
			}
			ss, _ := parser.Parse(context.Background(), rdr.For(sql))
			if text := parser.Explain(ss[0]); !strings.Contains(text, want) {
				return "EXPLAIN lacks " + strconvQ(want)
			}
			return ""
		}
		// the keyword is only a NAME here: the tree must be the one an ordinary identifier gets in the same place
		explainOf := func(sql string) string {
			defer func() { recover() }()
			ss, err := parser.Parse(context.Background(), rdr.For(sql))
			if err != nil || len(ss) != 1 {
				return "<no single statement>"
			}
			return parser.Explain(ss[0])
		}
		sameAsIdent := func(mk func(name string) string, sp string, marks ...string) string {
			a, b := explainOf(mk(sp)), explainOf(mk("zzq"))
			for _, m := range marks {
				a = strings.ReplaceAll(a, m+sp, m+"zzq")
			}
			if a != b {
				return "EXPLAIN differs from the one with an ordinary identifier in the same place\t" + mk(sp)
			}
			return ""
		}
		_ = sameAsIdent
		for i, kw := range kws {
			for _, sp := range cases(kw, i)[1:3] {
				for _, q := range quals {
					for _, tmpl := range []string{"SELECT %s.%s FROM %s", "SELECT f(%s.%s) FROM %s", "SELECT %s.%s + 1, 2 FROM %s"} {
						sql := fmt.Sprintf(tmpl, q.q, sp, q.from)
						d := has(sql, "Identifier "+q.q+"."+sp)
						report(d == "", kw, "x:column-after-dot", sp, d+"\t"+sql)
					}
				}
				for _, e := range exprs {
					for _, f := range colFollow {
						sql := "SELECT " + e + " AS " + sp + f
						d := has(sql, "(alias "+sp+")")
						report(d == "", kw, "x:column-alias", sp, d+"\t"+sql)
					}
					e := e
					d := sameAsIdent(func(n string) string { return "SELECT " + e + " AS " + n + ", 2 FROM t" }, sp, "(alias ")
					report(d == "", kw, "x:column-alias-tree", sp, d)
				}
				// forms in which more tokens of the SAME expression follow the alias
				for _, t := range []string{"SELECT INTERVAL '2' AS %s MINUTE", "SELECT CAST(1 AS %s AS UInt8)", "SELECT CAST(1 AS %s, 'UInt8')", "SELECT f(1 AS %s, 2)", "SELECT [1 AS %s, 2]",
					"SELECT (1 AS %s, 2)", "SELECT substring(s AS %s FROM 1)", "SELECT 1 AS %s WHERE 1", "WITH 1 AS %s SELECT 2", "SELECT x FROM t ARRAY JOIN a AS %s", "SELECT sum(1) OVER (PARTITION BY 1) AS %s",
					"SELECT * FROM t AS %s FINAL", "SELECT * FROM t AS %s SAMPLE 0.1", "SELECT * FROM t AS %s JOIN u AS %s ON 1", "SELECT extract(DAY FROM d) AS %s, 2"} {
					t := t
					mk := func(n string) string { return strings.ReplaceAll(t, "%s", n) }
					d := sameAsIdent(mk, sp, "(alias ")
					report(d == "", kw, "x:alias-inside-expression", sp, d)
				}
				for _, t := range tables {
					for _, f := range tabFollow {
						sql := "SELECT 1 FROM " + t + " AS " + sp + f
						d := has(sql, "(alias "+sp+")")
						report(d == "", kw, "x:table-alias", sp, d+"\t"+sql)
					}
				}
			}
		}
	}
	fmt.Printf("SUMMARY\tkeywords=%d\tprobes=%d\tbad=%d\n", len(kws), n, bad)
}
