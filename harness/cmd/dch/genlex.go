package main

import (
	"bufio"
	"flag"
	"fmt"
	"github.com/sqlc-dev/doubleclick/token"
	"os"
	"path/filepath"
	"sort"
	"strconv"
	"strings"
	"unicode"
)

func init() { commands["genlex"] = genLexCmd }

// lexically interesting bytes: separators, quotes, comment starters, number/identifier
// characters that steer readNumber/readNumberOrIdent, operators with look-ahead, multi-byte
// UTF-8 pieces (é = c3 a9; U+2019 = e2 80 99; U+2212 = e2 88 92; U+201D = e2 80 9d), invalid bytes, NUL.
var lexAlphabet = []byte{
	' ', '\n', 0, '\'', '"', '`', '\\', '-', '/', '*', '#', '$', '.', '0', '1', '9', '_',
	'a', 'e', 'x', 'b', 'E', '+', ';', '{', '}', '(', '<', '=', '>', '|', ':', '@', '!',
	0xc3, 0xa9, 0xe2, 0x80, 0x99, 0xff,
}

var lexFragments = []string{
	"SELECT", "select", "1", "0x1f", "0b101", "0o17", "1e5", "1.5e-3", "1_000", ".5", "1.", "1..2", "a.1", "db.03_t", "02422_data",
	"1alias", "'str'", "'it''s'", "'a\\'b'", "'\\x41\\x'", "'\\", "\"id\"", "\"a\"\"b\"", "`bt`", "`a``b`", "$$body$$", "$tag$ x $tag$", "$tag$ x",
	"$a$b$", "x'4142'", "X'4'", "b'0101'", "B'1'", "{p:UInt8}", "{", "}", "--c\n", "-- c;", "#c\n", "/* c */", "/* /* n */ */", "/*", "−c\n",
	"‘s’", "“id”", "@@var", "@", "@@", "->", "<=>", "<>", "!=", "||", "::", "<=", ">=", "==", "=", "!", "|", ":", "?", "^",
	"(", ")", "[", "]", ",", ".", ";", "+", "-", "*", "/", "%", " ", "\n", "\t", "\r\n", "\x00", "\u00a0", "\ufeff", "\u200b", "é", "ſelect", "\xff", "\xc3", "\xe2\x80",
	"/*/", "/* /*/ x */ */", "/**/", "/***/", "*/", "`a\\`b`", "`a\\`;b`", "\"a\\\"b\"", "\"a\\\";b\"", "'a\\`b'", "'a\r\nb'", "`a\r\nb`", "'a;b'", "`a;b`", "/*;*/", "--;\n", "#;\n", "1٣", "٣", "１２",
	"'a\\éb'", "'\\п'", "`\\é`", "'\\😀'", "\"\\é\"", "'\\\xff'", "'\\x4é'", "١٢", "0é", "1e", "1e+", "0x", "0b", "0b2", "0o8", "1__2", "1_", "_1", "$1", "a$b", "e", "E5", "1E5", ".e1", ".1e", ".1_a", ".1_é", ".1a", ".1e5", "1.a", "1.e5",
}

func genLexCmd(in *bufio.Scanner, out *bufio.Writer, args []string) error {
	fs := flag.NewFlagSet("genlex", flag.ContinueOnError)
	mode := fs.String("mode", "exhaustive", "exhaustive | random | corpus | big | boundary | idents | lengths | bodies | many")
	maxLen := fs.Int("len", 3, "exhaustive: maximum length")
	n := fs.Int("n", 1000, "random: number of cases")
	seed := fs.Uint64("seed", 1, "random seed")
	repo := fs.String("repo", "/repo", "repository root (corpus mode)")
	if err := fs.Parse(args); err != nil {
		return err
	}
	switch *mode {
	case "exhaustive":
		buf := make([]byte, 0, *maxLen)
		var rec func(k int)
		rec = func(k int) {
			fmt.Fprintln(out, hx(buf))
			if k == *maxLen {
				return
			}
			for _, c := range lexAlphabet {
				buf = append(buf, c)
				rec(k + 1)
				buf = buf[:len(buf)-1]
			}
		}
		rec(0)
	case "random":
		r := &rng{s: *seed}
		for i := 0; i < *n; i++ {
			var sb strings.Builder
			switch r.intn(4) {
			case 0: // fragments
				k := 1 + r.intn(8)
				for j := 0; j < k; j++ {
					sb.WriteString(lexFragments[r.intn(len(lexFragments))])
					if r.intn(3) == 0 {
						sb.WriteByte(' ')
					}
				}
			case 1: // alphabet bytes
				k := r.intn(24)
				for j := 0; j < k; j++ {
					sb.WriteByte(lexAlphabet[r.intn(len(lexAlphabet))])
				}
			case 2: // arbitrary bytes
				k := r.intn(40)
				for j := 0; j < k; j++ {
					sb.WriteByte(byte(r.intn(256)))
				}
			default: // fragments mixed with bytes
				k := 1 + r.intn(6)
				for j := 0; j < k; j++ {
					if r.intn(2) == 0 {
						sb.WriteString(lexFragments[r.intn(len(lexFragments))])
					} else {
						sb.WriteByte(lexAlphabet[r.intn(len(lexAlphabet))])
					}
				}
			}
			fmt.Fprintln(out, hx([]byte(sb.String())))
		}
	case "corpus":
		files, _ := filepath.Glob(filepath.Join(*repo, "parser/testdata/*/query.sql"))
		r := &rng{s: *seed}
		cnt := 0
		for _, f := range files {
			if *n > 0 && cnt >= *n {
				break
			}
			if *n > 0 && r.intn(len(files)) >= 2**n { // sample about n files
				continue
			}
			b, err := os.ReadFile(f)
			if err != nil || len(b) > 200000 {
				continue
			}
			fmt.Fprintln(out, hx(b))
			cnt++
		}
	case "idents":
		// identifiers around fixed-size-buffer lengths, made of letters whose upper-case form has another UTF-8 length
		// (token.Lookup upper-cases the identifier), alone and mixed with ASCII, bare and followed by a token
		letters := []string{"a", "Z", "_", "ɐ", "ɑ", "ſ", "ı", "ǅ", "ß", "ŉ", "K", "é", "я", "ⱥ", "ȿ", "ꭰ", "ᲀ", "日", "😀", "٣", "１"}
		for _, l := range letters {
			for _, n := range []int{1, 2, 3, 4, 5, 6, 7, 8, 9, 10, 11, 12, 13, 15, 16, 17, 31, 32, 33, 63, 64, 65, 127, 128, 129, 255, 256, 257} {
				fmt.Fprintln(out, hx([]byte(strings.Repeat(l, n))))
				fmt.Fprintln(out, hx([]byte("SELECT "+strings.Repeat(l, n)+" FROM t")))
				if n <= 16 {
					for _, pre := range []string{"abcdefghij", "select", "x1_", "0"} {
						fmt.Fprintln(out, hx([]byte(pre+strings.Repeat(l, n))))
						fmt.Fprintln(out, hx([]byte(strings.Repeat(l, n)+pre+" ")))
					}
				}
			}
		}
		// every keyword spelling extended by one more character or a suffix, and embedded in a longer word: only the exact
		// spelling is the keyword (Lookup "from that spelling and from no other")
		kws := make([]string, 0, len(token.Keywords))
		for k := range token.Keywords {
			kws = append(kws, k)
		}
		sort.Strings(kws)
		for _, k := range kws {
			for _, w := range []string{k + "_AT", k + "1", strings.ToLower(k) + "_total", "X" + k, k + "S", k + k, k[:len(k)-1], k + "\x00", k + "é"} {
				fmt.Fprintln(out, hx([]byte("SELECT 1 "+w+" ")))
			}
		}
		// a multi-byte letter starting at every offset of an otherwise ASCII identifier (a rune straddling the end of a
		// fixed-size buffer of ANY size up to 70 bytes, and around 128 / 256), 2-, 3- and 4-byte letters
		for _, l := range []string{"é", "日", "𝐀", "ɐ"} {
			ps := []int{}
			for p := 1; p <= 70; p++ {
				ps = append(ps, p)
			}
			ps = append(ps, 125, 126, 127, 128, 253, 254, 255, 256, 509, 510, 511, 1021, 1022, 1023)
			for _, p := range ps {
				fmt.Fprintln(out, hx([]byte("SELECT "+strings.Repeat("a", p)+l+"b FROM t")))
			}
		}
	case "categories":
		// representatives (first, middle, last code point of the 16- and 32-bit ranges) of EVERY Unicode general category of the
		// installed Go, at a token start, inside and after words and numbers, in strings and comments: whatever the lexer's
		// character classes are built from (IsLetter, IsDigit, IsSpace, a category of its own), each class is hit
		cats := make([]string, 0, len(unicode.Categories))
		for name := range unicode.Categories {
			cats = append(cats, name)
		}
		sort.Strings(cats)
		seen := map[rune]bool{}
		for _, name := range cats {
			tab := unicode.Categories[name]
			var reps []rune
			if n := len(tab.R16); n > 0 {
				reps = append(reps, rune(tab.R16[0].Lo), rune(tab.R16[n/2].Lo), rune(tab.R16[n-1].Hi))
			}
			if n := len(tab.R32); n > 0 {
				reps = append(reps, rune(tab.R32[0].Lo), rune(tab.R32[n/2].Lo), rune(tab.R32[n-1].Hi))
			}
			for _, r := range reps {
				if seen[r] || (r >= 0xD800 && r <= 0xDFFF) {
					continue
				}
				seen[r] = true
				c := string(r)
				for _, t := range []string{c, "SELECT " + c, "SELECT " + c + " FROM t", "a" + c, c + "a", "1" + c, c + "1", "'" + c + "'", "-- " + c + "\n1", "SELECT a." + c, "$" + c + "$x$" + c + "$", c + c + c} {
					fmt.Fprintln(out, hx([]byte(t)))
				}
			}
		}
	case "bodies":
		// every quoted / comment context with awkward bodies (line breaks, multi-byte text on the last line, the
		// context's own delimiters and statement separators inside), followed by more tokens on the same line
		ctxs := []struct{ open, close string }{{"'", "'"}, {"\"", "\""}, {"`", "`"}, {"$$", "$$"}, {"$t$", "$t$"}, {"$doc$", "$doc$"}, {"/*", "*/"}, {"/* /*", "*/ */"},
			// dollar-quote tags are identifiers: non-ASCII letters, digits and '_' in the tag, with and without a matching closer
			{"$é$", "$é$"}, {"$тег$", "$тег$"}, {"$t_1$", "$t_1$"}, {"$日$", "$日$"}, {"$é$", "$e$"}, {"$aé$", "$aé$"}, {"$é$", ""},
			{"-- ", "\n"}, {"# ", "\n"}, {"{", "}"}, {"x'", "'"}, {"‘", "’"}, {"“", "”"}, {"", ""},
			// curly quotes in the other three pairings (which quote closes which is the lexer's rule, whatever it is)
			{"’", "’"}, {"‘", "‘"}, {"’", "‘"}, {"”", "”"}, {"“", "“"}, {"”", "“"}}
		bodies := []string{"", "a", "\n", "a\nb", "é", "a\nб", "вторая строка", "first line\nвторая строка", "日本\n語", "\r\n", "a\r\nb", ";", "a;\nb;\n", ";\n", "a;b", "$", "$x", "a$b$c",
			"a\u2028b", "a\u2029b", "a\u0085b", "a\vb", "a\fb", "a\rb", "\u200b", "a\ufeffb",
			"tmp/*/2024", "/*", "*/", "*", "/", "--", "#", "'", "''", "\\'", "\"", "\\\"", "`", "``", "\\`", "\\", "\\\\", "\\n", "\\x41", "\\x", "\x00", "\xff", "\t", "{", "}", "{p:UInt8}", "0x1f", "1e5"}
		for _, c := range ctxs {
			for _, b := range bodies {
				fmt.Fprintln(out, hx([]byte(c.open+b+c.close)))
				fmt.Fprintln(out, hx([]byte("SELECT "+c.open+b+c.close+" AS a, b FROM t; SELECT 2")))
				fmt.Fprintln(out, hx([]byte("x "+c.open+b)))
			}
		}
	case "lengths":
		// every token class at every small size and around the powers of two (fixed-size windows, look-ahead limits,
		// digit grouping): templates with a repeated unit
		sizes := []int{}
		for n := 0; n <= 40; n++ {
			sizes = append(sizes, n)
		}
		for _, c := range []int{48, 64, 96, 128, 256, 512, 1024, 2048, 4096, 8192} {
			sizes = append(sizes, c-2, c-1, c, c+1, c+2)
		}
		tmpl := []struct{ pre, unit, post string }{
			{".", "0", ""}, {".", "0", "1"}, {"1.", "0", "5"}, {"0.", "0", "1e5"}, {".", "9", "e"}, {".", "9", "e5"}, {"", "1", ""}, {"", "9", ".5"},
			{"1e", "1", ""}, {"1e-", "0", "1"}, {"0x", "f", ""}, {"0x", "0", "1p3"}, {"0b", "1", ""}, {"0o", "7", ""}, {"1", "_0", ""}, {"0", "0", "7"},
			{"'", "a", "'"}, {"'", "a", "''b'"}, {"'", "a", "\\'b'"}, {"'", "é", "'"}, {"'", "\\n", "'"}, {"'", "''", "'"},
			{"`", "a", "`"}, {"`", "a", "``b`"}, {"\"", "a", "\""}, {"\"", "a", "\"\"b\""},
			{"$t$", "a", "$t$"}, {"$$", "a", "$$"}, {"$", "t", "$ x $tttt$"}, {"$tag$", "é", "$tag$"}, {"$t$", "a", ""},
			{"/*", "a", "*/"}, {"/*", "/*", "*/"}, {"/*", "*", "/"}, {"--", "a", "\n1"}, {"#", "a", "\n1"}, {"{p:", "a", "}"}, {"{", "a", ""},
			{"x'", "41", "'"}, {"x'", "4", "'"}, {"b'", "1", "'"}, {"b'", "01", "'"}, {"B'", "1", ""}, {"X'", "f", ""},
			{"a.", "0", ""}, {"a.", "1", "x"}, {"t.", "a", ""}, {"@@", "a", ""}, {"", "a.", "b"}, {"", " ", "1"}, {"", "\n", "1"}, {"", "(", ""}, {"", ";", ""},
			{"‘", "a", "’"}, {"“", "a", "”"}, {"−", "a", "\n1"},
		}
		for _, t := range tmpl {
			for _, n := range sizes {
				if n > 300 && len(t.unit) > 1 && n%3 != 0 {
					continue
				}
				fmt.Fprintln(out, hx([]byte(t.pre+strings.Repeat(t.unit, n)+t.post)))
				if n <= 40 || n%64 == 0 {
					fmt.Fprintln(out, hx([]byte("SELECT "+t.pre+strings.Repeat(t.unit, n)+t.post+" AS x, 2")))
				}
			}
		}
	case "boundary":
		// a lexically significant fragment placed so that it straddles a bufio fill boundary (4096, 8192), in every
		// scanner context: look-ahead (Peek) and multi-byte decoding must not depend on where the buffer ends
		ctxs := []struct{ open, close string }{{"", ""}, {"/* ", " */"}, {"'", "'"}, {"`", "`"}, {"\"", "\""}, {"-- ", "\n"}, {"# ", "\n"}, {"$$", "$$"}, {"$t$", "$t$"}, {"{", "}"}, {"x'", "'"}}
		frags := []string{"*/", "/*", "/*/", "''", "\\'", "\\\\", "``", "\\`", "\"\"", "\\\"", "é", "日", "😀", "\r\n", "::", "<=>", "->", "||", "<=", ">=", "!=", "<>", "==", "a<=b", "1.5e-3", "1..2", "a.1", "--", "$$", "$t$", "0x1f", "1e5", "1.5", "@@v", "x'41'", "{p:T}", "ab", "\xff\xfe", " \n", "\\x41", "\\n", ";", "−", "‘", "’"}
		for _, c := range ctxs {
			for _, f := range frags {
				for _, at := range []int{4096, 8192} {
					for k := 0; k <= len(f); k++ {
						pad := at - len(c.open) - k
						fmt.Fprintln(out, hx([]byte(c.open+strings.Repeat("a", pad)+f+" b "+c.close+" c;d")))
					}
				}
			}
		}
	case "many":
		// token COUNTS beyond any plausible internal cap (2^16, 2^18): one-byte tokens
		for _, c := range []struct {
			unit string
			n    int
		}{{";", 70000}, {";", 270000}, {"1,", 140000}, {"( ", 270000}, {"a ", 270000}} {
			fmt.Fprintln(out, hx([]byte(strings.Repeat(c.unit, c.n))))
		}
	case "big": // one large input per scanner: unterminated constructs and long runs (size given by -n)
		size := *n
		heads := []string{"'", "\"", "`", "/*", "--", "#", "{", "$$", "$t$", "x'", "b'", "‘", "“", "−", "", "1", "a", " ", "(", "1e", "0x", "$", "@@", "'\\"}
		fills := []string{"a", "'", "\\", "1", " ", "*/", "/*", "$", "é", "\xff", "_", "0", ";", "\n", "(", "e"}
		for i, h := range heads {
			f := fills[i%len(fills)]
			fmt.Fprintln(out, hx([]byte(h+strings.Repeat(f, size/len(f)))))
		}
	default:
		return fmt.Errorf("unknown mode %s", *mode)
	}
	_ = strconv.Itoa
	return nil
}
