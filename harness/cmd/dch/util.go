package main

import "encoding/hex"

func unhex(s string) ([]byte, error) {
	if s == "-" {
		return nil, nil
	}
	return hex.DecodeString(s)
}

func hx(b []byte) string {
	if len(b) == 0 {
		return "-"
	}
	return hex.EncodeToString(b)
}

// splitmix64
type rng struct{ s uint64 }

func (r *rng) next() uint64 {
	r.s += 0x9e3779b97f4a7c15
	z := r.s
	z = (z ^ (z >> 30)) * 0xbf58476d1ce4e5b9
	z = (z ^ (z >> 27)) * 0x94d049bb133111eb
	return z ^ (z >> 31)
}
func (r *rng) intn(n int) int { return int(r.next() % uint64(n)) }
