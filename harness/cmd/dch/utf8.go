package main

import "unicode/utf8"

func decodeRune(b []byte) (rune, int) { return utf8.DecodeRune(b) }
