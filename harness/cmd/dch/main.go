// dch is the correspondence harness: each subcommand reads cases from stdin (one per line,
// byte strings in lowercase hex, "-" for empty) and prints the projection of the real
// implementation's behaviour that the matching OCaml driver prints for the Coq model.
package main

import (
	"bufio"
	"fmt"
	"os"
)

type cmd func(in *bufio.Scanner, out *bufio.Writer, args []string) error

var commands = map[string]cmd{}

func main() {
	if len(os.Args) < 2 {
		fmt.Fprintln(os.Stderr, "usage: dch <subcommand> [args]")
		os.Exit(2)
	}
	c, ok := commands[os.Args[1]]
	if !ok {
		fmt.Fprintln(os.Stderr, "dch: unknown subcommand", os.Args[1])
		os.Exit(2)
	}
	in := bufio.NewScanner(os.Stdin)
	in.Buffer(make([]byte, 1<<22), 1<<26)
	out := bufio.NewWriterSize(os.Stdout, 1<<20)
	err := c(in, out, os.Args[2:])
	out.Flush()
	if err != nil {
		fmt.Fprintln(os.Stderr, "dch:", err)
		os.Exit(2)
	}
}
