package main

import (
	"bufio"
	"bytes"
	"fmt"
	"time"

	"github.com/sqlc-dev/doubleclick/lexer"
	"github.com/sqlc-dev/doubleclick/token"
)

func init() { commands["lex"] = lexCmd }

// lexCmd prints, per input, the token list of lexer.Tokenize as
// tok:valhex:off:line:col:q separated by spaces; PANIC:<msg> if it panics.
// With arg "check" it additionally verifies the C12/C13 clauses directly on the
// implementation and appends "\tBAD:<clause>" when one fails.
func lexCmd(in *bufio.Scanner, out *bufio.Writer, args []string) error {
	check := len(args) > 0 && args[0] == "check"
	for in.Scan() {
		b, err := unhex(in.Text())
		if err != nil {
			return err
		}
		items, pmsg := safeTokenize(b)
		if pmsg != "" {
			fmt.Fprintf(out, "PANIC:%s\n", pmsg)
			continue
		}
		for i, it := range items {
			if i > 0 {
				out.WriteByte(' ')
			}
			q := 0
			if it.Quoted {
				q = 1
			}
			fmt.Fprintf(out, "%d:%s:%d:%d:%d:%d", int(it.Token), hx([]byte(it.Value)), it.Pos.Offset, it.Pos.Line, it.Pos.Column, q)
		}
		if check {
			if bad := lexClauses(b, items); bad != "" {
				fmt.Fprintf(out, "\tBAD:%s", bad)
			}
		}
		out.WriteByte('\n')
	}
	return in.Err()
}

// safeTokenize is lexer.Tokenize with two guards that turn non-termination into an observation: the NextToken loop is
// capped at len(b)+2 tokens (C12: at most one token per byte plus one), and the whole run has a watchdog.
func safeTokenize(b []byte) (items []lexer.Item, pmsg string) {
	type res struct {
		items []lexer.Item
		pmsg  string
	}
	ch := make(chan res, 1)
	go func() {
		var r res
		defer func() {
			if x := recover(); x != nil {
				r.pmsg = fmt.Sprint(x)
			}
			ch <- r
		}()
		l := lexer.New(bytes.NewReader(b))
		for {
			it := l.NextToken()
			r.items = append(r.items, it)
			if it.Token == token.EOF {
				break
			}
			if len(r.items) > len(b)+2 {
				r.pmsg = "RUNAWAY: more than len+2 tokens without reaching EOF (Tokenize would not terminate)"
				break
			}
		}
		if r.pmsg == "" {
			// the stepping above terminated, so lexer.Tokenize itself terminates on this input: it must return exactly
			// the items NextToken hands out (no cap, no post-processing, EOF last)
			tz := lexer.Tokenize(bytes.NewReader(b))
			same := len(tz) == len(r.items)
			for i := 0; same && i < len(tz); i++ {
				same = tz[i] == r.items[i]
			}
			if !same {
				r.pmsg = fmt.Sprintf("TOKENIZE: lexer.Tokenize returns %d items, stepping NextToken to EOF gives %d (or they differ)", len(tz), len(r.items))
			}
		}
	}()
	select {
	case r := <-ch:
		return r.items, r.pmsg
	case <-time.After(20 * time.Second):
		return nil, "HANG: a NextToken call did not return within 20 s"
	}
}

// lexClauses checks C12 (one EOF, last; count bound; EOF sticky) and C13 (a)-(b) on the implementation.
func lexClauses(b []byte, items []lexer.Item) string {
	n := len(items)
	if n == 0 || items[n-1].Token != token.EOF {
		return "last-not-eof"
	}
	for i := 0; i < n-1; i++ {
		if items[i].Token == token.EOF {
			return "eof-inside"
		}
	}
	if n > len(b)+1 {
		return "too-many-tokens"
	}
	l := lexer.New(bytes.NewReader(b))
	for {
		if l.NextToken().Token == token.EOF {
			break
		}
	}
	for k := 0; k < 3; k++ {
		if l.NextToken().Token != token.EOF {
			return "eof-not-sticky"
		}
	}
	// line/column of every rune end: lines[k], cols[k] for the rune whose last byte is at 1-based offset k
	lines := make([]int32, len(b)+1)
	cols := make([]int32, len(b)+1)
	{
		line, col := int32(1), int32(0)
		for i := 0; i < len(b); {
			_, sz := decodeRune(b[i:])
			col++
			lines[i+sz], cols[i+sz] = line, col
			if b[i] == '\n' {
				line++
				col = 0
			}
			i += sz
		}
	}
	prev := 0
	for i, it := range items {
		off := it.Pos.Offset
		if it.Token == token.EOF {
			if off < prev || off > len(b) {
				return "eof-offset"
			}
			// EOF repeats the position of the last rune read (a real place of the input); {0,1,0} before any rune
			if off >= 1 && (int(lines[off]) != it.Pos.Line || int(cols[off]) != it.Pos.Column) {
				return "eof-linecol"
			}
			if off == 0 && (it.Pos.Line != 1 || it.Pos.Column != 0) {
				return "eof-linecol"
			}
			continue
		}
		if off <= prev && i > 0 || off < 1 || off > len(b) {
			return fmt.Sprintf("offset-order@%d", i)
		}
		prev = off
		// the designated byte is the LAST byte of the token's first rune
		if int(lines[off]) != it.Pos.Line || int(cols[off]) != it.Pos.Column || cols[off] == 0 {
			return fmt.Sprintf("linecol@%d", i)
		}
	}
	return ""
}
