//go:build verif

// litdump: the implementation side of the C09 correspondence (literals).
//
// stdin : one literal SOURCE text per line, lowercase hex ("-" = empty).
// stdout: one line per input line:
//
//	<hex src> TAB L TAB <hex of the text after "Literal " on the first select column's line of `SELECT <src>`>
//	<hex src> TAB NOTLIT TAB <hex of that first line>      the first select column is not rendered as a Literal line
//	<hex src> TAB ERR TAB -                                parse error / not exactly one statement / unexpected shape
//	<hex src> TAB PANIC TAB -
//
// With -floats a further TAB-separated field is appended: the strconv oracle for every NUMBER token of <src>
// (in lexer order, joined by ","; "-" when there is none):
//
//	<hex token value>:<pf>:<iv>:<nf>
//	  pf = strconv.ParseFloat(value, 64):  E (err != nil) | <fl>
//	  iv = the integer denoted by the value (decimal digits: base 10; otherwise big.Int.SetString(value, 0)), in
//	       decimal, or E when it denotes none
//	  nf = the float64 nearest to iv (big.Float.SetInt(iv).Float64(), round to nearest even), as <fl>, or E
//	  <fl> = N | I+ | I- | <sign><digits>e<exp10>   with <sign> + or -, <digits> the shortest round-tripping decimal
//	       digits d1d2..dk of strconv.FormatFloat(f, 'e', -1, 64) (value d1.d2..dk * 10^exp10), exp10 a signed decimal
//
// With -tokens (instead of the above) the line is
//
//	<hex src> TAB T TAB <tok>:<hex value>,<tok>:<hex value>,...   ("-" for no tokens / an empty value)
//
// the items of lexer.Tokenize(<src>) up to (excluding) EOF; <tok> is the decimal token.Token (= coq/Gen/TokenTable.v).
// Used for quoted identifiers, which are not literals.
//
// Build: cd /verif/harness && go build -tags verif -o /verif/build/litdump ./cmd/litdump
package main

import (
	"bufio"
	"context"
	"encoding/hex"
	"flag"
	"fmt"
	"math"
	"math/big"
	"os"
	"strconv"
	"strings"
	"verif/harness/rdr"

	"github.com/sqlc-dev/doubleclick/lexer"
	"github.com/sqlc-dev/doubleclick/parser"
	"github.com/sqlc-dev/doubleclick/token"
)

func hexOrDash(b []byte) string {
	if len(b) == 0 {
		return "-"
	}
	return hex.EncodeToString(b)
}

// firstColumnLine returns the line of the first select column of the EXPLAIN text of `SELECT <e>`.
func firstColumnLine(text string) (string, bool) {
	lines := strings.Split(strings.TrimSuffix(text, "\n"), "\n")
	if len(lines) < 5 {
		return "", false
	}
	if !strings.HasPrefix(lines[0], "SelectWithUnionQuery (children 1)") ||
		lines[1] != " ExpressionList (children 1)" ||
		lines[2] != "  SelectQuery (children 1)" ||
		lines[3] != "   ExpressionList (children 1)" ||
		!strings.HasPrefix(lines[4], "    ") {
		return "", false
	}
	return lines[4][4:], true
}

// inList / inListAlias (flags -inlist, -inlist-alias): the source is a parenthesised value list; it is explained as the
// right operand of IN (`SELECT x IN <src>` / `SELECT x IN <src> AS hit`) and the line reported is the one of that operand.
var inList, inListAlias bool

func explainIn(src string) (res string) {
	defer func() {
		if r := recover(); r != nil {
			res = "PANIC\t-"
		}
	}()
	sql := "SELECT x IN " + src
	if inListAlias {
		sql += " AS hit"
	}
	stmts, err := parser.Parse(context.Background(), rdr.For(sql))
	if err != nil || len(stmts) != 1 {
		return "ERR\t-"
	}
	lines := strings.Split(strings.TrimSuffix(rdr.Twice(func() string { return parser.Explain(stmts[0]) }), "\n"), "\n")
	for i, l := range lines {
		if strings.TrimLeft(l, " ") == "Identifier x" && i+1 < len(lines) {
			op := strings.TrimLeft(lines[i+1], " ")
			if strings.HasPrefix(op, "Literal ") {
				return "L\t" + hexOrDash([]byte(op[len("Literal "):]))
			}
			return "NOTLIT\t" + hexOrDash([]byte(op))
		}
	}
	return "ERR\t-"
}

func explainOne(src string) (res string) {
	if inList || inListAlias {
		return explainIn(src)
	}
	defer func() {
		if r := recover(); r != nil {
			res = "PANIC\t-"
		}
	}()
	stmts, err := parser.Parse(context.Background(), rdr.For("SELECT "+src))
	if err != nil || len(stmts) != 1 {
		return "ERR\t-"
	}
	text := rdr.Twice(func() string { return parser.Explain(stmts[0]) })
	// a literal containing a newline would break the line structure: EXPLAIN escapes them, so the
	// first column's line is a full line of the text
	line, ok := firstColumnLine(text)
	if !ok {
		return "ERR\t-"
	}
	if strings.HasPrefix(line, "Literal ") {
		// a Literal line has no children: it must be the last line
		if strings.Count(strings.TrimSuffix(text, "\n"), "\n") != 4 {
			return "ERR\t-"
		}
		return "L\t" + hexOrDash([]byte(line[len("Literal "):]))
	}
	return "NOTLIT\t" + hexOrDash([]byte(line))
}

func flString(f float64) string {
	switch {
	case math.IsNaN(f):
		return "N"
	case math.IsInf(f, 1):
		return "I+"
	case math.IsInf(f, -1):
		return "I-"
	}
	s := strconv.FormatFloat(f, 'e', -1, 64) // [-]d[.ddd]e±dd
	sign := "+"
	if strings.HasPrefix(s, "-") {
		sign = "-"
		s = s[1:]
	}
	i := strings.IndexByte(s, 'e')
	mant, exp := s[:i], s[i+1:]
	digits := strings.Replace(mant, ".", "", 1)
	e, err := strconv.Atoi(exp)
	if err != nil {
		panic(err)
	}
	return fmt.Sprintf("%s%se%d", sign, digits, e)
}

func allDigits(s string) bool {
	if s == "" {
		return false
	}
	for i := 0; i < len(s); i++ {
		if s[i] < '0' || s[i] > '9' {
			return false
		}
	}
	return true
}

func oracleOf(src string) string {
	items := lexer.Tokenize(strings.NewReader(src))
	var parts []string
	for _, it := range items {
		if it.Token == token.EOF {
			break
		}
		if it.Token != token.NUMBER {
			continue
		}
		v := it.Value
		pf := "E"
		if f, err := strconv.ParseFloat(v, 64); err == nil {
			pf = flString(f)
		}
		iv, nf := "E", "E"
		bi := new(big.Int)
		var ok bool
		if allDigits(v) {
			_, ok = bi.SetString(v, 10)
		} else {
			_, ok = bi.SetString(v, 0)
		}
		if ok {
			iv = bi.String()
			f, _ := new(big.Float).SetInt(bi).Float64()
			nf = flString(f)
		}
		parts = append(parts, fmt.Sprintf("%s:%s:%s:%s", hexOrDash([]byte(v)), pf, iv, nf))
	}
	if len(parts) == 0 {
		return "-"
	}
	return strings.Join(parts, ",")
}

func tokensOf(src string) string {
	items := lexer.Tokenize(strings.NewReader(src))
	var parts []string
	for _, it := range items {
		if it.Token == token.EOF {
			break
		}
		parts = append(parts, fmt.Sprintf("%d:%s", int(it.Token), hexOrDash([]byte(it.Value))))
	}
	if len(parts) == 0 {
		return "-"
	}
	return strings.Join(parts, ",")
}

func main() {
	floats := flag.Bool("floats", false, "append the strconv oracle of every NUMBER token")
	tokens := flag.Bool("tokens", false, "print the token stream of the source text instead")
	flag.BoolVar(&inList, "inlist", false, "explain the source as the right operand of IN")
	flag.BoolVar(&inListAlias, "inlist-alias", false, "the same, with an alias on the IN expression")
	flag.Parse()
	in := bufio.NewReaderSize(os.Stdin, 1<<20)
	out := bufio.NewWriterSize(os.Stdout, 1<<20)
	defer out.Flush()
	for {
		line, err := in.ReadString('\n')
		line = strings.TrimRight(line, "\r\n")
		if line != "" {
			var src []byte
			bad := false
			if line != "-" {
				b, herr := hex.DecodeString(line)
				if herr != nil {
					fmt.Fprintf(out, "%s\tBADHEX\n", line)
					bad = true
				}
				src = b
			}
			if !bad {
				if *tokens {
					fmt.Fprintf(out, "%s\tT\t%s\n", line, tokensOf(string(src)))
				} else if *floats {
					fmt.Fprintf(out, "%s\t%s\t%s\n", line, explainOne(string(src)), oracleOf(string(src)))
				} else {
					fmt.Fprintf(out, "%s\t%s\n", line, explainOne(string(src)))
				}
			}
		}
		if err != nil {
			break
		}
	}
}
