//go:build verif

// selectdump: the implementation side of the SELECT-core correspondence (C17-F2, C01/C03 fragment).
//
// stdin : one SQL text per line, lowercase hex ("-" = empty); anything after a TAB is ignored.
// stdout: one line per input line:
//
//	<hex sql> TAB <status> TAB <hex of the concatenated EXPLAIN text of all statements | ->
//
//	status = ok          parser.Parse returned no error; third field = Explain(stmt) of every statement
//	         err:<n>     Parse returned an error; n = number of entries of p.errors (every entry of the
//	                     fragment ends in " at line L, column C"); third field "-"
//	         PANIC       Parse or Explain panicked; third field "-"
//
//	-tokens : adds a fourth field  <tok>:<hex value>,...  = lexer.Tokenize output without
//	          WHITESPACE / LINE_COMMENT / EOF (what parser.nextToken delivers), <tok> decimal.
//	-keywords : prints every keyword token as "<decimal token>\t<spelling>" and exits (used by the
//	          case generator so that it follows the current token table).
//
// Build: cd /verif/harness && go build -tags verif -o /verif/build/selectdump ./cmd/selectdump
package main

import (
	"bufio"
	"context"
	"encoding/hex"
	"flag"
	"fmt"
	"os"
	"strings"
	"verif/harness/rdr"

	"github.com/sqlc-dev/doubleclick/lexer"
	"github.com/sqlc-dev/doubleclick/parser"
	"github.com/sqlc-dev/doubleclick/token"
)

func hexOrDash(b []byte) string {
	if len(b) == 0 {
		return "-"
	}
	return hex.EncodeToString(b)
}

func runOne(src string) (status string, text string) {
	defer func() {
		if r := recover(); r != nil {
			status, text = "PANIC", ""
		}
	}()
	stmts, err := parser.Parse(context.Background(), rdr.For(src))
	if err != nil {
		msg := err.Error()
		if !strings.HasPrefix(msg, "parse errors: ") {
			return "err:other", ""
		}
		return fmt.Sprintf("err:%d", strings.Count(msg, " at line ")), ""
	}
	var sb strings.Builder
	for _, s := range stmts {
		sb.WriteString(rdr.Twice(func() string { return parser.Explain(s) }))
	}
	return "ok", sb.String()
}

func tokensOf(src string) string {
	items := lexer.Tokenize(strings.NewReader(src))
	var parts []string
	for _, it := range items {
		if it.Token == token.EOF {
			break
		}
		if it.Token == token.WHITESPACE || it.Token == token.LINE_COMMENT {
			continue
		}
		parts = append(parts, fmt.Sprintf("%d:%s", int(it.Token), hexOrDash([]byte(it.Value))))
	}
	if len(parts) == 0 {
		return "-"
	}
	return strings.Join(parts, ",")
}

func main() {
	tokens := flag.Bool("tokens", false, "also print the token stream")
	keywords := flag.Bool("keywords", false, "print the keyword table and exit")
	flag.Parse()
	out := bufio.NewWriterSize(os.Stdout, 1<<20)
	defer out.Flush()
	if *keywords {
		for k := token.Token(0); k < 100000; k++ {
			if k.IsKeyword() {
				fmt.Fprintf(out, "%d\t%s\n", int(k), k.String())
			}
			if k > 64 && !k.IsKeyword() && k.String() == "" {
				break
			}
		}
		return
	}
	in := bufio.NewReaderSize(os.Stdin, 1<<20)
	for {
		line, err := in.ReadString('\n')
		line = strings.TrimRight(line, "\r\n")
		if i := strings.IndexByte(line, '\t'); i >= 0 {
			line = line[:i] // further fields (e.g. the generator's stream label) are ignored
		}
		if line != "" {
			var src []byte
			ok := true
			if line != "-" {
				b, herr := hex.DecodeString(line)
				if herr != nil {
					fmt.Fprintf(out, "%s\tBADHEX\t-\n", line)
					ok = false
				}
				src = b
			}
			if ok {
				status, text := runOne(string(src))
				if *tokens {
					fmt.Fprintf(out, "%s\t%s\t%s\t%s\n", line, status, hexOrDash([]byte(text)), tokensOf(string(src)))
				} else {
					fmt.Fprintf(out, "%s\t%s\t%s\n", line, status, hexOrDash([]byte(text)))
				}
			}
		}
		if err != nil {
			break
		}
	}
}
