package main

import (
	"bufio"
	"bytes"
	"fmt"
	"os"
	"unicode"
	"unicode/utf8"

	"github.com/sqlc-dev/doubleclick/token"
)

// splitmix64
type rng struct{ s uint64 }

func (r *rng) next() uint64 {
	r.s += 0x9e3779b97f4a7c15
	z := r.s
	z = (z ^ (z >> 30)) * 0xbf58476d1ce4e5b9
	z = (z ^ (z >> 27)) * 0x94d049bb133111eb
	return z ^ (z >> 31)
}
func (r *rng) intn(n int) int { return int(r.next() % uint64(n)) }

// caseRng gives case i of a run its own generator, so that a case replays alone.
func caseRng(seed uint64, i int) *rng {
	r := &rng{s: seed}
	a := r.next()
	r2 := &rng{s: a ^ (uint64(i)+1)*0xd1342543de82ef95}
	r2.next()
	return r2
}

func readCorpus(path string) ([][]byte, error) {
	f, err := os.Open(path)
	if err != nil {
		return nil, err
	}
	defer f.Close()
	sc := bufio.NewScanner(f)
	sc.Buffer(make([]byte, 1<<20), 1<<26)
	var out [][]byte
	for sc.Scan() {
		if len(bytes.TrimSpace(sc.Bytes())) == 0 {
			continue
		}
		out = append(out, append([]byte(nil), sc.Bytes()...))
	}
	return out, sc.Err()
}

func runHexCorpus(path string) error {
	stmts, err := readCorpus(path)
	if err != nil {
		return err
	}
	out := bufio.NewWriterSize(os.Stdout, 1<<20)
	defer out.Flush()
	for _, s := range stmts {
		fmt.Fprintln(out, hx(s))
	}
	return nil
}

// tok is one element of a mutable token list: the source text of a token and, for tokens of the
// original statement, its index there (-1 for inserted or duplicated tokens).
type tok struct {
	text string
	id   int
}

// stmt is a corpus statement split into the source texts of its non-comment tokens.
type stmt struct {
	toks []tok
	// glued[i]: token i followed token i-1 with nothing in between in the original
	glued []bool
}

func isSpaceRune(r rune) bool {
	switch r {
	case '\uFEFF', '\u180E', '\u200B', '\u200C', '\u200D', '\u2060':
		return true
	}
	return unicode.IsSpace(r)
}

func trimRightSpace(b []byte) []byte {
	for len(b) > 0 {
		r, sz := utf8.DecodeLastRune(b)
		if !isSpaceRune(r) {
			break
		}
		b = b[:len(b)-sz]
	}
	return b
}

// splitStatement recovers the source text of every token from the reported positions: token i
// starts at the first byte of the rune that ends at Pos.Offset and extends to the start of token
// i+1 (white space trimmed). That is wrong for tokens whose position is not their first rune, so
// every recovered text is re-tokenized alone and must give back the same single token; a
// statement where that fails is not used.
func splitStatement(b []byte) (st stmt, ok bool) {
	items, pmsg := safeTokenize(b)
	if pmsg != "" || len(items) < 2 {
		return st, false
	}
	runeStart := make([]int, len(b)+1) // runeStart[end] = start of the rune ending at end, -1 if none
	for i := range runeStart {
		runeStart[i] = -1
	}
	for i := 0; i < len(b); {
		_, sz := utf8.DecodeRune(b[i:])
		runeStart[i+sz] = i
		i += sz
	}
	n := len(items) - 1 // without EOF
	starts := make([]int, n+1)
	for i := 0; i < n; i++ {
		off := items[i].Pos.Offset
		if off < 1 || off > len(b) || runeStart[off] < 0 {
			return st, false
		}
		starts[i] = runeStart[off]
		if i > 0 && starts[i] <= starts[i-1] {
			return st, false
		}
	}
	starts[n] = len(b)
	gap := true
	for i := 0; i < n; i++ {
		span := b[starts[i]:starts[i+1]]
		text := trimRightSpace(span)
		if items[i].Token == token.LINE_COMMENT || items[i].Token == token.WHITESPACE {
			gap = true
			continue
		}
		re, pm := safeTokenize(text)
		if pm != "" || len(re) != 2 || re[0].Token != items[i].Token || re[0].Value != items[i].Value || re[1].Token != token.EOF {
			return st, false
		}
		st.toks = append(st.toks, tok{text: string(text), id: len(st.toks)})
		st.glued = append(st.glued, !gap)
		gap = len(text) != len(span)
	}
	return st, len(st.toks) > 0
}

var strayPool = []string{
	")", "(", ",", ";", "]", "[", "SELECT", "FROM", "WHERE", "123", "'s'", "x", "=", "::", "->", ".", "*", "AS", "BY",
	"{p:UInt8}", "!", "|", "é", "日本", "@", "@@v", "$$h$$", "0x1F", "1e5", "NULL",
}

var separators = []string{
	" ", "\n", "\n  ", "\t", " /* é comment 日本 */ ", " -- c é\n", "\r\n", "\n\n", "  ",
}

var rawBytes = []byte{0xff, 0xc3, 0x00, 0xe6, 0x80}

func mutate(r *rng, st stmt) []byte {
	toks := append([]tok(nil), st.toks...)
	nm := 1 + r.intn(3)
	for m := 0; m < nm; m++ {
		if len(toks) == 0 {
			toks = append(toks, tok{text: strayPool[r.intn(len(strayPool))], id: -1})
			continue
		}
		switch r.intn(5) {
		case 0: // truncate after token k
			k := r.intn(len(toks))
			toks = toks[:k+1]
		case 1: // delete a token
			k := r.intn(len(toks))
			toks = append(toks[:k:k], toks[k+1:]...)
		case 2: // duplicate a token
			k := r.intn(len(toks))
			d := tok{text: toks[k].text, id: -1}
			toks = append(toks[:k+1:k+1], append([]tok{d}, toks[k+1:]...)...)
		case 3: // swap two adjacent tokens
			if len(toks) >= 2 {
				k := r.intn(len(toks) - 1)
				toks[k], toks[k+1] = toks[k+1], toks[k]
			}
		case 4: // insert a stray token
			k := r.intn(len(toks) + 1)
			s := tok{text: strayPool[r.intn(len(strayPool))], id: -1}
			toks = append(toks[:k:k], append([]tok{s}, toks[k:]...)...)
		}
	}
	// re-layout
	var out []byte
	if r.intn(4) == 0 {
		out = append(out, separators[r.intn(len(separators))]...)
	}
	for i, t := range toks {
		if i > 0 {
			p := toks[i-1]
			if p.id >= 0 && t.id == p.id+1 && st.glued[t.id] && r.intn(2) == 0 {
				// adjacent in the original: stay adjacent
			} else {
				out = append(out, separators[r.intn(len(separators))]...)
			}
		}
		out = append(out, t.text...)
	}
	if r.intn(4) == 0 {
		out = append(out, separators[r.intn(len(separators))]...)
	}
	// raw byte-level mutation for about one mutant in ten
	if r.intn(10) == 0 {
		k := r.intn(len(out) + 1)
		c := rawBytes[r.intn(len(rawBytes))]
		out = append(out[:k:k], append([]byte{c}, out[k:]...)...)
	}
	return out
}

func runGen(seed uint64, count int, path string) error {
	raw, err := readCorpus(path)
	if err != nil {
		return err
	}
	var stmts []stmt
	for _, s := range raw {
		if st, ok := splitStatement(s); ok {
			stmts = append(stmts, st)
		}
	}
	fmt.Fprintf(os.Stderr, "posmsg: corpus %d statements, %d usable for token mutation\n", len(raw), len(stmts))
	if len(stmts) == 0 {
		return fmt.Errorf("no usable corpus statement in %s", path)
	}
	out := bufio.NewWriterSize(os.Stdout, 1<<20)
	defer out.Flush()
	for i := 0; i < count; i++ {
		r := caseRng(seed, i)
		st := stmts[r.intn(len(stmts))]
		fmt.Fprintln(out, hx(mutate(r, st)))
	}
	return nil
}
