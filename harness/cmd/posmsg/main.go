// posmsg checks property C13 clause (d) directly on the implementation:
//
//	every "line L, column C" in a parse error names a real place in the input: the position
//	of a (non-comment) token of lexer.Tokenize(input), EOF included; and for
//	"expected X, got Y at line L, column C" / "unexpected token Y at line L, column C"
//	some token at that position has kind Y.
//
// It also re-checks the lexer positions themselves (offset order, line / rune column recomputed
// from the source), duplicating `dch lex check` on purpose.
//
// Usage:
//
//	posmsg [-budget N] < cases.hex      one hex-encoded input per line ("-" = empty); prints per line
//	                                    ok <n> | BAD <message>\t<reason> | BAD lexpos <i> ... | PANIC <msg> | BUDGET
//	                                    and a summary on stderr; exit status 0 unless I/O fails
//	posmsg [-budget N] -v < cases.hex   the same, with "\t<error text>" appended to the lines of inputs with a parse error
//	posmsg -gen <seed> <count> <corpus> token-level mutants of corpus statements, hex, one per line (deterministic)
//	posmsg -hexcorpus <corpus>          the corpus statements themselves, hex, one per line
//	posmsg -show <hex>                  text, error, token list and verdict of one input (for replays)
package main

import (
	"bufio"
	"bytes"
	"context"
	"encoding/hex"
	"fmt"
	"os"
	"regexp"
	"strconv"
	"strings"
	"time"
	"unicode"
	"unicode/utf8"

	"github.com/sqlc-dev/doubleclick/lexer"
	"github.com/sqlc-dev/doubleclick/parser"
	"github.com/sqlc-dev/doubleclick/token"
)

func unhex(s string) ([]byte, error) {
	if s == "-" {
		return nil, nil
	}
	return hex.DecodeString(s)
}

func hx(b []byte) string {
	if len(b) == 0 {
		return "-"
	}
	return hex.EncodeToString(b)
}

func die(format string, a ...any) {
	fmt.Fprintf(os.Stderr, "posmsg: "+format+"\n", a...)
	os.Exit(2)
}

// selfCheck enumerates every token kind and aborts if a token spelling contains white space
// (the message grammar below relies on `got (\S+)` / `unexpected token (\S+)`).
func selfCheck() {
	n := 0
	for i := 0; i < 4096; i++ {
		s := token.Token(i).String()
		if s == "" {
			continue
		}
		n++
		for _, r := range s {
			if unicode.IsSpace(r) {
				die("self check: token %d has spelling %q containing white space", i, s)
			}
		}
	}
	if n < 50 {
		die("self check: only %d token kinds enumerated", n)
	}
	for _, t := range []token.Token{token.EOF, token.ILLEGAL, token.IDENT, token.NUMBER, token.STRING, token.LPAREN, token.COMMA, token.SELECT} {
		if t.String() == "" {
			die("self check: token %d has an empty spelling", int(t))
		}
	}
	// the message grammar itself
	txt := "parse errors: [expected ,, got ) at line 1, column 5 expected TABLE, DATABASE, VIEW, FUNCTION, USER after CREATE unexpected token ] at line 12, column 345 expected ), got EOF at line 2, column 1]"
	ms := extractMessages(txt)
	want := []posMsg{
		{shape: shapeExpected, got: ")", line: 1, col: 5},
		{shape: shapeUnexpected, got: "]", line: 12, col: 345},
		{shape: shapeExpected, got: "EOF", line: 2, col: 1},
	}
	if len(ms) != len(want) {
		die("self check: message grammar: %d messages", len(ms))
	}
	for i := range ms {
		if ms[i].shape != want[i].shape || ms[i].got != want[i].got || ms[i].line != want[i].line || ms[i].col != want[i].col {
			die("self check: message grammar: message %d parsed as %+v", i, ms[i])
		}
	}
}

const (
	shapeNone = iota
	shapeExpected
	shapeUnexpected
)

type posMsg struct {
	text      string
	shape     int
	got       string
	line, col int
}

var (
	// every position mentioned anywhere in the text
	rePos = regexp.MustCompile(`line (\d+), column (\d+)`)
	// the two message shapes, anchored on the position that ends them; token spellings have no white space
	reShape = regexp.MustCompile(`(?:expected (\S+), got (\S+)|unexpected token (\S+)) at line (\d+), column (\d+)`)
)

// extractMessages returns one entry per "line L, column C" occurrence in the error text, with
// the message shape that ends at that occurrence if there is one.
func extractMessages(txt string) []posMsg {
	shaped := map[int][]int{} // start index of "line L, column C" -> reShape submatch indices
	for _, m := range reShape.FindAllStringSubmatchIndex(txt, -1) {
		// m[8] is the start of the line number; the occurrence starts 5 bytes earlier ("line ")
		shaped[m[8]-5] = m
	}
	var out []posMsg
	for _, m := range rePos.FindAllStringSubmatchIndex(txt, -1) {
		l, err1 := strconv.Atoi(txt[m[2]:m[3]])
		c, err2 := strconv.Atoi(txt[m[4]:m[5]])
		pm := posMsg{text: txt[m[0]:m[1]], line: l, col: c}
		if err1 != nil || err2 != nil {
			pm.line, pm.col = -1, -1
		}
		if s, ok := shaped[m[0]]; ok {
			pm.text = txt[s[0]:s[1]]
			if s[2] >= 0 {
				pm.shape = shapeExpected
				pm.got = txt[s[4]:s[5]]
			} else {
				pm.shape = shapeUnexpected
				pm.got = txt[s[6]:s[7]]
			}
		}
		out = append(out, pm)
	}
	return out
}

func safeTokenize(b []byte) (items []lexer.Item, pmsg string) {
	defer func() {
		if r := recover(); r != nil {
			pmsg = fmt.Sprint(r)
			if pmsg == "" {
				pmsg = "panic"
			}
		}
	}()
	return lexer.Tokenize(bytes.NewReader(b)), ""
}

type parseOutcome struct {
	err    error
	pmsg   string
	budget bool
	steps  int64
}

func safeParse(b []byte, budget int64) (o parseOutcome) {
	var p *parser.Parser
	defer func() {
		if p != nil {
			o.steps = p.VerifSteps()
		}
		if r := recover(); r != nil {
			if _, ok := r.(parser.VerifBudgetExceeded); ok {
				o.budget = true
				return
			}
			o.pmsg = strings.ReplaceAll(strings.ReplaceAll(fmt.Sprint(r), "\n", " "), "\t", " ")
			if o.pmsg == "" {
				o.pmsg = "panic"
			}
		}
	}()
	p = parser.New(bytes.NewReader(b))
	p.VerifSetBudget(budget)
	_, o.err = p.ParseStatements(context.Background())
	return
}

// lexPositions re-checks the positions of the token list against the source.
func lexPositions(b []byte, items []lexer.Item) string {
	n := len(items)
	if n == 0 || items[n-1].Token != token.EOF {
		return fmt.Sprintf("%d last token is not EOF", n-1)
	}
	// lines[k], cols[k]: line / rune column of the rune whose last byte is at 1-based offset k (0 = no rune ends there)
	lines := make([]int32, len(b)+1)
	cols := make([]int32, len(b)+1)
	line, col := int32(1), int32(0)
	for i := 0; i < len(b); {
		_, sz := utf8.DecodeRune(b[i:])
		col++
		lines[i+sz], cols[i+sz] = line, col
		if b[i] == '\n' {
			line++
			col = 0
		}
		i += sz
	}
	prev := 0
	for i, it := range items {
		off := it.Pos.Offset
		if it.Token == token.EOF {
			if i != n-1 {
				return fmt.Sprintf("%d EOF inside the token list", i)
			}
			if off < prev || off > len(b) {
				return fmt.Sprintf("%d EOF offset %d not in [%d,%d]", i, off, prev, len(b))
			}
			continue
		}
		if off < 1 || off > len(b) {
			return fmt.Sprintf("%d %s offset %d not in [1,%d]", i, it.Token, off, len(b))
		}
		if off <= prev {
			return fmt.Sprintf("%d %s offset %d not above previous offset %d", i, it.Token, off, prev)
		}
		prev = off
		if cols[off] == 0 {
			return fmt.Sprintf("%d %s offset %d is not the last byte of a rune", i, it.Token, off)
		}
		if int(lines[off]) != it.Pos.Line || int(cols[off]) != it.Pos.Column {
			return fmt.Sprintf("%d %s offset %d reports line %d, column %d but the source has line %d, column %d",
				i, it.Token, off, it.Pos.Line, it.Pos.Column, lines[off], cols[off])
		}
	}
	return ""
}

type verdict struct {
	line     string // the output line
	kind     string // ok | BAD | PANIC | BUDGET
	hasErr   bool
	checked  int
	unshaped int
	steps    int64
	errText  string
}

func checkInput(b []byte, budget int64) verdict {
	items, pmsg := safeTokenize(b)
	if pmsg != "" {
		return verdict{kind: "PANIC", line: "PANIC lexer: " + strings.ReplaceAll(strings.ReplaceAll(pmsg, "\n", " "), "\t", " ")}
	}
	if bad := lexPositions(b, items); bad != "" {
		return verdict{kind: "BAD", line: "BAD lexpos " + bad}
	}
	type lc struct{ l, c int }
	at := map[lc][]token.Token{}
	for _, it := range items {
		if it.Token == token.WHITESPACE || it.Token == token.LINE_COMMENT {
			continue
		}
		k := lc{it.Pos.Line, it.Pos.Column}
		at[k] = append(at[k], it.Token)
	}
	o := safeParse(b, budget)
	v := verdict{steps: o.steps}
	if o.budget {
		v.kind, v.line = "BUDGET", "BUDGET"
		return v
	}
	if o.pmsg != "" {
		v.kind, v.line = "PANIC", "PANIC "+o.pmsg
		return v
	}
	if o.err == nil {
		v.kind, v.line = "ok", "ok 0"
		return v
	}
	v.hasErr = true
	v.errText = o.err.Error()
	msgs := extractMessages(v.errText)
	for _, m := range msgs {
		v.checked++
		if m.shape == shapeNone {
			v.unshaped++
		}
		kinds, ok := at[lc{m.line, m.col}]
		reason := ""
		switch {
		case !ok:
			reason = fmt.Sprintf("no non-comment token of the token list is at line %d, column %d", m.line, m.col)
		case m.shape != shapeNone:
			found := false
			var names []string
			for _, k := range kinds {
				names = append(names, k.String())
				if k.String() == m.got {
					found = true
				}
			}
			if !found {
				reason = fmt.Sprintf("the token at line %d, column %d is %s, not %s", m.line, m.col, strings.Join(names, "/"), m.got)
			}
		}
		if reason != "" {
			v.kind = "BAD"
			v.line = "BAD " + strings.ReplaceAll(m.text, "\t", " ") + "\t" + reason
			return v
		}
	}
	v.kind = "ok"
	v.line = "ok " + strconv.Itoa(v.checked)
	return v
}

func runCheck(budget int64, verbose bool) {
	in := bufio.NewScanner(os.Stdin)
	in.Buffer(make([]byte, 1<<22), 1<<26)
	out := bufio.NewWriterSize(os.Stdout, 1<<20)
	defer out.Flush()
	var inputs, withErr, checked, unshaped, bad, panics, budgets int
	var maxSteps int64
	t0 := time.Now()
	for in.Scan() {
		b, err := unhex(in.Text())
		if err != nil {
			out.Flush()
			die("input line %d: %v", inputs+1, err)
		}
		v := checkInput(b, budget)
		inputs++
		if v.hasErr {
			withErr++
		}
		checked += v.checked
		unshaped += v.unshaped
		if v.steps > maxSteps && v.kind != "BUDGET" {
			maxSteps = v.steps
		}
		switch v.kind {
		case "BAD":
			bad++
		case "PANIC":
			panics++
		case "BUDGET":
			budgets++
		}
		out.WriteString(v.line)
		if verbose && v.errText != "" {
			out.WriteByte('\t')
			out.WriteString(strings.ReplaceAll(v.errText, "\t", " "))
		}
		out.WriteByte('\n')
	}
	if err := in.Err(); err != nil {
		out.Flush()
		die("%v", err)
	}
	fmt.Fprintf(os.Stderr, "posmsg: inputs=%d with_errors=%d messages_checked=%d (other_shape=%d) BAD=%d PANIC=%d BUDGET=%d max_steps=%d seconds=%.1f\n",
		inputs, withErr, checked, unshaped, bad, panics, budgets, maxSteps, time.Since(t0).Seconds())
}

func runShow(h string, budget int64) {
	b, err := unhex(h)
	if err != nil {
		die("%v", err)
	}
	fmt.Printf("hex    %s\ntext   %q\n", hx(b), b)
	items, pmsg := safeTokenize(b)
	if pmsg != "" {
		fmt.Printf("lexer panic: %s\n", pmsg)
	}
	for i, it := range items {
		fmt.Printf("token %3d  %-14s value=%q offset=%d line=%d column=%d\n", i, it.Token, it.Value, it.Pos.Offset, it.Pos.Line, it.Pos.Column)
	}
	v := checkInput(b, budget)
	fmt.Printf("error  %s\nsteps  %d\nresult %s\n", v.errText, v.steps, v.line)
}

func main() {
	selfCheck()
	args := os.Args[1:]
	budget := int64(5_000_000)
	if len(args) >= 2 && args[0] == "-budget" {
		n, err := strconv.ParseInt(args[1], 10, 64)
		if err != nil || n < 0 {
			die("bad -budget %q", args[1])
		}
		budget = n
		args = args[2:]
	}
	switch {
	case len(args) == 0:
		runCheck(budget, false)
	case len(args) == 1 && args[0] == "-v":
		runCheck(budget, true)
	case args[0] == "-gen" && len(args) == 4:
		seed, err1 := strconv.ParseUint(args[1], 10, 64)
		count, err2 := strconv.Atoi(args[2])
		if err1 != nil || err2 != nil || count < 0 {
			die("usage: posmsg -gen <seed> <count> <corpus-file>")
		}
		if err := runGen(seed, count, args[3]); err != nil {
			die("%v", err)
		}
	case args[0] == "-hexcorpus" && len(args) == 2:
		if err := runHexCorpus(args[1]); err != nil {
			die("%v", err)
		}
	case args[0] == "-show" && len(args) == 2:
		runShow(args[1], budget)
	default:
		die("usage: posmsg [-budget N] [-v | -gen <seed> <count> <corpus-file> | -hexcorpus <corpus-file> | -show <hex>]")
	}
}
