//go:build verif

// explaindump: the implementation side of the C04 oracle run.
//
// stdin : one SQL text per line, lowercase hex ("-" for the empty string).
// stdout: for every input whose Parse returns err == nil, one line per parsed statement:
//
//	<hex of sql> TAB <hex of parser.Explain(stmt)>
//
// The second field is the literal word PANIC when Explain panicked, and "-" for an empty text.
// With -idx a field <index of the statement, from 0> is inserted between the two.
// Inputs that do not parse produce no line (C04 quantifies over syntactically valid
// statements); with -v they are reported as `<hex> TAB ERR` so that a caller can account for
// every input.  Parse itself also runs under recover (a panic there is C01's business; it is
// reported as `<hex> TAB PARSEPANIC` and never aborts the run) and under a 5 s context timeout.
//
// -corpus <dir> : instead of stdin, take the statements of <dir>/*/query.sql (normally
// /repo/parser/testdata), split exactly like splitStatements in /repo/parser/parser_test.go,
// skipping the entries whose metadata.json sets skip, explain=false or parse_error (the entries
// the repository's own test does not explain).  explain_todo entries are NOT skipped: they are
// statements whose EXPLAIN differs from ClickHouse's, which does not excuse a malformed tree.
//
// Build: cd /verif/harness && go build -tags verif -o /verif/build/explaindump ./cmd/explaindump
package main

import (
	"bufio"
	"context"
	"encoding/hex"
	"encoding/json"
	"flag"
	"fmt"
	"os"
	"path/filepath"
	"reflect"
	"sort"
	"strings"
	"time"
	"verif/harness/rdr"

	"github.com/sqlc-dev/doubleclick/ast"
	"github.com/sqlc-dev/doubleclick/parser"
)

func hexOf(s string) string {
	if s == "" {
		return "-"
	}
	return hex.EncodeToString([]byte(s))
}

func parseOne(sql string, timeout time.Duration) (stmts []ast.Statement, err error, panicked bool) {
	defer func() {
		if r := recover(); r != nil {
			panicked = true
		}
	}()
	ctx, cancel := context.WithTimeout(context.Background(), timeout)
	defer cancel()
	stmts, err = parser.Parse(ctx, rdr.For(sql))
	return
}

// selectInvariant walks the tree and reports the first *ast.SelectQuery outside inv_limit of C04_select:
// LimitByLimit == nil -> LimitByOffset == nil, and LimitByLimit == nil && len(LimitBy) > 0 -> Offset == nil.
func selectInvariant(v reflect.Value, depth int) string {
	if depth > 2000 {
		return ""
	}
	switch v.Kind() {
	case reflect.Interface:
		if v.IsNil() {
			return ""
		}
		return selectInvariant(v.Elem(), depth+1)
	case reflect.Ptr:
		if v.IsNil() {
			return ""
		}
		if sq, ok := v.Interface().(*ast.SelectQuery); ok {
			if sq.LimitByLimit == nil && sq.LimitByOffset != nil {
				return "SelectQuery with LimitByOffset but no LimitByLimit"
			}
			if sq.LimitByLimit == nil && len(sq.LimitBy) > 0 && sq.Offset != nil {
				return "SelectQuery with LIMIT BY, Offset and no LimitByLimit"
			}
		}
		return selectInvariant(v.Elem(), depth+1)
	case reflect.Struct:
		for i := 0; i < v.NumField(); i++ {
			if v.Type().Field(i).PkgPath != "" {
				continue
			}
			if d := selectInvariant(v.Field(i), depth+1); d != "" {
				return d
			}
		}
	case reflect.Slice:
		for i := 0; i < v.Len(); i++ {
			if d := selectInvariant(v.Index(i), depth+1); d != "" {
				return d
			}
		}
	}
	return ""
}

func explainOne(stmt ast.Statement) (out string, panicked bool) {
	defer func() {
		if r := recover(); r != nil {
			panicked = true
		}
	}()
	return rdr.Twice(func() string { return parser.Explain(stmt) }), false
}

// splitStatements and findCommentStart are copies of the functions of the same name in
// /repo/parser/parser_test.go (minus the clientError bookkeeping).
func splitStatements(content string) []string {
	var statements []string
	var current strings.Builder
	for _, line := range strings.Split(content, "\n") {
		trimmed := strings.TrimSpace(line)
		if trimmed == "" || strings.HasPrefix(trimmed, "--") {
			continue
		}
		if idx := findCommentStart(trimmed); idx >= 0 {
			trimmed = strings.TrimSpace(trimmed[:idx])
			if trimmed == "" {
				continue
			}
		}
		if current.Len() > 0 {
			current.WriteString(" ")
		}
		current.WriteString(trimmed)
		if strings.HasSuffix(trimmed, ";") {
			stmt := strings.TrimSpace(current.String())
			if stmt != "" && stmt != ";" {
				statements = append(statements, stmt)
			}
			current.Reset()
		}
	}
	if current.Len() > 0 {
		stmt := strings.TrimSpace(current.String())
		if stmt != "" {
			statements = append(statements, stmt)
		}
	}
	return statements
}

func findCommentStart(line string) int {
	inString := false
	var stringChar byte
	for i := 0; i < len(line); i++ {
		c := line[i]
		if inString {
			if c == '\\' && i+1 < len(line) {
				i++
				continue
			}
			if c == stringChar {
				inString = false
			}
		} else {
			if c == '\'' || c == '"' || c == '`' {
				inString = true
				stringChar = c
			} else if c == '-' && i+1 < len(line) && line[i+1] == '-' {
				if i+2 >= len(line) || line[i+2] == ' ' || line[i+2] == '\t' {
					return i
				}
			}
		}
	}
	return -1
}

type testMetadata struct {
	Explain    *bool `json:"explain,omitempty"`
	Skip       bool  `json:"skip,omitempty"`
	ParseError bool  `json:"parse_error,omitempty"`
}

func corpusStatements(dir string) []string {
	entries, err := os.ReadDir(dir)
	if err != nil {
		fmt.Fprintln(os.Stderr, "explaindump:", err)
		os.Exit(2)
	}
	names := make([]string, 0, len(entries))
	for _, e := range entries {
		if e.IsDir() {
			names = append(names, e.Name())
		}
	}
	sort.Strings(names)
	var out []string
	used, skipped := 0, 0
	for _, n := range names {
		q, err := os.ReadFile(filepath.Join(dir, n, "query.sql"))
		if err != nil {
			continue
		}
		var md testMetadata
		if mb, err := os.ReadFile(filepath.Join(dir, n, "metadata.json")); err == nil {
			if err := json.Unmarshal(mb, &md); err != nil {
				fmt.Fprintf(os.Stderr, "explaindump: %s/metadata.json: %v\n", n, err)
				os.Exit(2)
			}
		}
		if md.Skip || (md.Explain != nil && !*md.Explain) || md.ParseError {
			skipped++
			continue
		}
		used++
		out = append(out, splitStatements(string(q))...)
	}
	fmt.Fprintf(os.Stderr, "explaindump: corpus %s: %d entries used, %d skipped by metadata, %d statements\n", dir, used, skipped, len(out))
	return out
}

var giantSQL [2]string

func pollute(round int) {
	defer func() { _ = recover() }()
	if giantSQL[0] == "" {
		for k, n := range []int{70000, 260000} {
			var sb strings.Builder
			sb.WriteString("SELECT ")
			for i := 0; i < n; i++ {
				if i > 0 {
					sb.WriteString(", ")
				}
				fmt.Fprintf(&sb, "%d", 100000+i)
			}
			giantSQL[k] = sb.String()
		}
	}
	which := 0
	if round%4 == 3 {
		which = 1
	}
	if stmts, err := parser.Parse(context.Background(), strings.NewReader(giantSQL[which])); err == nil {
		for _, st := range stmts {
			_ = parser.Explain(st)
		}
		_ = parser.ExplainStatements(stmts)
	}
	_ = parser.ExplainStatements(nil)
	_, _ = parser.Parse(context.Background(), strings.NewReader("SELECT (((1"))
}

func main() {
	verbose := flag.Bool("v", false, "also report inputs that do not parse")
	timeout := flag.Duration("timeout", 5*time.Second, "context timeout per Parse call")
	corpus := flag.String("corpus", "", "take the statements from <dir>/*/query.sql instead of stdin")
	withIdx := flag.Bool("idx", false, "insert the statement index as a middle field")
	flag.Parse()
	idx := func(i int) string {
		if *withIdx {
			return fmt.Sprintf("%d\t", i)
		}
		return ""
	}

	out := bufio.NewWriterSize(os.Stdout, 1<<20)
	defer out.Flush()
	var queue []string
	if *corpus != "" {
		queue = corpusStatements(*corpus)
	}
	in := bufio.NewReaderSize(os.Stdin, 1<<20)
	nIn := 0
	for {
		// call history: every statement is explained after some earlier calls; every 4000 inputs one of them is a call with a
		// VERY large output (1.5 MiB / 6 MiB of EXPLAIN text), one with an empty statement list and one that fails, so that
		// pooled buffers, memo tables or "last result" state left behind by an unusual call reach the statements that follow
		if nIn%4000 == 0 {
			pollute(nIn / 4000)
		}
		nIn++
		var sql string
		ok := true
		var rerr error
		if *corpus != "" {
			if len(queue) == 0 {
				break
			}
			sql, queue = queue[0], queue[1:]
		} else {
			var line string
			line, rerr = in.ReadString('\n')
			line = strings.TrimRight(line, "\r\n")
			if line == "" {
				ok = false
			} else if line != "-" {
				b, err := hex.DecodeString(line)
				if err != nil {
					fmt.Fprintf(os.Stderr, "explaindump: bad hex input line skipped: %.40s\n", line)
					ok = false
				}
				sql = string(b)
			}
		}
		{
			if ok {
				stmts, err, pp := parseOne(sql, *timeout)
				switch {
				case pp:
					fmt.Fprintf(out, "%s\t%sPARSEPANIC\n", hexOf(sql), idx(-1))
				case err != nil:
					if *verbose {
						fmt.Fprintf(out, "%s\t%sERR\n", hexOf(sql), idx(-1))
					}
				default:
					for i, st := range stmts {
						// the conditions under which count = emitted children is PROVED (C04_select: inv_limit) are
						// properties of what the parser builds: check them on every statement it returns
						if d := selectInvariant(reflect.ValueOf(st), 0); d != "" {
							fmt.Fprintf(out, "%s\t%sINV:%s\n", hexOf(sql), idx(i), d)
						}
						text, p := explainOne(st)
						if p {
							fmt.Fprintf(out, "%s\t%sPANIC\n", hexOf(sql), idx(i))
						} else {
							fmt.Fprintf(out, "%s\t%s%s\n", hexOf(sql), idx(i), hexOf(text))
						}
					}
				}
			}
		}
		if rerr != nil {
			break
		}
	}
}
