// readers: implementation-side differential checks for C14 (chunking independence) and C15 (failing readers).
// Input: one hex-encoded SQL input per line. Output per line: "<hex>\t<runs>\t<violations>\t<first violation or ->".
package main

import (
	"bufio"
	"bytes"
	"context"
	"encoding/hex"
	"errors"
	"flag"
	"fmt"
	"io"
	"net"
	"os"
	"strings"
	"time"
	"testing/iotest"

	"github.com/sqlc-dev/doubleclick/parser"
)

type rng struct{ s uint64 }

func (r *rng) next() uint64 {
	r.s += 0x9e3779b97f4a7c15
	z := r.s
	z = (z ^ (z >> 30)) * 0xbf58476d1ce4e5b9
	z = (z ^ (z >> 27)) * 0x94d049bb133111eb
	return z ^ (z >> 31)
}
func (r *rng) intn(n int) int { return int(r.next() % uint64(n)) }

// chunked delivers data in the given chunk sizes (cyclically); withEOF returns the last bytes together with io.EOF.
type chunked struct {
	data    []byte
	sizes   []int
	i       int
	withEOF bool
	empties int // number of (0, nil) reads injected before every data read
	e       int
}

func (c *chunked) Read(p []byte) (int, error) {
	if len(c.data) == 0 {
		return 0, io.EOF
	}
	if c.e < c.empties {
		c.e++
		return 0, nil
	}
	c.e = 0
	n := c.sizes[c.i%len(c.sizes)]
	c.i++
	if n > len(p) {
		n = len(p)
	}
	if n > len(c.data) {
		n = len(c.data)
	}
	copy(p, c.data[:n])
	c.data = c.data[n:]
	if len(c.data) == 0 && c.withEOF {
		return n, io.EOF
	}
	return n, nil
}

type result struct {
	n       int
	explain string
	err     string
	panicv  string
}

// watchdog: a Parse call that does not return is an observation (a lexer that stops advancing after a read failure spins
// and allocates), not a harness that hangs until the check's timeout
func guarded(what string, f func()) {
	done := make(chan struct{})
	go func() {
		defer close(done)
		f()
	}()
	select {
	case <-done:
	case <-time.After(120 * time.Second):
		fmt.Fprintf(os.Stdout, "%s\t1\t1\tHANG: %s did not return within 120 s\n", hangInput, what)
		os.Exit(3)
	}
}

var hangInput = "-"

func run(r io.Reader) (res result) {
	guarded("parser.Parse", func() { res = run1(r) })
	return
}

func run1(r io.Reader) (res result) {
	defer func() {
		if x := recover(); x != nil {
			res.panicv = fmt.Sprint(x)
		}
	}()
	stmts, err := parser.Parse(context.Background(), r)
	res.n = len(stmts)
	var sb strings.Builder
	for _, s := range stmts {
		sb.WriteString(parser.Explain(s))
		sb.WriteString("\x00")
	}
	res.explain = sb.String()
	if err != nil {
		res.err = err.Error()
	}
	return
}

func same(a, b result) bool { return a == b }

type failing struct {
	data     []byte
	k        int // fail when offset k is reached
	off      int
	err      error
	withData bool // return the error together with the last bytes before k
	once     bool // transient: fail once, then continue
	failed   bool
	chunk    int
	onFail   func()
}

func (f *failing) Read(p []byte) (int, error) {
	if f.off >= f.k && !(f.once && f.failed) {
		f.failed = true
		if f.onFail != nil {
			f.onFail()
		}
		return 0, f.err
	}
	lim := f.k
	if f.once && f.failed {
		lim = len(f.data)
	}
	if f.off >= len(f.data) {
		return 0, io.EOF
	}
	n := lim - f.off
	if n > len(p) {
		n = len(p)
	}
	if f.chunk > 0 && n > f.chunk {
		n = f.chunk
	}
	copy(p, f.data[f.off:f.off+n])
	f.off += n
	if f.withData && f.off >= f.k && !(f.once && f.failed) {
		f.failed = true
		if f.onFail != nil {
			f.onFail()
		}
		return n, f.err
	}
	return n, nil
}

// rich implements, besides Read, the optional interfaces a consumer might upgrade to; every one of them misbehaves
// (and records its use), so that a result which depends on them differs from the baseline.
type rich struct {
	data []byte
	off  int
	used string
}

func (r *rich) Read(p []byte) (int, error) {
	if r.off >= len(r.data) {
		return 0, io.EOF
	}
	n := copy(p, r.data[r.off:])
	r.off += n
	return n, nil
}
func (r *rich) ReadByte() (byte, error)             { r.used = "ReadByte"; return 0, io.EOF }
func (r *rich) ReadRune() (rune, int, error)        { r.used = "ReadRune"; return 0, 0, io.EOF }
func (r *rich) WriteTo(w io.Writer) (int64, error)  { r.used = "WriteTo"; return 0, nil }
func (r *rich) Seek(o int64, wh int) (int64, error) { r.used = "Seek"; return 0, errors.New("no seek") }
func (r *rich) Len() int                            { r.used = "Len"; return 0 }
func (r *rich) Size() int                           { r.used = "Size"; return 1 << 20 }
func (r *rich) Buffered() int                       { r.used = "Buffered"; return 0 }
func (r *rich) Peek(n int) ([]byte, error)          { r.used = "Peek"; return nil, io.EOF }
func (r *rich) Close() error                        { r.used = "Close"; return nil }

type timeoutErr struct{}

func (timeoutErr) Error() string   { return "i/o timeout" }
func (timeoutErr) Timeout() bool   { return true }
func (timeoutErr) Temporary() bool { return true }

func main() {
	mode := flag.String("mode", "chunk", "chunk | fail")
	seed := flag.Uint64("seed", 1, "seed")
	maxPoints := flag.Int("maxpoints", 300, "maximal number of boundary / failure offsets per input")
	flag.Parse()
	in := bufio.NewScanner(os.Stdin)
	in.Buffer(make([]byte, 1<<22), 1<<26)
	out := bufio.NewWriter(os.Stdout)
	defer out.Flush()
	r := &rng{s: *seed}
	for in.Scan() {
		line := in.Text()
		hangInput = line
		out.Flush()
		var data []byte
		if line != "-" {
			var err error
			data, err = hex.DecodeString(line)
			if err != nil {
				fmt.Fprintln(os.Stderr, "bad hex")
				os.Exit(2)
			}
		}
		runs, viol := 0, 0
		first := "-"
		note := func(what string) {
			viol++
			if first == "-" {
				first = what
			}
		}
		base := run(strings.NewReader(string(data)))
		points := func() []int {
			var ps []int
			if len(data)+1 <= *maxPoints {
				for k := 0; k <= len(data); k++ {
					ps = append(ps, k)
				}
				return ps
			}
			seen := map[int]bool{}
			add := func(k int) {
				if k >= 0 && k <= len(data) && !seen[k] {
					seen[k] = true
					ps = append(ps, k)
				}
			}
			for _, k := range []int{0, 1, 2, len(data) - 1, len(data), 4095, 4096, 4097, 8191, 8192, 8193} {
				add(k)
			}
			for i, b := range data { // statement boundaries, quotes and multi-byte runes
				if b == ';' || b == '\'' || b >= 0x80 {
					add(i)
					add(i + 1)
				}
				if len(ps) > *maxPoints/2 {
					break
				}
			}
			for len(ps) < *maxPoints {
				add(r.intn(len(data) + 1))
			}
			return ps
		}()
		switch *mode {
		case "chunk":
			check := func(name string, rd io.Reader) {
				runs++
				got := run(rd)
				if !same(base, got) {
					note(fmt.Sprintf("%s: n=%d/%d err=%q/%q panic=%q explain-equal=%v", name, got.n, base.n, got.err, base.err, got.panicv, got.explain == base.explain))
				}
			}
			check("one-byte", iotest.OneByteReader(strings.NewReader(string(data))))
			check("half", iotest.HalfReader(strings.NewReader(string(data))))
			check("data-err", iotest.DataErrReader(strings.NewReader(string(data))))
			check("one-byte+data-err", iotest.DataErrReader(iotest.OneByteReader(strings.NewReader(string(data)))))
			for _, k := range points { // one boundary at offset k
				if k == 0 || k >= len(data) {
					continue
				}
				check(fmt.Sprintf("split@%d", k), &chunked{data: append([]byte(nil), data...), sizes: []int{k, len(data)}})
			}
			// the same bytes behind readers of other dynamic types: the result must not depend on what else the
			// reader implements (io.RuneReader, io.ByteReader, io.WriterTo, io.Seeker, *bufio.Reader ...)
			check("bytes.Reader", bytes.NewReader(data))
			check("bytes.Buffer", bytes.NewBuffer(append([]byte(nil), data...)))
			check("hidden", struct{ io.Reader }{strings.NewReader(string(data))})
			check("bufio.Reader", bufio.NewReader(iotest.HalfReader(strings.NewReader(string(data)))))
			check("bufio.Reader64k", bufio.NewReaderSize(strings.NewReader(string(data)), 1<<16))
			check("bufio.Reader16", bufio.NewReaderSize(iotest.OneByteReader(strings.NewReader(string(data))), 16))
			check("limit", io.LimitReader(strings.NewReader(string(data)), int64(len(data))+10))
			if len(data) > 1 {
				h := len(data) / 2
				check("multi", io.MultiReader(strings.NewReader(string(data[:h])), strings.NewReader(string(data[h:]))))
			}
			check("tee", io.TeeReader(strings.NewReader(string(data)), io.Discard))
			rr := &rich{data: data}
			check("rich", rr)
			if rr.used != "" {
				note("Parse used an optional interface of the reader: " + rr.used)
			}
			for j := 0; j < 6; j++ {
				sizes := make([]int, 1+r.intn(5))
				for i := range sizes {
					sizes[i] = 1 + r.intn(1+[]int{3, 17, 200, 5000}[r.intn(4)])
				}
				check(fmt.Sprintf("random%v", sizes), &chunked{data: append([]byte(nil), data...), sizes: sizes, withEOF: j%2 == 0, empties: j % 3})
			}
			// the same stream ENDING IN THE SAME FAILURE after k bytes, delivered differently (the error in a Read of its own or
			// together with the last bytes; everything at once, one byte or seven bytes per Read): statements, EXPLAIN text and
			// error must not depend on the delivery either
			for pi, k := range points {
				if pi%7 != 0 && k != len(data) && k > 2 {
					continue
				}
				if bytes.IndexByte(data[:min(k, len(data))], 0) >= 0 {
					continue // the lexer stops reading at a NUL byte: whether the failing Read is ever issued depends on the delivery
				}
				boom := errors.New("boom")
				ref := run(&failing{data: data, k: k, err: boom})
				for vi, v := range []struct {
					wd    bool
					chunk int
				}{{true, 0}, {false, 1}, {true, 1}, {false, 7}, {true, 7}} {
					if len(data) > 20000 && v.chunk == 1 && pi%21 != 0 {
						continue
					}
					runs++
					got := run(&failing{data: data, k: k, err: boom, withData: v.wd, chunk: v.chunk})
					if !same(ref, got) {
						note(fmt.Sprintf("stream failing after %d bytes: delivery %d (error with data=%v, %d bytes per Read) gives n=%d err=%q, the plain delivery n=%d err=%q (explain-equal=%v)",
							k, vi, v.wd, v.chunk, got.n, got.err, ref.n, ref.err, got.explain == ref.explain))
					}
				}
			}
		case "fail":
			kinds := []error{errors.New("boom"), io.ErrUnexpectedEOF, timeoutErr{}, fmt.Errorf("connection reset by peer: %w", io.EOF), &net.OpError{Op: "read", Net: "tcp", Err: errors.New("use of closed network connection")}, os.ErrDeadlineExceeded, context.Canceled}
			for _, k := range points {
				for ki, e := range kinds {
					for _, wd := range []bool{false, true} {
						for _, once := range []bool{false, true} {
							if once && ki != 0 {
								continue
							}
							runs++
							f := &failing{data: data, k: k, err: e, withData: wd, once: once, chunk: []int{0, 1, 7}[runs%3]}
							// the failing reader handed over directly or behind a wrapper of another dynamic type
							var rd io.Reader = f
							wrap := "plain"
							switch (runs / 3) % 6 {
							case 1:
								rd, wrap = bufio.NewReader(f), "bufio.Reader"
							case 2:
								rd, wrap = bufio.NewReaderSize(f, 1<<16), "bufio.Reader64k"
							case 3:
								rd, wrap = struct{ io.Reader }{f}, "hidden"
							case 4:
								rd, wrap = io.MultiReader(f), "multi"
							case 5:
								rd, wrap = io.TeeReader(f, io.Discard), "tee"
							}
							_ = wrap
							var got result
							var perr error
							// every third run: the source is bound to the caller's context and that context is done by the
							// time the read fails (the usual situation with a cancelled request); Parse must still not
							// return a nil error, and the error is the reader's or the context's
							ctx := context.Background()
							ctxDone := runs%3 == 2
							if ctxDone {
								c, cancel := context.WithCancel(context.Background())
								ctx = c
								f.onFail = cancel
								defer cancel()
							}
							guarded(fmt.Sprintf("parser.Parse with a reader failing at byte %d (error kind %d, withData=%v, once=%v, %s)", k, ki, wd, once, wrap), func() {
								defer func() {
									if x := recover(); x != nil {
										got.panicv = fmt.Sprint(x)
									}
								}()
								_, perr = parser.Parse(ctx, rd)
							})
							if got.panicv != "" {
								note(fmt.Sprintf("fail@%d kind=%d: panic %s", k, ki, got.panicv))
								continue
							}
							// a buffering wrapper hands the error on at its NEXT Read; the lexer stops reading at a NUL byte, so
							// with a NUL before the failure point the reader passed to Parse may never have returned the error
							deferred := strings.HasPrefix(wrap, "bufio") && bytes.IndexByte(data[:min(k, len(data))], 0) >= 0
							if f.failed && !deferred && ctxDone && perr != nil && errors.Is(perr, context.Canceled) {
								continue // both happened: the context's error is an acceptable report
							}
							if f.failed && !deferred && !errors.Is(perr, e) {
								note(fmt.Sprintf("fail@%d kind=%d withData=%v once=%v reader=%s: reader returned %q but Parse returned err=%v", k, ki, wd, once, wrap, e.Error(), perr))
							}
							if !f.failed && !same(base, run(strings.NewReader(string(data)))) {
								note("baseline not deterministic")
							}
						}
					}
				}
			}
			// a reader that never fails never produces a read error
			if strings.Contains(base.err, "read error") {
				note("read error reported for a healthy reader")
			}
		}
		fmt.Fprintf(out, "%s\t%d\t%d\t%s\n", line, runs, viol, first)
	}
}
