// readers: implementation-side differential checks for C14 (chunking independence) and C15 (failing readers).
// Input: one hex-encoded SQL input per line. Output per line: "<hex>\t<runs>\t<violations>\t<first violation or ->".
package main

import (
	"bufio"
	"context"
	"encoding/hex"
	"errors"
	"flag"
	"fmt"
	"io"
	"os"
	"strings"
	"testing/iotest"

	"github.com/sqlc-dev/doubleclick/parser"
)

type rng struct{ s uint64 }

func (r *rng) next() uint64 {
	r.s += 0x9e3779b97f4a7c15
	z := r.s
	z = (z ^ (z >> 30)) * 0xbf58476d1ce4e5b9
	z = (z ^ (z >> 27)) * 0x94d049bb133111eb
	return z ^ (z >> 31)
}
func (r *rng) intn(n int) int { return int(r.next() % uint64(n)) }

// chunked delivers data in the given chunk sizes (cyclically); withEOF returns the last bytes together with io.EOF.
type chunked struct {
	data    []byte
	sizes   []int
	i       int
	withEOF bool
	empties int // number of (0, nil) reads injected before every data read
	e       int
}

func (c *chunked) Read(p []byte) (int, error) {
	if len(c.data) == 0 {
		return 0, io.EOF
	}
	if c.e < c.empties {
		c.e++
		return 0, nil
	}
	c.e = 0
	n := c.sizes[c.i%len(c.sizes)]
	c.i++
	if n > len(p) {
		n = len(p)
	}
	if n > len(c.data) {
		n = len(c.data)
	}
	copy(p, c.data[:n])
	c.data = c.data[n:]
	if len(c.data) == 0 && c.withEOF {
		return n, io.EOF
	}
	return n, nil
}

type result struct {
	n       int
	explain string
	err     string
	panicv  string
}

func run(r io.Reader) (res result) {
	defer func() {
		if x := recover(); x != nil {
			res.panicv = fmt.Sprint(x)
		}
	}()
	stmts, err := parser.Parse(context.Background(), r)
	res.n = len(stmts)
	var sb strings.Builder
	for _, s := range stmts {
		sb.WriteString(parser.Explain(s))
		sb.WriteString("\x00")
	}
	res.explain = sb.String()
	if err != nil {
		res.err = err.Error()
	}
	return
}

func same(a, b result) bool { return a == b }

type failing struct {
	data     []byte
	k        int // fail when offset k is reached
	off      int
	err      error
	withData bool // return the error together with the last bytes before k
	once     bool // transient: fail once, then continue
	failed   bool
	chunk    int
}

func (f *failing) Read(p []byte) (int, error) {
	if f.off >= f.k && !(f.once && f.failed) {
		f.failed = true
		return 0, f.err
	}
	lim := f.k
	if f.once && f.failed {
		lim = len(f.data)
	}
	if f.off >= len(f.data) {
		return 0, io.EOF
	}
	n := lim - f.off
	if n > len(p) {
		n = len(p)
	}
	if f.chunk > 0 && n > f.chunk {
		n = f.chunk
	}
	copy(p, f.data[f.off:f.off+n])
	f.off += n
	if f.withData && f.off >= f.k && !(f.once && f.failed) {
		f.failed = true
		return n, f.err
	}
	return n, nil
}

type timeoutErr struct{}

func (timeoutErr) Error() string   { return "i/o timeout" }
func (timeoutErr) Timeout() bool   { return true }
func (timeoutErr) Temporary() bool { return true }

func main() {
	mode := flag.String("mode", "chunk", "chunk | fail")
	seed := flag.Uint64("seed", 1, "seed")
	maxPoints := flag.Int("maxpoints", 300, "maximal number of boundary / failure offsets per input")
	flag.Parse()
	in := bufio.NewScanner(os.Stdin)
	in.Buffer(make([]byte, 1<<22), 1<<26)
	out := bufio.NewWriter(os.Stdout)
	defer out.Flush()
	r := &rng{s: *seed}
	for in.Scan() {
		line := in.Text()
		var data []byte
		if line != "-" {
			var err error
			data, err = hex.DecodeString(line)
			if err != nil {
				fmt.Fprintln(os.Stderr, "bad hex")
				os.Exit(2)
			}
		}
		runs, viol := 0, 0
		first := "-"
		note := func(what string) {
			viol++
			if first == "-" {
				first = what
			}
		}
		base := run(strings.NewReader(string(data)))
		points := func() []int {
			var ps []int
			if len(data)+1 <= *maxPoints {
				for k := 0; k <= len(data); k++ {
					ps = append(ps, k)
				}
				return ps
			}
			seen := map[int]bool{}
			add := func(k int) {
				if k >= 0 && k <= len(data) && !seen[k] {
					seen[k] = true
					ps = append(ps, k)
				}
			}
			for _, k := range []int{0, 1, 2, len(data) - 1, len(data), 4095, 4096, 4097, 8191, 8192, 8193} {
				add(k)
			}
			for i, b := range data { // statement boundaries, quotes and multi-byte runes
				if b == ';' || b == '\'' || b >= 0x80 {
					add(i)
					add(i + 1)
				}
				if len(ps) > *maxPoints/2 {
					break
				}
			}
			for len(ps) < *maxPoints {
				add(r.intn(len(data) + 1))
			}
			return ps
		}()
		switch *mode {
		case "chunk":
			check := func(name string, rd io.Reader) {
				runs++
				got := run(rd)
				if !same(base, got) {
					note(fmt.Sprintf("%s: n=%d/%d err=%q/%q panic=%q explain-equal=%v", name, got.n, base.n, got.err, base.err, got.panicv, got.explain == base.explain))
				}
			}
			check("one-byte", iotest.OneByteReader(strings.NewReader(string(data))))
			check("half", iotest.HalfReader(strings.NewReader(string(data))))
			check("data-err", iotest.DataErrReader(strings.NewReader(string(data))))
			check("one-byte+data-err", iotest.DataErrReader(iotest.OneByteReader(strings.NewReader(string(data)))))
			for _, k := range points { // one boundary at offset k
				if k == 0 || k >= len(data) {
					continue
				}
				check(fmt.Sprintf("split@%d", k), &chunked{data: append([]byte(nil), data...), sizes: []int{k, len(data)}})
			}
			for j := 0; j < 6; j++ {
				sizes := make([]int, 1+r.intn(5))
				for i := range sizes {
					sizes[i] = 1 + r.intn(1+[]int{3, 17, 200, 5000}[r.intn(4)])
				}
				check(fmt.Sprintf("random%v", sizes), &chunked{data: append([]byte(nil), data...), sizes: sizes, withEOF: j%2 == 0, empties: j % 3})
			}
		case "fail":
			kinds := []error{errors.New("boom"), io.ErrUnexpectedEOF, timeoutErr{}}
			for _, k := range points {
				for ki, e := range kinds {
					for _, wd := range []bool{false, true} {
						for _, once := range []bool{false, true} {
							if once && ki != 0 {
								continue
							}
							runs++
							f := &failing{data: data, k: k, err: e, withData: wd, once: once, chunk: []int{0, 1, 7}[runs%3]}
							var got result
							var perr error
							func() {
								defer func() {
									if x := recover(); x != nil {
										got.panicv = fmt.Sprint(x)
									}
								}()
								_, perr = parser.Parse(context.Background(), f)
							}()
							if got.panicv != "" {
								note(fmt.Sprintf("fail@%d kind=%d: panic %s", k, ki, got.panicv))
								continue
							}
							if f.failed && !errors.Is(perr, e) {
								note(fmt.Sprintf("fail@%d kind=%d withData=%v once=%v: reader returned %q but Parse returned err=%v", k, ki, wd, once, e.Error(), perr))
							}
							if !f.failed && !same(base, run(strings.NewReader(string(data)))) {
								note("baseline not deterministic")
							}
						}
					}
				}
			}
			// a reader that never fails never produces a read error
			if strings.Contains(base.err, "read error") {
				note("read error reported for a healthy reader")
			}
		}
		fmt.Fprintf(out, "%s\t%d\t%d\t%s\n", line, runs, viol, first)
	}
}
