//go:build verif

// selectcount: the implementation side of the C04 count-vs-emit correspondence for the SELECT
// printers of /repo/internal/explain/select.go.
//
// It BUILDS ast.SelectQuery / ast.SelectWithUnionQuery / ast.SelectIntersectExceptQuery values
// directly (no parsing), so that every combination of optional fields is reachable, including
// the ones the parser never produces, calls parser.Explain and reports the "(children N)" count
// of the first line and the number of lines actually printed one level below it.
//
// stdin : one case per line:  <kind> TAB <arg> TAB <items>
//
//	S  -      <sq>              parser.Explain(&ast.SelectQuery{...})
//	U  <b><a><n>  <item>;<item>;...   SelectWithUnionQuery, all UnionModes "UNION ALL",
//	                            SettingsBeforeFormat=b, SettingsAfterFormat=a, len(Settings)=n
//	I  <e>    <item>;<item>;... SelectIntersectExceptQuery, operators all EXCEPT (e=1) or INTERSECT (e=0)
//
//	the union nested in an enclosing statement, which passes a non-trivial unionTail (the type is
//	unexported, so it is reached through the statements that build it); the reported numbers
//	and text are those of the nested SelectWithUnionQuery subtree (first line with that label
//	below the root, up to the next line that is not deeper; de-indented):
//	N  <w><b><a><n>  <items>    &ast.InsertQuery{Table: "t", With: w identifiers, Select: union}
//	                            (unionTail{noFormat: true}; w > 0: the inherited-WITH union printer)
//	X  <b><a><n>     <items>    &ast.ExplainQuery{ExplainType: AST, Statement: union}
//	                            (noSettings / noFormatOf / noSettingsOf from the first SelectQuery)
//	C  <f><b><a><n>  <items>    &ast.CreateQuery{View: "v", AsSelect: union, Format: f ? "Null" : ""}
//	                            (f = 1: unionTail{noFormat: true} via explainAsSelectWithoutFormat)
//
//	<item> = q<sq>   a *ast.SelectQuery
//	       | u<sq>   a *ast.SelectWithUnionQuery with that single select (a parenthesised select)
//	<sq>   = 25 decimal digits, one per field, in this order:
//	   0 With  1 DistinctOn  2 Top  3 Columns  4 From  5 ArrayJoin  6 PreWhere  7 Where  8 GroupBy
//	   9 GroupByAll  10 GroupingSets  11 Having  12 Qualify  13 Window  14 OrderBy  15 Interpolate
//	   16 Limit  17 LimitBy  18 LimitByLimit  19 LimitByOffset  20 Offset  21 Settings
//	   22 SettingsAfterFormat  23 IntoOutfile  24 Format
//	 list fields: the digit is the length; pointer / interface / bool fields: 0 = nil/false,
//	 non-zero = set; From: 0 = nil, 1..8 = that many tables, 9 = non-nil with zero tables.
//	 Third state "present but empty": the letter e in the position of a slice-typed field
//	 (With, DistinctOn, Columns, GroupBy, Window, OrderBy, Interpolate, LimitBy, Settings) gives a
//	 NON-NIL EMPTY slice (0 gives nil); e at ArrayJoin gives an ArrayJoinClause with a non-nil
//	 empty Columns slice.  The Coq model cannot tell nil from empty, so such a case is
//	 oracle-only (flag O below): only header = direct children is required of it.
//	 Sub-nodes are identifiers named after the field (c1, c2, wh, ...), see build().  With
//	 GroupingSets set, GroupBy element i (from 0) is: i%4==0 an identifier, 1 a tuple literal of
//	 two identifiers, 2 a Parenthesized tuple literal of one identifier, 3 an empty tuple literal.
//
//	W  <w>    <sq>              the SelectQuery <sq> as SECOND member of a UNION ALL whose first member is
//	                            `WITH fw1..fw<w> SELECT c0` (w >= 1): printed by explainSelectQueryWithInheritedWith
//	                            (or normally when <sq> has its own WITH); reported: the subtree of the second SelectQuery
//	V  <w>    <sq>              &ast.InsertQuery{Table: "t", With: iw1..iw<w>, Select: union of the single <sq>}:
//	                            the other route into explainSelectQueryWithInheritedWith; reported: the SelectQuery subtree
//
// stdout: one line per case:  <header count> TAB <direct children> TAB <md5 of the text> TAB <flag>
//
//	(with -text: the lowercase hex of the text instead of its md5), or PANIC TAB <flag>.
//	<flag> = M: model-comparable (the OCaml driver prints the same line);
//	         O: oracle-only (some field is "present but empty"; the driver prints - - - O).
//
// Build: cd /verif/harness && go build -tags verif -o /verif/build/selectcount ./cmd/selectcount
package main

import (
	"bufio"
	"crypto/md5"
	"encoding/hex"
	"flag"
	"fmt"
	"os"
	"regexp"
	"strconv"
	"strings"

	"github.com/sqlc-dev/doubleclick/ast"
	"github.com/sqlc-dev/doubleclick/parser"
)

func id(s string) *ast.Identifier { return &ast.Identifier{Parts: []string{s}} }

func ids(prefix string, n int) []ast.Expression {
	var out []ast.Expression
	for i := 1; i <= n; i++ {
		out = append(out, id(fmt.Sprintf("%s%d", prefix, i)))
	}
	return out
}

func opt(name string, d int) ast.Expression {
	if d == 0 {
		return nil // a nil interface, as the parser leaves it
	}
	return id(name)
}

// positions of the 25-digit spec that are slice-typed (or hold a slice) and accept the letter e
var emptyable = map[int]bool{0: true, 1: true, 3: true, 5: true, 8: true, 13: true, 14: true, 15: true, 17: true, 21: true}

func build(spec string) (*ast.SelectQuery, error) {
	if len(spec) != 25 {
		return nil, fmt.Errorf("select spec must have 25 digits: %q", spec)
	}
	d := make([]int, 25)
	empty := make([]bool, 25)
	for i := 0; i < 25; i++ {
		if spec[i] == 'e' && emptyable[i] {
			empty[i] = true
			continue
		}
		if spec[i] < '0' || spec[i] > '9' {
			return nil, fmt.Errorf("bad digit in %q", spec)
		}
		d[i] = int(spec[i] - '0')
	}
	q := &ast.SelectQuery{}
	q.With = ids("w", d[0])
	q.DistinctOn = ids("d", d[1])
	q.Top = opt("top", d[2])
	q.Columns = ids("c", d[3])
	if empty[0] {
		q.With = []ast.Expression{}
	}
	if empty[1] {
		q.DistinctOn = []ast.Expression{}
	}
	if empty[3] {
		q.Columns = []ast.Expression{}
	}
	if d[4] != 0 {
		q.From = &ast.TablesInSelectQuery{}
		if d[4] != 9 {
			for i := 1; i <= d[4]; i++ {
				q.From.Tables = append(q.From.Tables, &ast.TablesInSelectQueryElement{
					Table: &ast.TableExpression{Table: &ast.TableIdentifier{Table: fmt.Sprintf("t%d", i)}}})
			}
		}
	}
	if d[5] != 0 {
		q.ArrayJoin = &ast.ArrayJoinClause{Columns: []ast.Expression{id("aj")}}
	}
	if empty[5] {
		q.ArrayJoin = &ast.ArrayJoinClause{Columns: []ast.Expression{}}
	}
	q.PreWhere = opt("pw", d[6])
	q.Where = opt("wh", d[7])
	q.GroupByAll = d[9] != 0
	q.GroupingSets = d[10] != 0
	for i := 0; i < d[8]; i++ {
		name := fmt.Sprintf("g%d", i+1)
		var e ast.Expression = id(name)
		if q.GroupingSets {
			switch i % 4 {
			case 1:
				e = &ast.Literal{Type: ast.LiteralTuple, Value: []ast.Expression{id(name + "a"), id(name + "b")}}
			case 2:
				e = &ast.Literal{Type: ast.LiteralTuple, Value: []ast.Expression{id(name + "a")}, Parenthesized: true}
			case 3:
				e = &ast.Literal{Type: ast.LiteralTuple, Value: []ast.Expression{}}
			}
		}
		q.GroupBy = append(q.GroupBy, e)
	}
	if empty[8] {
		q.GroupBy = []ast.Expression{}
	}
	q.Having = opt("hv", d[11])
	q.Qualify = opt("ql", d[12])
	for i := 1; i <= d[13]; i++ {
		q.Window = append(q.Window, &ast.WindowDefinition{Name: fmt.Sprintf("win%d", i), Spec: &ast.WindowSpec{}})
	}
	for i := 1; i <= d[14]; i++ {
		q.OrderBy = append(q.OrderBy, &ast.OrderByElement{Expression: id(fmt.Sprintf("o%d", i))})
	}
	for i := 1; i <= d[15]; i++ {
		q.Interpolate = append(q.Interpolate, &ast.InterpolateElement{Column: fmt.Sprintf("i%d", i)})
	}
	if empty[13] {
		q.Window = []*ast.WindowDefinition{}
	}
	if empty[14] {
		q.OrderBy = []*ast.OrderByElement{}
	}
	if empty[15] {
		q.Interpolate = []*ast.InterpolateElement{}
	}
	q.Limit = opt("lim", d[16])
	q.LimitBy = ids("lb", d[17])
	if empty[17] {
		q.LimitBy = []ast.Expression{}
	}
	q.LimitByLimit = opt("lbl", d[18])
	q.LimitByOffset = opt("lbo", d[19])
	q.Offset = opt("off", d[20])
	for i := 1; i <= d[21]; i++ {
		q.Settings = append(q.Settings, &ast.SettingExpr{Name: fmt.Sprintf("s%d", i), Value: id("v")})
	}
	if empty[21] {
		q.Settings = []*ast.SettingExpr{}
	}
	q.SettingsAfterFormat = d[22] != 0
	if d[23] != 0 {
		q.IntoOutfile = &ast.IntoOutfileClause{Filename: "out.txt"}
	}
	if d[24] != 0 {
		q.Format = id("Null")
	}
	return q, nil
}

func buildItems(s string) ([]ast.Statement, error) {
	var out []ast.Statement
	for _, it := range strings.Split(s, ";") {
		if len(it) < 1 {
			return nil, fmt.Errorf("empty item")
		}
		q, err := build(it[1:])
		if err != nil {
			return nil, err
		}
		switch it[0] {
		case 'q':
			out = append(out, q)
		case 'u':
			out = append(out, &ast.SelectWithUnionQuery{Selects: []ast.Statement{q}})
		default:
			return nil, fmt.Errorf("bad item kind %q", it[0])
		}
	}
	return out, nil
}

func buildUnion(arg, items string) (*ast.SelectWithUnionQuery, error) {
	if len(arg) != 3 {
		return nil, fmt.Errorf("union arg must be 3 digits")
	}
	sel, err := buildItems(items)
	if err != nil {
		return nil, err
	}
	u := &ast.SelectWithUnionQuery{Selects: sel}
	for i := 1; i < len(sel); i++ {
		u.UnionModes = append(u.UnionModes, "UNION ALL")
	}
	u.SettingsBeforeFormat = arg[0] != '0'
	u.SettingsAfterFormat = arg[1] != '0'
	for i := 0; i < int(arg[2]-'0'); i++ {
		u.Settings = append(u.Settings, &ast.SettingExpr{Name: fmt.Sprintf("us%d", i+1), Value: id("v")})
	}
	return u, nil
}

func buildCase(kind, arg, items string) (ast.Statement, error) {
	switch kind {
	case "S":
		return build(items)
	case "U":
		return buildUnion(arg, items)
	case "W":
		q, err := build(items)
		if err != nil {
			return nil, err
		}
		w := int(arg[0] - '0')
		first := &ast.SelectQuery{With: ids("fw", w), Columns: []ast.Expression{id("c0")}}
		return &ast.SelectWithUnionQuery{Selects: []ast.Statement{first, q}, UnionModes: []string{"UNION ALL"}}, nil
	case "V":
		q, err := build(items)
		if err != nil {
			return nil, err
		}
		u := &ast.SelectWithUnionQuery{Selects: []ast.Statement{q}}
		return &ast.InsertQuery{Table: "t", With: ids("iw", int(arg[0]-'0')), Select: u}, nil
	case "N":
		if len(arg) != 4 {
			return nil, fmt.Errorf("N arg must be 4 digits")
		}
		u, err := buildUnion(arg[1:], items)
		if err != nil {
			return nil, err
		}
		return &ast.InsertQuery{Table: "t", With: ids("iw", int(arg[0]-'0')), Select: u}, nil
	case "X":
		u, err := buildUnion(arg, items)
		if err != nil {
			return nil, err
		}
		return &ast.ExplainQuery{ExplainType: ast.ExplainAST, ExplicitType: true, Statement: u}, nil
	case "C":
		if len(arg) != 4 {
			return nil, fmt.Errorf("C arg must be 4 digits")
		}
		u, err := buildUnion(arg[1:], items)
		if err != nil {
			return nil, err
		}
		c := &ast.CreateQuery{View: "v", AsSelect: u}
		if arg[0] != '0' {
			c.Format = "Null"
		}
		return c, nil
	case "I":
		sel, err := buildItems(items)
		if err != nil {
			return nil, err
		}
		n := &ast.SelectIntersectExceptQuery{Selects: sel}
		op := "INTERSECT"
		if arg != "0" {
			op = "EXCEPT"
		}
		for i := 1; i < len(sel); i++ {
			n.Operators = append(n.Operators, op)
		}
		if len(n.Operators) == 0 && op == "EXCEPT" {
			// a single member: keep "some operator is EXCEPT" true, as the case says
			n.Operators = []string{op}
		}
		return n, nil
	}
	return nil, fmt.Errorf("unknown kind %q", kind)
}

var childrenSuffix = regexp.MustCompile(` \(children ([0-9]+)\)$`)

func explain(st ast.Statement) (text string, panicked bool) {
	defer func() {
		if r := recover(); r != nil {
			panicked = true
		}
	}()
	return parser.Explain(st), false
}

func main() {
	asText := flag.Bool("text", false, "print the hex of the text instead of its md5")
	flag.Parse()
	in := bufio.NewScanner(os.Stdin)
	in.Buffer(make([]byte, 1<<20), 1<<26)
	out := bufio.NewWriterSize(os.Stdout, 1<<20)
	defer out.Flush()
	for in.Scan() {
		line := in.Text()
		if line == "" {
			continue
		}
		f := strings.Split(line, "\t")
		if len(f) != 3 {
			fmt.Fprintf(os.Stderr, "selectcount: bad case line %q\n", line)
			os.Exit(2)
		}
		st, err := buildCase(f[0], f[1], f[2])
		if err != nil {
			fmt.Fprintf(os.Stderr, "selectcount: %v in %q\n", err, line)
			os.Exit(2)
		}
		text, p := explain(st)
		if p {
			if strings.Contains(f[2], "e") {
				fmt.Fprintln(out, "PANIC\tO")
			} else {
				fmt.Fprintln(out, "PANIC\tM")
			}
			continue
		}
		lines := strings.Split(text, "\n")
		if n := len(lines); n > 0 && lines[n-1] == "" {
			lines = lines[:n-1]
		}
		flag := "M"
		if strings.Contains(f[2], "e") {
			flag = "O"
		}
		if f[0] == "N" || f[0] == "X" || f[0] == "C" || f[0] == "W" || f[0] == "V" {
			// the nested subtree, de-indented: the first SelectWithUnionQuery below the root
			// (N, X, C), the second SelectQuery (W) or the first SelectQuery (V)
			label, nth := "SelectWithUnionQuery", 1
			if f[0] == "W" {
				label, nth = "SelectQuery", 2
			} else if f[0] == "V" {
				label, nth = "SelectQuery", 1
			}
			start, ind := -1, 0
			for i := 1; i < len(lines); i++ {
				t := strings.TrimLeft(lines[i], " ")
				if t == label || strings.HasPrefix(t, label+" ") {
					nth--
					if nth == 0 {
						start, ind = i, len(lines[i])-len(t)
						break
					}
				}
			}
			if start < 0 {
				fmt.Fprintf(out, "NOSUBTREE\t%s\n", flag)
				continue
			}
			end := start + 1
			for end < len(lines) && len(lines[end])-len(strings.TrimLeft(lines[end], " ")) > ind {
				end++
			}
			sub := make([]string, 0, end-start)
			for _, l := range lines[start:end] {
				sub = append(sub, l[ind:])
			}
			lines = sub
			text = strings.Join(sub, "\n") + "\n"
		}
		header, direct := 0, 0
		if len(lines) > 0 {
			if m := childrenSuffix.FindStringSubmatch(lines[0]); m != nil {
				header, _ = strconv.Atoi(m[1])
			}
			for _, l := range lines[1:] {
				if len(l) >= 2 && l[0] == ' ' && l[1] != ' ' {
					direct++
				}
			}
		}
		var third string
		if *asText {
			third = "-"
			if text != "" {
				third = hex.EncodeToString([]byte(text))
			}
		} else {
			sum := md5.Sum([]byte(text))
			third = hex.EncodeToString(sum[:])
		}
		fmt.Fprintf(out, "%d\t%d\t%s\t%s\n", header, direct, third, flag)
	}
}
