//go:build verif

package main

import (
	"fmt"
	"strings"
	"unicode"
	"unicode/utf8"

	"github.com/sqlc-dev/doubleclick/lexer"
	"github.com/sqlc-dev/doubleclick/token"
)

// isWS is the lexer's own notion of whitespace (lexer.skipWhitespace).
func isWS(r rune) bool {
	if unicode.IsSpace(r) {
		return true
	}
	switch r {
	case '\uFEFF', '\u180E', '\u200B', '\u200C', '\u200D', '\u2060':
		return true
	}
	return false
}

// trimRightWS returns the length of s without its trailing whitespace run.
func trimRightWS(s string) int {
	n := len(s)
	for n > 0 {
		r, sz := utf8.DecodeLastRuneInString(s[:n])
		if r == utf8.RuneError && sz <= 1 {
			break
		}
		if !isWS(r) {
			break
		}
		n -= sz
	}
	return n
}

// sig is what the parser can see of a token apart from its position.
type sig struct {
	kind   token.Token
	value  string // upper-cased for keyword kinds
	quoted bool
}

func sigOf(it lexer.Item) sig {
	v := it.Value
	if it.Token.IsKeyword() {
		v = strings.ToUpper(v)
	}
	return sig{it.Token, v, it.Quoted}
}

// tok is a non-comment token of the statement with its source span.
type tok struct {
	sig        sig
	start, end int
	text       string
	frozen     bool // inside a '::' operand: text and inner gaps stay byte-identical
	flippable  bool // keyword used as keyword (see prepare)
}

// stmt is a prepared statement: tokens, the original gaps around them, the baseline signature.
type stmt struct {
	src  string
	toks []tok
	gaps []string // len(toks)+1; gaps[i] precedes toks[i]; gaps[len(toks)] is the tail
	// gapFrozen[i]: the gap lies strictly inside a '::' operand
	gapFrozen []bool
	core      []sig           // signature without leading/trailing semicolons
	lead      int             // number of leading semicolon tokens in toks
	memo      map[string]bool // gapOK results
	coreFold  []bool          // aligned with core: compare the value case-insensitively (-soft flips)
}

// lexSigs lexes a text and returns the signatures of its non-comment tokens (EOF excluded).
func lexSigs(text string) []sig {
	items := lexer.Tokenize(strings.NewReader(text))
	out := make([]sig, 0, len(items))
	for _, it := range items {
		if it.Token == token.EOF || it.Token == token.LINE_COMMENT || it.Token == token.WHITESPACE {
			continue
		}
		out = append(out, sigOf(it))
	}
	return out
}

func stripSemis(s []sig) []sig {
	for len(s) > 0 && s[0].kind == token.SEMICOLON {
		s = s[1:]
	}
	for len(s) > 0 && s[len(s)-1].kind == token.SEMICOLON {
		s = s[:len(s)-1]
	}
	return s
}

func sigsEqual(a, b []sig) bool {
	if len(a) != len(b) {
		return false
	}
	for i := range a {
		if a[i] != b[i] {
			return false
		}
	}
	return true
}

// sameTokens: does text lex to the statement's token sequence (comments dropped, keyword case
// ignored, leading/trailing semicolons ignored)?
func (st *stmt) sameTokens(text string) bool {
	got := stripSemis(lexSigs(text))
	if len(got) != len(st.core) {
		return false
	}
	for i := range got {
		if got[i] == st.core[i] {
			continue
		}
		if st.coreFold[i] && got[i].kind == st.core[i].kind && got[i].quoted == st.core[i].quoted && strings.EqualFold(got[i].value, st.core[i].value) {
			continue
		}
		return false
	}
	return true
}

// tokenDiff: "" when sameTokens(text), else a description of the first differing token.
func (st *stmt) tokenDiff(text string) string {
	if st.sameTokens(text) {
		return ""
	}
	got := stripSemis(lexSigs(text))
	show := func(s []sig, i int) string {
		if i >= len(s) {
			return "<end>"
		}
		return fmt.Sprintf("%s %q", s[i].kind, s[i].value)
	}
	for i := 0; ; i++ {
		if i >= len(got) || i >= len(st.core) || (got[i] != st.core[i] && !(st.coreFold[i] && strings.EqualFold(got[i].value, st.core[i].value) && got[i].kind == st.core[i].kind)) {
			return fmt.Sprintf("tokens differ at #%d: %s ⟂ %s", i+st.lead, show(st.core, i), show(got, i))
		}
	}
}

// relexOne: does span lex to exactly one token equal to it (kind, value, quoted)?
func relexOne(span string, it lexer.Item) bool {
	items := lexer.Tokenize(strings.NewReader(span))
	if len(items) != 2 || items[1].Token != token.EOF {
		return false
	}
	g := items[0]
	return g.Token == it.Token && g.Value == it.Value && g.Quoted == it.Quoted
}

// spans reconstructs the source span of every item (comments included, EOF excluded).
//
// Convention asserted here: Item.Pos.Offset is the byte offset of the END of the token's first
// rune (lexer.pos counts the bytes consumed including the current look-ahead rune), so
// start = Offset - len(first rune).  Three scanners take the position later than at the first
// rune: x'..' / b'..' strings (after the prefix letter) and $tag$..$tag$ strings (after the
// opening tag); those are tried as alternative candidates.  A token ends where the following
// token starts minus the whitespace run in between, because the lexer skips whitespace only
// before a token.  Every span is verified by re-lexing it alone.
func spans(src string, items []lexer.Item) (starts, ends []int, why string) {
	n := len(items) - 1
	if n < 0 || items[n].Token != token.EOF {
		return nil, nil, "no EOF token"
	}
	starts = make([]int, n)
	ends = make([]int, n)
	next := len(src)
	for k := n - 1; k >= 0; k-- {
		end := trimRightWS(src[:next])
		off := items[k].Pos.Offset
		if off <= 0 || off > end {
			return nil, nil, fmt.Sprintf("token %d (%s %q): offset %d outside (0,%d]", k, items[k].Token, items[k].Value, off, end)
		}
		_, sz := utf8.DecodeLastRuneInString(src[:off])
		p := off - sz
		var cands []int
		if items[k].Token == token.STRING && p >= 1 {
			switch src[p-1] {
			case 'x', 'X', 'b', 'B':
				// x'..' unless the letter ends an identifier (ax'..' is ax + '..')
				if before, _ := utf8.DecodeLastRuneInString(src[:p-1]); p == 1 || !isWordRune(before) {
					cands = append(cands, p-1)
				}
			case '$':
				if q := strings.LastIndexByte(src[:p-1], '$'); q >= 0 {
					cands = append(cands, q)
				}
			}
		}
		cands = append(cands, p)
		// A token normally ends before the whitespace run that precedes its successor; comments
		// and tokens left open at end of input (unterminated string, quoted identifier, block
		// comment) may end in whitespace themselves, so the untrimmed end is tried as well.
		found := -1
	search:
		for _, e := range []int{end, next} {
			for _, c := range cands {
				if c < e && relexOne(src[c:e], items[k]) {
					found, end = c, e
					break search
				}
			}
		}
		if found < 0 {
			return nil, nil, fmt.Sprintf("token %d (%s %q) at offset %d: span %q does not re-lex to it", k, items[k].Token, items[k].Value, off, src[p:end])
		}
		starts[k], ends[k] = found, end
		next = found
	}
	return starts, ends, ""
}

func isWordRune(r rune) bool {
	return r == '_' || r == '$' || unicode.IsLetter(r) || unicode.IsDigit(r)
}

// containsWord: does w occur in text as a whole word (case-sensitive unless fold)?
func containsWord(text, w string, fold bool) bool {
	if w == "" {
		return false
	}
	if fold {
		text, w = strings.ToLower(text), strings.ToLower(w)
	}
	for from := 0; ; {
		i := strings.Index(text[from:], w)
		if i < 0 {
			return false
		}
		i += from
		before, _ := utf8.DecodeLastRuneInString(text[:i])
		after, _ := utf8.DecodeRuneInString(text[i+len(w):])
		okB := i == 0 || !isWordRune(before)
		okA := i+len(w) == len(text) || !isWordRune(after)
		if okB && okA {
			return true
		}
		from = i + 1
	}
}

// echoEqual: are a and b equal up to the spellings w and f, i.e. once every occurrence of either
// (also inside a longer word: table ttl prints ttl_final) is replaced by the same placeholder?
func echoEqual(a, b, w, f string) bool {
	r := strings.NewReplacer(w, "\x00", f, "\x00")
	return r.Replace(a) == r.Replace(b)
}

// containsWordStart: does w occur in text, case-insensitively, at the start of a word?
func containsWordStart(text, w string) bool {
	text, w = strings.ToLower(text), strings.ToLower(w)
	for from := 0; ; {
		i := strings.Index(text[from:], w)
		if i < 0 {
			return false
		}
		i += from
		before, _ := utf8.DecodeLastRuneInString(text[:i])
		if i == 0 || !isWordRune(before) {
			return true
		}
		from = i + 1
	}
}

func isIdentShaped(s string) bool {
	if s == "" {
		return false
	}
	for i, r := range s {
		if r == '_' || unicode.IsLetter(r) {
			continue
		}
		if i > 0 && (unicode.IsDigit(r) || r == '$') {
			continue
		}
		return false
	}
	return true
}

// prepare builds the stmt; reason != "" means the statement is skipped.
func prepare(src, baseExplain string, soft, freeze bool, probe func(string) string) (*stmt, string) {
	if strings.IndexByte(src, 0) >= 0 {
		return nil, "nul-byte" // the lexer stops at NUL; the rest of the text is never lexed
	}
	items := lexer.Tokenize(strings.NewReader(src))
	if e := items[len(items)-1]; e.Pos.Offset != len(src) {
		return nil, fmt.Sprintf("span-mismatch EOF offset %d, length %d", e.Pos.Offset, len(src))
	}
	starts, ends, why := spans(src, items)
	if why != "" {
		return nil, "span-mismatch " + why
	}
	st := &stmt{src: src}
	prevEnd := 0
	for k := 0; k < len(items)-1; k++ {
		if items[k].Token == token.LINE_COMMENT || items[k].Token == token.WHITESPACE {
			continue
		}
		st.gaps = append(st.gaps, src[prevEnd:starts[k]])
		st.toks = append(st.toks, tok{sig: sigOf(items[k]), start: starts[k], end: ends[k], text: src[starts[k]:ends[k]]})
		prevEnd = ends[k]
	}
	st.gaps = append(st.gaps, src[prevEnd:])
	if len(st.toks) == 0 {
		return nil, "empty"
	}
	m := len(st.toks)
	st.gapFrozen = make([]bool, m+1)
	// '::' exception regions
	for j := 1; j < m; j++ {
		if !freeze || st.toks[j].sig.kind != token.COLONCOLON {
			continue
		}
		c := st.toks[j-1].sig.kind
		if c != token.RBRACKET && c != token.RPAREN {
			continue
		}
		var stack []token.Token
		open := -1
		for i := j - 1; i >= 0; i-- {
			switch kd := st.toks[i].sig.kind; kd {
			case token.RBRACKET, token.RPAREN:
				stack = append(stack, kd)
			case token.LBRACKET, token.LPAREN:
				if len(stack) > 0 {
					stack = stack[:len(stack)-1] // kinds are not matched against each other: the baseline parsed
				}
				if len(stack) == 0 {
					open = i
				}
			}
			if open >= 0 {
				break
			}
		}
		if open < 0 {
			open = 0 // unbalanced: freeze everything before the cast
		}
		if open > 0 {
			// f(...)::T, a[...]::T, g(...)[...]::T: the bracket group is a call / subscript, not
			// an array or tuple literal, so the exception does not apply.  (After a keyword-kind
			// token the group is frozen: SELECT [..]::T and array(..)::T look alike here.)
			switch st.toks[open-1].sig.kind {
			case token.IDENT, token.RPAREN, token.RBRACKET:
				continue
			}
		}
		for i := open; i <= j-1; i++ {
			st.toks[i].frozen = true
			if i > open {
				st.gapFrozen[i] = true
			}
		}
	}
	for i := range st.toks {
		t := &st.toks[i]
		if t.frozen {
			continue
		}
		switch {
		case t.sig.kind.IsKeyword():
			// Used as a keyword <=> EXPLAIN does not echo the spelling.  If the exact spelling
			// does not occur in the baseline EXPLAIN as a whole word it cannot be echoed.  If it
			// does occur, that may be a coincidence with EXPLAIN's own vocabulary ("SYSTEM
			// query", "Literal NULL", "AlterCommand UPDATE"): probe by flipping this one token.
			// Same EXPLAIN: keyword.  EXPLAIN differs only by the flipped spelling standing where
			// the original spelling stood: a name (Function IF, alias KEY, table ttl), left alone.
			// Any other difference: flipped anyway, so that the variants report it.
			// (also at the start of a longer word: any(DISTINCT x) prints anyDistinct, the spelling of a function NAME)
			t.flippable = !containsWord(baseExplain, t.text, false) && !containsWordStart(baseExplain, t.text)
			if !t.flippable && probe != nil {
				f := flipCase(t.text, 0)
				if f == t.text {
					f = flipCase(t.text, 1)
				}
				if f != t.text {
					out := probe(src[:t.start] + f + src[t.end:])
					t.flippable = out == baseExplain || !echoEqual(baseExplain, out, t.text, f)
				}
			}
		}
		// a special-float keyword (inf, nan) that does not stand in a name position (after AS or a dot, before a
		// call parenthesis) is a LITERAL: a keyword used as a keyword, whatever EXPLAIN echoes
		if (t.sig.kind == token.INF || t.sig.kind == token.NAN) && !t.flippable {
			prevK, nextK := token.EOF, token.EOF
			if i > 0 {
				prevK = st.toks[i-1].sig.kind
			}
			if i+1 < len(st.toks) {
				nextK = st.toks[i+1].sig.kind
			}
			if prevK != token.AS && prevK != token.DOT && nextK != token.LPAREN && nextK != token.DOT &&
				!strings.Contains(baseExplain, "(alias "+t.text+")") && !strings.Contains(baseExplain, "Identifier "+t.text) {
				t.flippable = true
			}
		}
		switch {
		case soft && t.sig.kind == token.IDENT && !t.sig.quoted && isIdentShaped(t.text):
			// a name is echoed at the start of a word (count(DISTINCT x) prints countDistinct);
			// a contextual keyword is not echoed, or only inside a word (DAY -> toIntervalDay)
			t.flippable = !containsWordStart(baseExplain, t.text)
		}
	}
	st.core = make([]sig, m)
	fold := make([]bool, m)
	for i, t := range st.toks {
		st.core[i] = t.sig
		fold[i] = t.flippable && t.sig.kind == token.IDENT
	}
	lead := 0
	for lead < m && st.core[lead].kind == token.SEMICOLON {
		lead++
	}
	st.lead = lead
	st.core = stripSemis(st.core)
	st.coreFold = fold[lead : lead+len(st.core)]
	return st, ""
}
