//go:build verif

package main

// shrink reverts the changes of a BAD variant one at a time while it stays BAD (judge != "";
// a text whose token sequence differs counts as BAD too, and separators are only replaced through
// fit, which rules out join hazards between a token and a comment opener).  Order: semicolons, all
// case flips at once, all gaps at once, then each flip, each gap, then each multi-piece
// separator down to one piece, then each surviving separator to a single blank; repeated to a
// fixpoint.  Returns the minimal variant and its difference.
func (st *stmt) shrink(v *variant, judge func(string) string) (*variant, string) {
	cur := v.clone()
	curOut := judge(cur.build(st))
	try := func(c *variant) bool {
		if d := judge(c.build(st)); d != "" {
			cur, curOut = c, d
			return true
		}
		return false
	}
	m := len(st.toks)
	for round := 0; round < 10; round++ {
		changed := false
		if cur.pre != "" {
			c := cur.clone()
			c.pre = ""
			changed = try(c) || changed
		}
		if cur.post != "" {
			c := cur.clone()
			c.post = ""
			changed = try(c) || changed
		}
		// all flips at once
		{
			c := cur.clone()
			any := false
			for i := range c.texts {
				if c.texts[i] != st.toks[i].text {
					c.texts[i] = st.toks[i].text
					any = true
				}
			}
			if any {
				changed = try(c) || changed
			}
		}
		// all gaps at once
		{
			c := cur.clone()
			any := false
			for i := range c.gaps {
				if !c.gaps[i].orig {
					c.gaps[i] = vgap{orig: true}
					any = true
				}
			}
			if any {
				changed = try(c) || changed
			}
		}
		for i := 0; i < m; i++ {
			if cur.texts[i] != st.toks[i].text {
				c := cur.clone()
				c.texts[i] = st.toks[i].text
				changed = try(c) || changed
			}
		}
		for i := 0; i <= m; i++ {
			if !cur.gaps[i].orig {
				c := cur.clone()
				c.gaps[i] = vgap{orig: true}
				changed = try(c) || changed
			}
		}
		for i := 0; i <= m; i++ {
			if g := cur.gaps[i]; !g.orig && len(g.pieces) > 1 {
				for _, p := range g.pieces {
					sep, ok := st.fit(i, cur.texts, []string{p})
					if !ok || len(sep) >= len(g.pieces) {
						continue
					}
					c := cur.clone()
					c.gaps[i] = vgap{pieces: sep}
					if try(c) {
						changed = true
						break
					}
				}
			}
		}
		for i := 0; i <= m; i++ {
			if g := cur.gaps[i]; !g.orig && len(g.pieces) >= 1 && !(len(g.pieces) == 1 && g.pieces[0] == " ") {
				c := cur.clone()
				c.gaps[i] = vgap{pieces: []string{" "}}
				changed = try(c) || changed
			}
		}
		if !changed {
			break
		}
	}
	return cur, curOut
}
