//go:build verif

// relayout: the metamorphic harness of property C05 ("layout does not matter").
//
// For every input statement that parses, K re-layouts of its token sequence are built (other
// whitespace / comments between the tokens, keyword tokens case-flipped, extra leading / trailing
// semicolons) and parser.Explain of the re-laid-out text is compared with the baseline's.  The
// interior of an array / tuple literal that is the operand of a '::' cast is left byte-identical
// (the property's stated exception).  gen.go: the generator; spans.go: token spans, the '::'
// regions, which tokens are case-flipped; shrink.go: the minimiser.
//
// Input: one statement per line on stdin or -in FILE; plain text, or with -hex lowercase hex of
// the statement bytes ("-" = empty).  The statement index is the 0-based line number.
//
// Flags:
//
//	-k N        variants per statement (default 8): 0..4 every gap " ", "\n", "/**/", "-- c\n",
//	            U+00A0; 5 minimal (gaps removed where the neighbours stay two tokens); 6.. random
//	-seed N     default $VERIF_SEED, default 1; the generator of (statement i, variant v) is
//	            splitmix64 seeded from (seed, i, v), so one case replays alone
//	-only I     run statement I only; -onlyv V: variant V only
//	-shrink     minimise every BAD variant (default true)
//	-summary    print a final SUMMARY line
//	-hex        input lines are hex
//	-dump       print every variant (VARIANT <idx> v=<v> <%q>)
//	-nofreeze   positive control: re-lay out the inside of '::' operands too (the exception
//	            becomes visible as BAD results)
//	-soft       additionally case-flip IDENT tokens that look like contextual keywords (spelling
//	            not echoed at a word start by the baseline EXPLAIN); off by default because the
//	            lexer does not tell such words from names
//	-timeout D  context timeout per Parse call (default 5s); the parser also runs under a step
//	            budget of 50 x baseline steps + 1e6 (VerifSetBudget), exceeding it counts as a panic
//
// Output, one line per event:
//
//	skip <idx> <reason>          parse-error [panic] | span-mismatch ... | nul-byte | empty
//	ok <idx> <nvariants>
//	BAD <idx> <hex variant> <difference>
//	MIN <idx> <hex minimal variant> | <%q text> | <remaining changes> | <difference>
//	GEN-MISMATCH <idx> v=<v> <hex variant>
//
// <difference> is "line N: <baseline line> ⟂ <variant line>" of the joined EXPLAIN texts (an
// error or panic of the variant is a difference too), or "tokens differ at #i: want ⟂ got" when
// the lexer under test does not give the variant the statement's token sequence although the same
// variant with plain blanks for separators has it (the lexer mishandles that kind of separator).
// If even the blank version has other tokens the generator misplaced a separator: GEN-MISMATCH.
// Exit code 0 unless usage error.
//
// Build: cd /verif/harness && go build -tags verif -o /verif/build/relayout ./cmd/relayout
package main

import (
	"bufio"
	"context"
	"encoding/hex"
	"flag"
	"fmt"
	"os"
	"strconv"
	"strings"
	"time"

	"github.com/sqlc-dev/doubleclick/parser"
)

func hexOf(s string) string {
	if s == "" {
		return "-"
	}
	return hex.EncodeToString([]byte(s))
}

// splitmix64
type rng struct{ s uint64 }

func (r *rng) next() uint64 {
	r.s += 0x9e3779b97f4a7c15
	z := r.s
	z = (z ^ (z >> 30)) * 0xbf58476d1ce4e5b9
	z = (z ^ (z >> 27)) * 0x94d049bb133111eb
	return z ^ (z >> 31)
}
func (r *rng) intn(n int) int { return int(r.next() % uint64(n)) }

// caseRng derives the generator of (seed, statement, variant): three chained splitmix64 steps.
func caseRng(seed uint64, stmt, variant int) *rng {
	a := rng{s: seed}
	b := rng{s: a.next() ^ uint64(stmt)}
	c := rng{s: b.next() ^ uint64(variant)}
	return &rng{s: c.next()}
}

// outcome of Parse + Explain of one text.
type outcome struct {
	kind  string // "ok", "error", "panic"
	text  string // joined EXPLAIN, or the error / panic text
	steps int64
}

func (o outcome) String() string {
	if o.kind == "ok" {
		return o.text
	}
	return strings.ToUpper(o.kind) + ": " + o.text
}

const stmtSep = "\n-- next statement --\n"

var parseTimeout = 5 * time.Second

func run(sql string, budget int64) (o outcome) {
	defer func() {
		if r := recover(); r != nil {
			o = outcome{kind: "panic", text: fmt.Sprint(r)}
		}
	}()
	ctx, cancel := context.WithTimeout(context.Background(), parseTimeout)
	defer cancel()
	p := parser.New(strings.NewReader(sql))
	if budget > 0 {
		p.VerifSetBudget(budget)
	}
	stmts, err := p.ParseStatements(ctx)
	if err != nil {
		return outcome{kind: "error", text: err.Error(), steps: p.VerifSteps()}
	}
	parts := make([]string, len(stmts))
	for i, st := range stmts {
		parts[i] = parser.Explain(st)
	}
	return outcome{kind: "ok", text: fmt.Sprintf("statements %d\n", len(stmts)) + strings.Join(parts, stmtSep), steps: p.VerifSteps()}
}

func firstDiff(a, b string) string {
	la, lb := strings.Split(a, "\n"), strings.Split(b, "\n")
	for i := 0; i < len(la) || i < len(lb); i++ {
		x, y := "<end>", "<end>"
		if i < len(la) {
			x = la[i]
		}
		if i < len(lb) {
			y = lb[i]
		}
		if x != y {
			return fmt.Sprintf("line %d: %s ⟂ %s", i+1, x, y)
		}
	}
	return "no difference"
}

func main() {
	k := flag.Int("k", 8, "variants per statement")
	seedDefault := uint64(1)
	if s := os.Getenv("VERIF_SEED"); s != "" {
		if v, err := strconv.ParseUint(s, 10, 64); err == nil {
			seedDefault = v
		}
	}
	seed := flag.Uint64("seed", seedDefault, "seed (default $VERIF_SEED, default 1)")
	inFile := flag.String("in", "", "input file (default stdin)")
	isHex := flag.Bool("hex", false, "input lines are lowercase hex")
	only := flag.Int("only", -1, "run this statement index only")
	onlyV := flag.Int("onlyv", -1, "run this variant index only")
	shrink := flag.Bool("shrink", true, "minimise BAD variants")
	summary := flag.Bool("summary", false, "print a final SUMMARY line")
	dump := flag.Bool("dump", false, "print every variant as VARIANT <idx> v=<v> <%q text> (debugging)")
	noFreeze := flag.Bool("nofreeze", false, "do NOT leave '::' operands untouched (positive control: the stated exception becomes visible)")
	soft := flag.Bool("soft", false, "also flip IDENT tokens that look like contextual keywords")
	flag.DurationVar(&parseTimeout, "timeout", parseTimeout, "context timeout per Parse call")
	flag.Parse()
	if flag.NArg() != 0 || *k < 0 {
		fmt.Fprintln(os.Stderr, "usage: relayout [-k N] [-seed N] [-in FILE] [-hex] [-only I] [-onlyv V] [-shrink=false] [-summary] [-soft]")
		os.Exit(2)
	}
	var in *bufio.Reader
	if *inFile != "" {
		f, err := os.Open(*inFile)
		if err != nil {
			fmt.Fprintln(os.Stderr, "relayout:", err)
			os.Exit(2)
		}
		defer f.Close()
		in = bufio.NewReaderSize(f, 1<<20)
	} else {
		in = bufio.NewReaderSize(os.Stdin, 1<<20)
	}
	out := bufio.NewWriterSize(os.Stdout, 1<<20)
	defer out.Flush()

	var nStmts, nOK, nErr, nSpan, nOther, nVariants, nGen, nBadV, nBadS int
	var nFlips, nGapsReplaced, nGapsInserted, nGapsRemoved, nSemis, nFrozen, nKw, nKwFlip int
	t0 := time.Now()
	for idx := 0; ; idx++ {
		line, rerr := in.ReadString('\n')
		if rerr != nil && line == "" {
			break
		}
		line = strings.TrimSuffix(line, "\n")
		if !*isHex {
			line = strings.TrimSuffix(line, "\r")
		}
		if *only >= 0 && idx != *only {
			if rerr != nil {
				break
			}
			continue
		}
		sql := line
		if *isHex {
			if line == "-" {
				sql = ""
			} else {
				b, err := hex.DecodeString(strings.TrimSpace(line))
				if err != nil {
					fmt.Fprintf(out, "skip %d bad-hex\n", idx)
					nStmts++
					nOther++
					continue
				}
				sql = string(b)
			}
		}
		nStmts++
		base := run(sql, 0)
		if base.kind != "ok" {
			if base.kind == "panic" {
				fmt.Fprintf(out, "skip %d parse-error panic\n", idx)
			} else {
				fmt.Fprintf(out, "skip %d parse-error\n", idx)
			}
			nErr++
		} else {
			nOK++
			budget := base.steps*50 + 1000000
			st, reason := prepare(sql, base.text, *soft, !*noFreeze, func(t string) string { return run(t, budget).String() })
			if reason != "" {
				fmt.Fprintf(out, "skip %d %s\n", idx, reason)
				if strings.HasPrefix(reason, "span-mismatch") {
					nSpan++
				} else {
					nOther++
				}
			} else {
				for _, t := range st.toks {
					if t.frozen {
						nFrozen++
						break
					}
				}
				for _, t := range st.toks {
					if t.sig.kind.IsKeyword() {
						nKw++
						if t.flippable {
							nKwFlip++
						}
					}
				}
				bad := 0
				nv := 0
				for v := 0; v < *k; v++ {
					if *onlyV >= 0 && v != *onlyV {
						continue
					}
					va := st.generate(caseRng(*seed, idx, v), v)
					text := va.build(st)
					nv++
					for i := range va.texts {
						if va.texts[i] != st.toks[i].text {
							nFlips++
						}
					}
					for i, g := range va.gaps {
						switch t := g.text(st, i); {
						case g.orig:
						case st.gaps[i] == "" && t != "":
							nGapsInserted++
						case st.gaps[i] != "" && t == "":
							nGapsRemoved++
						case st.gaps[i] != t:
							nGapsReplaced++
						}
					}
					if va.pre != "" || va.post != "" {
						nSemis++
					}
					if *dump {
						fmt.Fprintf(out, "VARIANT %d v=%d %q\n", idx, v, text)
					}
					// judge: "" = equivalent; otherwise the difference (token sequence first, then EXPLAIN)
					judge := func(t string) string {
						if d := st.tokenDiff(t); d != "" {
							return d
						}
						if g := run(t, budget); g.String() != base.text {
							return firstDiff(base.text, g.String())
						}
						return ""
					}
					if st.tokenDiff(text) != "" && st.tokenDiff(va.skeleton().build(st)) != "" {
						// even with plain blanks as separators the text has other tokens: the
						// generator put a separator where it must not (or removed one)
						fmt.Fprintf(out, "GEN-MISMATCH %d v=%d %s\n", idx, v, hexOf(text))
						nGen++
						continue
					}
					d := judge(text)
					if d == "" {
						continue
					}
					bad++
					fmt.Fprintf(out, "BAD %d %s %s\n", idx, hexOf(text), d)
					if *shrink {
						mv, md := st.shrink(va, judge)
						mt := mv.build(st)
						fmt.Fprintf(out, "MIN %d %s | %q | %s | %s\n", idx, hexOf(mt), mt, mv.describe(st), md)
					}
				}
				nVariants += nv
				nBadV += bad
				if bad > 0 {
					nBadS++
				} else {
					fmt.Fprintf(out, "ok %d %d\n", idx, nv)
				}
			}
		}
		if rerr != nil {
			break
		}
	}
	if *summary {
		fmt.Fprintf(out, "SUMMARY statements=%d baseline_ok=%d baseline_err=%d span_mismatch=%d other_skips=%d variants=%d gen_mismatch=%d bad_variants=%d bad_statements=%d case_flips=%d gaps_replaced=%d gaps_inserted=%d gaps_removed=%d variants_with_semicolons=%d statements_with_frozen_region=%d keyword_tokens=%d keyword_tokens_flippable=%d seed=%d k=%d soft=%v elapsed=%s\n",
			nStmts, nOK, nErr, nSpan, nOther, nVariants, nGen, nBadV, nBadS, nFlips, nGapsReplaced, nGapsInserted, nGapsRemoved, nSemis, nFrozen, nKw, nKwFlip, *seed, *k, *soft, time.Since(t0).Round(time.Millisecond))
	}
}
