//go:build verif

package main

import (
	"fmt"
	"strings"
)

// separator pieces; every one is whitespace in the lexer's sense or one complete comment.
var pieces = []string{
	" ", "  ", "\t", "\n", "\r\n", "\v", "\f",
	"/* c */", "/**/", "/* /* nested */ */", "/* -- */",
	"-- c\n", "--\n", "--1\n", "# c\n", "#!x\n", "#1\n", "#\n",
	"\u00a0", "\u0085", "\u2003", "\u3000", "\u200b", "\ufeff", "\u2060", "\u180e", "\u200c", "\u200d",
}

// boundary variants 0..4: every gap this separator.
var boundary = []string{" ", "\n", "/**/", "-- c\n", "\u00a0"}

const (
	variantMinimal = 5 // every gap removed where the neighbours stay two tokens, else one space
	firstRandom    = 6
)

var prefixes = []string{"", "", ";", " ; "}
var suffixes = []string{"", ";", ";;", " ; ; "}

// gap of a variant: either the original text or a list of pieces.
type vgap struct {
	orig   bool
	pieces []string
}

type variant struct {
	gaps      []vgap   // len(toks)+1
	texts     []string // token texts (case flips applied)
	pre, post string
}

func (g vgap) text(st *stmt, i int) string {
	if g.orig {
		return st.gaps[i]
	}
	return strings.Join(g.pieces, "")
}

func (v *variant) build(st *stmt) string {
	var sb strings.Builder
	sb.WriteString(v.pre)
	for i := range st.toks {
		sb.WriteString(v.gaps[i].text(st, i))
		sb.WriteString(v.texts[i])
	}
	sb.WriteString(v.gaps[len(st.toks)].text(st, len(st.toks)))
	sb.WriteString(v.post)
	return sb.String()
}

func (v *variant) clone() *variant {
	c := &variant{pre: v.pre, post: v.post}
	c.gaps = make([]vgap, len(v.gaps))
	for i, g := range v.gaps {
		c.gaps[i] = vgap{orig: g.orig, pieces: append([]string(nil), g.pieces...)}
	}
	c.texts = append([]string(nil), v.texts...)
	return c
}

// describe lists the changes of the variant with respect to the source.
func (v *variant) describe(st *stmt) string {
	var parts []string
	if v.pre != "" {
		parts = append(parts, fmt.Sprintf("prefix %q", v.pre))
	}
	for i := range v.gaps {
		if g := v.gaps[i].text(st, i); g != st.gaps[i] {
			where := "tail"
			if i < len(st.toks) {
				where = fmt.Sprintf("before #%d %q", i, st.toks[i].text)
			}
			parts = append(parts, fmt.Sprintf("gap %s: %q -> %q", where, st.gaps[i], g))
		}
	}
	for i := range v.texts {
		if v.texts[i] != st.toks[i].text {
			parts = append(parts, fmt.Sprintf("case #%d: %s -> %s", i, st.toks[i].text, v.texts[i]))
		}
	}
	if v.post != "" {
		parts = append(parts, fmt.Sprintf("suffix %q", v.post))
	}
	if len(parts) == 0 {
		return "no change"
	}
	return strings.Join(parts, "; ")
}

func flipCase(s string, style int) string {
	b := []byte(s)
	n := 0
	for i, c := range b {
		lower := c >= 'a' && c <= 'z'
		upper := c >= 'A' && c <= 'Z'
		if !lower && !upper {
			continue
		}
		var wantUpper bool
		switch style {
		case 0:
			wantUpper = true
		case 1:
			wantUpper = false
		default:
			wantUpper = n%2 == 1
		}
		n++
		if wantUpper && lower {
			b[i] = c - 32
		} else if !wantUpper && upper {
			b[i] = c + 32
		}
	}
	return string(b)
}

// gapOK: does gap i filled with sep keep its neighbours the tokens they are?  Judged by the lexer
// under test on the neighbours alone: a+sep+b+" " must lex to exactly (toks[i-1], toks[i]); at
// the edges (i == 0, i == len(toks)) only the one neighbour exists.
func (st *stmt) gapOK(i int, texts []string, sep string) bool {
	m := len(st.toks)
	eq := func(g sig, t tok) bool {
		if g == t.sig {
			return true
		}
		return t.flippable && g.kind == t.sig.kind && g.quoted == t.sig.quoted && strings.EqualFold(g.value, t.sig.value)
	}
	var text string
	var want []tok
	if i > 0 {
		text += texts[i-1]
		want = append(want, st.toks[i-1])
	}
	text += sep
	if i < m {
		text += texts[i]
		want = append(want, st.toks[i])
	}
	key := fmt.Sprintf("%d\x00%s", i, text)
	if r, ok := st.memo[key]; ok {
		return r
	}
	got := lexSigs(text + " ")
	res := len(got) == len(want)
	for k := 0; res && k < len(got); k++ {
		res = eq(got[k], want[k])
	}
	if st.memo == nil {
		st.memo = map[string]bool{}
	}
	st.memo[key] = res
	return res
}

// fit decides what gap i becomes when the generator (or the shrinker) wants separator sep there.
//
//   - the neighbours must be separable at all, judged with one plain blank; if not (tokens that
//     only exist in context) the original gap is kept: ok == false;
//   - if sep works as it is, it is used;
//   - if it works behind a blank, the failure was a join hazard between the left token's last
//     rune and the separator's first ('-' + "-- c", "1e" + "--1"): the blank is put in front;
//   - otherwise the lexer under test does not take sep for a separator even behind a blank.
//     That is the lexer's defect, not the generator's: sep is used as it is and the variant is
//     reported BAD (tokens differ).  Falling back to a blank here would hide exactly the lexer
//     defects this harness is for.
func (st *stmt) fit(i int, texts []string, sep []string) ([]string, bool) {
	if !st.gapOK(i, texts, " ") {
		return nil, false
	}
	j := strings.Join(sep, "")
	if st.gapOK(i, texts, j) {
		return sep, true
	}
	if st.gapOK(i, texts, " "+j) {
		return append([]string{" "}, sep...), true
	}
	return sep, true
}

// skeleton: the same variant with every non-empty generated separator replaced by one blank.
// If the skeleton lexes to the statement's tokens and the variant does not, the difference is
// due to the kind of separator, not to where separators were put.
func (v *variant) skeleton() *variant {
	c := v.clone()
	for i, g := range c.gaps {
		if !g.orig && len(g.pieces) > 0 {
			c.gaps[i] = vgap{pieces: []string{" "}}
		}
	}
	return c
}

func randomSep(r *rng) []string {
	n := 1 + r.intn(3)
	out := make([]string, n)
	for i := range out {
		out[i] = pieces[r.intn(len(pieces))]
	}
	return out
}

// generate builds variant number v of the statement.
func (st *stmt) generate(r *rng, v int) *variant {
	m := len(st.toks)
	va := &variant{gaps: make([]vgap, m+1), texts: make([]string, m)}
	style := r.intn(3)
	for i, t := range st.toks {
		va.texts[i] = t.text
		if t.flippable {
			va.texts[i] = flipCase(t.text, style)
		}
	}
	va.pre = prefixes[r.intn(len(prefixes))]
	va.post = suffixes[r.intn(len(suffixes))]

	choose := func() []string {
		if v < len(boundary) {
			return []string{boundary[v]}
		}
		return randomSep(r)
	}
	for i := 0; i <= m; i++ {
		orig := st.gaps[i]
		if st.gapFrozen[i] {
			va.gaps[i] = vgap{orig: true}
			continue
		}
		edge := i == 0 || i == m
		if v == variantMinimal {
			switch {
			case orig == "":
				va.gaps[i] = vgap{orig: true}
			case edge || st.gapOK(i, va.texts, ""):
				va.gaps[i] = vgap{}
			case st.gapOK(i, va.texts, " "):
				va.gaps[i] = vgap{pieces: []string{" "}}
			default:
				va.gaps[i] = vgap{orig: true}
			}
			continue
		}
		if orig == "" {
			// empty gaps stay empty, or (probability 1/2; always in variant 0) get a separator
			// when the neighbours stay the same two tokens
			if !(v == 0 || r.intn(2) == 0) {
				va.gaps[i] = vgap{orig: true}
				continue
			}
		}
		if sep, ok := st.fit(i, va.texts, choose()); ok {
			va.gaps[i] = vgap{pieces: sep}
		} else {
			va.gaps[i] = vgap{orig: true}
		}
	}
	if !st.gapOK(m, va.texts, " ") {
		// the last token is open-ended (unterminated string / quoted identifier at end of input):
		// anything appended would become part of it
		va.gaps[m] = vgap{orig: true}
		va.post = ""
	}
	// The per-gap checks look at two neighbours only.  Three-token effects ("1.e3" is 1 . e3, but
	// "1. e3" is 1. e3) are repaired on the skeleton (blanks for separators), so that a lexer
	// that mishandles some KIND of separator is not excused here.
	for tries := 0; tries < 8; tries++ {
		sk := va.skeleton().build(st)
		if st.sameTokens(sk) {
			break
		}
		if tries == 7 {
			for i := range va.gaps {
				va.gaps[i] = vgap{orig: true}
			}
			va.pre, va.post = "", ""
			break
		}
		got := stripSemis(lexSigs(sk))
		d := 0
		for d < len(got) && d < len(st.core) && (got[d] == st.core[d] || st.coreFold[d]) {
			d++
		}
		d += st.lead
		for i := d - 1; i <= d+2; i++ {
			if i >= 0 && i <= m {
				va.gaps[i] = vgap{orig: true}
			}
		}
	}
	return va
}
