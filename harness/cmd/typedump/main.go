//go:build verif

// typedump: correspondence harness for property C18 (type expressions in both cast positions).
//
// stdin : one case per line, the TYPE source text <T> as lowercase hex ("-" for empty).
// stdout: <hex T> TAB <CAST form> TAB <:: form> TAB <tokens of T>
//
//	<CAST form> : hex of the text after "Literal " of the type line of EXPLAIN for `SELECT CAST(x AS <T>)`
//	<:: form>   : the same for `SELECT x::<T>`
//	              or ERR (parser reported an error), PANIC (parser or printer panicked),
//	              SHAPE (the EXPLAIN text is not `Function CAST / ExpressionList / Identifier x / Literal …`)
//	<tokens>    : tokens of <T> alone from lexer.Tokenize, "kind:hexvalue" joined by ",", kind = int(token.Token),
//	              up to and including the EOF token (whitespace / comment tokens are kept; the model drops them
//	              exactly like (*Parser).nextToken does).
//
// typedump -script: the same input and the same output lines, but every CAST form / :: form is obtained from ONE
// parser.Parse call over ONE script
//
//	SELECT CAST(x AS <T_0>);
//	SELECT x::<T_0>;
//	SELECT CAST(x AS <T_1>);
//	...
//
// (statement 2i is the CAST form of case i, statement 2i+1 its :: form; EXPLAIN is taken per statement).  Any state
// the parser or the lexer carries from one type / one statement to the next shows up as a line that differs from the
// per-case mode.  The caller passes only cases that parse alone; when the script does not parse (error, panic or a
// statement count other than 2n) the shortest failing prefix of statements is located by bisection, its last statement
// is reported as ERR@script / PANIC@script / COUNT@script, and a NEW script (a new Parse call) starts after it; after
// scriptMaxRestarts such restarts the remaining statements are reported as SKIP.
// typedump -script N: at most N types (2N statements) per script; the next script starts with the next type.
package main

import (
	"bufio"
	"context"
	"encoding/hex"
	"fmt"
	"os"
	"strconv"
	"strings"
	"verif/harness/rdr"

	"github.com/sqlc-dev/doubleclick/ast"
	"github.com/sqlc-dev/doubleclick/lexer"
	"github.com/sqlc-dev/doubleclick/parser"
)

func hx(s string) string {
	if s == "" {
		return "-"
	}
	return hex.EncodeToString([]byte(s))
}

func unhx(s string) (string, error) {
	if s == "-" {
		return "", nil
	}
	b, err := hex.DecodeString(s)
	return string(b), err
}

const head = "SelectWithUnionQuery (children 1)\n" +
	" ExpressionList (children 1)\n" +
	"  SelectQuery (children 1)\n" +
	"   ExpressionList (children 1)\n" +
	"    Function CAST (children 1)\n" +
	"     ExpressionList (children 2)\n" +
	"      Identifier x\n" +
	"      Literal "

func one(sql string) (res string) {
	defer func() {
		if r := recover(); r != nil {
			res = "PANIC"
		}
	}()
	stmts, err := parser.Parse(context.Background(), rdr.For(sql))
	if err != nil {
		return "ERR"
	}
	if len(stmts) != 1 {
		return "SHAPE"
	}
	return explainOne(stmts[0])
}

func toks(t string) (res string) {
	defer func() {
		if r := recover(); r != nil {
			res = "PANIC"
		}
	}()
	items := lexer.Tokenize(strings.NewReader(t))
	parts := make([]string, 0, len(items))
	for _, it := range items {
		parts = append(parts, fmt.Sprintf("%d:%s", int(it.Token), hx(it.Value)))
	}
	return strings.Join(parts, ",")
}

const scriptMaxRestarts = 8

// explainOne: the per-statement projection shared by both modes
func explainOne(st ast.Statement) (res string) {
	defer func() {
		if r := recover(); r != nil {
			res = "PANIC"
		}
	}()
	out := rdr.Twice(func() string { return parser.Explain(st) })
	if !strings.HasPrefix(out, head) {
		return "SHAPE"
	}
	return hx(strings.TrimSuffix(out[len(head):], "\n"))
}

// parseScript parses the statements with a single parser.Parse call; status "" means: parsed without error into
// exactly len(stmts) statements (res[i] = projection of statement i).
func parseScript(stmts []string) (res []string, status string) {
	defer func() {
		if r := recover(); r != nil {
			res, status = nil, "PANIC@script"
		}
	}()
	var sb strings.Builder
	for _, s := range stmts {
		sb.WriteString(s)
		sb.WriteString(";\n")
	}
	parsed, err := parser.Parse(context.Background(), rdr.For(sb.String()))
	if err != nil {
		return nil, "ERR@script"
	}
	if len(parsed) != len(stmts) {
		return nil, "COUNT@script"
	}
	res = make([]string, len(parsed))
	for i, st := range parsed {
		res[i] = explainOne(st)
	}
	return res, ""
}

func runScript(types []string) []string {
	stmts := make([]string, 0, 2*len(types))
	for _, t := range types {
		stmts = append(stmts, "SELECT CAST(x AS "+t+")", "SELECT x::"+t)
	}
	n := len(stmts)
	res := make([]string, n)
	start, restarts := 0, 0
	for start < n {
		r, status := parseScript(stmts[start:])
		if status == "" {
			copy(res[start:], r)
			break
		}
		if restarts >= scriptMaxRestarts {
			for i := start; i < n; i++ {
				res[i] = "SKIP"
			}
			break
		}
		restarts++
		// smallest m >= 1 such that the prefix of m statements fails (the whole rest fails; the empty prefix parses)
		lo, hi := 1, n-start
		for lo < hi {
			mid := (lo + hi) / 2
			if _, st := parseScript(stmts[start : start+mid]); st == "" {
				lo = mid + 1
			} else {
				hi = mid
			}
		}
		m := lo
		_, st := parseScript(stmts[start : start+m])
		if st == "" {
			st = status // not monotone: blame the statement the bisection ended on with the status of the whole
		}
		if m > 1 {
			if r, st2 := parseScript(stmts[start : start+m-1]); st2 == "" {
				copy(res[start:], r)
			} else {
				for i := start; i < start+m-1; i++ {
					res[i] = st2
				}
			}
		}
		res[start+m-1] = st
		start += m
	}
	return res
}

func mainScript() {
	in := bufio.NewReaderSize(os.Stdin, 1<<20)
	out := bufio.NewWriterSize(os.Stdout, 1<<20)
	defer out.Flush()
	var hexes, types []string
	for {
		line, err := in.ReadString('\n')
		l := strings.TrimRight(line, "\r\n")
		if l != "" {
			t, derr := unhx(l)
			if derr != nil {
				fmt.Fprintf(os.Stderr, "typedump -script: bad hex line %d\n", len(hexes)+1)
				os.Exit(2)
			}
			hexes = append(hexes, l)
			types = append(types, t)
		}
		if err != nil {
			break
		}
	}
	per := len(types)
	if len(os.Args) > 2 {
		if n, err := strconv.Atoi(os.Args[2]); err == nil && n > 0 {
			per = n
		}
	}
	for from := 0; from < len(types); from += per {
		to := from + per
		if to > len(types) {
			to = len(types)
		}
		res := runScript(types[from:to])
		for i := from; i < to; i++ {
			fmt.Fprintf(out, "%s\t%s\t%s\t%s\n", hexes[i], res[2*(i-from)], res[2*(i-from)+1], toks(types[i]))
		}
	}
}

func main() {
	if len(os.Args) > 1 && os.Args[1] == "-script" {
		mainScript()
		return
	}
	in := bufio.NewReaderSize(os.Stdin, 1<<20)
	out := bufio.NewWriterSize(os.Stdout, 1<<20)
	defer out.Flush()
	for {
		line, err := in.ReadString('\n')
		l := strings.TrimRight(line, "\r\n")
		if l != "" {
			t, derr := unhx(l)
			if derr != nil {
				fmt.Fprintf(out, "%s\tBADHEX\tBADHEX\t-\n", l)
			} else {
				a := one("SELECT CAST(x AS " + t + ")")
				b := one("SELECT x::" + t)
				fmt.Fprintf(out, "%s\t%s\t%s\t%s\n", l, a, b, toks(t))
			}
		}
		if err != nil {
			break
		}
	}
}
