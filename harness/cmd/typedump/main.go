//go:build verif

// typedump: correspondence harness for property C18 (type expressions in both cast positions).
//
// stdin : one case per line, the TYPE source text <T> as lowercase hex ("-" for empty).
// stdout: <hex T> TAB <CAST form> TAB <:: form> TAB <tokens of T>
//
//	<CAST form> : hex of the text after "Literal " of the type line of EXPLAIN for `SELECT CAST(x AS <T>)`
//	<:: form>   : the same for `SELECT x::<T>`
//	              or ERR (parser reported an error), PANIC (parser or printer panicked),
//	              SHAPE (the EXPLAIN text is not `Function CAST / ExpressionList / Identifier x / Literal …`)
//	<tokens>    : tokens of <T> alone from lexer.Tokenize, "kind:hexvalue" joined by ",", kind = int(token.Token),
//	              up to and including the EOF token (whitespace / comment tokens are kept; the model drops them
//	              exactly like (*Parser).nextToken does).
package main

import (
	"bufio"
	"context"
	"encoding/hex"
	"fmt"
	"os"
	"strings"

	"github.com/sqlc-dev/doubleclick/lexer"
	"github.com/sqlc-dev/doubleclick/parser"
)

func hx(s string) string {
	if s == "" {
		return "-"
	}
	return hex.EncodeToString([]byte(s))
}

func unhx(s string) (string, error) {
	if s == "-" {
		return "", nil
	}
	b, err := hex.DecodeString(s)
	return string(b), err
}

const head = "SelectWithUnionQuery (children 1)\n" +
	" ExpressionList (children 1)\n" +
	"  SelectQuery (children 1)\n" +
	"   ExpressionList (children 1)\n" +
	"    Function CAST (children 1)\n" +
	"     ExpressionList (children 2)\n" +
	"      Identifier x\n" +
	"      Literal "

func one(sql string) (res string) {
	defer func() {
		if r := recover(); r != nil {
			res = "PANIC"
		}
	}()
	stmts, err := parser.Parse(context.Background(), strings.NewReader(sql))
	if err != nil {
		return "ERR"
	}
	if len(stmts) != 1 {
		return "SHAPE"
	}
	out := parser.Explain(stmts[0])
	if !strings.HasPrefix(out, head) {
		return "SHAPE"
	}
	txt := strings.TrimSuffix(out[len(head):], "\n")
	return hx(txt)
}

func toks(t string) (res string) {
	defer func() {
		if r := recover(); r != nil {
			res = "PANIC"
		}
	}()
	items := lexer.Tokenize(strings.NewReader(t))
	parts := make([]string, 0, len(items))
	for _, it := range items {
		parts = append(parts, fmt.Sprintf("%d:%s", int(it.Token), hx(it.Value)))
	}
	return strings.Join(parts, ",")
}

func main() {
	in := bufio.NewReaderSize(os.Stdin, 1<<20)
	out := bufio.NewWriterSize(os.Stdout, 1<<20)
	defer out.Flush()
	for {
		line, err := in.ReadString('\n')
		l := strings.TrimRight(line, "\r\n")
		if l != "" {
			t, derr := unhx(l)
			if derr != nil {
				fmt.Fprintf(out, "%s\tBADHEX\tBADHEX\t-\n", l)
			} else {
				a := one("SELECT CAST(x AS " + t + ")")
				b := one("SELECT x::" + t)
				fmt.Fprintf(out, "%s\t%s\t%s\t%s\n", l, a, b, toks(t))
			}
		}
		if err != nil {
			break
		}
	}
}
