//go:build verif

// fuzzexport: converts the corpus directory kept by `go test -fuzz` (files "go test fuzz v1" + []byte("...")) into one
// lowercase-hex input per line (sorted, de-duplicated), the input format of psearch run.
package main

import (
	"bufio"
	"encoding/hex"
	"fmt"
	"os"
	"path/filepath"
	"sort"
	"strconv"
	"strings"
)

func main() {
	if len(os.Args) < 2 {
		fmt.Fprintln(os.Stderr, "usage: fuzzexport <dir>")
		os.Exit(2)
	}
	files, _ := filepath.Glob(filepath.Join(os.Args[1], "*"))
	seen := map[string]bool{}
	var out []string
	for _, f := range files {
		b, err := os.ReadFile(f)
		if err != nil {
			continue
		}
		lines := strings.SplitN(string(b), "\n", 3)
		if len(lines) < 2 || !strings.HasPrefix(lines[0], "go test fuzz v1") {
			continue
		}
		l := strings.TrimSpace(lines[1])
		if !strings.HasPrefix(l, "[]byte(") || !strings.HasSuffix(l, ")") {
			continue
		}
		s, err := strconv.Unquote(l[len("[]byte(") : len(l)-1])
		if err != nil || len(s) == 0 || len(s) > 2048 {
			continue
		}
		h := hex.EncodeToString([]byte(s))
		if !seen[h] {
			seen[h] = true
			out = append(out, h)
		}
	}
	sort.Strings(out)
	w := bufio.NewWriter(os.Stdout)
	defer w.Flush()
	for _, h := range out {
		fmt.Fprintln(w, h)
	}
}
