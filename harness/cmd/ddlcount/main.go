//go:build verif

// ddlcount: the implementation side of the C04 count-vs-emit correspondence for the DDL printers
// of /repo/internal/explain: Column, Index (explain.go), explainCreateQuery, explainAlterQuery,
// explainAlterCommand / countAlterCommandChildren, explainProjection (statements.go).
//
// It BUILDS ast.ColumnDeclaration / ast.IndexDefinition / ast.AlterCommand / ast.AlterQuery /
// ast.CreateQuery values directly (no parsing), so that every combination of optional fields is
// reachable, including the ones the parser never produces, calls parser.Explain on a statement
// containing the value and reports, for the subtree printed for it: the "(children N)" count of
// its first line, the number of lines printed one level below that line, the md5 of the
// (de-indented) text, and whether the WHOLE subtree is a well-formed tree (every header count =
// number of lines directly beneath, recursively).
//
// stdin : one case per line:  <kind> TAB <spec>
//
//	COL  <col>                              &ast.AlterQuery{Table: "t", Commands: [ADD_COLUMN with Column: <col> named c1]};
//	                                        subtree: the ColumnDeclaration line
//	IDX  <idx>                              &ast.CreateQuery{Table: "t", Indexes: [<idx>]}; subtree: the Index line
//	ALT  <TYPE>:<alt>:<col|->:<idx|->:<prj> &ast.AlterQuery{Table: "t", Commands: [cmd]}; subtree: the AlterCommand line
//	ALQ  <d><f><s><n>                       &ast.AlterQuery{Database: d ? "db" : "", Table: "t", Format: f ? "Null" : "",
//	                                        len(Settings) = s, n commands DROP_COLUMN x<i>}; the whole text
//	CRE  <cre>:<col,col,..|->:<idx,..|->:<prj,..|->    &ast.CreateQuery{...}; the whole text
//
//	<col> = 9 characters:
//	   0 Type (0 nil, 1 DataType Int32)   1 Statistics (0..3 kinds; kind j has (j-1)%3 arguments)
//	   2 Default (0 nil, 1 identifier)    3 DefaultKind (0 "", 1 "DEFAULT", 2 "EPHEMERAL")
//	   4 TTL (0/1)    5 Codec (0 nil, 1..3 codecs, codec j has (j-1)%3 arguments, 9 non-nil without codecs)
//	   6 Settings (0..3)   7 Comment (0/1)   8 PrimaryKey (0/1)
//	<idx> = 2 characters: 0 Expression (0 nil, 1 identifier, 2 function call, 3 tuple literal)
//	                      1 Type (0 nil, 1 minmax, 2 set(ta))
//	<prj> = "-" (nil), "n" (Projection with Select == nil) or 4 digits: len(With) len(Columns) len(GroupBy) len(OrderBy)
//	<TYPE> = the ast.AlterCommandType string (ADD_COLUMN, ...); any other string is used as it is
//	<alt> = 26 characters:
//	   0 ColumnName 1 AfterColumn 2 NewName 3 Index 4 AfterIndex (0/1 each)
//	   5 Constraint (0 nil, 1 with Expression, 2 with nil Expression)   6 ConstraintName
//	   7 Partition (0 nil, 1 identifier aLl, 2 string literal 'p1', 3 identifier pp)
//	   8 PartitionIsID 9 IsPart 10 FromTable
//	   11 TTL (0 nil, 1 set) 12 len(TTL.Elements) 0..3 (element 2 has a Where, element 3 a nil Expr)
//	   13 TTL.Expression (0/1) 14 len(TTL.Expressions) 0..3
//	   15 len(Settings) 16 Where 17 len(Assignments) 0..3 (assignment 3 has a nil Value)
//	   18 ProjectionName 19 len(StatisticsColumns)
//	   20 StatisticsTypes: 0..3 kinds without arguments; 4..6: 1..3 kinds, kind j with j arguments
//	   21 Comment 22 len(OrderByExpr) 23 SampleByExpr 24 len(ResetSettings) 25 Query (0 nil, 1 SELECT q)
//	<cre> = 41 characters:
//	   0 CreateFunction 1 FunctionBody 2 CreateUser 3 AlterUser 4 HasAuthenticationData
//	   5 len(AuthenticationValues) 6 SSHKeyCount 7 CreateDictionary 8 len(DictionaryAttrs) 9 DictionaryDef
//	   10 CreateDatabase 11 Database 12 Table 13 View 14 len(ColumnsPrimaryKey) 15 HasEmptyColumnsPrimaryKey
//	   16 Engine (0 nil, 1 no parentheses, 2 parentheses, 3/4 one/two parameters) 17 InnerEngine (same)
//	   18 len(OrderBy) 19 kind of OrderBy[0] (0 identifier, 1 tuple literal of two, 2 empty tuple literal,
//	      3 function call, 4 tuple literal with a nil Value)
//	   20 OrderByHasModifiers 21 PartitionBy (0 nil, 1 identifier, 2 function call)
//	   22 len(PrimaryKey) 23 kind of PrimaryKey[0] (as 19) 24 SampleBy
//	   25 TTL (0 nil, 1 set) 26 len(TTL.Elements) 27 TTL.Expression 28 len(TTL.Expressions)
//	   29 len(Settings) 30 len(QuerySettings) 31 SettingsBeforeComment 32 Comment 33 HasRefresh
//	   34 Materialized 35 WindowView 36 To
//	   37 AsSelect (0 nil, 1 SELECT q, 2 SELECT q FORMAT Null) 38 AsTableFunction 39 Format
//	   40 len(Constraints) 0..3 (constraint 3 has a nil Expression)
//
// stdout: one line per case:
//
//	<header count> TAB <direct children> TAB <md5 of the text> TAB <T|F: the subtree is a tree> TAB M
//
// (with -text: the lowercase hex of the text instead of its md5), or PANIC TAB M, or
// NOSUBTREE TAB M.  The OCaml driver /verif/driver/ddlcount prints the same line from the model.
//
// Build: cd /verif/harness && go build -tags verif -o /verif/build/ddlcount ./cmd/ddlcount
package main

import (
	"bufio"
	"crypto/md5"
	"encoding/hex"
	"flag"
	"fmt"
	"os"
	"regexp"
	"strconv"
	"strings"

	"github.com/sqlc-dev/doubleclick/ast"
	"github.com/sqlc-dev/doubleclick/parser"
)

func id(s string) *ast.Identifier { return &ast.Identifier{Parts: []string{s}} }

func ids(prefix string, n int) []ast.Expression {
	var out []ast.Expression
	for i := 1; i <= n; i++ {
		out = append(out, id(fmt.Sprintf("%s%d", prefix, i)))
	}
	return out
}

func names(prefix string, n int) []string {
	var out []string
	for i := 1; i <= n; i++ {
		out = append(out, fmt.Sprintf("%s%d", prefix, i))
	}
	return out
}

func opt(name string, d int) ast.Expression {
	if d == 0 {
		return nil
	}
	return id(name)
}

func str(name string, d int) string {
	if d == 0 {
		return ""
	}
	return name
}

func settings(prefix string, n int) []*ast.SettingExpr {
	var out []*ast.SettingExpr
	for i := 1; i <= n; i++ {
		out = append(out, &ast.SettingExpr{Name: fmt.Sprintf("%s%d", prefix, i), Value: id("v")})
	}
	return out
}

func digits(spec string, n int, what string) ([]int, error) {
	if len(spec) != n {
		return nil, fmt.Errorf("%s spec must have %d characters: %q", what, n, spec)
	}
	d := make([]int, n)
	for i := 0; i < n; i++ {
		if spec[i] < '0' || spec[i] > '9' {
			return nil, fmt.Errorf("bad digit in %s spec %q", what, spec)
		}
		d[i] = int(spec[i] - '0')
	}
	return d, nil
}

// kinds of a column's STATISTICS(...) / CODEC(...): kind j (from 1) has (j-1)%3 arguments
func fnList(prefix, argPrefix string, n int) []*ast.FunctionCall {
	var out []*ast.FunctionCall
	for j := 1; j <= n; j++ {
		out = append(out, &ast.FunctionCall{Name: fmt.Sprintf("%s%d", prefix, j), Arguments: ids(argPrefix, (j-1)%3)})
	}
	return out
}

func buildColumn(spec, name string) (*ast.ColumnDeclaration, error) {
	d, err := digits(spec, 9, "column")
	if err != nil {
		return nil, err
	}
	c := &ast.ColumnDeclaration{Name: name}
	if d[0] != 0 {
		c.Type = &ast.DataType{Name: "Int32"}
	}
	c.Statistics = fnList("st", "sa", d[1])
	c.Default = opt("dflt", d[2])
	switch d[3] {
	case 1:
		c.DefaultKind = "DEFAULT"
	case 2:
		c.DefaultKind = "EPHEMERAL"
	}
	c.TTL = opt("cttl", d[4])
	if d[5] == 9 {
		c.Codec = &ast.CodecExpr{}
	} else if d[5] != 0 {
		c.Codec = &ast.CodecExpr{Codecs: fnList("cd", "ca", d[5])}
	}
	c.Settings = settings("cs", d[6])
	c.Comment = str("cmt", d[7])
	c.PrimaryKey = d[8] != 0
	return c, nil
}

func fcall(name string, args ...ast.Expression) *ast.FunctionCall {
	return &ast.FunctionCall{Name: name, Arguments: args}
}

// an expression of the given kind: 0 identifier, 1 tuple literal of two identifiers, 2 empty tuple
// literal, 3 function call, 4 tuple literal with a nil Value
func keyExpr(kind int, name string) ast.Expression {
	switch kind {
	case 1:
		return &ast.Literal{Type: ast.LiteralTuple, Value: []ast.Expression{id(name + "a"), id(name + "b")}}
	case 2:
		return &ast.Literal{Type: ast.LiteralTuple, Value: []ast.Expression{}}
	case 3:
		return fcall("f", id(name))
	case 4:
		return &ast.Literal{Type: ast.LiteralTuple}
	}
	return id(name)
}

func keyList(n, firstKind int, prefix string) []ast.Expression {
	var out []ast.Expression
	for j := 1; j <= n; j++ {
		k := 0
		if j == 1 {
			k = firstKind
		}
		out = append(out, keyExpr(k, fmt.Sprintf("%s%d", prefix, j)))
	}
	return out
}

func buildIndex(spec string) (*ast.IndexDefinition, error) {
	d, err := digits(spec, 2, "index")
	if err != nil {
		return nil, err
	}
	i := &ast.IndexDefinition{Name: "i1"}
	switch d[0] {
	case 1:
		i.Expression = id("ie")
	case 2:
		i.Expression = fcall("f", id("ie"))
	case 3:
		i.Expression = keyExpr(1, "ie")
	}
	switch d[1] {
	case 1:
		i.Type = fcall("minmax")
	case 2:
		i.Type = fcall("set", id("ta"))
	}
	return i, nil
}

func buildProjection(spec string) (*ast.Projection, error) {
	if spec == "-" {
		return nil, nil
	}
	if spec == "n" {
		return &ast.Projection{Name: "p1"}, nil
	}
	d, err := digits(spec, 4, "projection")
	if err != nil {
		return nil, err
	}
	return &ast.Projection{Name: "p1", Select: &ast.ProjectionSelectQuery{
		With: ids("pw", d[0]), Columns: ids("pc", d[1]), GroupBy: ids("pg", d[2]), OrderBy: ids("po", d[3])}}, nil
}

func buildTTL(set, elements, expression, expressions int) *ast.TTLClause {
	if set == 0 {
		return nil
	}
	t := &ast.TTLClause{}
	for j := 1; j <= elements; j++ {
		e := &ast.TTLElement{Expr: id(fmt.Sprintf("te%d", j))}
		if j%2 == 0 {
			e.Where = id(fmt.Sprintf("tw%d", j))
		}
		if j == 3 {
			e.Expr = nil
		}
		t.Elements = append(t.Elements, e)
	}
	t.Expression = opt("tx", expression)
	t.Expressions = ids("ty", expressions)
	return t
}

func selectQ(withFormat bool) *ast.SelectWithUnionQuery {
	q := &ast.SelectQuery{Columns: []ast.Expression{id("q")}}
	if withFormat {
		q.Format = id("Null")
	}
	return &ast.SelectWithUnionQuery{Selects: []ast.Statement{q}}
}

func buildAlter(spec string) (*ast.AlterCommand, error) {
	f := strings.Split(spec, ":")
	if len(f) != 5 {
		return nil, fmt.Errorf("alter spec must have 5 parts: %q", spec)
	}
	d, err := digits(f[1], 26, "alter")
	if err != nil {
		return nil, err
	}
	c := &ast.AlterCommand{Type: ast.AlterCommandType(f[0])}
	if f[2] != "-" {
		if c.Column, err = buildColumn(f[2], "c1"); err != nil {
			return nil, err
		}
	}
	if f[3] != "-" {
		if c.IndexDef, err = buildIndex(f[3]); err != nil {
			return nil, err
		}
	}
	if c.Projection, err = buildProjection(f[4]); err != nil {
		return nil, err
	}
	c.ColumnName = str("cn", d[0])
	c.AfterColumn = str("ac", d[1])
	c.NewName = str("nn", d[2])
	c.Index = str("ix", d[3])
	c.AfterIndex = str("ai", d[4])
	switch d[5] {
	case 1:
		c.Constraint = &ast.Constraint{Name: "k", Expression: id("ce")}
	case 2:
		c.Constraint = &ast.Constraint{Name: "k"}
	}
	c.ConstraintName = str("ct", d[6])
	switch d[7] {
	case 1:
		c.Partition = id("aLl")
	case 2:
		c.Partition = &ast.Literal{Type: ast.LiteralString, Value: "p1"}
	case 3:
		c.Partition = id("pp")
	}
	c.PartitionIsID = d[8] != 0
	c.IsPart = d[9] != 0
	c.FromTable = str("ft", d[10])
	c.TTL = buildTTL(d[11], d[12], d[13], d[14])
	c.Settings = settings("as", d[15])
	c.Where = opt("wh", d[16])
	for j := 1; j <= d[17]; j++ {
		a := &ast.Assignment{Column: fmt.Sprintf("as%d", j), Value: id(fmt.Sprintf("av%d", j))}
		if j == 3 {
			a.Value = nil
		}
		c.Assignments = append(c.Assignments, a)
	}
	c.ProjectionName = str("pn", d[18])
	c.StatisticsColumns = names("sc", d[19])
	if d[20] <= 3 {
		for j := 1; j <= d[20]; j++ {
			c.StatisticsTypes = append(c.StatisticsTypes, fcall(fmt.Sprintf("sk%d", j)))
		}
	} else {
		for j := 1; j <= d[20]-3; j++ {
			c.StatisticsTypes = append(c.StatisticsTypes, &ast.FunctionCall{Name: fmt.Sprintf("sk%d", j), Arguments: ids("ka", j)})
		}
	}
	c.Comment = str("cm", d[21])
	c.OrderByExpr = ids("ob", d[22])
	c.SampleByExpr = opt("sb", d[23])
	c.ResetSettings = names("rs", d[24])
	if d[25] != 0 {
		c.Query = selectQ(false)
	}
	return c, nil
}

func buildEngine(d int, name, argPrefix string) *ast.EngineClause {
	switch d {
	case 0:
		return nil
	case 1:
		return &ast.EngineClause{Name: name}
	}
	return &ast.EngineClause{Name: name, HasParentheses: true, Parameters: ids(argPrefix, d-2)}
}

func splitList(s string) []string {
	if s == "-" {
		return nil
	}
	return strings.Split(s, ",")
}

func buildCreate(spec string) (*ast.CreateQuery, error) {
	f := strings.Split(spec, ":")
	if len(f) != 4 {
		return nil, fmt.Errorf("create spec must have 4 parts: %q", spec)
	}
	d, err := digits(f[0], 41, "create")
	if err != nil {
		return nil, err
	}
	n := &ast.CreateQuery{}
	n.CreateFunction = d[0] != 0
	n.FunctionName = "fn"
	n.FunctionBody = opt("fb", d[1])
	n.CreateUser = d[2] != 0
	n.AlterUser = d[3] != 0
	n.HasAuthenticationData = d[4] != 0
	n.AuthenticationValues = names("pw", d[5])
	n.SSHKeyCount = d[6]
	n.CreateDictionary = d[7] != 0
	for j := 1; j <= d[8]; j++ {
		n.DictionaryAttrs = append(n.DictionaryAttrs, &ast.DictionaryAttributeDeclaration{
			Name: fmt.Sprintf("da%d", j), Type: &ast.DataType{Name: "UInt64"}})
	}
	if d[9] != 0 {
		n.DictionaryDef = &ast.DictionaryDefinition{}
	}
	n.CreateDatabase = d[10] != 0
	n.Database = str("db", d[11])
	n.Table = str("tb", d[12])
	n.View = str("vw", d[13])
	n.ColumnsPrimaryKey = ids("ck", d[14])
	n.HasEmptyColumnsPrimaryKey = d[15] != 0
	n.Engine = buildEngine(d[16], "Eng", "ep")
	n.InnerEngine = buildEngine(d[17], "Inn", "ip")
	n.OrderBy = keyList(d[18], d[19], "o")
	n.OrderByHasModifiers = d[20] != 0
	switch d[21] {
	case 1:
		n.PartitionBy = id("pb")
	case 2:
		n.PartitionBy = fcall("f", id("pb"))
	}
	n.PrimaryKey = keyList(d[22], d[23], "k")
	n.SampleBy = opt("sm", d[24])
	n.TTL = buildTTL(d[25], d[26], d[27], d[28])
	n.Settings = settings("s", d[29])
	n.QuerySettings = settings("qs", d[30])
	n.SettingsBeforeComment = d[31] != 0
	n.Comment = str("cmt", d[32])
	n.HasRefresh = d[33] != 0
	n.Materialized = d[34] != 0
	n.WindowView = d[35] != 0
	n.To = str("tt", d[36])
	switch d[37] {
	case 1:
		n.AsSelect = selectQ(false)
	case 2:
		n.AsSelect = selectQ(true)
	}
	if d[38] != 0 {
		n.AsTableFunction = fcall("tf", id("ta"))
	}
	n.Format = str("Null", d[39])
	for j := 1; j <= d[40]; j++ {
		c := &ast.Constraint{Name: fmt.Sprintf("cx%d", j), Expression: id(fmt.Sprintf("cx%d", j))}
		if j == 3 {
			c.Expression = nil
		}
		n.Constraints = append(n.Constraints, c)
	}
	for j, cs := range splitList(f[1]) {
		c, err := buildColumn(cs, fmt.Sprintf("c%d", j+1))
		if err != nil {
			return nil, err
		}
		n.Columns = append(n.Columns, c)
	}
	for _, is := range splitList(f[2]) {
		i, err := buildIndex(is)
		if err != nil {
			return nil, err
		}
		n.Indexes = append(n.Indexes, i)
	}
	for _, ps := range splitList(f[3]) {
		p, err := buildProjection(ps)
		if err != nil {
			return nil, err
		}
		if p == nil {
			return nil, fmt.Errorf("nil projection in a list: %q", spec)
		}
		n.Projections = append(n.Projections, p)
	}
	return n, nil
}

// buildCase returns the statement and the label of the subtree to report ("" = the whole text)
func buildCase(kind, spec string) (ast.Statement, string, error) {
	switch kind {
	case "COL":
		c, err := buildColumn(spec, "c1")
		if err != nil {
			return nil, "", err
		}
		return &ast.AlterQuery{Table: "t", Commands: []*ast.AlterCommand{{Type: ast.AlterAddColumn, Column: c}}}, "ColumnDeclaration", nil
	case "IDX":
		i, err := buildIndex(spec)
		if err != nil {
			return nil, "", err
		}
		return &ast.CreateQuery{Table: "t", Indexes: []*ast.IndexDefinition{i}}, "Index", nil
	case "ALT":
		c, err := buildAlter(spec)
		if err != nil {
			return nil, "", err
		}
		return &ast.AlterQuery{Table: "t", Commands: []*ast.AlterCommand{c}}, "AlterCommand", nil
	case "ALQ":
		d, err := digits(spec, 4, "alter query")
		if err != nil {
			return nil, "", err
		}
		q := &ast.AlterQuery{Database: str("db", d[0]), Table: "t", Format: str("Null", d[1]), Settings: settings("s", d[2])}
		for j := 1; j <= d[3]; j++ {
			q.Commands = append(q.Commands, &ast.AlterCommand{Type: ast.AlterDropColumn, ColumnName: fmt.Sprintf("x%d", j)})
		}
		return q, "", nil
	case "CRE":
		n, err := buildCreate(spec)
		if err != nil {
			return nil, "", err
		}
		return n, "", nil
	}
	return nil, "", fmt.Errorf("unknown kind %q", kind)
}

var childrenSuffix = regexp.MustCompile(` \(children ([0-9]+)\)$`)

func explain(st ast.Statement) (text string, panicked bool) {
	defer func() {
		if r := recover(); r != nil {
			panicked = true
		}
	}()
	return parser.Explain(st), false
}

func indentOf(l string) int { return len(l) - len(strings.TrimLeft(l, " ")) }

func countOf(l string) int {
	if m := childrenSuffix.FindStringSubmatch(l); m != nil {
		n, _ := strconv.Atoi(m[1])
		return n
	}
	return 0
}

// parseTree reads one tree rooted at indentation d from lines[i:]; returns the index after it, or -1
func parseTree(lines []string, i, d int) int {
	if i >= len(lines) || indentOf(lines[i]) != d {
		return -1
	}
	k := countOf(lines[i])
	i++
	for ; k > 0; k-- {
		if i = parseTree(lines, i, d+1); i < 0 {
			return -1
		}
	}
	return i
}

func isTree(lines []string) bool {
	return len(lines) > 0 && parseTree(lines, 0, 0) == len(lines)
}

func main() {
	asText := flag.Bool("text", false, "print the hex of the text instead of its md5")
	flag.Parse()
	in := bufio.NewScanner(os.Stdin)
	in.Buffer(make([]byte, 1<<20), 1<<26)
	out := bufio.NewWriterSize(os.Stdout, 1<<20)
	defer out.Flush()
	for in.Scan() {
		line := in.Text()
		if line == "" {
			continue
		}
		f := strings.Split(line, "\t")
		if len(f) != 2 {
			fmt.Fprintf(os.Stderr, "ddlcount: bad case line %q\n", line)
			os.Exit(2)
		}
		st, label, err := buildCase(f[0], f[1])
		if err != nil {
			fmt.Fprintf(os.Stderr, "ddlcount: %v in %q\n", err, line)
			os.Exit(2)
		}
		text, p := explain(st)
		if p {
			fmt.Fprintln(out, "PANIC\tM")
			continue
		}
		lines := strings.Split(text, "\n")
		if n := len(lines); n > 0 && lines[n-1] == "" {
			lines = lines[:n-1]
		}
		if label != "" {
			start, ind := -1, 0
			for i := 1; i < len(lines); i++ {
				t := strings.TrimLeft(lines[i], " ")
				if t == label || strings.HasPrefix(t, label+" ") {
					start, ind = i, len(lines[i])-len(t)
					break
				}
			}
			if start < 0 {
				fmt.Fprintln(out, "NOSUBTREE\tM")
				continue
			}
			end := start + 1
			for end < len(lines) && indentOf(lines[end]) > ind {
				end++
			}
			sub := make([]string, 0, end-start)
			for _, l := range lines[start:end] {
				sub = append(sub, l[ind:])
			}
			lines = sub
			text = strings.Join(sub, "\n") + "\n"
		}
		header, direct := 0, 0
		if len(lines) > 0 {
			header = countOf(lines[0])
			for _, l := range lines[1:] {
				if indentOf(l) == 1 {
					direct++
				}
			}
		}
		tree := "F"
		if isTree(lines) {
			tree = "T"
		}
		var third string
		if *asText {
			third = "-"
			if text != "" {
				third = hex.EncodeToString([]byte(text))
			}
		} else {
			sum := md5.Sum([]byte(text))
			third = hex.EncodeToString(sum[:])
		}
		fmt.Fprintf(out, "%d\t%d\t%s\t%s\tM\n", header, direct, third, tree)
	}
}
