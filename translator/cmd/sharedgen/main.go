// sharedgen regenerates coq/Gen/SharedAccess.v (the shared-state inventory of /repo used by the
// C10 and C11 obligations), coq/Gen/SharedAllowed.v (the Coq rendering of the C10 entries of
// known_findings.json) and build/sharedgen_report.json (the same inventory for the python check).
//
// What is inventoried (see coq/Conc/SharedCheck.v for the soundness argument that goes with it):
//
//	pkg_vars               every package-level variable of token, lexer, ast, parser, internal/explain
//	var_writes             every write to a package-level variable outside its declaration and outside init()
//	var_init_writes        the same inside init() (allowed, listed)
//	tree_writes            every write through a parameter/receiver (the caller's tree) in the post-parse code
//	                       (internal/explain, ast, parser/explain.go), with the deferred-restore pattern if present
//	map_ranges             every range over a map in the post-parse code
//	goroutines_and_unsafe  go statements, imports outside the pure list, %p formats, foreign field types in ast,
//	                       reflect in the post-parse code
//
// The packages are type-checked from source for the build-tag sets {} and {verif}; the sites of both
// are merged by key. Any parse or type error aborts the run (exit 2): the inventory is never partial.
package main

import (
	"bytes"
	"encoding/json"
	"flag"
	"fmt"
	"go/ast"
	"go/build"
	"go/importer"
	"go/parser"
	"go/printer"
	"go/token"
	"go/types"
	"os"
	"path/filepath"
	"sort"
	"strconv"
	"strings"
)

func must(err error) {
	if err != nil {
		fmt.Fprintln(os.Stderr, "sharedgen:", err)
		os.Exit(2)
	}
}

func writeIfChanged(path string, data []byte) {
	old, err := os.ReadFile(path)
	if err == nil && bytes.Equal(old, data) {
		return
	}
	must(os.MkdirAll(filepath.Dir(path), 0o755))
	must(os.WriteFile(path, data, 0o644))
}

// ---------------------------------------------------------------------------------------------
// inventory data

type VarDecl struct {
	Pkg      string `json:"pkg"`
	Name     string `json:"name"`
	Type     string `json:"type"`
	Shape    string `json:"shape"` // map | slice | pointer | chan | func | interface | array | struct | basic
	IsRef    bool   `json:"is_ref"`
	Init     string `json:"init"` // declaration | init() | declaration+init() | zero
	Exported bool   `json:"exported"`
	Uses     int    `json:"uses"` // identifier uses outside init()
}

type Site struct {
	Pkg          string `json:"pkg"`
	Func         string `json:"func"`
	Target       string `json:"target"`
	Kind         string `json:"kind"`
	Text         string `json:"text"`
	Key          string `json:"key"`
	Restored     bool   `json:"restored"`
	RestoreText  string `json:"restore_text"`
	RestoreFresh bool   `json:"restore_fresh"`
	Where        string `json:"where"` // file:line, informational only (never part of the key, not in Coq)
	RestoreWhere string `json:"restore_where,omitempty"`
	Tags         string `json:"tags"` // informational
}

type Inventory struct {
	Module              string    `json:"module"`
	PkgVars             []VarDecl `json:"pkg_vars"`
	VarWrites           []Site    `json:"var_writes"`
	VarInitWrites       []Site    `json:"var_init_writes"`
	TreeWrites          []Site    `json:"tree_writes"`
	MapRanges           []Site    `json:"map_ranges"`
	GoroutinesAndUnsafe []Site    `json:"goroutines_and_unsafe"`
	// statistics, informational
	Stats map[string]int `json:"stats"`
}

// ---------------------------------------------------------------------------------------------
// loading

var libPkgs = []string{"token", "lexer", "ast", "internal/explain", "parser"}

// packages whose exported functions neither keep nor mutate shared state that a caller could observe,
// spawn no goroutines and are deterministic (part of the trusted base, see SharedCheck.v).
var pureImports = map[string]bool{
	"bufio": true, "bytes": true, "context": true, "encoding/json": true, "errors": true, "fmt": true,
	"io": true, "math": true, "math/big": true, "math/bits": true, "reflect": true, "sort": true, "slices": true,
	"strconv": true, "strings": true, "unicode": true, "unicode/utf8": true, "unicode/utf16": true,
}

// packages whose functions return freshly allocated results (never an alias of an argument's backing store
// that the caller's tree owns): used only to classify a local as "fresh".
var freshResultPkgs = map[string]bool{"strings": true, "strconv": true, "fmt": true, "math": true, "unicode": true, "unicode/utf8": true}

type loaded struct {
	rel   string // path relative to the module root
	pkg   *types.Package
	files []*ast.File
	info  *types.Info
}

type loader struct {
	repo, module string
	tags         []string
	fset         *token.FileSet
	std          types.Importer
	cache        map[string]*loaded
}

func (l *loader) Import(path string) (*types.Package, error) { return l.ImportFrom(path, "", 0) }

func (l *loader) ImportFrom(path, dir string, mode types.ImportMode) (*types.Package, error) {
	if path == l.module || strings.HasPrefix(path, l.module+"/") {
		rel := strings.TrimPrefix(strings.TrimPrefix(path, l.module), "/")
		ld, err := l.load(rel)
		if err != nil {
			return nil, err
		}
		return ld.pkg, nil
	}
	if from, ok := l.std.(types.ImporterFrom); ok {
		return from.ImportFrom(path, dir, mode)
	}
	return l.std.Import(path)
}

func (l *loader) load(rel string) (*loaded, error) {
	if ld, ok := l.cache[rel]; ok {
		if ld == nil {
			return nil, fmt.Errorf("import cycle through %s", rel)
		}
		return ld, nil
	}
	l.cache[rel] = nil
	dir := filepath.Join(l.repo, filepath.FromSlash(rel))
	ents, err := os.ReadDir(dir)
	if err != nil {
		return nil, err
	}
	ctx := build.Default
	ctx.BuildTags = l.tags
	ctx.CgoEnabled = false
	var files []*ast.File
	for _, e := range ents {
		n := e.Name()
		if e.IsDir() || !strings.HasSuffix(n, ".go") || strings.HasSuffix(n, "_test.go") {
			continue
		}
		ok, err := ctx.MatchFile(dir, n)
		if err != nil {
			return nil, err
		}
		if !ok {
			continue
		}
		f, err := parser.ParseFile(l.fset, filepath.Join(dir, n), nil, parser.ParseComments|parser.SkipObjectResolution)
		if err != nil {
			return nil, err
		}
		files = append(files, f)
	}
	if len(files) == 0 {
		return nil, fmt.Errorf("no Go files in %s", dir)
	}
	info := &types.Info{
		Types:      map[ast.Expr]types.TypeAndValue{},
		Defs:       map[*ast.Ident]types.Object{},
		Uses:       map[*ast.Ident]types.Object{},
		Selections: map[*ast.SelectorExpr]*types.Selection{},
		Implicits:  map[ast.Node]types.Object{},
	}
	var firstErr error
	conf := types.Config{Importer: l, Error: func(err error) {
		if firstErr == nil {
			firstErr = err
		}
	}}
	ipath := l.module
	if rel != "" {
		ipath += "/" + rel
	}
	pkg, _ := conf.Check(ipath, l.fset, files, info)
	if firstErr != nil {
		return nil, fmt.Errorf("type-checking %s: %v", rel, firstErr)
	}
	ld := &loaded{rel: rel, pkg: pkg, files: files, info: info}
	l.cache[rel] = ld
	return ld, nil
}

func modulePath(repo string) string {
	data, err := os.ReadFile(filepath.Join(repo, "go.mod"))
	must(err)
	for _, ln := range strings.Split(string(data), "\n") {
		ln = strings.TrimSpace(ln)
		if strings.HasPrefix(ln, "module ") {
			return strings.TrimSpace(strings.TrimPrefix(ln, "module "))
		}
	}
	must(fmt.Errorf("no module line in go.mod"))
	return ""
}

// ---------------------------------------------------------------------------------------------
// text helpers

func nodeText(fset *token.FileSet, n ast.Node) string {
	var b bytes.Buffer
	cfg := printer.Config{Mode: printer.RawFormat}
	if err := cfg.Fprint(&b, fset, n); err != nil {
		must(err)
	}
	return normText(b.String())
}

// normText collapses white space and makes the text printable ASCII (other bytes become \xNN).
func normText(s string) string {
	fields := strings.Fields(s)
	s = strings.Join(fields, " ")
	var sb strings.Builder
	for i := 0; i < len(s); i++ {
		c := s[i]
		if c < 32 || c > 126 {
			fmt.Fprintf(&sb, "\\x%02x", c)
		} else {
			sb.WriteByte(c)
		}
	}
	return sb.String()
}

func funcName(fd *ast.FuncDecl) string {
	if fd.Recv == nil || len(fd.Recv.List) == 0 {
		return fd.Name.Name
	}
	t := fd.Recv.List[0].Type
	star := ""
	if s, ok := t.(*ast.StarExpr); ok {
		star = "*"
		t = s.X
	}
	name := "?"
	switch x := t.(type) {
	case *ast.Ident:
		name = x.Name
	case *ast.IndexExpr:
		if id, ok := x.X.(*ast.Ident); ok {
			name = id.Name
		}
	}
	return "(" + star + name + ")." + fd.Name.Name
}

// ---------------------------------------------------------------------------------------------
// the per-run collector

type collector struct {
	l      *loader
	tagStr string
	inv    *Inventory
	seen   map[string]bool            // site keys already recorded, per list
	ord    map[string]int             // ordinal of (list, pkg, func, text)
	vars   map[*types.Var]*VarDecl    // package-level variables of the library packages
	libs   map[*types.Package]*loaded // library packages
}

func (c *collector) isPostParse(ld *loaded, f *ast.File) bool {
	switch ld.rel {
	case "internal/explain", "ast":
		return true
	case "parser":
		return filepath.Base(c.l.fset.Position(f.Pos()).Filename) == "explain.go"
	}
	return false
}

func (c *collector) add(list *[]Site, listName string, ld *loaded, fn string, n ast.Node, target, kind string) *Site {
	text := nodeText(c.l.fset, n)
	return c.addText(list, listName, ld, fn, n, target, kind, text)
}

func (c *collector) addText(list *[]Site, listName string, ld *loaded, fn string, n ast.Node, target, kind, text string) *Site {
	base := ld.rel + "|" + fn + "|" + text
	ok := listName + "\x00" + c.tagStr + "\x00" + base
	c.ord[ok]++
	key := base
	if c.ord[ok] > 1 {
		key = base + " #" + strconv.Itoa(c.ord[ok])
	}
	sk := listName + "\x00" + key
	pos := c.l.fset.Position(n.Pos())
	relFile, _ := filepath.Rel(c.l.repo, pos.Filename)
	s := Site{Pkg: ld.rel, Func: fn, Target: target, Kind: kind, Text: text, Key: key,
		Where: fmt.Sprintf("%s:%d", filepath.ToSlash(relFile), pos.Line), Tags: c.tagStr}
	if c.seen[sk] {
		// already recorded by the other tag set: return a scratch copy so callers can still fill fields
		return &s
	}
	c.seen[sk] = true
	*list = append(*list, s)
	return &(*list)[len(*list)-1]
}

func (c *collector) whereOf(n ast.Node) string {
	pos := c.l.fset.Position(n.Pos())
	relFile, _ := filepath.Rel(c.l.repo, pos.Filename)
	return fmt.Sprintf("%s:%d", filepath.ToSlash(relFile), pos.Line)
}

func shapeOf(t types.Type) (string, bool) {
	switch u := t.Underlying().(type) {
	case *types.Map:
		return "map", true
	case *types.Slice:
		return "slice", true
	case *types.Pointer:
		return "pointer", true
	case *types.Chan:
		return "chan", true
	case *types.Signature:
		return "func", true
	case *types.Interface:
		return "interface", true
	case *types.Array:
		return "array", !pointerFree(u.Elem(), nil)
	case *types.Struct:
		return "struct", !pointerFree(u, nil)
	}
	return "basic", false
}

// pointerFree: no pointer, slice, map, chan, func, interface inside (strings are immutable: free).
func pointerFree(t types.Type, seen map[types.Type]bool) bool {
	if seen == nil {
		seen = map[types.Type]bool{}
	}
	if seen[t] {
		return true
	}
	seen[t] = true
	switch u := t.Underlying().(type) {
	case *types.Basic:
		return u.Kind() != types.UnsafePointer
	case *types.Array:
		return pointerFree(u.Elem(), seen)
	case *types.Struct:
		for i := 0; i < u.NumFields(); i++ {
			if !pointerFree(u.Field(i).Type(), seen) {
				return false
			}
		}
		return true
	case *types.Tuple:
		for i := 0; i < u.Len(); i++ {
			if !pointerFree(u.At(i).Type(), seen) {
				return false
			}
		}
		return true
	}
	return false
}

func isPkgLevel(v *types.Var) bool {
	return v != nil && !v.IsField() && v.Pkg() != nil && v.Parent() == v.Pkg().Scope()
}

func (c *collector) qualVar(v *types.Var) string {
	if ld, ok := c.libs[v.Pkg()]; ok {
		return ld.rel + "." + v.Name()
	}
	return v.Pkg().Path() + "." + v.Name()
}

// ---------------------------------------------------------------------------------------------
// package-level variables and writes to them (all five packages, every file)

func (c *collector) collectVars(ld *loaded) {
	for _, f := range ld.files {
		for _, d := range f.Decls {
			gd, ok := d.(*ast.GenDecl)
			if !ok || gd.Tok != token.VAR {
				continue
			}
			for _, sp := range gd.Specs {
				vs := sp.(*ast.ValueSpec)
				for _, id := range vs.Names {
					if id.Name == "_" {
						continue
					}
					v, ok := ld.info.Defs[id].(*types.Var)
					if !ok {
						continue
					}
					if _, dup := c.vars[v]; dup {
						continue
					}
					shape, isRef := shapeOf(v.Type())
					init := "zero"
					if len(vs.Values) > 0 {
						init = "declaration"
					}
					c.vars[v] = &VarDecl{Pkg: ld.rel, Name: id.Name,
						Type:  normText(types.TypeString(v.Type(), func(p *types.Package) string { return p.Name() })),
						Shape: shape, IsRef: isRef, Init: init, Exported: id.IsExported()}
				}
			}
		}
	}
}

// libVarKey finds the VarDecl across tag sets (types.Var objects differ per type-check run).
func (c *collector) declOf(v *types.Var) *VarDecl {
	if d, ok := c.vars[v]; ok {
		return d
	}
	return nil
}

type walkCtx struct {
	ld     *loaded
	fn     string
	inInit bool
	stack  []ast.Node
}

func (w *walkCtx) parent(k int) ast.Node {
	if len(w.stack) <= k {
		return nil
	}
	return w.stack[len(w.stack)-1-k]
}

// pkgVarOf returns the package-level variable an expression denotes directly (ident or pkg.Name).
func pkgVarOf(info *types.Info, e ast.Expr) *types.Var {
	switch x := e.(type) {
	case *ast.ParenExpr:
		return pkgVarOf(info, x.X)
	case *ast.Ident:
		if v, ok := info.Uses[x].(*types.Var); ok && isPkgLevel(v) {
			return v
		}
	case *ast.SelectorExpr:
		if id, ok := x.X.(*ast.Ident); ok {
			if _, isPkg := info.Uses[id].(*types.PkgName); isPkg {
				if v, ok := info.Uses[x.Sel].(*types.Var); ok && isPkgLevel(v) {
					return v
				}
			}
		}
	}
	return nil
}

type rootKind int

const (
	rootUnknown rootKind = iota
	rootLocal
	rootPkgVar
	rootFreshLit
	rootCall
)

type rootInfo struct {
	kind rootKind
	v    *types.Var
}

// rootOf follows selectors, indexes, slices, dereferences, type assertions, conversions, address-of
// down to the identifier (or call / literal) an lvalue or pointer expression is built from.
func rootOf(info *types.Info, e ast.Expr) rootInfo {
	for {
		if v := pkgVarOf(info, e); v != nil {
			return rootInfo{rootPkgVar, v}
		}
		switch x := e.(type) {
		case *ast.ParenExpr:
			e = x.X
		case *ast.SelectorExpr:
			e = x.X
		case *ast.IndexExpr:
			e = x.X
		case *ast.SliceExpr:
			e = x.X
		case *ast.StarExpr:
			e = x.X
		case *ast.TypeAssertExpr:
			e = x.X
		case *ast.UnaryExpr:
			if x.Op == token.AND {
				e = x.X
				continue
			}
			return rootInfo{kind: rootUnknown}
		case *ast.CompositeLit:
			return rootInfo{kind: rootFreshLit}
		case *ast.CallExpr:
			if tv, ok := info.Types[x.Fun]; ok && tv.IsType() && len(x.Args) == 1 {
				e = x.Args[0] // conversion
				continue
			}
			if id, ok := x.Fun.(*ast.Ident); ok {
				if _, isB := info.Uses[id].(*types.Builtin); isB && id.Name == "append" && len(x.Args) > 0 {
					e = x.Args[0]
					continue
				}
			}
			return rootInfo{kind: rootCall}
		case *ast.Ident:
			if v, ok := info.Uses[x].(*types.Var); ok {
				return rootInfo{rootLocal, v}
			}
			if v, ok := info.Defs[x].(*types.Var); ok {
				return rootInfo{rootLocal, v}
			}
			return rootInfo{kind: rootUnknown}
		default:
			return rootInfo{kind: rootUnknown}
		}
	}
}

func (c *collector) varWriteSite(w *walkCtx, n ast.Node, v *types.Var, kind string) {
	list, name := &c.inv.VarWrites, "var_writes"
	if w.inInit {
		list, name = &c.inv.VarInitWrites, "var_init_writes"
		if d := c.declOf(v); d != nil {
			if d.Init == "declaration" {
				d.Init = "declaration+init()"
			} else if d.Init == "zero" {
				d.Init = "init()"
			}
		}
	}
	c.add(list, name, w.ld, w.fn, n, c.qualVar(v), kind)
}

func lhsKind(lhs ast.Expr) string {
	switch x := lhs.(type) {
	case *ast.ParenExpr:
		return lhsKind(x.X)
	case *ast.Ident:
		return "assign"
	case *ast.SelectorExpr:
		return "field-store"
	case *ast.IndexExpr:
		return "index-store"
	case *ast.StarExpr:
		return "deref-store"
	}
	return "store"
}

func stmtKind(prefix string, st ast.Stmt, lhs ast.Expr) string {
	k := lhsKind(lhs)
	switch s := st.(type) {
	case *ast.IncDecStmt:
		return "incdec-" + k
	case *ast.AssignStmt:
		if s.Tok != token.ASSIGN && s.Tok != token.DEFINE {
			return "op-assign-" + k
		}
	}
	return prefix + k
}

// collectVarWrites walks every function body of a package.
func (c *collector) collectVarWrites(ld *loaded) {
	info := ld.info
	for _, f := range ld.files {
		for _, d := range f.Decls {
			fd, ok := d.(*ast.FuncDecl)
			if !ok || fd.Body == nil {
				continue
			}
			w := &walkCtx{ld: ld, fn: funcName(fd), inInit: fd.Recv == nil && fd.Name.Name == "init"}
			ast.Inspect(fd.Body, func(n ast.Node) bool {
				if n == nil {
					w.stack = w.stack[:len(w.stack)-1]
					return true
				}
				c.varNode(w, info, n)
				w.stack = append(w.stack, n)
				return true
			})
		}
		// package-level initialisers may contain function literals that write: walk them too
		for _, d := range f.Decls {
			gd, ok := d.(*ast.GenDecl)
			if !ok || gd.Tok != token.VAR {
				continue
			}
			for _, sp := range gd.Specs {
				vs := sp.(*ast.ValueSpec)
				for _, val := range vs.Values {
					w := &walkCtx{ld: ld, fn: "<package initialiser>"}
					ast.Inspect(val, func(n ast.Node) bool {
						if n == nil {
							w.stack = w.stack[:len(w.stack)-1]
							return true
						}
						if _, isLit := n.(*ast.FuncLit); isLit || len(w.stack) > 0 && inFuncLit(w.stack) {
							c.varNode(w, info, n)
						}
						w.stack = append(w.stack, n)
						return true
					})
				}
			}
		}
	}
}

func inFuncLit(stack []ast.Node) bool {
	for _, n := range stack {
		if _, ok := n.(*ast.FuncLit); ok {
			return true
		}
	}
	return false
}

func (c *collector) varNode(w *walkCtx, info *types.Info, n ast.Node) {
	switch s := n.(type) {
	case *ast.AssignStmt:
		for _, lhs := range s.Lhs {
			r := rootOf(info, lhs)
			if r.kind == rootPkgVar {
				c.varWriteSite(w, s, r.v, stmtKind("", s, lhs))
			}
		}
		// append on a shared slice that is not assigned back still writes the backing array
	case *ast.IncDecStmt:
		r := rootOf(info, s.X)
		if r.kind == rootPkgVar {
			c.varWriteSite(w, s, r.v, stmtKind("", s, s.X))
		}
	case *ast.RangeStmt:
		if s.Tok == token.ASSIGN {
			for _, e := range []ast.Expr{s.Key, s.Value} {
				if e == nil {
					continue
				}
				if r := rootOf(info, e); r.kind == rootPkgVar {
					c.varWriteSite(w, s, r.v, "range-assign")
				}
			}
		}
	case *ast.CallExpr:
		if id, ok := s.Fun.(*ast.Ident); ok {
			if _, isB := info.Uses[id].(*types.Builtin); isB {
				switch id.Name {
				case "delete", "clear", "copy":
					if len(s.Args) > 0 {
						if r := rootOf(info, s.Args[0]); r.kind == rootPkgVar {
							c.varWriteSite(w, s, r.v, id.Name)
						}
					}
				case "append":
					if len(s.Args) > 0 {
						if r := rootOf(info, s.Args[0]); r.kind == rootPkgVar {
							// the enclosing assignment (if any) is reported separately; the append itself may
							// write into the spare capacity of the shared backing array
							c.varWriteSite(w, s, r.v, "append-shared-slice")
						}
					}
				}
			}
		}
		// method call with pointer receiver on an addressable package-level value: implicit &v
		if sel, ok := s.Fun.(*ast.SelectorExpr); ok {
			if selInfo, ok := info.Selections[sel]; ok && selInfo.Kind() == types.MethodVal {
				if sig, ok := selInfo.Obj().Type().(*types.Signature); ok && sig.Recv() != nil {
					if _, ptrRecv := sig.Recv().Type().(*types.Pointer); ptrRecv {
						if r := rootOf(info, sel.X); r.kind == rootPkgVar {
							c.varWriteSite(w, s, r.v, "pointer-method-call")
						}
					}
				}
			}
		}
	case *ast.UnaryExpr:
		if s.Op == token.AND {
			if _, isLit := s.X.(*ast.CompositeLit); !isLit {
				if r := rootOf(info, s.X); r.kind == rootPkgVar {
					c.varWriteSite(w, s, r.v, "addr-taken")
				}
			}
		}
	case *ast.SliceExpr:
		if v := pkgVarOf(info, s.X); v != nil {
			if _, isArr := v.Type().Underlying().(*types.Array); isArr {
				c.varWriteSite(w, s, v, "addr-taken-slice-of-array")
			}
		}
	case *ast.Ident, *ast.SelectorExpr:
		e := n.(ast.Expr)
		v := pkgVarOf(info, e)
		if v == nil {
			return
		}
		// do not count the Sel ident of pkg.Name a second time
		if id, ok := n.(*ast.Ident); ok {
			if p, ok := w.parent(0).(*ast.SelectorExpr); ok && p.Sel == id {
				if _, isPkg := info.Uses[identOf(p.X)].(*types.PkgName); isPkg {
					return
				}
			}
		}
		if d := c.declOf(v); d != nil && !w.inInit {
			d.Uses++
		}
		_, isRef := shapeOf(v.Type())
		if !isRef {
			return
		}
		// a reference-typed package variable may only be indexed, ranged over, measured, compared, called;
		// anything else lets the reference escape to code that could write through it
		if c.refUseOK(w, info, e) {
			return
		}
		c.varWriteSite(w, enclosingStmt(w, n), v, "ref-escape")
	}
}

func identOf(e ast.Expr) *ast.Ident {
	id, _ := e.(*ast.Ident)
	return id
}

func enclosingStmt(w *walkCtx, n ast.Node) ast.Node {
	for i := len(w.stack) - 1; i >= 0; i-- {
		switch st := w.stack[i].(type) {
		case *ast.AssignStmt, *ast.ExprStmt, *ast.ReturnStmt, *ast.DeferStmt, *ast.GoStmt, *ast.IncDecStmt, *ast.SendStmt, *ast.DeclStmt:
			return st
		case *ast.IfStmt:
			return &ast.ExprStmt{X: st.Cond}
		case *ast.RangeStmt:
			return &ast.ExprStmt{X: st.X}
		case *ast.SwitchStmt:
			if st.Tag != nil {
				return &ast.ExprStmt{X: st.Tag}
			}
		case *ast.ForStmt:
			if st.Cond != nil {
				return &ast.ExprStmt{X: st.Cond}
			}
		}
	}
	return n
}

func (c *collector) refUseOK(w *walkCtx, info *types.Info, e ast.Expr) bool {
	var child ast.Node = e
	for k := 0; ; k++ {
		p := w.parent(k)
		switch x := p.(type) {
		case *ast.ParenExpr:
			child = x
			continue
		case *ast.IndexExpr:
			return x.X == child // read m[k] / s[i]; a store through it is reported by the assignment case
		case *ast.RangeStmt:
			return x.X == child
		case *ast.BinaryExpr:
			return x.Op == token.EQL || x.Op == token.NEQ
		case *ast.CallExpr:
			if x.Fun == child {
				return true
			}
			if id, ok := x.Fun.(*ast.Ident); ok {
				if _, isB := info.Uses[id].(*types.Builtin); isB {
					switch id.Name {
					case "len", "cap":
						return true
					case "delete", "clear", "copy", "append":
						return len(x.Args) > 0 && x.Args[0] == child // reported as a write already
					}
				}
			}
			return false
		case *ast.AssignStmt:
			for _, l := range x.Lhs {
				if l == child {
					return true // plain assignment to the variable: reported as a write already
				}
			}
			return false
		case *ast.SelectorExpr:
			if x.X == child {
				// field read through a pointer variable is a read; a method call is handled elsewhere
				if selInfo, ok := info.Selections[x]; ok && selInfo.Kind() == types.FieldVal {
					child = x
					// keep climbing only to see whether the field value itself escapes: treat field reads as fine
					return true
				}
				return false
			}
			child = x
			continue
		}
		return false
	}
}

// ---------------------------------------------------------------------------------------------
// tree writes (post-parse files only)

type class int

const (
	clFresh class = iota
	clUnknown
	clTree
)

type fnAnalysis struct {
	c     *collector
	ld    *loaded
	info  *types.Info
	fn    string
	defs  map[*types.Var][]defn
	cls   map[*types.Var]class
	param map[*types.Var]bool
	// field cells of "simple" fresh locals (see simpleField)
	fdefs   map[fieldKey][]defn
	fcls    map[fieldKey]class
	notSimp map[*types.Var]bool // used other than as v.f or in a return, or defined by something else than a literal
}

type fieldKey struct {
	v *types.Var
	f string
}

type defn struct {
	expr    ast.Expr // nil: zero value
	elemOf  bool     // the variable receives an element / key of expr (range)
	unknown bool     // call result tuple etc.
}

func (a *fnAnalysis) localVar(id *ast.Ident) *types.Var {
	if id == nil || id.Name == "_" {
		return nil
	}
	if v, ok := a.info.Defs[id].(*types.Var); ok && v != nil {
		return v
	}
	if v, ok := a.info.Uses[id].(*types.Var); ok && !isPkgLevel(v) && !v.IsField() {
		return v
	}
	return nil
}

func (a *fnAnalysis) addDef(id *ast.Ident, d defn) {
	v := a.localVar(id)
	if v == nil {
		return
	}
	a.defs[v] = append(a.defs[v], d)
}

func (a *fnAnalysis) collectDefs(fd *ast.FuncDecl) {
	markParams := func(fl *ast.FieldList) {
		if fl == nil {
			return
		}
		for _, f := range fl.List {
			for _, id := range f.Names {
				if v, ok := a.info.Defs[id].(*types.Var); ok && v != nil {
					a.param[v] = true
				}
			}
		}
	}
	markParams(fd.Recv)
	markParams(fd.Type.Params)
	ast.Inspect(fd.Body, func(n ast.Node) bool {
		switch s := n.(type) {
		case *ast.FuncLit:
			markParams(s.Type.Params)
		case *ast.AssignStmt:
			if s.Tok != token.ASSIGN && s.Tok != token.DEFINE {
				return true
			}
			if len(s.Lhs) == len(s.Rhs) {
				for i, l := range s.Lhs {
					if id, ok := l.(*ast.Ident); ok {
						a.addDef(id, defn{expr: s.Rhs[i]})
					}
				}
			} else if len(s.Rhs) == 1 {
				// v, ok := x.(T) | m[k] | <-ch | f()
				rhs := s.Rhs[0]
				for rhs != nil {
					if p, ok := rhs.(*ast.ParenExpr); ok {
						rhs = p.X
						continue
					}
					break
				}
				switch r := rhs.(type) {
				case *ast.TypeAssertExpr, *ast.IndexExpr:
					if id, ok := s.Lhs[0].(*ast.Ident); ok {
						a.addDef(id, defn{expr: r})
					}
				default:
					for _, l := range s.Lhs {
						if id, ok := l.(*ast.Ident); ok {
							a.addDef(id, defn{unknown: true, expr: rhs})
						}
					}
				}
			}
		case *ast.DeclStmt:
			if gd, ok := s.Decl.(*ast.GenDecl); ok && gd.Tok == token.VAR {
				for _, sp := range gd.Specs {
					vs := sp.(*ast.ValueSpec)
					for i, id := range vs.Names {
						switch {
						case len(vs.Values) == 0:
							a.addDef(id, defn{})
						case len(vs.Values) == len(vs.Names):
							a.addDef(id, defn{expr: vs.Values[i]})
						default:
							a.addDef(id, defn{unknown: true, expr: vs.Values[0]})
						}
					}
				}
			}
		case *ast.RangeStmt:
			for _, e := range []ast.Expr{s.Key, s.Value} {
				if id, ok := e.(*ast.Ident); ok {
					a.addDef(id, defn{expr: s.X, elemOf: true})
				}
			}
		case *ast.CompositeLit:
			// handled through the definitions that carry it (fieldDefsOfLit)
		case *ast.TypeSwitchStmt:
			// switch x := y.(type): one implicit object per clause
			if as, ok := s.Assign.(*ast.AssignStmt); ok && len(as.Rhs) == 1 {
				if ta, ok := as.Rhs[0].(*ast.TypeAssertExpr); ok {
					for _, cl := range s.Body.List {
						if v, ok := a.info.Implicits[cl].(*types.Var); ok && v != nil {
							a.defs[v] = append(a.defs[v], defn{expr: ta.X})
						}
					}
				}
			}
		}
		return true
	})
}

// collectFieldCells: a local v is "simple" when every definition of it is a composite literal, the address
// of one, new(T) or the zero value, and every use of it is `v.f...` or `return v`. Then nobody but this
// function can store into its fields, and each field v.f is tracked like a local variable: its class is the
// join of the literal's element for f and of every assignment `v.f = e` in the function.
func (a *fnAnalysis) collectFieldCells(fd *ast.FuncDecl) {
	var stack []ast.Node
	ast.Inspect(fd.Body, func(n ast.Node) bool {
		if n == nil {
			stack = stack[:len(stack)-1]
			return true
		}
		if id, ok := n.(*ast.Ident); ok {
			if v, ok := a.info.Uses[id].(*types.Var); ok && !isPkgLevel(v) && !v.IsField() {
				okUse := false
				if len(stack) > 0 {
					switch p := stack[len(stack)-1].(type) {
					case *ast.SelectorExpr:
						okUse = p.X == ast.Expr(id)
					case *ast.ReturnStmt:
						okUse = true
					}
				}
				if !okUse {
					a.notSimp[v] = true
				}
			}
		}
		if as, ok := n.(*ast.AssignStmt); ok {
			for i, lhs := range as.Lhs {
				v, f := a.firstField(lhs)
				if v == nil {
					continue
				}
				k := fieldKey{v, f}
				if (as.Tok == token.ASSIGN || as.Tok == token.DEFINE) && len(as.Lhs) == len(as.Rhs) {
					a.fdefs[k] = append(a.fdefs[k], defn{expr: as.Rhs[i]})
				} else if as.Tok == token.ASSIGN || as.Tok == token.DEFINE {
					a.fdefs[k] = append(a.fdefs[k], defn{unknown: true, expr: as.Rhs[0]})
				}
			}
		}
		stack = append(stack, n)
		return true
	})
	for v, ds := range a.defs {
		for _, d := range ds {
			if d.unknown || d.elemOf {
				a.notSimp[v] = true
				continue
			}
			if d.expr == nil {
				continue
			}
			e := d.expr
			for {
				if p, ok := e.(*ast.ParenExpr); ok {
					e = p.X
					continue
				}
				break
			}
			if u, ok := e.(*ast.UnaryExpr); ok && u.Op == token.AND {
				e = u.X
			}
			switch x := e.(type) {
			case *ast.CompositeLit:
				a.fieldDefsOfLit(v, x)
			case *ast.CallExpr:
				if id, ok := x.Fun.(*ast.Ident); ok && id.Name == "new" {
					if _, isB := a.info.Uses[id].(*types.Builtin); isB {
						continue
					}
				}
				a.notSimp[v] = true
			default:
				a.notSimp[v] = true
			}
		}
	}
}

func (a *fnAnalysis) fieldDefsOfLit(v *types.Var, lit *ast.CompositeLit) {
	tv, ok := a.info.Types[lit]
	if !ok {
		a.notSimp[v] = true
		return
	}
	st, ok := tv.Type.Underlying().(*types.Struct)
	if !ok {
		a.notSimp[v] = true
		return
	}
	for i, el := range lit.Elts {
		if kv, ok := el.(*ast.KeyValueExpr); ok {
			if id, ok := kv.Key.(*ast.Ident); ok {
				k := fieldKey{v, id.Name}
				a.fdefs[k] = append(a.fdefs[k], defn{expr: kv.Value})
				continue
			}
			a.notSimp[v] = true
			continue
		}
		if i < st.NumFields() {
			k := fieldKey{v, st.Field(i).Name()}
			a.fdefs[k] = append(a.fdefs[k], defn{expr: el})
		}
	}
}

// firstField: lhs = v.f(.g.h ...) reached without indirection other than v itself being a pointer to the literal.
func (a *fnAnalysis) firstField(lhs ast.Expr) (*types.Var, string) {
	cur := lhs
	for {
		switch x := cur.(type) {
		case *ast.ParenExpr:
			cur = x.X
			continue
		case *ast.SelectorExpr:
			if id, ok := x.X.(*ast.Ident); ok {
				if v := a.localVar(id); v != nil {
					if sel, ok := a.info.Selections[x]; ok && sel.Kind() == types.FieldVal && len(sel.Index()) == 1 {
						return v, x.Sel.Name
					}
				}
				return nil, ""
			}
			if sel, ok := a.info.Selections[x]; ok && !sel.Indirect() {
				cur = x.X
				continue
			}
			return nil, ""
		}
		return nil, ""
	}
}

// simpleField: class of the expression v.f for a simple fresh local v.
func (a *fnAnalysis) simpleField(e ast.Expr) (class, bool) {
	for {
		if p, ok := e.(*ast.ParenExpr); ok {
			e = p.X
			continue
		}
		break
	}
	sel, ok := e.(*ast.SelectorExpr)
	if !ok {
		return clUnknown, false
	}
	id, ok := sel.X.(*ast.Ident)
	if !ok {
		return clUnknown, false
	}
	v := a.localVar(id)
	if v == nil || a.param[v] || a.notSimp[v] || a.varClass(v) != clFresh {
		return clUnknown, false
	}
	if _, hasDefs := a.defs[v]; !hasDefs {
		return clUnknown, false
	}
	if si, ok := a.info.Selections[sel]; !ok || si.Kind() != types.FieldVal || len(si.Index()) != 1 {
		return clUnknown, false
	}
	return a.fcls[fieldKey{v, sel.Sel.Name}], true
}

// exprClass: what a value of this expression may point into.
func (a *fnAnalysis) exprClass(e ast.Expr) class {
	if e == nil {
		return clFresh
	}
	if tv, ok := a.info.Types[e]; ok && tv.Type != nil {
		if tv.IsNil() || tv.Value != nil {
			return clFresh
		}
		if _, isTuple := tv.Type.(*types.Tuple); !isTuple && pointerFree(tv.Type, nil) {
			return clFresh
		}
	}
	switch x := e.(type) {
	case *ast.ParenExpr:
		return a.exprClass(x.X)
	case *ast.BasicLit, *ast.FuncLit, *ast.CompositeLit:
		return clFresh
	case *ast.UnaryExpr:
		if x.Op == token.AND {
			if _, ok := x.X.(*ast.CompositeLit); ok {
				return clFresh
			}
			if id, ok := x.X.(*ast.Ident); ok {
				if v := a.localVar(id); v != nil {
					return clFresh // address of a local: the local's own storage
				}
			}
			return a.derivedClass(x.X)
		}
		return clFresh
	case *ast.BinaryExpr:
		return clFresh
	case *ast.Ident:
		if v := a.localVar(x); v != nil {
			return a.varClass(v)
		}
		if pkgVarOf(a.info, x) != nil {
			return clUnknown
		}
		return clFresh
	case *ast.TypeAssertExpr:
		return a.exprClass(x.X)
	case *ast.SliceExpr:
		if tv, ok := a.info.Types[x.X]; ok {
			if _, isArr := tv.Type.Underlying().(*types.Array); isArr {
				if id, ok := x.X.(*ast.Ident); ok && a.localVar(id) != nil {
					return clFresh
				}
			}
		}
		return a.exprClass(x.X)
	case *ast.CallExpr:
		if tv, ok := a.info.Types[x.Fun]; ok && tv.IsType() && len(x.Args) == 1 {
			if at, ok := a.info.Types[x.Args[0]]; ok {
				if b, ok := at.Type.Underlying().(*types.Basic); ok && b.Info()&types.IsString != 0 {
					return clFresh // []byte(s), []rune(s)
				}
			}
			return a.exprClass(x.Args[0])
		}
		if id, ok := x.Fun.(*ast.Ident); ok {
			if _, isB := a.info.Uses[id].(*types.Builtin); isB {
				switch id.Name {
				case "make", "new":
					return clFresh
				case "append":
					if len(x.Args) == 0 {
						return clFresh
					}
					return a.exprClass(x.Args[0])
				}
			}
		}
		if sel, ok := x.Fun.(*ast.SelectorExpr); ok {
			if id, ok := sel.X.(*ast.Ident); ok {
				if pn, ok := a.info.Uses[id].(*types.PkgName); ok && freshResultPkgs[pn.Imported().Path()] {
					return clFresh
				}
			}
		}
		// result of an arbitrary call: tree if any argument (or the receiver) is tree-rooted, else unknown
		cl := clUnknown
		for _, arg := range x.Args {
			if a.derivedClass(arg) == clTree {
				cl = clTree
			}
		}
		if sel, ok := x.Fun.(*ast.SelectorExpr); ok {
			if a.derivedClass(sel.X) == clTree {
				cl = clTree
			}
		}
		return cl
	case *ast.SelectorExpr:
		if cl, ok := a.simpleField(e); ok {
			return cl
		}
		return a.derivedClass(e)
	case *ast.StarExpr, *ast.IndexExpr:
		return a.derivedClass(e)
	}
	return clUnknown
}

// derivedClass: class of something obtained by following pointers from e's root.
func (a *fnAnalysis) derivedClass(e ast.Expr) class {
	r := rootOf(a.info, e)
	switch r.kind {
	case rootLocal:
		if isPkgLevel(r.v) {
			return clUnknown
		}
		if a.varClass(r.v) == clTree {
			return clTree
		}
		return clUnknown // a fresh wrapper may hold pointers into the tree
	case rootFreshLit:
		return clUnknown
	case rootCall:
		// find the call and classify it
		if ce := findCall(e); ce != nil {
			if a.exprClass(ce) == clTree {
				return clTree
			}
		}
		return clUnknown
	}
	return clUnknown
}

func findCall(e ast.Expr) *ast.CallExpr {
	for {
		switch x := e.(type) {
		case *ast.ParenExpr:
			e = x.X
		case *ast.SelectorExpr:
			e = x.X
		case *ast.IndexExpr:
			e = x.X
		case *ast.SliceExpr:
			e = x.X
		case *ast.StarExpr:
			e = x.X
		case *ast.TypeAssertExpr:
			e = x.X
		case *ast.UnaryExpr:
			e = x.X
		case *ast.CallExpr:
			return x
		default:
			return nil
		}
	}
}

func (a *fnAnalysis) varClass(v *types.Var) class {
	if a.param[v] {
		return clTree
	}
	if cl, ok := a.cls[v]; ok {
		return cl
	}
	// a variable of an enclosing scope we have no definition for (cannot happen for locals): unknown
	if _, ok := a.defs[v]; !ok {
		return clUnknown
	}
	return clFresh
}

func (a *fnAnalysis) solve() {
	for v := range a.defs {
		a.cls[v] = clFresh
	}
	for k := range a.fdefs {
		a.fcls[k] = clFresh
	}
	for changed := true; changed; {
		changed = false
		for k, ds := range a.fdefs {
			cur := a.fcls[k]
			nw := cur
			for _, d := range ds {
				cl := a.exprClass(d.expr)
				if d.unknown && cl == clFresh {
					cl = clUnknown
				}
				if cl > nw {
					nw = cl
				}
			}
			if nw != cur {
				a.fcls[k] = nw
				changed = true
			}
		}
		for v, ds := range a.defs {
			cur := a.cls[v]
			if a.param[v] {
				continue
			}
			if pointerFree(v.Type(), nil) {
				continue
			}
			nw := cur
			for _, d := range ds {
				var cl class
				switch {
				case d.unknown:
					cl = a.exprClass(d.expr)
					if cl == clFresh {
						cl = clUnknown
					}
					if ce, ok := d.expr.(*ast.CallExpr); ok {
						if sel, ok := ce.Fun.(*ast.SelectorExpr); ok {
							if id, ok := sel.X.(*ast.Ident); ok {
								if pn, ok := a.info.Uses[id].(*types.PkgName); ok && freshResultPkgs[pn.Imported().Path()] {
									cl = clFresh
								}
							}
						}
					}
				case d.expr == nil:
					cl = clFresh
				case d.elemOf:
					// element of a container: whatever the container may point to; a fresh container may
					// still hold tree pointers
					cl = a.derivedClass(d.expr)
				default:
					cl = a.exprClass(d.expr)
				}
				if cl > nw {
					nw = cl
				}
			}
			if nw != cur {
				a.cls[v] = nw
				changed = true
			}
		}
	}
}

// heapBase finds the pointer-like expression whose referent an assignment to lhs modifies;
// nil when lhs only names (part of) a local variable's own storage.
func (a *fnAnalysis) heapBase(lhs ast.Expr) (base ast.Expr, local *types.Var, pkgv *types.Var) {
	cur := lhs
	for {
		if v := pkgVarOf(a.info, cur); v != nil {
			return nil, nil, v
		}
		switch x := cur.(type) {
		case *ast.ParenExpr:
			cur = x.X
		case *ast.SelectorExpr:
			if sel, ok := a.info.Selections[x]; ok {
				if sel.Indirect() {
					return x.X, nil, nil
				}
				cur = x.X
				continue
			}
			return x, nil, nil
		case *ast.IndexExpr:
			tv, ok := a.info.Types[x.X]
			if !ok {
				return x.X, nil, nil
			}
			if _, isArr := tv.Type.Underlying().(*types.Array); isArr {
				cur = x.X
				continue
			}
			return x.X, nil, nil
		case *ast.StarExpr:
			return x.X, nil, nil
		case *ast.Ident:
			return nil, a.localVar(x), nil
		default:
			return cur, nil, nil
		}
	}
}

// baseClass classifies the referent of a base pointer expression.
func (a *fnAnalysis) baseClass(base ast.Expr) (class, *types.Var) {
	e := base
	for {
		switch x := e.(type) {
		case *ast.ParenExpr:
			e = x.X
			continue
		case *ast.TypeAssertExpr:
			e = x.X
			continue
		case *ast.CallExpr:
			if tv, ok := a.info.Types[x.Fun]; ok && tv.IsType() && len(x.Args) == 1 {
				e = x.Args[0]
				continue
			}
		}
		break
	}
	if v := pkgVarOf(a.info, e); v != nil {
		return clUnknown, v
	}
	if id, ok := e.(*ast.Ident); ok {
		if v := a.localVar(id); v != nil {
			return a.varClass(v), nil
		}
	}
	r := rootOf(a.info, e)
	if r.kind == rootPkgVar {
		return clUnknown, r.v
	}
	if u, ok := e.(*ast.UnaryExpr); ok && u.Op == token.AND {
		if _, isLit := u.X.(*ast.CompositeLit); isLit {
			return clFresh, nil
		}
	}
	if _, isLit := e.(*ast.CompositeLit); isLit {
		return clFresh, nil
	}
	if cl, ok := a.simpleField(e); ok {
		return cl, nil
	}
	return a.derivedClass(e), nil
}

type pendingSite struct {
	stmt   ast.Stmt
	lhs    ast.Expr
	site   *Site
	inList bool
}

func (c *collector) analyseTreeWrites(ld *loaded, f *ast.File) {
	info := ld.info
	var units []*ast.FuncDecl
	for _, d := range f.Decls {
		switch x := d.(type) {
		case *ast.FuncDecl:
			if x.Body != nil {
				units = append(units, x)
			}
		case *ast.GenDecl:
			// function literals in package-level initialisers are functions too
			ast.Inspect(x, func(n ast.Node) bool {
				if lit, ok := n.(*ast.FuncLit); ok {
					units = append(units, &ast.FuncDecl{Name: &ast.Ident{Name: "<package initialiser>", NamePos: lit.Pos()}, Type: lit.Type, Body: lit.Body})
					return false
				}
				return true
			})
		}
	}
	for _, fd := range units {
		a := &fnAnalysis{c: c, ld: ld, info: info, fn: funcName(fd),
			defs: map[*types.Var][]defn{}, cls: map[*types.Var]class{}, param: map[*types.Var]bool{},
			fdefs: map[fieldKey][]defn{}, fcls: map[fieldKey]class{}, notSimp: map[*types.Var]bool{}}
		a.collectDefs(fd)
		a.collectFieldCells(fd)
		a.solve()
		c.inv.Stats["postparse_functions"]++

		// restore closures that are paired with an edit: their assignment is not a site of its own
		paired := map[*ast.AssignStmt]bool{}
		var pairBlocks func(list []ast.Stmt)
		type restoreInfo struct {
			text  string
			fresh bool
			where string
		}
		restores := map[*ast.AssignStmt]restoreInfo{}
		type candidate struct {
			as, ras, save *ast.AssignStmt
			saved         *types.Var
			ri            restoreInfo
		}
		var cands []candidate
		pairBlocks = func(list []ast.Stmt) {
			for i, st := range list {
				as, ok := st.(*ast.AssignStmt)
				if !ok || as.Tok != token.ASSIGN || len(as.Lhs) != 1 || i+1 >= len(list) || i == 0 {
					continue
				}
				df, ok := list[i+1].(*ast.DeferStmt)
				if !ok {
					continue
				}
				fl, ok := df.Call.Fun.(*ast.FuncLit)
				if !ok || len(df.Call.Args) != 0 || len(fl.Body.List) != 1 || (fl.Type.Params != nil && len(fl.Type.Params.List) != 0) {
					continue
				}
				ras, ok := fl.Body.List[0].(*ast.AssignStmt)
				if !ok || ras.Tok != token.ASSIGN || len(ras.Lhs) != 1 || len(ras.Rhs) != 1 {
					continue
				}
				loc := nodeText(c.l.fset, as.Lhs[0])
				if nodeText(c.l.fset, ras.Lhs[0]) != loc {
					continue
				}
				saved, ok := ras.Rhs[0].(*ast.Ident)
				if !ok || a.localVar(saved) == nil {
					continue
				}
				// the statement just before the edit must save the location into that variable
				sv, ok := list[i-1].(*ast.AssignStmt)
				if !ok || len(sv.Lhs) != 1 || len(sv.Rhs) != 1 || (sv.Tok != token.DEFINE && sv.Tok != token.ASSIGN) {
					continue
				}
				svid, ok := sv.Lhs[0].(*ast.Ident)
				if !ok || a.localVar(svid) != a.localVar(saved) || nodeText(c.l.fset, sv.Rhs[0]) != loc {
					continue
				}
				cands = append(cands, candidate{as: as, ras: ras, save: sv, saved: a.localVar(saved),
					ri: restoreInfo{text: nodeText(c.l.fset, df), fresh: sv.Tok == token.DEFINE, where: c.whereOf(ras)}})
			}
		}
		ast.Inspect(fd.Body, func(n ast.Node) bool {
			switch b := n.(type) {
			case *ast.BlockStmt:
				pairBlocks(b.List)
			case *ast.CaseClause:
				pairBlocks(b.Body)
			case *ast.CommClause:
				pairBlocks(b.Body)
			}
			return true
		})
		// the saved variable must not be assigned anywhere else in the function (the deferred closure reads
		// it when the function exits), nor have its address taken; the saving statements of other pattern
		// instances are tolerated (s_restore_fresh = false marks the shared case)
		legit := map[*ast.AssignStmt]bool{}
		savedVars := map[*types.Var]bool{}
		for _, cd := range cands {
			legit[cd.save] = true
			savedVars[cd.saved] = true
		}
		clobbered := map[*types.Var]bool{}
		ast.Inspect(fd.Body, func(n ast.Node) bool {
			switch s := n.(type) {
			case *ast.AssignStmt:
				if legit[s] {
					return true
				}
				for _, l := range s.Lhs {
					if id, ok := l.(*ast.Ident); ok {
						if v := a.localVar(id); v != nil && savedVars[v] {
							clobbered[v] = true
						}
					}
				}
			case *ast.IncDecStmt:
				if id, ok := s.X.(*ast.Ident); ok {
					if v := a.localVar(id); v != nil && savedVars[v] {
						clobbered[v] = true
					}
				}
			case *ast.RangeStmt:
				for _, e := range []ast.Expr{s.Key, s.Value} {
					if id, ok := e.(*ast.Ident); ok {
						if v := a.localVar(id); v != nil && savedVars[v] {
							clobbered[v] = true
						}
					}
				}
			case *ast.UnaryExpr:
				if s.Op == token.AND {
					if id, ok := s.X.(*ast.Ident); ok {
						if v := a.localVar(id); v != nil && savedVars[v] {
							clobbered[v] = true
						}
					}
				}
			case *ast.ValueSpec:
				if len(s.Values) > 0 {
					for _, id := range s.Names {
						if v := a.localVar(id); v != nil && savedVars[v] {
							clobbered[v] = true
						}
					}
				}
			}
			return true
		})
		for _, cd := range cands {
			if clobbered[cd.saved] {
				continue
			}
			paired[cd.ras] = true
			restores[cd.as] = cd.ri
		}

		report := func(st ast.Node, lhs ast.Expr, kindPrefix string, stmtForKind ast.Stmt) *Site {
			base, _, pkgv := a.heapBase(lhs)
			if pkgv != nil || base == nil {
				return nil // package variable: var_writes; local storage: not shared
			}
			cl, pv := a.baseClass(base)
			if pv != nil {
				return nil // reported under var_writes by rootOf
			}
			if cl == clFresh {
				c.inv.Stats["fresh_local_stores_skipped"]++
				return nil
			}
			kind := kindPrefix
			if stmtForKind != nil {
				kind = stmtKind(kindPrefix, stmtForKind, lhs)
			}
			if cl == clUnknown {
				kind = "unknown-alias:" + kind
			}
			return c.add(&c.inv.TreeWrites, "tree_writes", ld, a.fn, st, nodeText(c.l.fset, lhs), kind)
		}

		var stack []ast.Node
		ast.Inspect(fd.Body, func(n ast.Node) bool {
			if n == nil {
				stack = stack[:len(stack)-1]
				return true
			}
			switch s := n.(type) {
			case *ast.AssignStmt:
				if paired[s] {
					break
				}
				for _, lhs := range s.Lhs {
					if _, isId := lhs.(*ast.Ident); isId {
						continue
					}
					site := report(s, lhs, "", s)
					if site != nil {
						if ri, ok := restores[s]; ok {
							site.Restored, site.RestoreText, site.RestoreFresh, site.RestoreWhere = true, ri.text, ri.fresh, ri.where
						}
					}
				}
			case *ast.IncDecStmt:
				if _, isId := s.X.(*ast.Ident); !isId {
					report(s, s.X, "", s)
				}
			case *ast.RangeStmt:
				if s.Tok == token.ASSIGN {
					for _, e := range []ast.Expr{s.Key, s.Value} {
						if e == nil {
							continue
						}
						if _, isId := e.(*ast.Ident); !isId {
							report(&ast.ExprStmt{X: e}, e, "range-assign-", nil)
						}
					}
				}
			case *ast.CallExpr:
				c.treeCall(a, s, stack)
			case *ast.UnaryExpr:
				if s.Op == token.AND {
					c.treeAddr(a, s, stack)
				}
			}
			stack = append(stack, n)
			return true
		})
	}
}

func stmtOf(stack []ast.Node, n ast.Node) ast.Node {
	for i := len(stack) - 1; i >= 0; i-- {
		switch st := stack[i].(type) {
		case *ast.AssignStmt, *ast.ExprStmt, *ast.ReturnStmt, *ast.DeferStmt, *ast.GoStmt, *ast.DeclStmt:
			return st
		}
	}
	return n
}

func (c *collector) treeCall(a *fnAnalysis, ce *ast.CallExpr, stack []ast.Node) {
	info := a.info
	argTree := func(e ast.Expr) (class, bool) {
		// class of the memory a slice/map/pointer argument refers to
		if tv, ok := info.Types[e]; ok && tv.Type != nil && pointerFree(tv.Type, nil) {
			return clFresh, false
		}
		cl := a.exprClass(e)
		return cl, cl != clFresh
	}
	if id, ok := ce.Fun.(*ast.Ident); ok {
		if _, isB := info.Uses[id].(*types.Builtin); isB && len(ce.Args) > 0 {
			switch id.Name {
			case "append", "copy", "delete", "clear":
				if rootOf(info, ce.Args[0]).kind == rootPkgVar {
					return
				}
				cl, shared := argTree(ce.Args[0])
				if !shared {
					return
				}
				kind := map[string]string{"append": "append-tree-slice", "copy": "copy-into", "delete": "delete", "clear": "clear"}[id.Name]
				if cl == clUnknown {
					kind = "unknown-alias:" + kind
				}
				c.add(&c.inv.TreeWrites, "tree_writes", a.ld, a.fn, stmtOf(stack, ce), nodeText(c.l.fset, ce.Args[0]), kind)
			}
			return
		}
	}
	// calls into sort / slices with a shared argument reorder it in place
	if sel, ok := ce.Fun.(*ast.SelectorExpr); ok {
		if id, ok := sel.X.(*ast.Ident); ok {
			if pn, ok := info.Uses[id].(*types.PkgName); ok {
				p := pn.Imported().Path()
				if p == "sort" || p == "slices" {
					for _, arg := range ce.Args {
						cl, shared := argTree(arg)
						if !shared {
							continue
						}
						kind := "mutating-call"
						if cl == clUnknown {
							kind = "unknown-alias:" + kind
						}
						c.add(&c.inv.TreeWrites, "tree_writes", a.ld, a.fn, stmtOf(stack, ce), nodeText(c.l.fset, arg), kind)
					}
				}
			}
		}
		// pointer-receiver method of a type declared outside the library, on something inside the tree
		if selInfo, ok := info.Selections[sel]; ok && selInfo.Kind() == types.MethodVal {
			if fn, ok := selInfo.Obj().(*types.Func); ok && fn.Pkg() != nil {
				if _, lib := c.libs[fn.Pkg()]; !lib {
					if sig, ok := fn.Type().(*types.Signature); ok && sig.Recv() != nil {
						if _, ptr := sig.Recv().Type().(*types.Pointer); ptr {
							// receiver value: is it (in) shared memory?
							recvT := info.Types[sel.X].Type
							var cl class
							if _, isPtr := recvT.Underlying().(*types.Pointer); isPtr {
								cl = a.exprClass(sel.X)
								if id, ok := sel.X.(*ast.Ident); ok && a.localVar(id) != nil && a.param[a.localVar(id)] && isBuilderParam(recvT) {
									cl = clFresh // the *strings.Builder output parameter is the callee's own sink
								}
							} else {
								base, lv, pv := a.heapBase(sel.X)
								switch {
								case pv != nil:
									return
								case lv != nil && base == nil:
									cl = clFresh
								default:
									cl, _ = a.baseClass(base)
								}
							}
							if cl != clFresh {
								kind := "foreign-pointer-method"
								if cl == clUnknown {
									kind = "unknown-alias:" + kind
								}
								c.add(&c.inv.TreeWrites, "tree_writes", a.ld, a.fn, stmtOf(stack, ce), nodeText(c.l.fset, sel.X), kind)
							}
						}
					}
				}
			}
		}
	}
}

// isBuilderParam: *strings.Builder / *bytes.Buffer (the explain code threads one output sink through
// every function; it is created by the entry point of each call and never stored in the tree).
func isBuilderParam(t types.Type) bool {
	p, ok := t.Underlying().(*types.Pointer)
	if !ok {
		return false
	}
	n, ok := p.Elem().(*types.Named)
	if !ok || n.Obj().Pkg() == nil {
		return false
	}
	q := n.Obj().Pkg().Path() + "." + n.Obj().Name()
	return q == "strings.Builder" || q == "bytes.Buffer"
}

func (c *collector) treeAddr(a *fnAnalysis, u *ast.UnaryExpr, stack []ast.Node) {
	if _, isLit := u.X.(*ast.CompositeLit); isLit {
		return
	}
	base, _, pkgv := a.heapBase(u.X)
	if pkgv != nil || base == nil {
		return // package variable (var_writes) or a local's own storage
	}
	cl, pv := a.baseClass(base)
	if pv != nil || cl == clFresh {
		return
	}
	// tracked cases: assigned to a local (alias classes follow it) or passed to a library function
	// (the callee's parameter is analysed as tree-rooted)
	if len(stack) > 0 {
		switch p := stack[len(stack)-1].(type) {
		case *ast.AssignStmt:
			for i, r := range p.Rhs {
				if r == ast.Expr(u) && len(p.Lhs) == len(p.Rhs) {
					if _, isId := p.Lhs[i].(*ast.Ident); isId {
						return
					}
				}
			}
		case *ast.CallExpr:
			if fn := calleeFunc(a.info, p); fn != nil && fn.Pkg() != nil {
				if _, lib := c.libs[fn.Pkg()]; lib {
					return
				}
			}
		}
	}
	kind := "addr-escape"
	if cl == clUnknown {
		kind = "unknown-alias:" + kind
	}
	c.add(&c.inv.TreeWrites, "tree_writes", a.ld, a.fn, stmtOf(stack, u), nodeText(c.l.fset, u.X), kind)
}

func calleeFunc(info *types.Info, ce *ast.CallExpr) *types.Func {
	switch f := ce.Fun.(type) {
	case *ast.Ident:
		fn, _ := info.Uses[f].(*types.Func)
		return fn
	case *ast.SelectorExpr:
		fn, _ := info.Uses[f.Sel].(*types.Func)
		return fn
	}
	return nil
}

// ---------------------------------------------------------------------------------------------
// map ranges, goroutines, imports, formats, foreign field types

func (c *collector) collectMisc(ld *loaded) {
	info := ld.info
	for _, f := range ld.files {
		post := c.isPostParse(ld, f)
		for _, imp := range f.Imports {
			p, _ := strconv.Unquote(imp.Path.Value)
			if p == c.l.module || strings.HasPrefix(p, c.l.module+"/") {
				rel := strings.TrimPrefix(strings.TrimPrefix(p, c.l.module), "/")
				if post && rel != "ast" && rel != "token" && rel != "internal/explain" {
					// code that runs on the caller's tree but is not analysed for tree writes
					c.addText(&c.inv.GoroutinesAndUnsafe, "goroutines_and_unsafe", ld, "<imports>", imp, p, "post-parse-code-imports-unanalysed-package", "import "+p)
				}
				continue
			}
			if !pureImports[p] {
				c.addText(&c.inv.GoroutinesAndUnsafe, "goroutines_and_unsafe", ld, "<imports>", imp, p, "import-outside-pure-list", "import "+p)
			} else if post && p == "reflect" {
				c.addText(&c.inv.GoroutinesAndUnsafe, "goroutines_and_unsafe", ld, "<imports>", imp, p, "reflect-in-post-parse-code", "import "+p)
			}
		}
		for _, d := range f.Decls {
			fd, ok := d.(*ast.FuncDecl)
			fn := "<package>"
			var body ast.Node = d
			if ok {
				fn = funcName(fd)
				if fd.Body == nil {
					continue
				}
				body = fd.Body
			}
			ast.Inspect(body, func(n ast.Node) bool {
				switch s := n.(type) {
				case *ast.GoStmt:
					c.add(&c.inv.GoroutinesAndUnsafe, "goroutines_and_unsafe", ld, fn, s, "go", "go-statement")
				case *ast.SelectStmt, *ast.SendStmt:
					// channel operations other than the ctx.Done() poll of ParseStatements
					if _, isSel := s.(*ast.SelectStmt); !isSel {
						c.add(&c.inv.GoroutinesAndUnsafe, "goroutines_and_unsafe", ld, fn, s, "chan", "channel-send")
					}
				case *ast.RangeStmt:
					if !post {
						break
					}
					if tv, ok := info.Types[s.X]; ok {
						if _, isMap := tv.Type.Underlying().(*types.Map); isMap {
							hdr := &ast.RangeStmt{Key: s.Key, Value: s.Value, Tok: s.Tok, X: s.X, Body: &ast.BlockStmt{}}
							c.addText(&c.inv.MapRanges, "map_ranges", ld, fn, s, nodeText(c.l.fset, s.X), "range-over-map",
								strings.TrimSuffix(strings.TrimSpace(nodeText(c.l.fset, hdr)), "{ }")+"{...}")
						}
					}
				case *ast.BasicLit:
					if post && s.Kind == token.STRING && strings.Contains(s.Value, "%p") {
						c.add(&c.inv.GoroutinesAndUnsafe, "goroutines_and_unsafe", ld, fn, s, "%p", "pointer-format")
					}
				}
				return true
			})
		}
	}
	// every type declared in ast: field types must be ast/token named types, basic types, or
	// slices/pointers/maps of those, or the empty interface
	if ld.rel == "ast" {
		scope := ld.pkg.Scope()
		names := scope.Names()
		sort.Strings(names)
		for _, name := range names {
			tn, ok := scope.Lookup(name).(*types.TypeName)
			if !ok {
				continue
			}
			st, ok := tn.Type().Underlying().(*types.Struct)
			if !ok {
				continue
			}
			c.inv.Stats["ast_struct_types"]++
			for i := 0; i < st.NumFields(); i++ {
				fld := st.Field(i)
				if bad := c.foreignType(fld.Type(), map[types.Type]bool{}); bad != "" {
					key := "type " + name + " field " + fld.Name() + " " + bad
					c.addText(&c.inv.GoroutinesAndUnsafe, "goroutines_and_unsafe", ld, "<types>", identNode(fld.Pos()), name+"."+fld.Name(), "foreign-field-type", key)
				}
			}
		}
	}
}

type posNode token.Pos

func (p posNode) Pos() token.Pos     { return token.Pos(p) }
func (p posNode) End() token.Pos     { return token.Pos(p) }
func identNode(p token.Pos) ast.Node { return posNode(p) }

func (c *collector) foreignType(t types.Type, seen map[types.Type]bool) string {
	if seen[t] {
		return ""
	}
	seen[t] = true
	switch u := t.(type) {
	case *types.Named:
		if u.Obj().Pkg() == nil {
			return "" // error, comparable...
		}
		if _, lib := c.libs[u.Obj().Pkg()]; lib {
			return ""
		}
		return u.Obj().Pkg().Path() + "." + u.Obj().Name()
	case *types.Alias:
		return c.foreignType(types.Unalias(u), seen)
	case *types.Basic:
		if u.Kind() == types.UnsafePointer {
			return "unsafe.Pointer"
		}
		return ""
	case *types.Pointer:
		return c.foreignType(u.Elem(), seen)
	case *types.Slice:
		return c.foreignType(u.Elem(), seen)
	case *types.Array:
		return c.foreignType(u.Elem(), seen)
	case *types.Map:
		if s := c.foreignType(u.Key(), seen); s != "" {
			return s
		}
		return c.foreignType(u.Elem(), seen)
	case *types.Interface:
		if u.NumMethods() == 0 {
			return ""
		}
		return ""
	case *types.Struct:
		for i := 0; i < u.NumFields(); i++ {
			if s := c.foreignType(u.Field(i).Type(), seen); s != "" {
				return s
			}
		}
		return ""
	case *types.Chan:
		return "chan"
	case *types.Signature:
		return "func"
	}
	return ""
}

// ---------------------------------------------------------------------------------------------
// emission

func coqStr(s string) string {
	return "\"" + strings.ReplaceAll(s, "\"", "\"\"") + "\""
}

func coqBool(b bool) string {
	if b {
		return "true"
	}
	return "false"
}

func emitSites(b *strings.Builder, name string, sites []Site) {
	fmt.Fprintf(b, "Definition %s : list site :=\n  [", name)
	for i, s := range sites {
		if i > 0 {
			b.WriteString(";")
		}
		fmt.Fprintf(b, "\n    mk_site %s %s\n      %s %s\n      %s\n      %s\n      %s %s %s",
			coqStr(s.Pkg), coqStr(s.Func), coqStr(s.Target), coqStr(s.Kind), coqStr(s.Text), coqStr(s.Key),
			coqBool(s.Restored), coqBool(s.RestoreFresh), coqStr(s.RestoreText))
	}
	b.WriteString("\n  ].\n\n")
}

func emitCoq(inv *Inventory) string {
	var b strings.Builder
	b.WriteString("(* GENERATED by /verif/translator/cmd/sharedgen from the Go sources of " + inv.Module + " -- do not edit. *)\n")
	b.WriteString("From Coq Require Import List String NArith.\nFrom DC Require Import Conc.SharedInv.\nImport ListNotations.\nLocal Open Scope string_scope.\n\n")
	b.WriteString("Definition pkg_vars : list var_decl :=\n  [")
	for i, v := range inv.PkgVars {
		if i > 0 {
			b.WriteString(";")
		}
		fmt.Fprintf(&b, "\n    mk_var %s %s %s %s %s %s %s %d%%N", coqStr(v.Pkg), coqStr(v.Name), coqStr(v.Type), coqStr(v.Shape),
			coqBool(v.IsRef), coqStr(v.Init), coqBool(v.Exported), v.Uses)
	}
	b.WriteString("\n  ].\n\n")
	emitSites(&b, "var_writes", inv.VarWrites)
	emitSites(&b, "var_init_writes", inv.VarInitWrites)
	emitSites(&b, "tree_writes", inv.TreeWrites)
	emitSites(&b, "map_ranges", inv.MapRanges)
	emitSites(&b, "goroutines_and_unsafe", inv.GoroutinesAndUnsafe)
	b.WriteString("Definition inventory : inventory :=\n  mk_inventory pkg_vars var_writes var_init_writes tree_writes map_ranges goroutines_and_unsafe.\n")
	return b.String()
}

type finding struct {
	Property string `json:"property"`
	Status   string `json:"status"`
	Key      string `json:"key"`
	What     string `json:"what"`
}

func readFindings(path string) ([]finding, bool) {
	data, err := os.ReadFile(path)
	if err != nil {
		if os.IsNotExist(err) {
			return nil, false
		}
		must(err)
	}
	var list []finding
	if err := json.Unmarshal(data, &list); err != nil {
		var wrapped struct {
			Findings []finding `json:"findings"`
		}
		if err2 := json.Unmarshal(data, &wrapped); err2 != nil {
			must(fmt.Errorf("%s: %v", path, err))
		}
		list = wrapped.Findings
	}
	return list, true
}

func emitAllowed(path string, fs []finding, present bool) string {
	var b strings.Builder
	b.WriteString("(* GENERATED by /verif/translator/cmd/sharedgen from " + path + " (entries with property C10 and status open) -- do not edit.\n")
	b.WriteString("   An entry here is a KNOWN FINDING (a write to shared state that is present and accepted as known), not a proof that the write is harmless. *)\n")
	b.WriteString("From Coq Require Import List String.\nImport ListNotations.\nLocal Open Scope string_scope.\n\n")
	if !present {
		b.WriteString("(* the findings file does not exist: empty allow-list *)\n")
	}
	b.WriteString("Definition allowed : list string :=\n  [")
	n := 0
	for _, f := range fs {
		if !isOpenC10(f) {
			continue
		}
		if n > 0 {
			b.WriteString(";")
		}
		n++
		fmt.Fprintf(&b, "\n    %s", coqStr(normTextKeepSpaces(f.Key)))
	}
	b.WriteString("\n  ].\n")
	return b.String()
}

// keys are already normalised when proposed by this tool; this only guards the Coq lexer
func normTextKeepSpaces(s string) string {
	var sb strings.Builder
	for i := 0; i < len(s); i++ {
		c := s[i]
		if c < 32 || c > 126 {
			fmt.Fprintf(&sb, "\\x%02x", c)
		} else {
			sb.WriteByte(c)
		}
	}
	return sb.String()
}

func main() {
	repo := flag.String("repo", "/repo", "repository root")
	out := flag.String("out", "/verif/coq/Gen", "output directory for SharedAccess.v and SharedAllowed.v")
	report := flag.String("report", "/verif/build/sharedgen_report.json", "JSON report path")
	findings := flag.String("findings", "/verif/known_findings.json", "known findings (entries with property C10 and status open become the allow-list)")
	propose := flag.String("propose", "", "if set: write proposed known-findings entries for every var/tree write site to this path")
	flag.Parse()

	absRepo, err := filepath.Abs(*repo)
	must(err)
	inv := &Inventory{Module: modulePath(absRepo), Stats: map[string]int{},
		PkgVars: []VarDecl{}, VarWrites: []Site{}, VarInitWrites: []Site{}, TreeWrites: []Site{}, MapRanges: []Site{}, GoroutinesAndUnsafe: []Site{}}
	fset := token.NewFileSet()
	std := importer.ForCompiler(fset, "source", nil)
	shared := &collector{inv: inv, seen: map[string]bool{}, ord: map[string]int{}}
	varByName := map[string]*VarDecl{}
	var order []string

	for _, tags := range [][]string{nil, {"verif"}} {
		l := &loader{repo: absRepo, module: inv.Module, tags: tags, fset: fset, std: std, cache: map[string]*loaded{}}
		c := &collector{l: l, tagStr: strings.Join(tags, ","), inv: inv, seen: shared.seen, ord: shared.ord,
			vars: map[*types.Var]*VarDecl{}, libs: map[*types.Package]*loaded{}}
		var lds []*loaded
		for _, rel := range libPkgs {
			ld, err := l.load(rel)
			must(err)
			lds = append(lds, ld)
			c.libs[ld.pkg] = ld
		}
		for _, ld := range lds {
			c.collectVars(ld)
		}
		for _, ld := range lds {
			c.collectVarWrites(ld)
			for _, f := range ld.files {
				if c.isPostParse(ld, f) {
					c.analyseTreeWrites(ld, f)
				}
			}
			c.collectMisc(ld)
		}
		// merge variable declarations across tag sets by qualified name
		for _, ld := range lds {
			var names []string
			byName := map[string]*VarDecl{}
			for _, d := range c.vars {
				if d.Pkg == ld.rel {
					names = append(names, d.Name)
					byName[d.Name] = d
				}
			}
			sort.Strings(names)
			for _, n := range names {
				q := ld.rel + "." + n
				d := byName[n]
				if old, ok := varByName[q]; ok {
					if d.Uses > old.Uses {
						old.Uses = d.Uses
					}
					if old.Init != d.Init && !strings.Contains(old.Init, d.Init) {
						old.Init = old.Init + "|" + d.Init
					}
					continue
				}
				varByName[q] = d
				order = append(order, q)
			}
		}
	}
	for _, q := range order {
		inv.PkgVars = append(inv.PkgVars, *varByName[q])
	}
	// the statistics are doubled by the two tag sets; report per run
	for k, v := range inv.Stats {
		inv.Stats[k] = v / 2
	}
	inv.Stats["pkg_vars"] = len(inv.PkgVars)
	inv.Stats["var_writes"] = len(inv.VarWrites)
	inv.Stats["var_init_writes"] = len(inv.VarInitWrites)
	inv.Stats["tree_writes"] = len(inv.TreeWrites)
	inv.Stats["map_ranges"] = len(inv.MapRanges)
	inv.Stats["goroutines_and_unsafe"] = len(inv.GoroutinesAndUnsafe)

	writeIfChanged(filepath.Join(*out, "SharedAccess.v"), []byte(emitCoq(inv)))
	fs, present := readFindings(*findings)
	writeIfChanged(filepath.Join(*out, "SharedAllowed.v"), []byte(emitAllowed(*findings, fs, present)))

	rep, err := json.MarshalIndent(inv, "", " ")
	must(err)
	writeIfChanged(*report, append(rep, '\n'))

	if *propose != "" {
		var props []finding
		for _, s := range inv.VarWrites {
			props = append(props, finding{"C10", "open", s.Key,
				fmt.Sprintf("%s writes package-level variable %s (%s) outside init: concurrent calls race on it", s.Func, s.Target, s.Kind)})
		}
		for _, s := range inv.TreeWrites {
			what := fmt.Sprintf("%s writes %s of the caller's tree (%s)", s.Func, s.Target, s.Kind)
			if s.Restored {
				what += " and restores it by defer: invisible sequentially, a data race when two goroutines explain the same statement"
			} else {
				what += " without a deferred restore"
			}
			props = append(props, finding{"C10", "open", s.Key, what})
		}
		if props == nil {
			props = []finding{}
		}
		data, err := json.MarshalIndent(props, "", " ")
		must(err)
		writeIfChanged(*propose, append(data, '\n'))
	}
	fmt.Printf("sharedgen: pkg_vars=%d var_writes=%d var_init_writes=%d tree_writes=%d map_ranges=%d goroutines_and_unsafe=%d allowed=%d\n",
		len(inv.PkgVars), len(inv.VarWrites), len(inv.VarInitWrites), len(inv.TreeWrites), len(inv.MapRanges), len(inv.GoroutinesAndUnsafe), countC10(fs))
}

// only OPEN findings suppress anything; status "fixed" entries record history
func isOpenC10(f finding) bool { return f.Property == "C10" && f.Status == "open" && f.Key != "" }

func countC10(fs []finding) int {
	n := 0
	for _, f := range fs {
		if isOpenC10(f) {
			n++
		}
	}
	return n
}
