package main

import (
	"go/ast"
	"go/token"
	"go/types"
)

// addrTaken: local variables whose address is taken (they are not tracked: every read is unknown)
func (pk *pkgInfo) addrTaken(fi *fnInfo) map[*types.Var]bool {
	m := map[*types.Var]bool{}
	ast.Inspect(fi.decl, func(n ast.Node) bool {
		switch x := n.(type) {
		case *ast.UnaryExpr:
			if x.Op == token.AND {
				if id, ok := ast.Unparen(x.X).(*ast.Ident); ok {
					if o, ok := pk.info.Uses[id].(*types.Var); ok {
						m[o] = true
					}
				}
			}
		case *ast.FuncLit:
			ast.Inspect(x, func(k ast.Node) bool {
				if id, ok := k.(*ast.Ident); ok {
					if o, ok := pk.info.Uses[id].(*types.Var); ok {
						m[o] = true
					}
				}
				return true
			})
		}
		return true
	})
	return m
}

func (pk *pkgInfo) buildFunc(fi *fnInfo) *cfg {
	// pass 1 discovers the pseudo-variables, pass 2 builds the graph
	pvs := map[string]*pvInfo{}
	n0 := len(pk.problems)
	pk.buildPass(fi, pvs, true)
	pk.problems = pk.problems[:n0]
	return pk.buildPass(fi, pvs, false)
}

func (pk *pkgInfo) buildPass(fi *fnInfo, pvs map[string]*pvInfo, discover bool) *cfg {
	g := &cfg{fn: fi, varOf: map[*types.Var]int{}, fieldVar: map[string]int{}}
	b := &builder{pk: pk, fn: fi, g: g, labels: map[string]*node{}, textN: map[string]int{}, addrTk: pk.addrTaken(fi),
		pvs: pvs, discover: discover, fresh: pk.freshLocals(fi)}
	sig := fi.sig
	// parameters: variables 0..k-1
	for _, p := range trackedParams(sig) {
		var o *types.Var
		if p.idx < 0 {
			o = sig.Recv()
		} else {
			o = sig.Params().At(p.idx)
		}
		var id int
		if b.addrTk[o] {
			// the parameter itself stays variable i; reads go through unknown (lookup refuses it)
			id = b.newVar(o.Name(), nil, o.Type(), false)
		} else {
			id = b.newVar(o.Name(), o, o.Type(), false)
		}
		g.params = append(g.params, id)
	}
	for _, r := range trackedResults(sig) {
		o := sig.Results().At(r.idx)
		id := -1
		if o.Name() != "" && o.Name() != "_" && !b.addrTk[o] && !isBool(o.Type()) {
			id = b.newVar(o.Name(), o, o.Type(), false)
		}
		g.results = append(g.results, id)
		g.nresults++
	}
	g.discard = b.newVar("_", nil, nil, true)
	entry := b.nop()
	b.cur = entry
	// named results start as zero values
	for _, id := range g.results {
		if id >= 0 {
			b.set(id, rNil, 0, fi.decl.Pos())
		}
	}
	b.initPVs()
	b.block(fi.decl.Body.List)
	// falling off the end
	if b.cur != nil {
		b.ret(&ast.ReturnStmt{Return: fi.decl.End()})
	}
	for name, ln := range b.labels {
		if ln.s1 == nil {
			pk.problem(fi.decl.Pos(), "label %s without statement in %s", name, fi.name)
		}
	}
	threadBools(entry)
	g.entry = resolve(entry)
	if g.entry == nil {
		g.entry = &node{kind: kRet}
	}
	// number the reachable nodes in DFS preorder, resolving nops; dead ends (panic, empty loops) spin
	spin := &node{kind: kBranch}
	spin.s1, spin.s2 = spin, spin
	fix := func(m *node) *node {
		if r := resolve(m); r != nil {
			return r
		}
		return spin
	}
	seen := map[*node]bool{}
	stack := []*node{g.entry}
	for len(stack) > 0 {
		n := stack[len(stack)-1]
		stack = stack[:len(stack)-1]
		if seen[n] {
			continue
		}
		seen[n] = true
		n.id = len(g.nodes)
		g.nodes = append(g.nodes, n)
		if n.kind == kRet || n.kind == kHalt {
			continue
		}
		n.s1 = fix(n.s1)
		if n.kind == kBranch || n.kind == kGuard || n.kind == kTypeTest {
			n.s2 = fix(n.s2)
			stack = append(stack, n.s2)
		}
		stack = append(stack, n.s1)
	}
	// sites of unreachable nodes disappear
	var sites []*site
	for _, s := range g.sites {
		if seen[s.node] {
			sites = append(sites, s)
		}
	}
	g.sites = sites
	var stores []*site
	for _, s := range g.stores {
		if seen[s.node] {
			stores = append(stores, s)
		}
	}
	g.stores = stores
	var convs []*convSite
	for _, c := range g.convs {
		if c.node == nil || seen[c.node] {
			convs = append(convs, c)
		}
	}
	g.convs = convs
	return g
}

// resolve skips nops; a cycle of nops yields nil (a dead end)
func resolve(n *node) *node {
	seen := map[*node]bool{}
	for n != nil && n.kind == kNop {
		if seen[n] {
			return nil
		}
		seen[n] = true
		n = n.s1
	}
	return n
}

// threadBools: after `v, ok := x.(T)` the two outcomes reach the following test of ok (through joins
// only, no statement in between) knowing its value.
func threadBools(entry *node) {
	seen := map[*node]bool{}
	var all []*node
	stack := []*node{entry}
	for len(stack) > 0 {
		n := stack[len(stack)-1]
		stack = stack[:len(stack)-1]
		if n == nil || seen[n] {
			continue
		}
		seen[n] = true
		all = append(all, n)
		stack = append(stack, n.s1, n.s2)
	}
	for _, n := range all {
		if n.kind != kNop || n.assumeVar == nil {
			continue
		}
		for k := 0; k < 8; k++ {
			m := n.s1
			steps := 0
			for m != nil && m.kind == kNop && !m.barrier && m.assumeVar == nil && steps < 1000 {
				m = m.s1
				steps++
			}
			if m == nil || m.kind != kBranch || m.boolVar != n.assumeVar {
				break
			}
			if n.assumeVal {
				n.s1 = m.s1
			} else {
				n.s1 = m.s2
			}
		}
	}
}
