package main

import (
	"fmt"
	"math/big"
	"sort"
)

// ---- bit sets ----

type bitset []uint64

func newSet(n int, full bool) bitset {
	s := make(bitset, (n+63)/64)
	if full {
		for i := 0; i < n; i++ {
			s[i/64] |= 1 << uint(i%64)
		}
	}
	return s
}
func (s bitset) has(i int) bool { return i >= 0 && i/64 < len(s) && s[i/64]&(1<<uint(i%64)) != 0 }
func (s bitset) set(i int, v bool) {
	if v {
		s[i/64] |= 1 << uint(i%64)
	} else {
		s[i/64] &^= 1 << uint(i%64)
	}
}
func (s bitset) clone() bitset { return append(bitset{}, s...) }
func (s bitset) andWith(t bitset) bool { // s &= t; reports a change
	ch := false
	for i := range s {
		n := s[i] & t[i]
		if n != s[i] {
			s[i] = n
			ch = true
		}
	}
	return ch
}
func (s bitset) subsetOf(t bitset) bool {
	for i := range s {
		if s[i]&^t[i] != 0 {
			return false
		}
	}
	return true
}
func (s bitset) big() *big.Int {
	r := new(big.Int)
	for i := len(s) - 1; i >= 0; i-- {
		r.Lsh(r, 64)
		r.Or(r, new(big.Int).SetUint64(s[i]))
	}
	return r
}

// ---- specs ----

type spec struct {
	pNN, pCL []bool // what the callers guarantee for the tracked parameters
	rNN, rCL []bool // what the function guarantees for the tracked results
}

type analysis struct {
	pk    *pkgInfo
	entry *fnInfo
	funcs []*fnInfo // reachable functions, in emission order (entry first)
	specs map[*fnInfo]*spec
	// per round accumulation
	accP    map[*fnInfo]*spec
	sites   []*site
	demoted []string
}

type state struct{ nn, cl bitset }

func (st state) clone() state { return state{st.nn.clone(), st.cl.clone()} }

func (st state) setVar(x int, nn, cl bool) {
	st.nn.set(x, nn)
	st.cl.set(x, cl)
}

func (st state) opAV(op opnd) (bool, bool) {
	switch op.k {
	case opGood:
		return true, true
	case opNil:
		return false, true
	}
	return st.nn.has(op.v), st.cl.has(op.v)
}

// rhsAV: abstract value of a right-hand side
func rhsAV(st state, n *node) (bool, bool) {
	y := n.y
	switch n.rhs {
	case rAlloc:
		return true, true
	case rNil:
		return false, true
	case rCopy:
		return st.nn.has(y), st.cl.has(y)
	case rUnknown:
		return false, true
	case rUnknownDirty:
		return false, false
	case rConv:
		return true, st.nn.has(y) && st.cl.has(y)
	case rNormalize:
		return st.nn.has(y) && st.cl.has(y), true
	case rAssert:
		return st.nn.has(y) && (n.toIface || st.cl.has(y)), !n.toIface || st.cl.has(y)
	}
	return false, false
}

// flow: the state on the k-th outgoing edge (k = 0: s1, k = 1: s2) of node n entered with st
func (a *analysis) flow(n *node, st state, k int) state {
	out := st.clone()
	switch n.kind {
	case kSet:
		nn, cl := rhsAV(st, n)
		out.setVar(n.x, nn, cl)
	case kGuard:
		if k == 0 {
			out.nn.set(n.x, true)
		} else {
			out.nn.set(n.x, false)
			out.cl.set(n.x, true)
		}
	case kTypeTest:
		if k == 0 {
			ycl := st.cl.has(n.y)
			out.nn.set(n.y, true)
			notn := !n.toIface && n.ptype >= 0 && !a.pk.tn[n.ptype]
			out.setVar(n.x, n.toIface || ycl || notn, !n.toIface || ycl)
		} else {
			out.setVar(n.x, false, true)
		}
	case kUse:
		out.setVar(n.x, true, true)
	case kStore:
		switch n.mode {
		case storeStrict:
			out.setVar(n.x, true, true)
		case storeClean:
			out.cl.set(n.x, true)
		}
	case kCall:
		sp := a.specs[n.callee]
		for j, r := range n.rets {
			if r >= 0 {
				out.setVar(r, sp.rNN[j], sp.rCL[j])
			}
		}
	}
	return out
}

func succs(n *node) []*node {
	switch n.kind {
	case kRet, kHalt:
		return nil
	case kBranch, kGuard, kTypeTest:
		return []*node{n.s1, n.s2}
	}
	return []*node{n.s1}
}

// intra: forward must-analysis of one function under the current specs
func (a *analysis) intra(fi *fnInfo) {
	g := fi.g
	nv := len(g.vars)
	for _, n := range g.nodes {
		n.visited = false
		n.nn, n.cl = nil, nil
	}
	sp := a.specs[fi]
	st := state{newSet(nv, false), newSet(nv, false)}
	for i, v := range g.params {
		st.setVar(v, sp.pNN[i], sp.pCL[i])
	}
	g.entry.nn, g.entry.cl, g.entry.visited = st.nn, st.cl, true
	work := []*node{g.entry}
	for len(work) > 0 {
		n := work[len(work)-1]
		work = work[:len(work)-1]
		in := state{n.nn, n.cl}
		for k, s := range succs(n) {
			if n.kind == kGuard && k == 1 && in.nn.has(n.x) {
				continue // the nil branch of a test of a certainly non-nil variable is dead
			}
			out := a.flow(n, in, k)
			if !s.visited {
				s.visited = true
				s.nn, s.cl = out.nn, out.cl
				work = append(work, s)
				continue
			}
			c1 := s.nn.andWith(out.nn)
			c2 := s.cl.andWith(out.cl)
			if c1 || c2 {
				work = append(work, s)
			}
		}
	}
}

func newSpec(fi *fnInfo, v bool) *spec {
	np := len(trackedParams(fi.sig))
	nr := len(trackedResults(fi.sig))
	sp := &spec{make([]bool, np), make([]bool, np), make([]bool, nr), make([]bool, nr)}
	for i := range sp.pNN {
		sp.pNN[i], sp.pCL[i] = v, v
	}
	for i := range sp.rNN {
		sp.rNN[i], sp.rCL[i] = v, v
	}
	return sp
}

// solve: greatest fixpoint of the specs (parameters: meet over the call sites; results: meet over the
// return statements), starting from "everything usable"
func (a *analysis) solve() int {
	a.specs = map[*fnInfo]*spec{}
	for _, fi := range a.funcs {
		a.specs[fi] = newSpec(fi, true)
	}
	rounds := 0
	for {
		rounds++
		acc := map[*fnInfo]*spec{}
		for _, fi := range a.funcs {
			acc[fi] = newSpec(fi, true)
		}
		for _, fi := range a.funcs {
			a.intra(fi)
			for _, n := range fi.g.nodes {
				if !n.visited {
					continue
				}
				st := state{n.nn, n.cl}
				switch n.kind {
				case kCall:
					ac := acc[n.callee]
					for i, op := range n.args {
						nn, cl := st.opAV(op)
						ac.pNN[i] = ac.pNN[i] && nn
						ac.pCL[i] = ac.pCL[i] && cl
					}
				case kRet:
					ac := acc[fi]
					for j, op := range n.args {
						nn, cl := st.opAV(op)
						ac.rNN[j] = ac.rNN[j] && nn
						ac.rCL[j] = ac.rCL[j] && cl
					}
				}
			}
		}
		// the entry function's parameters are assumed usable (Parse(ctx, r) with non-nil ctx and r)
		ea := acc[a.entry]
		for i := range ea.pNN {
			ea.pNN[i], ea.pCL[i] = true, true
		}
		changed := false
		for _, fi := range a.funcs {
			sp, ac := a.specs[fi], acc[fi]
			for i := range sp.pNN {
				if sp.pNN[i] && !ac.pNN[i] {
					sp.pNN[i] = false
					changed = true
				}
				if sp.pCL[i] && !ac.pCL[i] {
					sp.pCL[i] = false
					changed = true
				}
			}
			for j := range sp.rNN {
				if sp.rNN[j] && !ac.rNN[j] {
					sp.rNN[j] = false
					changed = true
				}
				if sp.rCL[j] && !ac.rCL[j] {
					sp.rCL[j] = false
					changed = true
				}
			}
		}
		if !changed {
			return rounds
		}
		if rounds > 200 {
			panic("spec iteration does not converge")
		}
	}
}

// ---- verdicts ----

func (a *analysis) siteCertified(s *site) bool {
	n := s.node
	if !n.visited {
		return true // unreachable under the certificate
	}
	switch n.kind {
	case kUse:
		return n.nn.has(n.x) && n.cl.has(n.x)
	case kStore:
		return n.cl.has(n.x) && (!n.strict || n.nn.has(n.x))
	}
	return false
}

// selfCheck replays the local checker of NilCheck.v on the certificate; returns the failures
// (sites in allowed are accepted)
func (a *analysis) selfCheck(allowed map[int]bool, c03 bool) []string {
	var bad []string
	for _, fi := range a.funcs {
		g := fi.g
		sp := a.specs[fi]
		for _, n := range g.nodes {
			if !n.visited {
				// unreachable node: annotate with everything (vacuous)
				nv := len(g.vars)
				n.nn, n.cl = newSet(nv, true), newSet(nv, true)
			}
		}
		for _, n := range g.nodes {
			st := state{n.nn, n.cl}
			for k, s := range succs(n) {
				if n.kind == kGuard && k == 1 && n.nn.has(n.x) {
					continue
				}
				out := a.flow(n, st, k)
				if !s.nn.subsetOf(out.nn) || !s.cl.subsetOf(out.cl) {
					bad = append(bad, fmt.Sprintf("%s node %d edge %d: annotation not implied", fi.name, n.id, k))
				}
			}
			switch n.kind {
			case kSet:
				if n.rhs == rConv && !n.nn.has(n.y) && !a.pk.tn[n.ptype] {
					bad = append(bad, fmt.Sprintf("%s node %d: conversion of a possibly nil %s", fi.name, n.id, a.pk.typeNames[n.ptype]))
				}
			case kUse:
				if !(n.nn.has(n.x) && n.cl.has(n.x)) && !allowed[n.site.id] {
					bad = append(bad, fmt.Sprintf("%s node %d: use %s", fi.name, n.id, n.site.key))
				}
			case kStore:
				okStore := true
				switch n.mode {
				case storeStrict:
					okStore = n.nn.has(n.x) && n.cl.has(n.x)
				case storeClean:
					okStore = n.cl.has(n.x)
				case storeDirty:
					okStore = !c03 || n.cl.has(n.x)
				}
				if !okStore && !allowed[n.site.id] {
					bad = append(bad, fmt.Sprintf("%s node %d: store %s", fi.name, n.id, n.site.key))
				}
			case kCall:
				cs := a.specs[n.callee]
				if len(n.args) != len(cs.pNN) || len(n.rets) != len(cs.rNN) {
					bad = append(bad, fmt.Sprintf("%s node %d: arity of call to %s", fi.name, n.id, n.callee.name))
					continue
				}
				for i, op := range n.args {
					nn, cl := st.opAV(op)
					if (cs.pNN[i] && !nn) || (cs.pCL[i] && !cl) {
						bad = append(bad, fmt.Sprintf("%s node %d: pass %d to %s", fi.name, n.id, i, n.callee.name))
					}
				}
			case kRet:
				if len(n.args) != len(sp.rNN) {
					bad = append(bad, fmt.Sprintf("%s node %d: arity of return", fi.name, n.id))
					continue
				}
				for j, op := range n.args {
					nn, cl := st.opAV(op)
					if (sp.rNN[j] && !nn) || (sp.rCL[j] && !cl) {
						bad = append(bad, fmt.Sprintf("%s node %d: return %d", fi.name, n.id, j))
					}
				}
			}
		}
	}
	sort.Strings(bad)
	return bad
}

// prune drops the nodes the certificate proves dead (reachable only through the nil branch of a test
// of a certainly non-nil variable) and renumbers the rest; the dead branch of such a test is redirected
// to its live branch (the checker does not look at it).
func (a *analysis) prune() int {
	dropped := 0
	for _, fi := range a.funcs {
		g := fi.g
		var live []*node
		for _, n := range g.nodes {
			if n.visited {
				n.id = len(live)
				live = append(live, n)
			} else {
				dropped++
			}
		}
		for _, n := range live {
			if n.kind == kGuard && !n.s2.visited {
				n.s2 = n.s1
			}
		}
		g.nodes = live
		keep := func(ss []*site) []*site {
			var out []*site
			for _, s := range ss {
				if s.node.visited {
					out = append(out, s)
				}
			}
			return out
		}
		g.sites = keep(g.sites)
		g.stores = keep(g.stores)
		var convs []*convSite
		for _, c := range g.convs {
			if c.node == nil || c.node.visited {
				convs = append(convs, c)
			}
		}
		g.convs = convs
	}
	a.sites = nil
	for _, fi := range a.funcs {
		for _, s := range fi.g.sites {
			s.id = len(a.sites)
			a.sites = append(a.sites, s)
		}
	}
	return dropped
}
