package main

import (
	"fmt"
	"go/ast"
	"go/build"
	"go/importer"
	"go/parser"
	"go/printer"
	"go/token"
	"go/types"
	"path/filepath"
	"sort"
	"strings"
)

// fnInfo is one function or method declared in package parser.
type fnInfo struct {
	name    string // "parseFoo" (methods of *Parser and package functions share one name space in Go)
	decl    *ast.FuncDecl
	obj     *types.Func
	sig     *types.Signature
	callees map[*fnInfo]bool
	callers map[*fnInfo]bool
	id      int  // index in the emitted program
	reach   bool // reachable from the entry function
	// fields (struct type name + "." + field) assigned in the function or, transitively, in its callees
	writes map[string]bool
	direct map[string]bool // assigned in the function itself
	g      *cfg
}

// astMethod: a method declared in package ast (source loaded separately)
type astMethod struct {
	recvName string // receiver identifier ("" or "_" : never dereferenced)
	derefs   bool   // the body mentions the receiver
	ptrRecv  bool
}

type pkgInfo struct {
	repo     string
	fset     *token.FileSet
	files    []*ast.File
	info     *types.Info
	pkg      *types.Package
	parserT  *types.Named // type Parser
	astPkg   *types.Package
	funcs    map[string]*fnInfo
	byObj    map[*types.Func]*fnInfo
	names    []string // sorted
	problems []string // things the translator cannot classify
	// ast package sources
	astFiles   []*ast.File
	astMethods map[string]*astMethod // "Type.Method"
	astWrites  bool                  // some ast method assigns through its receiver
	escaped    map[string]bool       // fields whose address is taken
	strict     map[string]bool       // strict cell classes (fields.go)
	dirty      map[string]bool       // interface types whose heap cells may hold typed nils
	typeIDs    map[string]int        // pointer types (by name) -> number
	typeNames  []string
	tn         map[int]bool // pointer types of which a typed nil may exist
	errHalts   bool         // C03 reading: recording a parse error ends the run
}

func (pk *pkgInfo) posString(p token.Pos) string {
	if !p.IsValid() {
		return "-"
	}
	ps := pk.fset.Position(p)
	rel, err := filepath.Rel(pk.repo, ps.Filename)
	if err != nil {
		rel = ps.Filename
	}
	return fmt.Sprintf("%s:%d:%d", rel, ps.Line, ps.Column)
}

func (pk *pkgInfo) problem(p token.Pos, format string, args ...interface{}) {
	pk.problems = append(pk.problems, pk.posString(p)+": "+fmt.Sprintf(format, args...))
}

// text: normalised source text of an expression or statement (single spaces, one line)
func (pk *pkgInfo) text(n ast.Node) string {
	var sb strings.Builder
	printer.Fprint(&sb, pk.fset, n)
	return strings.Join(strings.Fields(sb.String()), " ")
}

// dirImporter resolves imports with the parser directory as the source directory
// (so that the module's own packages are found through the go command).
type dirImporter struct {
	imp types.ImporterFrom
	dir string
}

func (d *dirImporter) Import(path string) (*types.Package, error) {
	return d.imp.ImportFrom(path, d.dir, 0)
}

func loadPackage(repo string) *pkgInfo {
	pk := &pkgInfo{repo: repo, fset: token.NewFileSet(), funcs: map[string]*fnInfo{}, byObj: map[*types.Func]*fnInfo{},
		astMethods: map[string]*astMethod{}}
	dir := filepath.Join(repo, "parser")
	ctx := build.Default
	ctx.BuildTags = nil // the plain build
	bp, err := ctx.ImportDir(dir, 0)
	must(err)
	names := append([]string{}, bp.GoFiles...)
	sort.Strings(names)
	for _, n := range names {
		f, err := parser.ParseFile(pk.fset, filepath.Join(dir, n), nil, parser.ParseComments)
		must(err)
		pk.files = append(pk.files, f)
	}
	imp := importer.ForCompiler(pk.fset, "source", nil)
	conf := types.Config{Importer: &dirImporter{imp: imp.(types.ImporterFrom), dir: dir}}
	pk.info = &types.Info{
		Types:      map[ast.Expr]types.TypeAndValue{},
		Defs:       map[*ast.Ident]types.Object{},
		Uses:       map[*ast.Ident]types.Object{},
		Selections: map[*ast.SelectorExpr]*types.Selection{},
		Implicits:  map[ast.Node]types.Object{},
	}
	pk.pkg, err = conf.Check("github.com/sqlc-dev/doubleclick/parser", pk.fset, pk.files, pk.info)
	must(err)

	pobj := pk.pkg.Scope().Lookup("Parser")
	if pobj == nil {
		must(fmt.Errorf("type Parser not found in package parser"))
	}
	pk.parserT = pobj.Type().(*types.Named)
	for _, im := range pk.pkg.Imports() {
		if im.Name() == "ast" && strings.HasSuffix(im.Path(), "/ast") {
			pk.astPkg = im
		}
	}
	if pk.astPkg == nil {
		must(fmt.Errorf("package ast not imported by package parser"))
	}

	for _, f := range pk.files {
		for _, d := range f.Decls {
			fd, ok := d.(*ast.FuncDecl)
			if !ok || fd.Body == nil {
				continue
			}
			obj := pk.info.Defs[fd.Name].(*types.Func)
			fi := &fnInfo{name: fd.Name.Name, decl: fd, obj: obj, sig: obj.Type().(*types.Signature),
				callees: map[*fnInfo]bool{}, callers: map[*fnInfo]bool{}, writes: map[string]bool{}}
			if fd.Recv != nil {
				rt := fi.sig.Recv().Type()
				if !pk.isParserPtr(rt) {
					fi.name = types.TypeString(rt, func(*types.Package) string { return "" }) + "." + fd.Name.Name
				}
			}
			if _, dup := pk.funcs[fi.name]; dup {
				must(fmt.Errorf("duplicate function name %s", fi.name))
			}
			pk.funcs[fi.name] = fi
			pk.byObj[obj] = fi
		}
	}
	for n := range pk.funcs {
		pk.names = append(pk.names, n)
	}
	sort.Strings(pk.names)
	pk.loadAst()
	pk.checkForms()
	pk.callGraph()
	return pk
}

// loadAst parses package ast (syntax only): which methods dereference their receiver, the struct schema
func (pk *pkgInfo) loadAst() {
	dir := filepath.Join(pk.repo, "ast")
	ctx := build.Default
	ctx.BuildTags = nil
	bp, err := ctx.ImportDir(dir, 0)
	must(err)
	names := append([]string{}, bp.GoFiles...)
	sort.Strings(names)
	for _, n := range names {
		f, err := parser.ParseFile(pk.fset, filepath.Join(dir, n), nil, 0)
		must(err)
		pk.astFiles = append(pk.astFiles, f)
		for _, d := range f.Decls {
			fd, ok := d.(*ast.FuncDecl)
			if !ok || fd.Recv == nil || len(fd.Recv.List) != 1 {
				continue
			}
			m := &astMethod{}
			rt := fd.Recv.List[0].Type
			if st, ok := rt.(*ast.StarExpr); ok {
				m.ptrRecv = true
				rt = st.X
			}
			tn, ok := rt.(*ast.Ident)
			if !ok {
				continue
			}
			if len(fd.Recv.List[0].Names) == 1 {
				m.recvName = fd.Recv.List[0].Names[0].Name
			}
			if fd.Body == nil {
				m.derefs = true
			} else if m.recvName != "" && m.recvName != "_" {
				ast.Inspect(fd.Body, func(n ast.Node) bool {
					switch x := n.(type) {
					case *ast.Ident:
						if x.Name == m.recvName {
							m.derefs = true
						}
					case *ast.AssignStmt:
						for _, l := range x.Lhs {
							if se, ok := l.(*ast.SelectorExpr); ok {
								_ = se
								pk.astWrites = true
							}
							if _, ok := l.(*ast.StarExpr); ok {
								pk.astWrites = true
							}
						}
					case *ast.IncDecStmt:
						if _, ok := x.X.(*ast.Ident); !ok {
							pk.astWrites = true
						}
					}
					return true
				})
			}
			pk.astMethods[tn.Name+"."+fd.Name.Name] = m
		}
	}
}

func (pk *pkgInfo) isParserPtr(t types.Type) bool {
	if p, ok := t.(*types.Pointer); ok {
		return types.Identical(p.Elem(), pk.parserT)
	}
	return false
}

// calleeOf resolves the statically known callee declared in package parser, if any.
func (pk *pkgInfo) calleeOf(call *ast.CallExpr) *fnInfo {
	var id *ast.Ident
	switch f := ast.Unparen(call.Fun).(type) {
	case *ast.Ident:
		id = f
	case *ast.SelectorExpr:
		id = f.Sel
	default:
		return nil
	}
	if fo, ok := pk.info.Uses[id].(*types.Func); ok {
		return pk.byObj[fo]
	}
	return nil
}

// checkForms: constructs the translation does not model
func (pk *pkgInfo) checkForms() {
	callFun := map[*ast.Ident]bool{}
	for _, f := range pk.files {
		ast.Inspect(f, func(n ast.Node) bool {
			if call, ok := n.(*ast.CallExpr); ok {
				switch fx := ast.Unparen(call.Fun).(type) {
				case *ast.Ident:
					callFun[fx] = true
				case *ast.SelectorExpr:
					callFun[fx.Sel] = true
				}
			}
			return true
		})
	}
	for _, name := range pk.names {
		fi := pk.funcs[name]
		ast.Inspect(fi.decl.Body, func(n ast.Node) bool {
			switch x := n.(type) {
			case *ast.FuncLit:
				pk.problem(x.Pos(), "function literal (in %s)", name)
			case *ast.GoStmt:
				pk.problem(x.Pos(), "go statement (in %s)", name)
			case *ast.DeferStmt:
				pk.problem(x.Pos(), "defer statement (in %s)", name)
			case *ast.CallExpr:
				if id, ok := ast.Unparen(x.Fun).(*ast.Ident); ok && id.Name == "recover" {
					if _, isB := pk.info.Uses[id].(*types.Builtin); isB {
						pk.problem(x.Pos(), "recover (in %s)", name)
					}
				}
			}
			return true
		})
	}
	var ids []*ast.Ident
	for id := range pk.info.Uses {
		ids = append(ids, id)
	}
	sort.Slice(ids, func(i, j int) bool { return ids[i].Pos() < ids[j].Pos() })
	for _, id := range ids {
		if fo, ok := pk.info.Uses[id].(*types.Func); ok {
			if fi := pk.byObj[fo]; fi != nil && !callFun[id] {
				pk.problem(id.Pos(), "function value of %s", fi.name)
			}
		}
	}
}

func (pk *pkgInfo) callGraph() {
	for _, name := range pk.names {
		fi := pk.funcs[name]
		ast.Inspect(fi.decl.Body, func(n ast.Node) bool {
			if call, ok := n.(*ast.CallExpr); ok {
				if c := pk.calleeOf(call); c != nil {
					fi.callees[c] = true
					c.callers[fi] = true
				}
			}
			return true
		})
	}
}

// markReachable from the entry function
func (pk *pkgInfo) markReachable(entry *fnInfo) {
	var dfs func(f *fnInfo)
	dfs = func(f *fnInfo) {
		if f.reach {
			return
		}
		f.reach = true
		for c := range f.callees {
			dfs(c)
		}
	}
	dfs(entry)
}

// ---- type classification ----

// tracked: values of this type can be nil
func tracked(t types.Type) bool {
	if t == nil {
		return false
	}
	switch u := t.Underlying().(type) {
	case *types.Pointer, *types.Interface, *types.Slice, *types.Map, *types.Chan, *types.Signature:
		return true
	case *types.Basic:
		return u.Kind() == types.UnsafePointer || u.Kind() == types.UntypedNil
	}
	return false
}

func isIface(t types.Type) bool {
	if t == nil {
		return false
	}
	_, ok := t.Underlying().(*types.Interface)
	return ok
}

func isPtr(t types.Type) bool {
	if t == nil {
		return false
	}
	_, ok := t.Underlying().(*types.Pointer)
	return ok
}

func isMap(t types.Type) bool {
	if t == nil {
		return false
	}
	_, ok := t.Underlying().(*types.Map)
	return ok
}

// structOf: the named struct type behind t or *t ("" when there is none)
func structName(t types.Type) string {
	if t == nil {
		return ""
	}
	if p, ok := t.Underlying().(*types.Pointer); ok {
		t = p.Elem()
	}
	if n, ok := t.(*types.Named); ok {
		if _, ok := n.Underlying().(*types.Struct); ok {
			if n.Obj().Pkg() != nil {
				return n.Obj().Pkg().Name() + "." + n.Obj().Name()
			}
			return n.Obj().Name()
		}
	}
	return ""
}

// typeID numbers the pointer types that take part in conversions and type tests
func (pk *pkgInfo) typeID(t types.Type) int {
	if pk.typeIDs == nil {
		pk.typeIDs = map[string]int{}
	}
	k := types.TypeString(t, func(p *types.Package) string { return p.Name() })
	if id, ok := pk.typeIDs[k]; ok {
		return id
	}
	id := len(pk.typeNames)
	pk.typeIDs[k] = id
	pk.typeNames = append(pk.typeNames, k)
	return id
}
