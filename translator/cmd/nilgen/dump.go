package main

import (
	"fmt"
	"sort"
	"strings"
)

func (a *analysis) opStr(g *cfg, op opnd) string {
	switch op.k {
	case opGood:
		return "GOOD"
	case opNil:
		return "nil"
	}
	return g.vars[op.v].name
}

func (a *analysis) nodeStr(g *cfg, n *node) string {
	v := func(i int) string {
		if i < 0 {
			return "_"
		}
		return fmt.Sprintf("%s/%d", g.vars[i].name, i)
	}
	switch n.kind {
	case kSet:
		r := [...]string{"Alloc", "Nil", "Copy", "Unknown", "UnknownDirty", "Conv", "Normalize", "Assert"}[n.rhs]
		if n.rhs == rCopy || n.rhs == rConv || n.rhs == rNormalize || n.rhs == rAssert {
			r += " " + v(n.y)
		}
		return fmt.Sprintf("%s := %s -> %d", v(n.x), r, n.s1.id)
	case kGuard:
		return fmt.Sprintf("guard %s nn:%d nil:%d", v(n.x), n.s1.id, n.s2.id)
	case kTypeTest:
		return fmt.Sprintf("%s := typetest %s iface=%v type=%d ok:%d fail:%d", v(n.x), v(n.y), n.toIface, n.ptype, n.s1.id, n.s2.id)
	case kUse:
		return fmt.Sprintf("use %s [%s] -> %d", v(n.x), n.site.key, n.s1.id)
	case kStore:
		return fmt.Sprintf("store %s strict=%v [%s] -> %d", v(n.x), n.strict, n.site.key, n.s1.id)
	case kCall:
		var as, rs []string
		for _, op := range n.args {
			as = append(as, a.opStr(g, op))
		}
		for _, r := range n.rets {
			rs = append(rs, v(r))
		}
		return fmt.Sprintf("%s := call %s(%s) -> %d", strings.Join(rs, ","), n.callee.name, strings.Join(as, ","), n.s1.id)
	case kBranch:
		return fmt.Sprintf("branch %d %d", n.s1.id, n.s2.id)
	case kRet:
		var as []string
		for _, op := range n.args {
			as = append(as, a.opStr(g, op))
		}
		return "ret " + strings.Join(as, ",")
	case kHalt:
		return "halt (parse error recorded)"
	}
	return "?"
}

func (a *analysis) dump(fi *fnInfo) {
	g := fi.g
	sp := a.specs[fi]
	fmt.Printf("== %s params nn=%v cl=%v results nn=%v cl=%v\n", fi.name, sp.pNN, sp.pCL, sp.rNN, sp.rCL)
	for _, n := range g.nodes {
		var nn []string
		for i, vi := range g.vars {
			switch {
			case n.nn.has(i) && n.cl.has(i):
				nn = append(nn, vi.name)
			case n.nn.has(i):
				nn = append(nn, vi.name+"?t")
			}
		}
		fmt.Printf("%4d  %-70s %s  {%s}\n", n.id, a.nodeStr(g, n), a.pk.posString(n.pos), strings.Join(nn, " "))
	}
}

// whyWrites prints a shortest call chain from fi to a function that assigns field sf
func (pk *pkgInfo) whyWrites(fi *fnInfo, sf string) {
	prev := map[*fnInfo]*fnInfo{fi: nil}
	queue := []*fnInfo{fi}
	for len(queue) > 0 {
		f := queue[0]
		queue = queue[1:]
		star := sf[:strings.LastIndex(sf, ".")] + ".*"
		if f.direct[sf] || f.direct["*"] || f.direct[star] {
			var path []string
			for g := f; g != nil; g = prev[g] {
				path = append([]string{g.name}, path...)
			}
			fmt.Println("writes", sf, ":", strings.Join(path, " -> "))
			return
		}
		var cs []*fnInfo
		for c := range f.callees {
			cs = append(cs, c)
		}
		sort.Slice(cs, func(i, j int) bool { return cs[i].name < cs[j].name })
		for _, c := range cs {
			if _, ok := prev[c]; !ok {
				prev[c] = f
				queue = append(queue, c)
			}
		}
	}
	fmt.Println("no function reachable from", fi.name, "writes", sf)
}
