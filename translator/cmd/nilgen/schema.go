package main

import (
	"fmt"
	"go/ast"
	"go/types"
	"reflect"
	"sort"
	"strings"
)

// AstSchema: every struct type of package ast (and the struct types of other packages that its fields
// embed by value, e.g. token.Position) with its fields classified for encoding/json; the implementers
// of every interface type used by a field (closed world: the named types of package ast whose pointer
// implements it); the static types that package parser stores into fields of type interface{}.

type schemaField struct {
	Name    string `json:"name"`
	Type    string `json:"type"`    // Go type
	Coq     string `json:"-"`       // jtype term
	Skipped bool   `json:"skipped"` // json:"-" or unexported: not traversed by encoding/json
}

type schemaStruct struct {
	Name   string         `json:"name"`
	Fields []*schemaField `json:"fields"`
	Custom bool           `json:"custom_marshal"`
	// the custom marshaller replaces a non-finite float64 held directly by this field (index among all fields)
	FixField int `json:"fix_field"`
}

type schema struct {
	Structs []*schemaStruct     `json:"structs"`
	Impls   map[string][]string `json:"implementers"`
	AnyVals map[string][]string `json:"any_value_types"`
	impls   map[string][]string // coq terms
	anyCoq  []string
	pending []*types.Named
	seen    map[string]bool
	ifaces  map[string]*types.Interface
	pkgAst  *types.Package
}

func typeName(t types.Type) string {
	return types.TypeString(t, func(p *types.Package) string { return p.Name() })
}

func (sc *schema) jtype(t types.Type) string {
	switch u := t.(type) {
	case *types.Named:
		if _, ok := u.Underlying().(*types.Struct); ok {
			sc.want(u)
			return fmt.Sprintf("(JStruct %q)", typeName(u))
		}
		if i, ok := u.Underlying().(*types.Interface); ok {
			sc.ifaces[typeName(u)] = i
			return fmt.Sprintf("(JIface %q)", typeName(u))
		}
		return sc.jtype(u.Underlying())
	case *types.Alias:
		return sc.jtype(types.Unalias(u))
	case *types.Basic:
		switch {
		case u.Info()&types.IsString != 0:
			return "JStr"
		case u.Info()&types.IsBoolean != 0:
			return "JBool"
		case u.Info()&types.IsInteger != 0:
			return "JInt"
		case u.Info()&types.IsFloat != 0:
			return "JFloat"
		case u.Info()&types.IsComplex != 0:
			return "JComplex"
		case u.Kind() == types.UnsafePointer:
			return "JUnsafe"
		}
		return "JUnsafe"
	case *types.Pointer:
		return fmt.Sprintf("(JPtr %s)", sc.jtype(u.Elem()))
	case *types.Slice:
		return fmt.Sprintf("(JSlice %s)", sc.jtype(u.Elem()))
	case *types.Array:
		return fmt.Sprintf("(JSlice %s)", sc.jtype(u.Elem()))
	case *types.Map:
		return fmt.Sprintf("(JMap %s %s)", sc.jtype(u.Key()), sc.jtype(u.Elem()))
	case *types.Interface:
		name := "interface{}"
		if !u.Empty() {
			name = typeName(u)
		}
		sc.ifaces[name] = u
		return fmt.Sprintf("(JIface %q)", name)
	case *types.Chan:
		return "JChan"
	case *types.Signature:
		return "JFunc"
	case *types.Struct:
		// anonymous struct: not used in package ast
		return "JUnsafe"
	}
	return "JUnsafe"
}

func (sc *schema) want(n *types.Named) {
	k := typeName(n)
	if !sc.seen[k] {
		sc.seen[k] = true
		sc.pending = append(sc.pending, n)
	}
}

func hasMethod(t types.Type, name string) bool {
	ms := types.NewMethodSet(types.NewPointer(t))
	for i := 0; i < ms.Len(); i++ {
		if ms.At(i).Obj().Name() == name {
			return true
		}
	}
	return false
}

func (pk *pkgInfo) buildSchema(a *analysis) *schema {
	sc := &schema{Impls: map[string][]string{}, AnyVals: map[string][]string{}, impls: map[string][]string{}, seen: map[string]bool{},
		ifaces: map[string]*types.Interface{}, pkgAst: pk.astPkg}
	scope := pk.astPkg.Scope()
	names := scope.Names()
	sort.Strings(names)
	for _, n := range names {
		if tn, ok := scope.Lookup(n).(*types.TypeName); ok {
			if named, ok := tn.Type().(*types.Named); ok {
				if _, ok := named.Underlying().(*types.Struct); ok {
					sc.want(named)
				}
			}
		}
	}
	for len(sc.pending) > 0 {
		named := sc.pending[0]
		sc.pending = sc.pending[1:]
		st := named.Underlying().(*types.Struct)
		ss := &schemaStruct{Name: typeName(named), Custom: hasMethod(named, "MarshalJSON") || hasMethod(named, "MarshalText"), FixField: -1}
		for i := 0; i < st.NumFields(); i++ {
			f := st.Field(i)
			tag := reflect.StructTag(st.Tag(i)).Get("json")
			sf := &schemaField{Name: f.Name(), Type: typeName(f.Type()), Coq: sc.jtype(f.Type())}
			sf.Skipped = tag == "-" || !f.Exported()
			if f.Embedded() {
				// embedded fields are flattened by encoding/json; classify the embedded type as a field
				sf.Name = "(embedded) " + f.Name()
			}
			ss.Fields = append(ss.Fields, sf)
		}
		sc.Structs = append(sc.Structs, ss)
	}
	sort.Slice(sc.Structs, func(i, j int) bool { return sc.Structs[i].Name < sc.Structs[j].Name })
	// the custom marshaller of Literal: recognised by its shape (see literalFix)
	for _, ss := range sc.Structs {
		if ss.Custom {
			ss.FixField = pk.literalFix(ss)
		}
	}
	// implementers (closed world: named types of package ast)
	var inames []string
	for n := range sc.ifaces {
		inames = append(inames, n)
	}
	sort.Strings(inames)
	for _, in := range inames {
		it := sc.ifaces[in]
		if it.Empty() {
			continue
		}
		for _, n := range names {
			tn, ok := scope.Lookup(n).(*types.TypeName)
			if !ok {
				continue
			}
			named, ok := tn.Type().(*types.Named)
			if !ok {
				continue
			}
			if _, isI := named.Underlying().(*types.Interface); isI {
				continue
			}
			if types.Implements(types.NewPointer(named), it) {
				sc.Impls[in] = append(sc.Impls[in], "*"+typeName(named))
				sc.impls[in] = append(sc.impls[in], sc.jtype(types.NewPointer(named)))
			} else if types.Implements(named, it) {
				sc.Impls[in] = append(sc.Impls[in], typeName(named))
				sc.impls[in] = append(sc.impls[in], sc.jtype(named))
			}
		}
	}
	// static types stored into interface{} cells by package parser
	anySeen := map[string]bool{}
	note := func(dst types.Type, src ast.Expr, where string) {
		if dst == nil {
			return
		}
		it, ok := dst.Underlying().(*types.Interface)
		if !ok || !it.Empty() {
			return
		}
		tv, ok := pk.info.Types[src]
		if !ok || tv.IsNil() {
			return
		}
		t := tv.Type
		if b, ok := t.(*types.Basic); ok && b.Info()&types.IsUntyped != 0 {
			t = types.Default(t)
		}
		k := typeName(t)
		sc.AnyVals[where] = appendUnique(sc.AnyVals[where], k)
		if !anySeen[k] {
			anySeen[k] = true
			if it2, isI := t.Underlying().(*types.Interface); isI && it2.Empty() {
				return // interface{} to interface{}: the dynamic type was noted where it was created
			}
			sc.anyCoq = append(sc.anyCoq, sc.jtype(t))
		}
	}
	for _, fi := range a.funcs {
		ast.Inspect(fi.decl.Body, func(n ast.Node) bool {
			switch x := n.(type) {
			case *ast.AssignStmt:
				if len(x.Lhs) == len(x.Rhs) {
					for i, l := range x.Lhs {
						if se, ok := l.(*ast.SelectorExpr); ok {
							note(pk.info.Types[l].Type, x.Rhs[i], pk.text(se.Sel))
						} else if ie, ok := l.(*ast.IndexExpr); ok {
							note(pk.info.Types[l].Type, x.Rhs[i], pk.text(ie.X)+"[]")
						}
					}
				}
			case *ast.CompositeLit:
				t := pk.info.Types[x].Type
				if t == nil {
					return true
				}
				switch u := t.Underlying().(type) {
				case *types.Struct:
					for i, el := range x.Elts {
						if kv, ok := el.(*ast.KeyValueExpr); ok {
							if id, ok := kv.Key.(*ast.Ident); ok {
								for j := 0; j < u.NumFields(); j++ {
									if u.Field(j).Name() == id.Name {
										note(u.Field(j).Type(), kv.Value, id.Name)
									}
								}
							}
						} else if i < u.NumFields() {
							note(u.Field(i).Type(), el, u.Field(i).Name())
						}
					}
				case *types.Slice:
					for _, el := range x.Elts {
						if _, isKV := el.(*ast.KeyValueExpr); !isKV {
							note(u.Elem(), el, "[]interface{} element")
						}
					}
				}
			case *ast.CallExpr:
				if id, ok := ast.Unparen(x.Fun).(*ast.Ident); ok && id.Name == "append" && len(x.Args) > 1 {
					if s, ok := pk.info.Types[x.Args[0]].Type.Underlying().(*types.Slice); ok {
						for _, a := range x.Args[1:] {
							note(s.Elem(), a, "[]interface{} element")
						}
					}
				}
			}
			return true
		})
	}
	// new struct types may have been discovered through the any-values
	for len(sc.pending) > 0 {
		named := sc.pending[0]
		sc.pending = sc.pending[1:]
		st := named.Underlying().(*types.Struct)
		ss := &schemaStruct{Name: typeName(named), Custom: hasMethod(named, "MarshalJSON") || hasMethod(named, "MarshalText"), FixField: -1}
		for i := 0; i < st.NumFields(); i++ {
			f := st.Field(i)
			tag := reflect.StructTag(st.Tag(i)).Get("json")
			ss.Fields = append(ss.Fields, &schemaField{Name: f.Name(), Type: typeName(f.Type()), Coq: sc.jtype(f.Type()),
				Skipped: tag == "-" || !f.Exported()})
		}
		sc.Structs = append(sc.Structs, ss)
	}
	sort.Slice(sc.Structs, func(i, j int) bool { return sc.Structs[i].Name < sc.Structs[j].Name })
	sort.Strings(sc.anyCoq)
	return sc
}

func appendUnique(l []string, s string) []string {
	for _, x := range l {
		if x == s {
			return l
		}
	}
	return append(l, s)
}

// literalFix recognises a MarshalJSON of the shape
//
//	if f, ok := l.F.(float64); ok { if math.IsNaN(f) {..}; if math.IsInf(f, 1) {..}; if math.IsInf(f, -1) {..} }
//	return json.Marshal((*alias)(l))
//
// where every special case marshals a struct that embeds the alias and shadows F by a string: the
// marshaller never hands a non-finite float64 held directly by F to encoding/json. Returns the index
// of field F (or -1).
func (pk *pkgInfo) literalFix(ss *schemaStruct) int {
	short := ss.Name[strings.Index(ss.Name, ".")+1:]
	for _, f := range pk.astFiles {
		for _, d := range f.Decls {
			fd, ok := d.(*ast.FuncDecl)
			if !ok || fd.Name.Name != "MarshalJSON" || fd.Recv == nil || len(fd.Recv.List) != 1 || fd.Body == nil {
				continue
			}
			rt := fd.Recv.List[0].Type
			if st, ok := rt.(*ast.StarExpr); ok {
				rt = st.X
			}
			if id, ok := rt.(*ast.Ident); !ok || id.Name != short {
				continue
			}
			// first statement may declare the alias type; find the if with the float64 assertion
			field := ""
			nan, pinf, ninf := false, false, false
			ast.Inspect(fd.Body, func(n ast.Node) bool {
				switch x := n.(type) {
				case *ast.TypeAssertExpr:
					if id, ok := x.Type.(*ast.Ident); ok && id.Name == "float64" {
						if se, ok := x.X.(*ast.SelectorExpr); ok {
							field = se.Sel.Name
						}
					}
				case *ast.CallExpr:
					if se, ok := x.Fun.(*ast.SelectorExpr); ok {
						if id, ok := se.X.(*ast.Ident); ok && id.Name == "math" {
							switch se.Sel.Name {
							case "IsNaN":
								nan = true
							case "IsInf":
								if len(x.Args) == 2 {
									switch pk.text(x.Args[1]) {
									case "1":
										pinf = true
									case "-1":
										ninf = true
									case "0":
										pinf, ninf = true, true
									}
								}
							}
						}
					}
				}
				return true
			})
			if field != "" && nan && pinf && ninf {
				for i, sf := range ss.Fields {
					if sf.Name == field {
						return i
					}
				}
			}
		}
	}
	return -1
}
