package main

import (
	"encoding/json"
	"fmt"
	"os"
	"path/filepath"
	"sort"
	"strings"
)

type allowEntry struct {
	Key   string `json:"key"`
	Claim string `json:"claim,omitempty"`
	Why   string `json:"why"`
	used  bool
}

type allowList struct {
	Comment string        `json:"comment"`
	Use     []*allowEntry `json:"use_sites"`
	Store   []*allowEntry `json:"store_sites"`
	Index   []*allowEntry `json:"index_sites"`
	Assert  []*allowEntry `json:"assert_sites"`
	Panic   []*allowEntry `json:"panic_sites"`
	Conv    []*allowEntry `json:"conv_sites"`
	use     map[string]*allowEntry
	store   map[string]*allowEntry
}

func loadAllow(path string) *allowList {
	al := &allowList{use: map[string]*allowEntry{}, store: map[string]*allowEntry{}}
	data, err := os.ReadFile(path)
	if err != nil {
		if os.IsNotExist(err) {
			return al
		}
		must(err)
	}
	must(json.Unmarshal(data, al))
	for _, e := range al.Use {
		al.use[e.Key] = e
	}
	for _, e := range al.Store {
		if e.Claim != "never-typed-nil" && e.Claim != "only-with-error" {
			must(fmt.Errorf("%s: store site %s: claim must be never-typed-nil or only-with-error", path, e.Key))
		}
		al.store[e.Key] = e
	}
	return al
}

// cleanReviewed: the store site is reviewed as never storing a typed nil
func (al *allowList) cleanReviewed(key string) bool {
	e := al.store[key]
	return e != nil && e.Claim == "never-typed-nil"
}

type result struct {
	lines                                                                                      []string
	nodes, useTotal, useCert, useAllowed, useOpen, storeTotal, storeOpen                       int
	indexTotal, indexOpen, assertTotal, assertOpen, convTotal, convOpen, panicTotal, panicOpen int
}

func coqStr(s string) string { return "\"" + strings.ReplaceAll(s, "\"", "\"\"") + "\"" }

func coqBool(b bool) string {
	if b {
		return "true"
	}
	return "false"
}

func (a *analysis) coqArg(op opnd) string {
	switch op.k {
	case opGood:
		return "AGood"
	case opNil:
		return "ANil"
	}
	return fmt.Sprintf("AV %d", op.v)
}

func (a *analysis) coqInstr(n *node) string {
	switch n.kind {
	case kSet:
		var r string
		switch n.rhs {
		case rAlloc:
			r = "RAlloc"
		case rNil:
			r = "RNil"
		case rCopy:
			r = fmt.Sprintf("(RCopy %d)", n.y)
		case rUnknown:
			r = "RUnknown"
		case rUnknownDirty:
			r = "RUnknownDirty"
		case rConv:
			r = fmt.Sprintf("(RConv %d)", n.y)
		case rNormalize:
			r = fmt.Sprintf("(RNormalize %d)", n.y)
		case rAssert:
			r = fmt.Sprintf("(RAssert %d %s)", n.y, coqBool(n.toIface))
		}
		return fmt.Sprintf("ISet %d %s %d", n.x, r, n.s1.id)
	case kGuard:
		return fmt.Sprintf("IGuard %d %d %d", n.x, n.s1.id, n.s2.id)
	case kTypeTest:
		return fmt.Sprintf("ITypeTest %d %d %s %d %d", n.x, n.y, coqBool(n.toIface), n.s1.id, n.s2.id)
	case kUse:
		return fmt.Sprintf("IUse %d %d %d", n.x, n.site.id, n.s1.id)
	case kStore:
		m := [...]string{"SStrict", "SClean", "SDirty"}[n.mode]
		return fmt.Sprintf("IStore %d %s %d %d", n.x, m, n.site.id, n.s1.id)
	case kCall:
		var as, rs []string
		for _, op := range n.args {
			as = append(as, a.coqArg(op))
		}
		for _, r := range n.rets {
			if r < 0 {
				rs = append(rs, "None")
			} else {
				rs = append(rs, fmt.Sprintf("Some %d", r))
			}
		}
		return fmt.Sprintf("ICall %d [%s] [%s] %d", n.callee.id, strings.Join(as, "; "), strings.Join(rs, "; "), n.s1.id)
	case kBranch:
		return fmt.Sprintf("IBranch %d %d", n.s1.id, n.s2.id)
	case kRet:
		var as []string
		for _, op := range n.args {
			as = append(as, a.coqArg(op))
		}
		return fmt.Sprintf("IRet [%s]", strings.Join(as, "; "))
	}
	return "IBranch 0 0"
}

func avList(nn, cl []bool) string {
	var xs []string
	for i := range nn {
		xs = append(xs, fmt.Sprintf("(%s, %s)", coqBool(nn[i]), coqBool(cl[i])))
	}
	return "[" + strings.Join(xs, "; ") + "]"
}

type jsonSite struct {
	ID     int      `json:"id"`
	Key    string   `json:"key"`
	Kind   string   `json:"kind"`
	What   string   `json:"what"`
	Pos    string   `json:"pos"`
	Status string   `json:"status"` // certified, reviewed, open
	Mode   string   `json:"mode,omitempty"`
	Class  string   `json:"class,omitempty"`
	Why    string   `json:"why,omitempty"`
	Path   []string `json:"path,omitempty"`
}

type jsonConv struct {
	Key     string `json:"key"`
	Context string `json:"context"`
	Pos     string `json:"pos"`
	Status  string `json:"status"` // constant, certain, ret-normalized, reviewed, open
}

type jsonFunc struct {
	Name    string   `json:"name"`
	ID      int      `json:"id"`
	Nodes   int      `json:"nodes"`
	Vars    int      `json:"vars"`
	Params  []string `json:"params"`
	Results []string `json:"results"`
}

func specStr(nn, cl bool) string {
	switch {
	case nn && cl:
		return "usable"
	case nn:
		return "not-nil-but-maybe-typed-nil"
	case cl:
		return "maybe-nil"
	}
	return "maybe-nil-or-typed-nil"
}

func (a *analysis) emitAll(out, rep string, allow *allowList, inv *inventory, rounds int) *result {
	pk := a.pk
	r := &result{}
	// ---- verdicts for the graph sites ----
	allow1 := map[int]bool{} // C01
	allow3 := map[int]bool{} // C03
	var jsites []*jsonSite
	type allowedRow struct {
		id  int
		key string
		why string
	}
	var rows1, rows3 []allowedRow
	for _, s := range a.sites {
		js := &jsonSite{ID: s.id, Key: s.key, Kind: s.kind, What: s.what, Pos: pk.posString(s.pos), Class: s.class}
		cert := a.siteCertified(s)
		switch s.kind {
		case "store":
			r.storeTotal++
			js.Mode = [...]string{"strict", "clean", "dirty"}[s.node.mode]
			switch {
			case cert:
				js.Status = "certified"
			case allow.store[s.key] != nil:
				e := allow.store[s.key]
				e.used = true
				js.Status = "reviewed"
				js.Why = e.Claim + ": " + e.Why
				allow3[s.id] = true
				rows3 = append(rows3, allowedRow{s.id, s.key, js.Why})
				if e.Claim == "never-typed-nil" {
					allow1[s.id] = true
					rows1 = append(rows1, allowedRow{s.id, s.key, js.Why})
				}
			default:
				js.Status = "open"
				r.storeOpen++
				js.Path = a.whyBad(s.fn, s.node, s.node.x)
				r.lines = append(r.lines, fmt.Sprintf("STORE(%s) %s  [%s] %s", js.Mode, s.key, s.what, js.Pos))
			}
			// a reviewed claim only-with-error on a store into a clean class would be unsound for C01:
			// the class was made dirty by the main loop in that case, so mode is dirty here.
		default:
			r.useTotal++
			switch {
			case cert:
				js.Status = "certified"
				r.useCert++
			case allow.use[s.key] != nil:
				e := allow.use[s.key]
				e.used = true
				js.Status = "reviewed"
				js.Why = e.Why
				r.useAllowed++
				allow1[s.id] = true
				allow3[s.id] = true
				rows1 = append(rows1, allowedRow{s.id, s.key, e.Why})
				rows3 = append(rows3, allowedRow{s.id, s.key, e.Why})
				js.Path = a.whyBad(s.fn, s.node, s.node.x)
			default:
				js.Status = "open"
				r.useOpen++
				js.Path = a.whyBad(s.fn, s.node, s.node.x)
				r.lines = append(r.lines, fmt.Sprintf("USE %s  [%s; operand %s] %s", s.key, s.what, s.opstr, js.Pos))
			}
		}
		jsites = append(jsites, js)
	}
	bad1 := a.selfCheck(allow1, false)
	bad3 := a.selfCheck(allow3, true)

	// ---- conversion sites ----
	convReviewed := map[string]*allowEntry{}
	for _, e := range allow.Conv {
		convReviewed[e.Key] = e
	}
	normalized := a.normalizedCallees()
	var jconvs []*jsonConv
	type convRow struct {
		key    string
		status int
		fn, pc int
	}
	var convRows []convRow
	for _, fi := range a.funcs {
		for _, c := range fi.g.convs {
			r.convTotal++
			jc := &jsonConv{Key: c.key, Context: c.context, Pos: pk.posString(c.pos)}
			row := convRow{key: c.key, fn: fi.id}
			switch {
			case c.node == nil:
				jc.Status = "constant"
				row.status = 0
			default:
				row.status = 1
				row.pc = c.node.id
				n := c.node
				switch {
				case n.nn.has(n.y) && n.cl.has(n.y):
					jc.Status = "certain"
				case n.s1.kind == kRet && len(n.s1.args) == 1 && n.s1.args[0].k == opVar && n.s1.args[0].v == n.x && normalized[fi]:
					jc.Status = "ret-normalized"
				case convReviewed[c.key] != nil:
					convReviewed[c.key].used = true
					jc.Status = "reviewed"
				default:
					jc.Status = "open"
					r.convOpen++
					r.lines = append(r.lines, fmt.Sprintf("CONV %s %s", c.key, jc.Pos))
				}
			}
			jconvs = append(jconvs, jc)
			convRows = append(convRows, row)
		}
	}

	// ---- inventories ----
	reviewed := func(list []*allowEntry) map[string]*allowEntry {
		m := map[string]*allowEntry{}
		for _, e := range list {
			m[e.Key] = e
		}
		return m
	}
	idxRev, asRev, paRev := reviewed(allow.Index), reviewed(allow.Assert), reviewed(allow.Panic)
	count := func(ss []*invSite, rev map[string]*allowEntry, kind string, total, open *int) {
		for _, s := range ss {
			*total++
			if s.Guard == "unguarded" || kind == "PANIC" {
				if e := rev[s.Key]; e != nil {
					e.used = true
					continue
				}
				*open++
				r.lines = append(r.lines, fmt.Sprintf("%s %s %s %s", kind, s.Key, s.Detail, s.Pos))
			}
		}
	}
	count(inv.index, idxRev, "INDEX", &r.indexTotal, &r.indexOpen)
	count(inv.assert, asRev, "ASSERT", &r.assertTotal, &r.assertOpen)
	count(inv.panics, paRev, "PANIC", &r.panicTotal, &r.panicOpen)

	// ---- ParserNil.v ----
	var sb strings.Builder
	sb.WriteString("(* GENERATED by /verif/translator/cmd/nilgen from /repo/parser -- do not edit. *)\n")
	sb.WriteString("From Coq Require Import List NArith String.\nFrom DC Require Import Nil.NilLang.\nImport ListNotations.\nLocal Open Scope N_scope.\n\n")
	for _, fi := range a.funcs {
		r.nodes += len(fi.g.nodes)
	}
	fmt.Fprintf(&sb, "(* %d functions reachable from %s, %d nodes, %d use sites, %d store sites *)\n", len(a.funcs), a.entry.name, r.nodes, r.useTotal, r.storeTotal)
	var strict, dirty []string
	for c := range pk.strict {
		strict = append(strict, c)
	}
	for c := range pk.dirty {
		dirty = append(dirty, c)
	}
	sort.Strings(strict)
	sort.Strings(dirty)
	fmt.Fprintf(&sb, "(* strict cell classes (loads are RAlloc, stores SStrict): %s *)\n", strings.Join(strict, " "))
	fmt.Fprintf(&sb, "(* dirty cell classes (loads are RUnknownDirty, stores SDirty): %s *)\n", strings.Join(dirty, " "))
	sb.WriteString("Local Notation nd i a b := (mkNode i a b) (only parsing).\n\n")
	for _, fi := range a.funcs {
		g := fi.g
		sp := a.specs[fi]
		var vs []string
		for i, v := range g.vars {
			vs = append(vs, fmt.Sprintf("%d:%s", i, v.name))
		}
		fmt.Fprintf(&sb, "(* %d: %s   vars %s *)\n", fi.id, fi.name, strings.Join(vs, " "))
		fmt.Fprintf(&sb, "Definition f%d : func := mkFunc (mkSpec %s %s) [\n", fi.id, avList(sp.pNN, sp.pCL), avList(sp.rNN, sp.rCL))
		for i, n := range g.nodes {
			sep := ";"
			if i == len(g.nodes)-1 {
				sep = ""
			}
			cm := ""
			if n.site != nil {
				cm = " (* " + strings.ReplaceAll(n.site.key, "*)", "* )") + " *)"
			}
			fmt.Fprintf(&sb, "  nd (%s) %s %s%s%s\n", a.coqInstr(n), n.nn.big().String(), n.cl.big().String(), sep, cm)
		}
		sb.WriteString("].\n")
	}
	sb.WriteString("\nDefinition parser_nil : prog := mkProg [")
	for i := range a.funcs {
		if i > 0 {
			sb.WriteString("; ")
		}
		fmt.Fprintf(&sb, "f%d", i)
	}
	fmt.Fprintf(&sb, "] %d.\n\n", a.entry.id)
	fid := func(name string) int {
		if fi := pk.funcs[name]; fi != nil && fi.reach {
			return fi.id
		}
		return 1 << 30 // absent: the lookup fails and the obligation with it
	}
	fmt.Fprintf(&sb, "Definition fn_Parse : N := %d.\nDefinition fn_ParseStatements : N := %d.\nDefinition fn_parseStatement : N := %d.\n\n", fid("Parse"), fid("ParseStatements"), fid("parseStatement"))
	// sites that are not certified (the only ones a reviewed list may name)
	sb.WriteString("Local Open Scope string_scope.\n")
	sb.WriteString("(* the graph sites the certificate does not cover: (site, key) *)\nDefinition uncertified_sites : list (N * string) := [\n")
	first := true
	for _, js := range jsites {
		if js.Status == "certified" {
			continue
		}
		if !first {
			sb.WriteString(";\n")
		}
		first = false
		fmt.Fprintf(&sb, "  (%d%%N, %s)", js.ID, coqStr(js.Key))
	}
	sb.WriteString("\n].\n\n")
	// statement stores of ParseStatements: the appended value must be usable (C03: no nil statement)
	sb.WriteString("(* stores into the statement list returned by ParseStatements: (function, node) *)\nDefinition result_stores : list (N * N) := [")
	first = true
	if ps := pk.funcs["ParseStatements"]; ps != nil && ps.reach {
		for _, s := range ps.g.stores {
			if s.class == "elem:ast.Statement" {
				if !first {
					sb.WriteString("; ")
				}
				first = false
				fmt.Fprintf(&sb, "(%d%%N, %d%%N)", ps.id, s.node.id)
			}
		}
	}
	sb.WriteString("].\n\n")
	emitInv := func(name, doc string, ss []*invSite) {
		fmt.Fprintf(&sb, "(* %s: (key, guard) *)\nDefinition %s : list (string * string) := [\n", doc, name)
		sorted := append([]*invSite{}, ss...)
		sortSites(sorted)
		for i, s := range sorted {
			sep := ";"
			if i == len(sorted)-1 {
				sep = ""
			}
			fmt.Fprintf(&sb, "  (%s, %s)%s\n", coqStr(s.Key), coqStr(s.Guard), sep)
		}
		sb.WriteString("].\n\n")
	}
	emitInv("index_sites", "index and slice expressions on slices, strings, arrays", inv.index)
	emitInv("assert_sites", "type assertions without comma-ok", inv.assert)
	emitInv("panic_sites", "explicit panics and integer divisions by a non-constant", inv.panics)
	sb.WriteString("(* implicit pointer -> interface conversions: (key, status, function, node); status 0: the operand is a\n   composite literal / allocation; status 1: the node is [ISet _ (RConv y) _] *)\n")
	sb.WriteString("Definition conv_sites : list (string * N * N * N) := [\n")
	for i, c := range convRows {
		sep := ";"
		if i == len(convRows)-1 {
			sep = ""
		}
		fmt.Fprintf(&sb, "  (%s, %d%%N, %d%%N, %d%%N)%s\n", coqStr(c.key), c.status, c.fn, c.pc, sep)
	}
	sb.WriteString("].\n")
	writeIfChanged(filepath.Join(out, "ParserNil.v"), []byte(sb.String()))

	// ---- ParserNilAllowed.v ----
	sb.Reset()
	sb.WriteString("(* GENERATED by /verif/translator/cmd/nilgen from /verif/checks/c01_reviewed_sites.json -- do not edit.\n")
	sb.WriteString("   Every entry is a REVIEWED CLAIM that weakens the theorems of Properties/C01_nil.v and C03_nil.v. *)\n")
	sb.WriteString("From Coq Require Import List NArith String.\nImport ListNotations.\nLocal Open Scope string_scope.\n\n")
	emitRows := func(name, doc string, rows []allowedRow) {
		fmt.Fprintf(&sb, "(* %s *)\nDefinition %s : list (N * string) := [\n", doc, name)
		for i, rw := range rows {
			sep := ";"
			if i == len(rows)-1 {
				sep = ""
			}
			fmt.Fprintf(&sb, "  (%d%%N, %s)%s (* %s *)\n", rw.id, coqStr(rw.key), sep, strings.ReplaceAll(rw.why, "*)", "* )"))
		}
		sb.WriteString("].\n\n")
	}
	emitRows("reviewed_c01", "use sites whose operand is claimed never nil, store sites claimed never to store a typed nil", rows1)
	emitRows("reviewed_c03", "reviewed_c01 plus the store sites claimed to store a typed nil only after a parse error was recorded", rows3)
	emitKeys := func(name, doc string, es []*allowEntry) {
		fmt.Fprintf(&sb, "(* %s *)\nDefinition %s : list string := [\n", doc, name)
		for i, e := range es {
			sep := ";"
			if i == len(es)-1 {
				sep = ""
			}
			fmt.Fprintf(&sb, "  %s%s (* %s *)\n", coqStr(e.Key), sep, strings.ReplaceAll(e.Why, "*)", "* )"))
		}
		sb.WriteString("].\n\n")
	}
	emitKeys("reviewed_index", "index/slice expressions reviewed as in range", allow.Index)
	emitKeys("reviewed_assert", "unchecked type assertions reviewed as never failing", allow.Assert)
	emitKeys("reviewed_panic", "explicit panics / divisions reviewed as unreachable / non-zero", allow.Panic)
	emitKeys("reviewed_conv", "pointer -> interface conversions reviewed (operand never nil, or the typed nil is harmless)", allow.Conv)
	writeIfChanged(filepath.Join(out, "ParserNilAllowed.v"), []byte(sb.String()))

	// ---- AstSchema.v ----
	sc := pk.buildSchema(a)
	sb.Reset()
	sb.WriteString("(* GENERATED by /verif/translator/cmd/nilgen from /repo/ast (and the stores of /repo/parser) -- do not edit. *)\n")
	sb.WriteString("From Coq Require Import List NArith String.\nFrom DC Require Import Nil.SchemaLang.\nImport ListNotations.\nLocal Open Scope string_scope.\n\n")
	sb.WriteString("(* every struct type: name, custom MarshalJSON?, index of the field whose non-finite float64 the custom\n   marshaller replaces by a string (None if there is none), fields (name, type, skipped by json:\"-\") *)\n")
	sb.WriteString("Definition ast_structs : list sdecl := [\n")
	for i, ss := range sc.Structs {
		sep := ";"
		if i == len(sc.Structs)-1 {
			sep = ""
		}
		fix := "None"
		if ss.FixField >= 0 {
			fix = fmt.Sprintf("(Some %d%%nat)", ss.FixField)
		}
		var fs []string
		for _, f := range ss.Fields {
			fs = append(fs, fmt.Sprintf("mkField %s %s %s", coqStr(f.Name), f.Coq, coqBool(f.Skipped)))
		}
		fmt.Fprintf(&sb, "  mkDecl %s %s %s [\n    %s]%s\n", coqStr(ss.Name), coqBool(ss.Custom), fix, strings.Join(fs, ";\n    "), sep)
	}
	sb.WriteString("].\n\n(* the dynamic types behind every non-empty interface type used by a field (closed world: package ast) *)\n")
	sb.WriteString("Definition ast_impls : list (string * list jtype) := [\n")
	var inames []string
	for n := range sc.impls {
		inames = append(inames, n)
	}
	sort.Strings(inames)
	for i, n := range inames {
		sep := ";"
		if i == len(inames)-1 {
			sep = ""
		}
		fmt.Fprintf(&sb, "  (%s, [%s])%s\n", coqStr(n), strings.Join(sc.impls[n], "; "), sep)
	}
	sb.WriteString("].\n\n(* the static types that package parser stores into interface{} cells (Literal.Value) *)\n")
	fmt.Fprintf(&sb, "Definition any_types : list jtype := [%s].\n", strings.Join(sc.anyCoq, "; "))
	writeIfChanged(filepath.Join(out, "AstSchema.v"), []byte(sb.String()))

	// ---- report ----
	var jfuncs []*jsonFunc
	for _, fi := range a.funcs {
		sp := a.specs[fi]
		jf := &jsonFunc{Name: fi.name, ID: fi.id, Nodes: len(fi.g.nodes), Vars: len(fi.g.vars)}
		for i, p := range trackedParams(fi.sig) {
			nm := "recv"
			if p.idx >= 0 {
				nm = fi.sig.Params().At(p.idx).Name()
			}
			jf.Params = append(jf.Params, nm+": "+specStr(sp.pNN[i], sp.pCL[i]))
		}
		for j := range trackedResults(fi.sig) {
			jf.Results = append(jf.Results, specStr(sp.rNN[j], sp.rCL[j]))
		}
		jfuncs = append(jfuncs, jf)
	}
	var unreach []string
	for _, n := range pk.names {
		if !pk.funcs[n].reach {
			unreach = append(unreach, n)
		}
	}
	var stale []string
	for _, l := range [][]*allowEntry{allow.Use, allow.Store, allow.Index, allow.Assert, allow.Panic, allow.Conv} {
		for _, e := range l {
			if !e.used {
				stale = append(stale, e.Key)
			}
		}
	}
	report := map[string]interface{}{
		"entry":                  a.entry.name,
		"functions":              jfuncs,
		"unreachable_functions":  unreach,
		"nodes":                  r.nodes,
		"rounds":                 rounds,
		"sites":                  jsites,
		"use_total":              r.useTotal,
		"use_certified":          r.useCert,
		"use_reviewed":           r.useAllowed,
		"use_open":               r.useOpen,
		"store_total":            r.storeTotal,
		"store_open":             r.storeOpen,
		"conv_sites":             jconvs,
		"conv_open":              r.convOpen,
		"index_sites":            inv.index,
		"index_open":             r.indexOpen,
		"assert_sites":           inv.assert,
		"assert_open":            r.assertOpen,
		"panic_sites":            inv.panics,
		"panic_open":             r.panicOpen,
		"strict_classes":         strict,
		"dirty_classes":          dirty,
		"class_decisions":        a.demoted,
		"problems":               pk.problems,
		"stale_reviewed_keys":    stale,
		"selfcheck_c01_failures": bad1,
		"selfcheck_c03_failures": bad3,
		"schema":                 sc,
		"certified_c01":          len(bad1) == 0 && len(pk.problems) == 0,
		"certified_c03":          len(bad3) == 0 && len(pk.problems) == 0,
	}
	data, err := json.MarshalIndent(report, "", " ")
	must(err)
	writeIfChanged(rep, append(data, '\n'))
	for _, s := range stale {
		r.lines = append(r.lines, "STALE reviewed key (matches no uncertified site): "+s)
	}
	for _, b := range bad1 {
		r.lines = append(r.lines, "SELFCHECK c01: "+b)
	}
	for _, b := range bad3 {
		r.lines = append(r.lines, "SELFCHECK c03: "+b)
	}
	return r
}

// normalizedCallees: functions all of whose call sites (in the program) bind the single result to a
// variable that the next node normalises (RNormalize) -- the shape of parseStatement
func (a *analysis) normalizedCallees() map[*fnInfo]bool {
	ok := map[*fnInfo]bool{}
	called := map[*fnInfo]bool{}
	for _, fi := range a.funcs {
		ok[fi] = true
	}
	for _, fi := range a.funcs {
		for _, n := range fi.g.nodes {
			if n.kind != kCall {
				continue
			}
			called[n.callee] = true
			good := len(n.rets) == 1 && n.rets[0] >= 0 && n.s1.kind == kSet && n.s1.rhs == rNormalize && n.s1.y == n.rets[0]
			if !good {
				ok[n.callee] = false
			}
		}
	}
	for fi := range ok {
		if !called[fi] {
			ok[fi] = false
		}
	}
	return ok
}
