package main

import (
	"encoding/json"
	"fmt"
	"os"
)

type allowEntry struct {
	Key   string `json:"key"`
	Claim string `json:"claim,omitempty"`
	Why   string `json:"why"`
	used  bool
}

type allowList struct {
	Comment string        `json:"comment"`
	Use     []*allowEntry `json:"use_sites"`
	Store   []*allowEntry `json:"store_sites"`
	Index   []*allowEntry `json:"index_sites"`
	Assert  []*allowEntry `json:"assert_sites"`
	Panic   []*allowEntry `json:"panic_sites"`
	Conv    []*allowEntry `json:"conv_sites"`
	use     map[string]*allowEntry
	store   map[string]*allowEntry
}

func loadAllow(path string) *allowList {
	al := &allowList{use: map[string]*allowEntry{}, store: map[string]*allowEntry{}}
	data, err := os.ReadFile(path)
	if err != nil {
		if os.IsNotExist(err) {
			return al
		}
		must(err)
	}
	must(json.Unmarshal(data, al))
	for _, e := range al.Use {
		al.use[e.Key] = e
	}
	for _, e := range al.Store {
		if e.Claim != "never-typed-nil" && e.Claim != "only-with-error" {
			must(fmt.Errorf("%s: store site %s: claim must be never-typed-nil or only-with-error", path, e.Key))
		}
		al.store[e.Key] = e
	}
	return al
}

// cleanReviewed: the store site is reviewed as never storing a typed nil
func (al *allowList) cleanReviewed(key string) bool {
	e := al.store[key]
	return e != nil && e.Claim == "never-typed-nil"
}

type result struct {
	lines                                                                                          []string
	nodes, useTotal, useCert, useAllowed, useOpen, storeTotal, storeOpen                           int
	indexTotal, indexOpen, assertTotal, assertOpen, convTotal, convOpen, panicTotal, panicOpen int
}

func (a *analysis) emitAll(out, rep string, allow *allowList, inv *inventory, rounds int) *result {
	r := &result{}
	for _, fi := range a.funcs {
		r.nodes += len(fi.g.nodes)
	}
	for _, s := range a.sites {
		c := a.siteCertified(s)
		if s.kind == "store" {
			r.storeTotal++
			if !c {
				r.storeOpen++
				r.lines = append(r.lines, fmt.Sprintf("STORE %s  [%s] %s", s.key, s.what, a.pk.posString(s.pos)))
			}
			continue
		}
		r.useTotal++
		if c {
			r.useCert++
		} else {
			r.useOpen++
			r.lines = append(r.lines, fmt.Sprintf("USE %s  [%s; operand %s] %s", s.key, s.what, s.opstr, a.pk.posString(s.pos)))
		}
	}
	bad := a.selfCheck(map[int]bool{})
	_ = bad
	return r
}
