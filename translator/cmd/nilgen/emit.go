package main

import (
	"encoding/json"
	"fmt"
	"go/ast"
	"os"
	"path/filepath"
	"sort"
	"strings"
)

type allowEntry struct {
	Key   string `json:"key"`
	Claim string `json:"claim,omitempty"`
	Why   string `json:"why"`
	// normalised texts of statements / conditions of the same function that the review relies on
	// (e.g. the guard two lines above); if one of them is gone the entry is void
	Context []string `json:"context,omitempty"`
	used    bool
	void    string
}

type allowList struct {
	Comment string        `json:"comment"`
	Use     []*allowEntry `json:"use_sites"`
	Store   []*allowEntry `json:"store_sites"`
	Index   []*allowEntry `json:"index_sites"`
	Assert  []*allowEntry `json:"assert_sites"`
	Panic   []*allowEntry `json:"panic_sites"`
	Conv    []*allowEntry `json:"conv_sites"`
	use     map[string]*allowEntry
	store   map[string]*allowEntry
	voided  []*allowEntry
	dump    bool
}

func loadAllow(path string) *allowList {
	al := &allowList{use: map[string]*allowEntry{}, store: map[string]*allowEntry{}}
	data, err := os.ReadFile(path)
	if err != nil {
		if os.IsNotExist(err) {
			return al
		}
		must(err)
	}
	must(json.Unmarshal(data, al))
	for _, e := range al.Use {
		al.use[e.Key] = e
	}
	for _, e := range al.Store {
		if e.Claim != "never-typed-nil" && e.Claim != "only-with-error" {
			must(fmt.Errorf("%s: store site %s: claim must be never-typed-nil or only-with-error", path, e.Key))
		}
		al.store[e.Key] = e
	}
	return al
}

// validate voids the entries whose context texts are no longer in the function named by the key
func (al *allowList) validate(pk *pkgInfo) {
	texts := map[string]map[string]bool{}
	textsOf := func(fn string) map[string]bool {
		if m, ok := texts[fn]; ok {
			return m
		}
		m := map[string]bool{}
		if fi := pk.funcs[fn]; fi != nil {
			ast.Inspect(fi.decl.Body, func(n ast.Node) bool {
				switch x := n.(type) {
				case *ast.AssignStmt, *ast.ExprStmt, *ast.ReturnStmt, *ast.IncDecStmt, *ast.DeclStmt, *ast.BranchStmt:
					m[pk.text(x)] = true
				case *ast.IfStmt:
					m[pk.text(x.Cond)] = true
				case *ast.ForStmt:
					if x.Cond != nil {
						m[pk.text(x.Cond)] = true
					}
				case *ast.RangeStmt:
					m["range "+pk.text(x.X)] = true
				case *ast.CaseClause:
					for _, e := range x.List {
						m[pk.text(e)] = true
					}
				}
				return true
			})
		}
		texts[fn] = m
		if al.dump {
			var ks []string
			for k := range m {
				ks = append(ks, k)
			}
			sort.Strings(ks)
			for _, k := range ks {
				fmt.Println("TEXT", k)
			}
		}
		return m
	}
	for _, l := range [][]*allowEntry{al.Use, al.Store, al.Index, al.Assert, al.Panic, al.Conv} {
		for _, e := range l {
			parts := strings.SplitN(e.Key, "|", 3)
			if len(parts) != 3 {
				e.void = "malformed key"
				continue
			}
			for _, c := range e.Context {
				if !textsOf(parts[1])[c] {
					e.void = "context text no longer in " + parts[1] + ": " + c
				}
			}
		}
	}
	drop := func(m map[string]*allowEntry) {
		for k, e := range m {
			if e.void != "" {
				delete(m, k)
			}
		}
	}
	drop(al.use)
	drop(al.store)
	live := func(l []*allowEntry) []*allowEntry {
		var out []*allowEntry
		for _, e := range l {
			if e.void == "" {
				out = append(out, e)
			} else {
				al.voided = append(al.voided, e)
			}
		}
		return out
	}
	al.Use, al.Store, al.Index = live(al.Use), live(al.Store), live(al.Index)
	al.Assert, al.Panic, al.Conv = live(al.Assert), live(al.Panic), live(al.Conv)
}

// cleanReviewed: the store site is reviewed as never storing a typed nil
func (al *allowList) cleanReviewed(key string) bool {
	e := al.store[key]
	return e != nil && e.Claim == "never-typed-nil"
}

type result struct {
	lines                                                                 []string
	indexTotal, indexOpen, assertTotal, assertOpen, panicTotal, panicOpen int
}

func coqStr(s string) string { return "\"" + strings.ReplaceAll(s, "\"", "\"\"") + "\"" }

// coqComment makes a text safe inside a Coq comment (comments nest and lex string literals)
func coqComment(s string) string {
	s = strings.ReplaceAll(s, "(*", "( *")
	s = strings.ReplaceAll(s, "*)", "* )")
	return strings.ReplaceAll(s, "\"", "'")
}

func coqBool(b bool) string {
	if b {
		return "true"
	}
	return "false"
}

func (a *analysis) coqArg(op opnd) string {
	switch op.k {
	case opGood:
		return "AGood"
	case opNil:
		return "ANil"
	}
	return fmt.Sprintf("AV %d", op.v)
}

func (a *analysis) coqInstr(n *node) string {
	switch n.kind {
	case kSet:
		var r string
		switch n.rhs {
		case rAlloc:
			r = "RAlloc"
		case rNil:
			r = "RNil"
		case rCopy:
			r = fmt.Sprintf("(RCopy %d)", n.y)
		case rUnknown:
			r = "RUnknown"
		case rUnknownDirty:
			r = "RUnknownDirty"
		case rConv:
			r = fmt.Sprintf("(RConv %d %d)", n.y, n.ptype)
		case rNormalize:
			r = fmt.Sprintf("(RNormalize %d)", n.y)
		case rAssert:
			r = fmt.Sprintf("(RAssert %d %s)", n.y, coqBool(n.toIface))
		}
		return fmt.Sprintf("ISet %d %s %d", n.x, r, n.s1.id)
	case kGuard:
		return fmt.Sprintf("IGuard %d %d %d", n.x, n.s1.id, n.s2.id)
	case kTypeTest:
		tgt := "None"
		if n.ptype >= 0 && !n.toIface {
			tgt = fmt.Sprintf("(Some %d)", n.ptype)
		}
		return fmt.Sprintf("ITypeTest %d %d %s %s %d %d", n.x, n.y, coqBool(n.toIface), tgt, n.s1.id, n.s2.id)
	case kUse:
		return fmt.Sprintf("IUse %d %d %d", n.x, n.site.id, n.s1.id)
	case kStore:
		m := [...]string{"SStrict", "SClean", "SDirty"}[n.mode]
		return fmt.Sprintf("IStore %d %s %d %d", n.x, m, n.site.id, n.s1.id)
	case kCall:
		var as, rs []string
		for _, op := range n.args {
			as = append(as, a.coqArg(op))
		}
		for _, r := range n.rets {
			if r < 0 {
				rs = append(rs, "None")
			} else {
				rs = append(rs, fmt.Sprintf("Some %d", r))
			}
		}
		return fmt.Sprintf("ICall %d [%s] [%s] %d", n.callee.id, strings.Join(as, "; "), strings.Join(rs, "; "), n.s1.id)
	case kBranch:
		return fmt.Sprintf("IBranch %d %d", n.s1.id, n.s2.id)
	case kRet:
		var as []string
		for _, op := range n.args {
			as = append(as, a.coqArg(op))
		}
		return fmt.Sprintf("IRet [%s]", strings.Join(as, "; "))
	case kHalt:
		return "IHalt"
	}
	panic("unknown node kind")
}

func avList(nn, cl []bool) string {
	var xs []string
	for i := range nn {
		xs = append(xs, fmt.Sprintf("(%s, %s)", coqBool(nn[i]), coqBool(cl[i])))
	}
	return "[" + strings.Join(xs, "; ") + "]"
}

type jsonSite struct {
	ID     int      `json:"id"`
	Key    string   `json:"key"`
	Kind   string   `json:"kind"`
	What   string   `json:"what"`
	Pos    string   `json:"pos"`
	Status string   `json:"status"` // certified, reviewed, open
	Mode   string   `json:"mode,omitempty"`
	Class  string   `json:"class,omitempty"`
	Why    string   `json:"why,omitempty"`
	Path   []string `json:"path,omitempty"`
}

type jsonConv struct {
	Key     string `json:"key"`
	Context string `json:"context"`
	Pos     string `json:"pos"`
	Status  string `json:"status"` // constant, certain, ret-normalized, reviewed, open
}

type jsonFunc struct {
	Name    string   `json:"name"`
	ID      int      `json:"id"`
	Nodes   int      `json:"nodes"`
	Vars    int      `json:"vars"`
	Params  []string `json:"params"`
	Results []string `json:"results"`
}

func specStr(nn, cl bool) string {
	switch {
	case nn && cl:
		return "usable"
	case nn:
		return "not-nil-but-maybe-typed-nil"
	case cl:
		return "maybe-nil"
	}
	return "maybe-nil-or-typed-nil"
}

type allowedRow struct {
	id  int
	key string
	why string
}

// progResult: what emitProgram found for one reading (C01: the whole run; C03: runs are cut at the first
// recorded parse error)
type progResult struct {
	c03                                             bool
	rows                                            []allowedRow
	jsites                                          []*jsonSite
	jconvs                                          []*jsonConv
	jfuncs                                          []*jsonFunc
	bad                                             []string
	nodes, useTotal, useCert, useReviewed, useOpen  int
	storeTotal, storeCert, storeReviewed, storeOpen int
	convTotal, convOpen                             int
	strict, dirty, tnNames, decisions, problems     []string
	rounds, pruned                                  int
	lines                                           []string
}

// emitProgram writes the program of one reading (file, Coq name prefix) and returns its verdicts
func (a *analysis) emitProgram(path, name string, allow *allowList, c03 bool, rounds, pruned int) *progResult {
	pk := a.pk
	r := &progResult{c03: c03, rounds: rounds, pruned: pruned, strict: []string{}, dirty: []string{}, tnNames: []string{},
		decisions: []string{}, problems: []string{}, bad: []string{}}
	tag := "c01"
	if c03 {
		tag = "c03"
	}
	allowed := map[int]bool{}
	for _, s := range a.sites {
		js := &jsonSite{ID: s.id, Key: s.key, Kind: s.kind, What: s.what, Pos: pk.posString(s.pos), Class: s.class}
		cert := a.siteCertified(s)
		switch s.kind {
		case "store":
			r.storeTotal++
			js.Mode = [...]string{"strict", "clean", "dirty"}[s.node.mode]
			if s.node.mode == storeDirty && !c03 {
				cert = true // no obligation in the C01 reading
				js.Mode = "dirty (no C01 obligation)"
			}
			e := allow.store[s.key]
			switch {
			case cert:
				js.Status = "certified"
				r.storeCert++
			case e != nil && (c03 || e.Claim == "never-typed-nil"):
				e.used = true
				js.Status = "reviewed"
				js.Why = e.Claim + ": " + e.Why
				r.storeReviewed++
				allowed[s.id] = true
				r.rows = append(r.rows, allowedRow{s.id, s.key, js.Why})
			default:
				js.Status = "open"
				r.storeOpen++
				js.Path = a.whyBad(s.fn, s.node, s.node.x)
				r.lines = append(r.lines, fmt.Sprintf("%s STORE(%s) %s  [%s] %s", tag, js.Mode, s.key, s.what, js.Pos))
			}
		default:
			r.useTotal++
			switch {
			case cert:
				js.Status = "certified"
				r.useCert++
			case allow.use[s.key] != nil:
				e := allow.use[s.key]
				e.used = true
				js.Status = "reviewed"
				js.Why = e.Why
				r.useReviewed++
				allowed[s.id] = true
				r.rows = append(r.rows, allowedRow{s.id, s.key, e.Why})
				js.Path = a.whyBad(s.fn, s.node, s.node.x)
			default:
				js.Status = "open"
				r.useOpen++
				js.Path = a.whyBad(s.fn, s.node, s.node.x)
				r.lines = append(r.lines, fmt.Sprintf("%s USE %s  [%s; operand %s] %s", tag, s.key, s.what, s.opstr, js.Pos))
			}
		}
		r.jsites = append(r.jsites, js)
	}
	r.bad = append(r.bad, a.selfCheck(allowed, c03)...)

	// ---- conversion sites ----
	convReviewed := map[string]*allowEntry{}
	for _, e := range allow.Conv {
		convReviewed[e.Key] = e
	}
	type convRow struct {
		key    string
		status int
		fn, pc int
	}
	var convRows []convRow
	for _, fi := range a.funcs {
		for _, c := range fi.g.convs {
			r.convTotal++
			jc := &jsonConv{Key: c.key, Context: c.context, Pos: pk.posString(c.pos)}
			row := convRow{key: c.key, fn: fi.id}
			switch {
			case c.node == nil:
				jc.Status = "constant"
				row.status = 0
			default:
				row.status = 1
				row.pc = c.node.id
				n := c.node
				switch {
				case n.nn.has(n.y) && n.cl.has(n.y):
					jc.Status = "certain"
				case n.s1.kind == kRet && len(n.s1.args) == 1 && n.s1.args[0].k == opVar && n.s1.args[0].v == n.x &&
					len(a.specs[fi].rCL) == 1 && !a.specs[fi].rCL[0]:
					// the function declares (certificate) that its result may be a typed nil: every consumer is
					// checked against that by the verified checker
					jc.Status = "ret-declared"
				case convReviewed[c.key] != nil && c03:
					convReviewed[c.key].used = true
					jc.Status = "reviewed"
				default:
					jc.Status = "open"
					if c03 {
						r.convOpen++
						r.lines = append(r.lines, fmt.Sprintf("c03 CONV %s %s", c.key, jc.Pos))
					}
				}
			}
			r.jconvs = append(r.jconvs, jc)
			convRows = append(convRows, row)
		}
	}

	// ---- the Coq file ----
	var sb strings.Builder
	sb.WriteString("(* GENERATED by /verif/translator/cmd/nilgen from /repo/parser -- do not edit. *)\n")
	if c03 {
		sb.WriteString("(* The C03 reading: recording a parse error (p.errors = append(p.errors, ..)) is IHalt -- C03 speaks about\n   runs of Parse that return a nil error, in which no parse error is ever recorded. *)\n")
	} else {
		sb.WriteString("(* The C01 reading: the whole run of Parse, errors or not. *)\n")
	}
	sb.WriteString("From Coq Require Import List NArith String.\nFrom DC Require Import Nil.NilLang.\nImport ListNotations.\nLocal Open Scope N_scope.\n\n")
	for _, fi := range a.funcs {
		r.nodes += len(fi.g.nodes)
	}
	fmt.Fprintf(&sb, "(* %d functions reachable from %s, %d nodes (%d proved dead and dropped), %d use sites, %d store sites *)\n",
		len(a.funcs), a.entry.name, r.nodes, pruned, r.useTotal, r.storeTotal)
	for c := range pk.strict {
		r.strict = append(r.strict, c)
	}
	for c := range pk.dirty {
		r.dirty = append(r.dirty, c)
	}
	sort.Strings(r.strict)
	sort.Strings(r.dirty)
	fmt.Fprintf(&sb, "(* strict cell classes (loads are RAlloc, stores SStrict): %s *)\n", coqComment(strings.Join(r.strict, " ")))
	fmt.Fprintf(&sb, "(* dirty cell classes (loads are RUnknownDirty, stores SDirty): %s *)\n", coqComment(strings.Join(r.dirty, " ")))
	sb.WriteString("Local Notation nd i a b := (mkNode i a b) (only parsing).\n\n")
	for _, fi := range a.funcs {
		g := fi.g
		sp := a.specs[fi]
		var vs []string
		for i, v := range g.vars {
			vs = append(vs, fmt.Sprintf("%d:%s", i, v.name))
		}
		fmt.Fprintf(&sb, "(* %d: %s   vars %s *)\n", fi.id, fi.name, coqComment(strings.Join(vs, " ")))
		fmt.Fprintf(&sb, "Definition %s_f%d : func := mkFunc (mkSpec %s %s) [\n", name, fi.id, avList(sp.pNN, sp.pCL), avList(sp.rNN, sp.rCL))
		for i, n := range g.nodes {
			sep := ";"
			if i == len(g.nodes)-1 {
				sep = ""
			}
			cm := ""
			if n.site != nil {
				cm = " (* " + coqComment(n.site.key) + " *)"
			}
			fmt.Fprintf(&sb, "  nd (%s) %s %s%s%s\n", a.coqInstr(n), n.nn.big().String(), n.cl.big().String(), sep, cm)
		}
		sb.WriteString("].\n")
	}
	fmt.Fprintf(&sb, "\nDefinition %s : prog := mkProg [", name)
	for i := range a.funcs {
		if i > 0 {
			sb.WriteString("; ")
		}
		fmt.Fprintf(&sb, "%s_f%d", name, i)
	}
	var tns []int
	for t := range pk.tn {
		tns = append(tns, t)
	}
	sort.Ints(tns)
	var tnStr []string
	for _, t := range tns {
		tnStr = append(tnStr, fmt.Sprint(t))
		r.tnNames = append(r.tnNames, fmt.Sprintf("%d=%s", t, pk.typeNames[t]))
	}
	fmt.Fprintf(&sb, "] %d\n  (* pointer types of which a typed nil may exist: %s *)\n  [%s].\n\n", a.entry.id, coqComment(strings.Join(r.tnNames, " ")), strings.Join(tnStr, "; "))
	fid := func(fn string) int {
		if fi := pk.funcs[fn]; fi != nil && fi.reach {
			return fi.id
		}
		return 1 << 30 // absent: the lookup fails and the obligation with it
	}
	fmt.Fprintf(&sb, "Definition %s_fn_Parse : N := %d.\nDefinition %s_fn_ParseStatements : N := %d.\nDefinition %s_fn_parseStatement : N := %d.\n\n",
		name, fid("Parse"), name, fid("ParseStatements"), name, fid("parseStatement"))
	sb.WriteString("Local Open Scope string_scope.\n")
	sb.WriteString("(* constructs the translator could not model (function values, defer, go, recover, promoted fields through\n   pointers, ...): must be empty *)\n")
	fmt.Fprintf(&sb, "Definition %s_translation_problems : list string := [", name)
	for i, pr := range pk.problems {
		if i > 0 {
			sb.WriteString(";")
		}
		fmt.Fprintf(&sb, "\n  %s", coqStr(pr))
	}
	sb.WriteString("].\n\n")
	r.problems = append(r.problems, pk.problems...)
	fmt.Fprintf(&sb, "(* the graph sites the certificate does not cover: (site, key) *)\nDefinition %s_uncertified_sites : list (N * string) := [\n", name)
	first := true
	for _, js := range r.jsites {
		if js.Status == "certified" {
			continue
		}
		if !first {
			sb.WriteString(";\n")
		}
		first = false
		fmt.Fprintf(&sb, "  (%d%%N, %s)", js.ID, coqStr(js.Key))
	}
	sb.WriteString("\n].\n\n")
	if c03 {
		sb.WriteString("(* stores into the statement list returned by ParseStatements: (function, node) *)\n")
		fmt.Fprintf(&sb, "Definition %s_result_stores : list (N * N) := [", name)
		first = true
		if ps := pk.funcs["ParseStatements"]; ps != nil && ps.reach {
			for _, s := range ps.g.stores {
				if s.class == "elem:ast.Statement" {
					if !first {
						sb.WriteString("; ")
					}
					first = false
					fmt.Fprintf(&sb, "(%d%%N, %d%%N)", ps.id, s.node.id)
				}
			}
		}
		sb.WriteString("].\n\n")
		sb.WriteString("(* implicit pointer -> interface conversions: (key, status, function, node); status 0: the operand is a\n   composite literal / allocation; status 1: the node is [ISet _ (RConv y t) _] *)\n")
		fmt.Fprintf(&sb, "Definition %s_conv_sites : list (string * N * N * N) := [\n", name)
		for i, c := range convRows {
			sep := ";"
			if i == len(convRows)-1 {
				sep = ""
			}
			fmt.Fprintf(&sb, "  (%s, %d%%N, %d%%N, %d%%N)%s\n", coqStr(c.key), c.status, c.fn, c.pc, sep)
		}
		sb.WriteString("].\n")
	}
	writeIfChanged(path, []byte(sb.String()))

	for _, fi := range a.funcs {
		sp := a.specs[fi]
		jf := &jsonFunc{Name: fi.name, ID: fi.id, Nodes: len(fi.g.nodes), Vars: len(fi.g.vars)}
		for i, p := range trackedParams(fi.sig) {
			nm := "recv"
			if p.idx >= 0 {
				nm = fi.sig.Params().At(p.idx).Name()
			}
			jf.Params = append(jf.Params, nm+": "+specStr(sp.pNN[i], sp.pCL[i]))
		}
		for j := range trackedResults(fi.sig) {
			jf.Results = append(jf.Results, specStr(sp.rNN[j], sp.rCL[j]))
		}
		r.jfuncs = append(r.jfuncs, jf)
	}
	r.decisions = append(r.decisions, a.demoted...)
	for _, b := range r.bad {
		r.lines = append(r.lines, "SELFCHECK "+tag+": "+b)
	}
	return r
}

// emitRest writes the inventories (Gen/ParserNilInv.v), the reviewed lists, the schema and the report
func (a *analysis) emitRest(out, rep string, allow *allowList, inv *inventory, r1, r3 *progResult) *result {
	pk := a.pk
	r := &result{}
	r.lines = append(r.lines, r1.lines...)
	r.lines = append(r.lines, r3.lines...)
	reviewed := func(list []*allowEntry) map[string]*allowEntry {
		m := map[string]*allowEntry{}
		for _, e := range list {
			m[e.Key] = e
		}
		return m
	}
	idxRev, asRev, paRev := reviewed(allow.Index), reviewed(allow.Assert), reviewed(allow.Panic)
	count := func(ss []*invSite, rev map[string]*allowEntry, kind string, total, open *int) {
		for _, s := range ss {
			*total++
			if s.Guard == "unguarded" || kind == "PANIC" {
				if e := rev[s.Key]; e != nil {
					e.used = true
					continue
				}
				*open++
				r.lines = append(r.lines, fmt.Sprintf("%s %s %s %s", kind, s.Key, s.Detail, s.Pos))
			}
		}
	}
	count(inv.index, idxRev, "INDEX", &r.indexTotal, &r.indexOpen)
	count(inv.assert, asRev, "ASSERT", &r.assertTotal, &r.assertOpen)
	count(inv.panics, paRev, "PANIC", &r.panicTotal, &r.panicOpen)

	var sb strings.Builder
	sb.WriteString("(* GENERATED by /verif/translator/cmd/nilgen from /repo/parser -- do not edit. *)\n")
	sb.WriteString("From Coq Require Import List NArith String.\nImport ListNotations.\nLocal Open Scope string_scope.\n\n")
	emitInv := func(name, doc string, ss []*invSite) {
		fmt.Fprintf(&sb, "(* %s: (key, guard) *)\nDefinition %s : list (string * string) := [\n", doc, name)
		sorted := append([]*invSite{}, ss...)
		sortSites(sorted)
		for i, s := range sorted {
			sep := ";"
			if i == len(sorted)-1 {
				sep = ""
			}
			fmt.Fprintf(&sb, "  (%s, %s)%s\n", coqStr(s.Key), coqStr(s.Guard), sep)
		}
		sb.WriteString("].\n\n")
	}
	emitInv("index_sites", "index and slice expressions on slices, strings, arrays", inv.index)
	emitInv("assert_sites", "type assertions without comma-ok", inv.assert)
	emitInv("panic_sites", "explicit panics and integer divisions by a non-constant", inv.panics)
	writeIfChanged(filepath.Join(out, "ParserNilInv.v"), []byte(sb.String()))

	// reviewed entries that match nothing (or whose context is gone) are an error of the reviewed list
	stale := []string{}
	for _, l := range [][]*allowEntry{allow.Use, allow.Store, allow.Index, allow.Assert, allow.Panic, allow.Conv} {
		for _, e := range l {
			if !e.used {
				stale = append(stale, e.Key+" (matches no open site)")
			}
		}
	}
	for _, e := range allow.voided {
		stale = append(stale, e.Key+" ("+e.void+")")
	}
	sort.Strings(stale)

	// ---- ParserNilAllowed.v ----
	sb.Reset()
	sb.WriteString("(* GENERATED by /verif/translator/cmd/nilgen from /verif/checks/c01_reviewed_sites.json -- do not edit.\n")
	sb.WriteString("   Every entry is a REVIEWED CLAIM that weakens the theorems of Properties/C01_nil.v and C03_nil.v. *)\n")
	sb.WriteString("From Coq Require Import List NArith String.\nImport ListNotations.\nLocal Open Scope string_scope.\n\n")
	emitRows := func(name, doc string, rows []allowedRow) {
		fmt.Fprintf(&sb, "(* %s *)\nDefinition %s : list (N * string) := [\n", doc, name)
		for i, rw := range rows {
			sep := ";"
			if i == len(rows)-1 {
				sep = ""
			}
			fmt.Fprintf(&sb, "  (%d%%N, %s)%s (* %s *)\n", rw.id, coqStr(rw.key), sep, coqComment(rw.why))
		}
		sb.WriteString("].\n\n")
	}
	emitRows("reviewed_c01", "sites of parser_nil: use sites whose operand is claimed never nil, store sites claimed never to store a typed nil", r1.rows)
	emitRows("reviewed_c03", "sites of parser_nil_c03: the same claims, plus store sites claimed to store a typed nil only after a parse error was recorded", r3.rows)
	emitKeys := func(name, doc string, es []*allowEntry) {
		fmt.Fprintf(&sb, "(* %s *)\nDefinition %s : list string := [\n", doc, name)
		for i, e := range es {
			sep := ";"
			if i == len(es)-1 {
				sep = ""
			}
			fmt.Fprintf(&sb, "  %s%s (* %s *)\n", coqStr(e.Key), sep, coqComment(e.Why))
		}
		sb.WriteString("].\n\n")
	}
	emitKeys("reviewed_index", "index/slice expressions reviewed as in range", allow.Index)
	emitKeys("reviewed_assert", "unchecked type assertions reviewed as never failing", allow.Assert)
	emitKeys("reviewed_panic", "explicit panics / divisions reviewed as unreachable / non-zero", allow.Panic)
	emitKeys("reviewed_conv", "pointer -> interface conversions reviewed (operand never nil, or the typed nil is harmless)", allow.Conv)
	sb.WriteString("(* entries of the reviewed list that match no open site of this program or whose context is gone: must be empty *)\nDefinition stale_reviewed : list string := [\n")
	for i, st := range stale {
		sep := ";"
		if i == len(stale)-1 {
			sep = ""
		}
		fmt.Fprintf(&sb, "  %s%s\n", coqStr(st), sep)
	}
	sb.WriteString("].\n")
	writeIfChanged(filepath.Join(out, "ParserNilAllowed.v"), []byte(sb.String()))

	// ---- AstSchema.v ----
	sc := pk.buildSchema(a)
	sb.Reset()
	sb.WriteString("(* GENERATED by /verif/translator/cmd/nilgen from /repo/ast (and the stores of /repo/parser) -- do not edit. *)\n")
	sb.WriteString("From Coq Require Import List NArith String.\nFrom DC Require Import Nil.SchemaLang.\nImport ListNotations.\nLocal Open Scope string_scope.\n\n")
	sb.WriteString("(* every struct type: name, custom MarshalJSON?, index of the field whose non-finite float64 the custom\n   marshaller replaces by a string (None if there is none), fields (name, type, skipped by json:\"-\") *)\n")
	sb.WriteString("Definition ast_structs : list sdecl := [\n")
	for i, ss := range sc.Structs {
		sep := ";"
		if i == len(sc.Structs)-1 {
			sep = ""
		}
		fix := "None"
		if ss.FixField >= 0 {
			fix = fmt.Sprintf("(Some %d%%nat)", ss.FixField)
		}
		var fs []string
		for _, f := range ss.Fields {
			fs = append(fs, fmt.Sprintf("mkField %s %s %s", coqStr(f.Name), f.Coq, coqBool(f.Skipped)))
		}
		fmt.Fprintf(&sb, "  mkDecl %s %s %s [\n    %s]%s\n", coqStr(ss.Name), coqBool(ss.Custom), fix, strings.Join(fs, ";\n    "), sep)
	}
	sb.WriteString("].\n\n(* the dynamic types behind every non-empty interface type used by a field (closed world: package ast) *)\n")
	sb.WriteString("Definition ast_impls : list (string * list jtype) := [\n")
	var inames []string
	for n := range sc.impls {
		inames = append(inames, n)
	}
	sort.Strings(inames)
	for i, n := range inames {
		sep := ";"
		if i == len(inames)-1 {
			sep = ""
		}
		fmt.Fprintf(&sb, "  (%s, [%s])%s\n", coqStr(n), strings.Join(sc.impls[n], "; "), sep)
	}
	sb.WriteString("].\n\n(* the static types that package parser stores into interface{} cells (Literal.Value) *)\n")
	fmt.Fprintf(&sb, "Definition any_types : list jtype := [%s].\n", strings.Join(sc.anyCoq, "; "))
	writeIfChanged(filepath.Join(out, "AstSchema.v"), []byte(sb.String()))

	// ---- report ----
	var unreach []string
	for _, n := range pk.names {
		if !pk.funcs[n].reach {
			unreach = append(unreach, n)
		}
	}
	reading := func(p *progResult) map[string]interface{} {
		return map[string]interface{}{
			"functions":          p.jfuncs,
			"nodes":              p.nodes,
			"dead_nodes_dropped": p.pruned,
			"rounds":             p.rounds,
			"sites":              p.jsites,
			"use_total":          p.useTotal,
			"use_certified":      p.useCert,
			"use_reviewed":       p.useReviewed,
			"use_open":           p.useOpen,
			"store_total":        p.storeTotal,
			"store_certified":    p.storeCert,
			"store_reviewed":     p.storeReviewed,
			"store_open":         p.storeOpen,
			"conv_sites":         p.jconvs,
			"conv_open":          p.convOpen,
			"typed_nil_types":    p.tnNames,
			"strict_classes":     p.strict,
			"dirty_classes":      p.dirty,
			"class_decisions":    p.decisions,
			"problems":           p.problems,
			"selfcheck_failures": p.bad,
			"certified":          len(p.bad) == 0 && len(p.problems) == 0,
		}
	}
	report := map[string]interface{}{
		"entry":                 a.entry.name,
		"unreachable_functions": unreach,
		"c01":                   reading(r1),
		"c03":                   reading(r3),
		"index_sites":           inv.index,
		"index_open":            r.indexOpen,
		"assert_sites":          inv.assert,
		"assert_open":           r.assertOpen,
		"panic_sites":           inv.panics,
		"panic_open":            r.panicOpen,
		"stale_reviewed_keys":   stale,
		"schema":                sc,
		"certified_c01":         len(r1.bad) == 0 && len(r1.problems) == 0 && len(stale) == 0 && r.indexOpen+r.assertOpen+r.panicOpen == 0,
		"certified_c03":         len(r3.bad) == 0 && len(r3.problems) == 0 && len(stale) == 0 && r3.convOpen == 0,
	}
	data, err := json.MarshalIndent(report, "", " ")
	must(err)
	writeIfChanged(rep, append(data, '\n'))
	for _, s := range stale {
		r.lines = append(r.lines, "STALE reviewed key: "+s)
	}
	return r
}
