// nilgen translates package /repo/parser into the nil-flow graphs used by properties C01 (Parse never
// dereferences nil) and C03 (no typed nil in the tree). It writes
//
//	coq/Gen/ParserNil.v         parser_nil : prog of DC.Nil.NilLang, the C01 reading (the whole run): one graph per
//	                            function reachable from Parse, with an UNTRUSTED certificate: per node the variables
//	                            that are certainly not nil / not a typed nil, per function what callers guarantee
//	                            for the parameters and what the function guarantees for its results; the table of
//	                            uncertified sites
//	coq/Gen/ParserNilC03.v      parser_nil_c03, the C03 reading: the same translation except that recording a parse
//	                            error (p.errors = append(p.errors, ..)) is IHalt -- C03 speaks about runs that return
//	                            a nil error -- with its own certificate, conv_sites and result_stores
//	coq/Gen/ParserNilInv.v      the inventories index_sites / assert_sites / panic_sites
//	coq/Gen/ParserNilAllowed.v  the reviewed sites of checks/c01_reviewed_sites.json matched against this program
//	coq/Gen/AstSchema.v         the struct types of package ast as encoding/json sees them
//	build/nilgen_report.json    everything above plus, for every uncertified site, the path that makes the
//	                            operand possibly nil
//
// The certificate is checked, not trusted, by DC.Nil.NilCheck.check_prog inside the Coq kernel
// (Properties/C01_nil.v, C03_nil.v). What IS trusted is the translation; its rules:
//
//   - Variables are the parameters (receiver first), results, locals and temporaries of pointer,
//     interface, slice, map, chan or func type whose address is never taken. Everything else that can
//     be nil (heap cells, package-level variables, escaped locals) is read as Unknown.
//   - Every evaluation that dereferences becomes IUse: method call on an interface, field access or
//     assignment through a pointer, *p, &p.f, a method of another package called through a pointer
//     (methods of package ast only if their body mentions the receiver), a value-receiver method called
//     through a pointer, x.(T) without comma-ok, a write to a map, a call of a function value.
//     len, cap, range, append, indexing and slicing of nil slices do not dereference (indexing is
//     inventoried separately).
//   - Bool results of functions of package parser are model values too (false = nil, true = usable), so that
//     `if !p.expect(..) { return nil }` is an IGuard on the result.
//   - Conditions are control flow: && || ! as branches, x == nil / x != nil as IGuard,
//     v, ok := x.(T) followed (through joins only) by a test of ok as ITypeTest, type switches as chains
//     of ITypeTest, everything else as IBranch (both ways possible). The reflect idiom of
//     parseStatement (`if v := reflect.ValueOf(x); x == nil || (v.Kind() == reflect.Ptr && v.IsNil())`)
//     is RNormalize followed by IGuard.
//   - Calls of functions of package parser are ICall (the callee's graph runs on an explicit stack);
//     results of other functions are Unknown (dirty for interfaces) except a short list of functions
//     known to return usable values (fmt.Errorf, lexer.New, ...). There are no function values, closures,
//     defer, go or recover in the package (anything of the kind is a translation problem, and
//     translation_problems must be empty).
//   - Heap model (fields.go): a heap cell is not a variable. Cells are partitioned into classes
//     ("field T.F", "elements of []E", other interface cells by type). Every store into a class is an
//     IStore obligation and loads are translated by what the obligations of the class guarantee:
//     strict (stores usable values only; loads are usable), clean (no typed nil stored; loads are never
//     typed nils), dirty (anything; loads may be typed nils of the types listed in p_tn). A class is
//     strict/clean only if cells of it cannot come into being without a store (no make([]E, n) with n > 0,
//     no arrays, no re-slicing upwards, every composite literal of T sets F and T is never
//     zero-initialised). Which classes are strict/clean is decided by the translator (start optimistic,
//     drop a class when one of its stores is not certified); the Coq side re-checks every store.
//   - Pseudo-variables x.F (x a local pointer variable, F a pointer/interface/map field) mirror a heap
//     cell across statements: set to Unknown at entry, when x is assigned, when T.F is assigned through
//     another path, and after every call whose callee (transitively) assigns T.F -- unless x always holds
//     an object allocated in this function that never escapes before return (fresh local).
//
// Files: load.go (type-checked package, ast sources, type numbering), build.go (graph data, sites,
// conversions, stores), expr.go (expressions, calls, conditions), stmt.go (statements, assignments, the
// reflect idiom), func.go (one function: two passes, jump threading of comma-ok booleans, numbering),
// fields.go (field writes, pseudo-variables, fresh locals, strict classes), analyze.go (certificate by
// greatest fixpoint, replay of the Coq checker), paths.go (why a variable may be nil), inventory.go
// (index / assertion / panic inventories and their guards), schema.go (AstSchema), emit.go (reviewed
// list, Coq and JSON output), dump.go (debug output). selftest/mutations.py re-introduces the fixed
// defects and some new ones in a scratch copy of /repo and checks that an obligation breaks.
//
// Usage: nilgen -repo /repo -out /verif/coq/Gen -report /verif/build/nilgen_report.json
//
//	-allow file     reviewed sites (default /verif/checks/c01_reviewed_sites.json)
//	-v              print the open sites, the class decisions and the translation problems
//	-dump fn        print the graph of a function with its certificate
//	-texts fn       print the statement / condition texts of a function (for `context` of reviewed entries)
//	-whywrites fn:pkg.Type.Field   a call chain from fn to an assignment of the field
//
// Exit status 0 when the files were written (also when obligations fail: then Properties/C01_nil.v or
// C03_nil.v does not compile and the report has certified_c01/certified_c03 = false), 2 on a fatal error.
package main

import (
	"bytes"
	"flag"
	"fmt"
	"os"
	"path/filepath"
	"sort"
	"strings"
)

func must(err error) {
	if err != nil {
		fmt.Fprintln(os.Stderr, "nilgen:", err)
		os.Exit(2)
	}
}

func writeIfChanged(path string, data []byte) {
	old, err := os.ReadFile(path)
	if err == nil && bytes.Equal(old, data) {
		return
	}
	must(os.MkdirAll(filepath.Dir(path), 0o755))
	must(os.WriteFile(path, data, 0o644))
}

func main() {
	repo := flag.String("repo", "/repo", "repository root")
	out := flag.String("out", "/verif/coq/Gen", "output directory")
	rep := flag.String("report", "/verif/build/nilgen_report.json", "report file")
	allowFile := flag.String("allow", "/verif/checks/c01_reviewed_sites.json", "reviewed sites")
	entryName := flag.String("entry", "Parse", "entry function")
	verbose := flag.Bool("v", false, "print uncertified sites")
	dumpFn := flag.String("dump", "", "debug: print the graph of a function")
	dumpC03 := flag.Bool("c03", false, "debug: -dump prints the graph of the C03 reading")
	textsFn := flag.String("texts", "", "debug: print the statement / condition texts of a function (for the context field of reviewed entries)")
	whyW := flag.String("whywrites", "", "debug: fn:pkg.Type.Field -- a call chain from fn to an assignment of the field")
	flag.Parse()

	absRepo, err := filepath.Abs(*repo)
	must(err)
	*out, err = filepath.Abs(*out)
	must(err)
	*rep, err = filepath.Abs(*rep)
	must(err)
	*allowFile, err = filepath.Abs(*allowFile)
	must(err)
	// the source importer resolves the module's packages through the go command: run inside the module
	must(os.Chdir(absRepo))
	if os.Getenv("GOFLAGS") == "" {
		os.Setenv("GOFLAGS", "-mod=mod")
	}
	if os.Getenv("GOPROXY") == "" {
		os.Setenv("GOPROXY", "off")
	}
	pk := loadPackage(absRepo)
	entry := pk.funcs[*entryName]
	if entry == nil {
		must(fmt.Errorf("entry function %s not found", *entryName))
	}
	pk.markReachable(entry)
	pk.fieldWrites()
	a := &analysis{pk: pk, entry: entry}
	a.funcs = append(a.funcs, entry)
	for _, name := range pk.names {
		fi := pk.funcs[name]
		if fi.reach && fi != entry {
			a.funcs = append(a.funcs, fi)
		}
	}
	for i, fi := range a.funcs {
		fi.id = i
	}
	allow := loadAllow(*allowFile)
	allow.validate(pk)
	if *textsFn != "" {
		probe := &allowList{Use: []*allowEntry{{Key: "parser|" + *textsFn + "|x", Context: []string{"\x00"}}}, use: map[string]*allowEntry{}, store: map[string]*allowEntry{}}
		probe.dump = true
		probe.validate(pk)
	}
	inv := pk.inventories(a)
	// two readings: C01 (the whole run) and C03 (runs are cut at the first recorded parse error)
	var results [2]*progResult
	for mode := 0; mode < 2; mode++ {
		c03 := mode == 1
		rounds, pruned := a.runMode(allow, c03)
		if *dumpFn != "" && (c03 == *dumpC03) {
			if fi := pk.funcs[*dumpFn]; fi != nil && fi.g != nil {
				a.dump(fi)
			}
		}
		if *whyW != "" && !c03 {
			if i := strings.Index(*whyW, ":"); i > 0 {
				if fi := pk.funcs[(*whyW)[:i]]; fi != nil {
					pk.whyWrites(fi, (*whyW)[i+1:])
				}
			}
		}
		file, name := "ParserNil.v", "parser_nil"
		if c03 {
			file, name = "ParserNilC03.v", "parser_nil_c03"
		}
		results[mode] = a.emitProgram(filepath.Join(*out, file), name, allow, c03, rounds, pruned)
	}
	res := a.emitRest(*out, *rep, allow, inv, results[0], results[1])
	if *verbose {
		sort.Strings(res.lines)
		for _, l := range res.lines {
			fmt.Println(l)
		}
		for _, r := range results {
			tag := "c01"
			if r.c03 {
				tag = "c03"
			}
			for _, d := range r.decisions {
				fmt.Println(tag, "class decision:", d)
			}
			fmt.Println(tag, "strict classes:", strings.Join(r.strict, " "))
			fmt.Println(tag, "dirty classes:", strings.Join(r.dirty, " "))
			fmt.Println(tag, "typed-nil types:", strings.Join(r.tnNames, " "))
			for _, p := range r.problems {
				fmt.Println(tag, "problem:", p)
			}
		}
	}
	for _, r := range results {
		tag := "C01 reading"
		if r.c03 {
			tag = "C03 reading"
		}
		fmt.Printf("nilgen %s: %d functions, %d nodes (+%d dead), use sites %d = %d certified + %d reviewed + %d open, store obligations %d = %d certified + %d reviewed + %d open, conv %d (%d open), %d problems, %d rounds\n",
			tag, len(a.funcs), r.nodes, r.pruned, r.useTotal, r.useCert, r.useReviewed, r.useOpen, r.storeTotal, r.storeCert, r.storeReviewed, r.storeOpen,
			r.convTotal, r.convOpen, len(r.problems), r.rounds)
	}
	fmt.Printf("nilgen: index %d (%d open), assert %d (%d open), panic %d (%d open)\n",
		res.indexTotal, res.indexOpen, res.assertTotal, res.assertOpen, res.panicTotal, res.panicOpen)
}

// runMode builds and certifies the program of one reading
func (a *analysis) runMode(allow *allowList, c03 bool) (rounds, pruned int) {
	pk := a.pk
	pk.errHalts = c03
	pk.problems = nil
	pk.checkForms()
	pk.typeIDs, pk.typeNames = nil, nil
	a.demoted = nil
	// strict cell classes: start from all candidates, drop a class when one of its stores cannot be certified
	pk.strict = pk.strictCandidates(a.funcs)
	pk.dirty = map[string]bool{}
	pk.tn = map[int]bool{}
	for {
		a.sites = nil
		n0 := len(pk.problems)
		_ = n0
		pk.problems = nil
		pk.checkForms()
		pk.typeIDs, pk.typeNames = nil, nil
		tnNames := map[string]bool{}
		_ = tnNames
		for _, fi := range a.funcs {
			fi.g = pk.buildFunc(fi)
		}
		for _, fi := range a.funcs {
			for _, s := range fi.g.sites {
				s.id = len(a.sites)
				a.sites = append(a.sites, s)
			}
		}
		rounds += a.solve()
		demoted := false
		drop := map[string]bool{}
		for _, s := range a.sites {
			if s.kind == "store" && s.node.strict && !a.siteCertified(s) && pk.strict[s.class] {
				drop[s.class] = true
				demoted = true
				a.demoted = append(a.demoted, fmt.Sprintf("not strict: %s: %s (%s)", s.class, s.key, pk.posString(s.pos)))
			}
		}
		for c := range drop {
			delete(pk.strict, c)
		}
		for _, s := range a.sites {
			if s.kind == "store" && s.node.mode == storeClean && !a.siteCertified(s) && !pk.dirty[s.class] && !allow.cleanReviewed(s.key) {
				pk.dirty[s.class] = true
				demoted = true
				a.demoted = append(a.demoted, fmt.Sprintf("dirty: %s: %s (%s)", s.class, s.key, pk.posString(s.pos)))
			}
		}
		// pointer types of which a typed nil may be created (type numbers are stable: the graphs are rebuilt
		// in the same order)
		for _, fi := range a.funcs {
			for _, n := range fi.g.nodes {
				if n.kind == kSet && n.rhs == rConv && n.visited && !n.nn.has(n.y) && !pk.tn[n.ptype] {
					pk.tn[n.ptype] = true
					demoted = true
					a.demoted = append(a.demoted, fmt.Sprintf("typed nil possible: %s (%s %s)", pk.typeNames[n.ptype], fi.name, pk.posString(n.pos)))
				}
			}
		}
		if !demoted {
			break
		}
	}
	pruned = a.prune()
	return rounds, pruned
}
