// nilgen translates package /repo/parser into the nil-flow graphs used by properties C01 (no nil
// dereference in Parse) and C03 (no typed nil in the tree): coq/Gen/ParserNil.v (a term
// `parser_nil : prog` of DC.Nil.NilLang with an untrusted certificate, the site tables and the
// inventories of index / assertion / conversion / panic sites), coq/Gen/ParserNilAllowed.v (the
// reviewed sites of checks/c01_reviewed_sites.json), coq/Gen/AstSchema.v (the struct types of
// package ast) and build/nilgen_report.json.
//
// Files: load.go (type-checked package, ast sources), build.go/expr.go/stmt.go/func.go (Go AST -> graph),
// fields.go (pseudo-variables for fields of local pointers), analyze.go (certificate: per-node sets and
// function specs by greatest fixpoint, replay of the Coq checker), inventory.go (index, assertion,
// panic inventories), schema.go (AstSchema), emit.go (Coq and JSON output).
//
// Usage: nilgen -repo /repo -out /verif/coq/Gen -report /verif/build/nilgen_report.json
//
//	-allow file   reviewed sites (default /verif/checks/c01_reviewed_sites.json)
//	-v            print the uncertified sites
//
// Exit status 0 when the files were written (also when obligations fail: then Properties/C01_nil.v
// or C03_nil.v does not compile), 2 on a fatal error.
package main

import (
	"bytes"
	"flag"
	"fmt"
	"os"
	"path/filepath"
	"sort"
	"strings"
)

func must(err error) {
	if err != nil {
		fmt.Fprintln(os.Stderr, "nilgen:", err)
		os.Exit(2)
	}
}

func writeIfChanged(path string, data []byte) {
	old, err := os.ReadFile(path)
	if err == nil && bytes.Equal(old, data) {
		return
	}
	must(os.MkdirAll(filepath.Dir(path), 0o755))
	must(os.WriteFile(path, data, 0o644))
}

func main() {
	repo := flag.String("repo", "/repo", "repository root")
	out := flag.String("out", "/verif/coq/Gen", "output directory")
	rep := flag.String("report", "/verif/build/nilgen_report.json", "report file")
	allowFile := flag.String("allow", "/verif/checks/c01_reviewed_sites.json", "reviewed sites")
	entryName := flag.String("entry", "Parse", "entry function")
	verbose := flag.Bool("v", false, "print uncertified sites")
	dumpFn := flag.String("dump", "", "debug: print the graph of a function")
	whyW := flag.String("whywrites", "", "debug: fn:pkg.Type.Field -- a call chain from fn to an assignment of the field")
	flag.Parse()

	absRepo, err := filepath.Abs(*repo)
	must(err)
	*out, err = filepath.Abs(*out)
	must(err)
	*rep, err = filepath.Abs(*rep)
	must(err)
	*allowFile, err = filepath.Abs(*allowFile)
	must(err)
	// the source importer resolves the module's packages through the go command: run inside the module
	must(os.Chdir(absRepo))
	if os.Getenv("GOFLAGS") == "" {
		os.Setenv("GOFLAGS", "-mod=mod")
	}
	if os.Getenv("GOPROXY") == "" {
		os.Setenv("GOPROXY", "off")
	}
	pk := loadPackage(absRepo)
	entry := pk.funcs[*entryName]
	if entry == nil {
		must(fmt.Errorf("entry function %s not found", *entryName))
	}
	pk.markReachable(entry)
	pk.fieldWrites()
	a := &analysis{pk: pk, entry: entry}
	a.funcs = append(a.funcs, entry)
	for _, name := range pk.names {
		fi := pk.funcs[name]
		if fi.reach && fi != entry {
			a.funcs = append(a.funcs, fi)
		}
	}
	for i, fi := range a.funcs {
		fi.id = i
	}
	// strict cell classes: start from all candidates, drop a class when one of its stores cannot be certified
	allow := loadAllow(*allowFile)
	pk.strict = pk.strictCandidates(a.funcs)
	pk.dirty = map[string]bool{}
	rounds := 0
	for {
		a.sites = nil
		for _, fi := range a.funcs {
			fi.g = pk.buildFunc(fi)
		}
		for _, fi := range a.funcs {
			for _, s := range fi.g.sites {
				s.id = len(a.sites)
				a.sites = append(a.sites, s)
			}
		}
		rounds += a.solve()
		demoted := false
		drop := map[string]bool{}
		for _, s := range a.sites {
			if s.kind == "store" && s.node.strict && !a.siteCertified(s) && pk.strict[s.class] {
				drop[s.class] = true
				demoted = true
				a.demoted = append(a.demoted, fmt.Sprintf("%s: %s (%s)", s.class, s.key, pk.posString(s.pos)))
			}
		}
		for c := range drop {
			delete(pk.strict, c)
		}
		for _, s := range a.sites {
			if s.kind == "store" && s.node.mode == storeClean && !a.siteCertified(s) && !pk.dirty[s.class] && !allow.cleanReviewed(s.key) {
				pk.dirty[s.class] = true
				demoted = true
				a.demoted = append(a.demoted, fmt.Sprintf("%s dirty: %s (%s)", s.class, s.key, pk.posString(s.pos)))
			}
		}
		if !demoted {
			break
		}
		pk.problems = nil
		pk.checkForms()
	}
	if *dumpFn != "" {
		if fi := pk.funcs[*dumpFn]; fi != nil && fi.g != nil {
			a.dump(fi)
		}
	}
	if *whyW != "" {
		if i := strings.Index(*whyW, ":"); i > 0 {
			if fi := pk.funcs[(*whyW)[:i]]; fi != nil {
				pk.whyWrites(fi, (*whyW)[i+1:])
			}
		}
	}
	inv := pk.inventories(a)
	res := a.emitAll(*out, *rep, allow, inv, rounds)
	if *verbose {
		sort.Strings(res.lines)
		for _, l := range res.lines {
			fmt.Println(l)
		}
	}
	fmt.Printf("nilgen: %d functions, %d nodes, %d use sites (%d certified, %d reviewed, %d open), %d store sites (%d open), %d problems, %d rounds\n",
		len(a.funcs), res.nodes, res.useTotal, res.useCert, res.useAllowed, res.useOpen, res.storeTotal, res.storeOpen, len(pk.problems), rounds)
	fmt.Printf("nilgen: index %d (%d open), assert %d (%d open), conv %d (%d open), panic %d (%d open)\n",
		res.indexTotal, res.indexOpen, res.assertTotal, res.assertOpen, res.convTotal, res.convOpen, res.panicTotal, res.panicOpen)
	if *verbose {
		for _, d := range a.demoted {
			fmt.Println("not strict:", d)
		}
		var cs []string
		for c := range pk.strict {
			cs = append(cs, c)
		}
		sort.Strings(cs)
		fmt.Println("strict classes:", strings.Join(cs, " "))
		cs = nil
		for c := range pk.dirty {
			cs = append(cs, c)
		}
		sort.Strings(cs)
		fmt.Println("dirty classes:", strings.Join(cs, " "))
	}
	if len(pk.problems) > 0 && *verbose {
		for _, p := range pk.problems {
			fmt.Println("problem:", p)
		}
	}
}
