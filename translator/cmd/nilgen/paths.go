package main

import (
	"fmt"
)

// whyBad explains why variable x may be nil (or a typed nil) on entry to node at: a backward search
// to the closest definition that yields a possibly bad value. The result is a list of steps, origin
// first, each "file:line:col what".
func (a *analysis) whyBad(fi *fnInfo, at *node, x int) []string {
	g := fi.g
	preds := map[*node][]*node{}
	for _, n := range g.nodes {
		for _, s := range succs(n) {
			preds[s] = append(preds[s], n)
		}
	}
	type st struct {
		n      *node
		v      int
		nn, cl bool // which guarantee is missing
	}
	prev := map[st]st{}
	start := st{at, x, !at.nn.has(x), !at.cl.has(x)}
	seen := map[st]bool{start: true}
	queue := []st{start}
	vn := func(v int) string { return g.vars[v].name }
	describe := func(s st, origin string) []string {
		var steps []string
		steps = append(steps, origin)
		for cur := s; ; {
			nx, ok := prev[cur]
			if !ok {
				break
			}
			if nx.n.pos.IsValid() && (nx.n.kind == kGuard || nx.n.kind == kCall || nx.n.kind == kSet && nx.n.rhs == rCopy) {
				steps = append(steps, fmt.Sprintf("%s via %s", a.pk.posString(nx.n.pos), a.nodeStr(g, nx.n)))
			}
			cur = nx
			if len(steps) > 12 {
				steps = append(steps, "...")
				break
			}
		}
		return steps
	}
	for len(queue) > 0 {
		cur := queue[0]
		queue = queue[1:]
		if cur.n == g.entry {
			for i, pv := range g.params {
				if pv == cur.v {
					sp := a.specs[fi]
					if !(sp.pNN[i] && sp.pCL[i]) {
						return describe(cur, fmt.Sprintf("parameter %s of %s may be nil: %s", vn(cur.v), fi.name, a.badCallers(fi, i)))
					}
				}
			}
		}
		for _, p := range preds[cur.n] {
			// which edge
			for k, s := range succs(p) {
				if s != cur.n {
					continue
				}
				out := a.flow(p, state{p.nn, p.cl}, k)
				missNN := cur.nn && !out.nn.has(cur.v)
				missCL := cur.cl && !out.cl.has(cur.v)
				if !missNN && !missCL {
					continue // what the use needs holds along this edge
				}
				next := st{p, cur.v, missNN, missCL}
				origin := ""
				switch p.kind {
				case kSet:
					if p.x == cur.v {
						switch p.rhs {
						case rCopy:
							next = st{p, p.y, missNN, missCL}
						case rNil:
							origin = fmt.Sprintf("%s %s := nil", a.pk.posString(p.pos), vn(cur.v))
						case rUnknown, rUnknownDirty:
							origin = fmt.Sprintf("%s %s := value read from the heap / external call (may be nil)", a.pk.posString(p.pos), vn(cur.v))
						case rConv:
							origin = fmt.Sprintf("%s %s := interface(%s) where the pointer may be nil (typed nil)", a.pk.posString(p.pos), vn(cur.v), vn(p.y))
						case rNormalize:
							origin = fmt.Sprintf("%s %s := normalised %s (nil if it was a typed nil)", a.pk.posString(p.pos), vn(cur.v), vn(p.y))
						case rAssert:
							origin = fmt.Sprintf("%s %s := %s.(T) of a possibly typed-nil interface", a.pk.posString(p.pos), vn(cur.v), vn(p.y))
						default:
							continue
						}
					}
				case kCall:
					for j, r := range p.rets {
						if r == cur.v {
							origin = fmt.Sprintf("%s %s := result %d of %s, which may return nil", a.pk.posString(p.pos), vn(cur.v), j, p.callee.name)
						}
					}
				case kTypeTest:
					if p.x == cur.v {
						if k == 1 {
							origin = fmt.Sprintf("%s %s := zero value of a failed type test", a.pk.posString(p.pos), vn(cur.v))
						} else {
							origin = fmt.Sprintf("%s %s := %s.(T) where %s may hold a typed nil", a.pk.posString(p.pos), vn(cur.v), vn(p.y), vn(p.y))
						}
					}
				case kGuard:
					if p.x == cur.v && k == 1 {
						origin = fmt.Sprintf("%s the nil branch of a test of %s", a.pk.posString(p.pos), vn(cur.v))
					}
				}
				if origin != "" {
					prev[st{p, -1, false, false}] = cur
					return describe(st{p, -1, false, false}, origin)
				}
				// the guarantee may have been lost at p itself (e.g. gained only on the other branch)
				next.nn = next.nn && !p.nn.has(next.v)
				next.cl = next.cl && !p.cl.has(next.v)
				if !next.nn && !next.cl {
					continue
				}
				if !seen[next] {
					seen[next] = true
					prev[next] = cur
					queue = append(queue, next)
				}
			}
		}
	}
	return []string{"variable never assigned a usable value on some path (no definition found)"}
}

func (a *analysis) badCallers(fi *fnInfo, i int) string {
	var out []string
	for _, f := range a.funcs {
		for _, n := range f.g.nodes {
			if n.kind == kCall && n.callee == fi && i < len(n.args) {
				nn, cl := state{n.nn, n.cl}.opAV(n.args[i])
				if !(nn && cl) {
					out = append(out, fmt.Sprintf("%s (%s)", f.name, a.pk.posString(n.pos)))
				}
			}
		}
	}
	if len(out) > 6 {
		out = append(out[:6], "...")
	}
	return fmt.Sprintf("called with a possibly nil argument from %v", out)
}
