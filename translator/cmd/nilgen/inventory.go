package main

type inventory struct{}

func (pk *pkgInfo) inventories(a *analysis) *inventory { return &inventory{} }
