package main

import (
	"fmt"
	"go/ast"
	"go/constant"
	"go/token"
	"go/types"
	"sort"
	"strings"
)

// Inventories of the panic sources that the nil-flow graphs do not model (all keyed by
// package|function|normalised text[#k], never by line):
//
//	index_sites   x[i], x[i:j] on slices, strings and arrays, with the guard that was recognised
//	assert_sites  x.(T) without comma-ok
//	panic_sites   panic(..) calls, integer / and % with a non-constant divisor
//	              (writes to possibly nil maps are Use sites of kind "mapwrite" in the graphs)
type invSite struct {
	Key    string `json:"key"`
	Guard  string `json:"guard"` // index: range, const-len, last-len, bounded-loop, lt-len, array-const, ... or "unguarded"
	Detail string `json:"detail,omitempty"`
	Pos    string `json:"pos"`
	fn     *fnInfo
}

type inventory struct {
	index  []*invSite
	assert []*invSite
	panics []*invSite
}

type invBuilder struct {
	pk    *pkgInfo
	fi    *fnInfo
	textN map[string]int
	// path from the function body to the current node
	path []ast.Node
}

func (ib *invBuilder) key(kind, text string) string {
	k := kind + ":" + text
	ib.textN[k]++
	s := "parser|" + ib.fi.name + "|" + text
	if n := ib.textN[k]; n > 1 {
		s += fmt.Sprintf("#%d", n)
	}
	return s
}

func (pk *pkgInfo) inventories(a *analysis) *inventory {
	inv := &inventory{}
	for _, fi := range a.funcs {
		ib := &invBuilder{pk: pk, fi: fi, textN: map[string]int{}}
		ib.walk(fi.decl.Body, inv)
	}
	return inv
}

func (ib *invBuilder) walk(root ast.Node, inv *inventory) {
	pk := ib.pk
	var visit func(n ast.Node) bool
	visit = func(n ast.Node) bool {
		if n == nil {
			ib.path = ib.path[:len(ib.path)-1]
			return false
		}
		ib.path = append(ib.path, n)
		switch x := n.(type) {
		case *ast.IndexExpr:
			xt := pk.info.Types[x.X].Type
			if xt == nil {
				break
			}
			if _, isSig := xt.(*types.Signature); isSig {
				break
			}
			switch xt.Underlying().(type) {
			case *types.Map:
				// never panics on read; writes to nil maps are Use sites
			default:
				s := &invSite{Key: ib.key("index", pk.text(x)), Pos: pk.posString(x.Pos()), fn: ib.fi}
				s.Guard, s.Detail = ib.indexGuard(x.X, x.Index, nil, false)
				inv.index = append(inv.index, s)
			}
		case *ast.SliceExpr:
			s := &invSite{Key: ib.key("index", pk.text(x)), Pos: pk.posString(x.Pos()), fn: ib.fi}
			s.Guard, s.Detail = ib.sliceGuard(x)
			inv.index = append(inv.index, s)
		case *ast.TypeAssertExpr:
			if x.Type == nil {
				break // type switch
			}
			if !ib.commaOk(x) {
				s := &invSite{Key: ib.key("assert", pk.text(x)), Pos: pk.posString(x.Pos()), fn: ib.fi}
				s.Guard, s.Detail = ib.assertGuard(x)
				inv.assert = append(inv.assert, s)
			}
		case *ast.CallExpr:
			if id, ok := ast.Unparen(x.Fun).(*ast.Ident); ok && id.Name == "panic" {
				if _, isB := pk.info.Uses[id].(*types.Builtin); isB {
					inv.panics = append(inv.panics, &invSite{Key: ib.key("panic", pk.text(x)), Guard: "explicit-panic",
						Pos: pk.posString(x.Pos()), fn: ib.fi})
				}
			}
		case *ast.BinaryExpr:
			if x.Op == token.QUO || x.Op == token.REM {
				ib.divSite(x, x.Y, inv)
			}
		case *ast.AssignStmt:
			if x.Tok == token.QUO_ASSIGN || x.Tok == token.REM_ASSIGN {
				ib.divSite(x, x.Rhs[0], inv)
			}
		}
		return true
	}
	ast.Inspect(root, func(n ast.Node) bool { return visit(n) })
}

func (ib *invBuilder) divSite(n ast.Node, div ast.Expr, inv *inventory) {
	pk := ib.pk
	t := pk.info.Types[div].Type
	if t == nil {
		return
	}
	b, ok := t.Underlying().(*types.Basic)
	if !ok || b.Info()&types.IsInteger == 0 {
		return
	}
	if v := pk.info.Types[div].Value; v != nil {
		if constant.Sign(v) != 0 {
			return
		}
	}
	inv.panics = append(inv.panics, &invSite{Key: ib.key("div", pk.text(n)), Guard: "integer-division", Pos: pk.posString(n.Pos()), fn: ib.fi})
}

// commaOk: the assertion is the right-hand side of a two-valued assignment / declaration
func (ib *invBuilder) commaOk(x *ast.TypeAssertExpr) bool {
	for i := len(ib.path) - 2; i >= 0; i-- {
		switch p := ib.path[i].(type) {
		case *ast.ParenExpr:
			continue
		case *ast.AssignStmt:
			return len(p.Lhs) == 2 && len(p.Rhs) == 1 && ast.Unparen(p.Rhs[0]) == ast.Expr(x)
		case *ast.ValueSpec:
			return len(p.Names) == 2 && len(p.Values) == 1 && ast.Unparen(p.Values[0]) == ast.Expr(x)
		default:
			return false
		}
	}
	return false
}

// assertGuard: an unchecked assertion x.(T) is guarded when it sits in a type-switch clause or an
// `if _, ok := x.(T); ok` on the same operand text and the same type
func (ib *invBuilder) assertGuard(x *ast.TypeAssertExpr) (string, string) {
	pk := ib.pk
	want := pk.text(x.X)
	wantT := pk.text(x.Type)
	for i := len(ib.path) - 2; i >= 0; i-- {
		switch p := ib.path[i].(type) {
		case *ast.CaseClause:
			// enclosing type switch on the same operand, single type equal to T
			if i >= 2 {
				if ts, ok := ib.path[i-2].(*ast.TypeSwitchStmt); ok {
					var subj ast.Expr
					switch a := ts.Assign.(type) {
					case *ast.ExprStmt:
						if ta, ok := ast.Unparen(a.X).(*ast.TypeAssertExpr); ok {
							subj = ta.X
						}
					case *ast.AssignStmt:
						if ta, ok := ast.Unparen(a.Rhs[0]).(*ast.TypeAssertExpr); ok {
							subj = ta.X
						}
					}
					if subj != nil && pk.text(subj) == want && len(p.List) == 1 && pk.text(p.List[0]) == wantT &&
						!ib.assignedBetween(want, p.Pos(), x.Pos()) {
						return "type-switch-case", ""
					}
				}
			}
		case *ast.IfStmt:
			if as, ok := p.Init.(*ast.AssignStmt); ok && len(as.Lhs) == 2 && len(as.Rhs) == 1 && within(p.Body, x) {
				if ta, ok := ast.Unparen(as.Rhs[0]).(*ast.TypeAssertExpr); ok && ta.Type != nil &&
					pk.text(ta.X) == want && pk.text(ta.Type) == wantT {
					if okid, ok := as.Lhs[1].(*ast.Ident); ok && condImplies(p.Cond, okid.Name) &&
						!ib.assignedBetween(want, p.Body.Pos(), x.Pos()) {
						return "comma-ok-before", ""
					}
				}
			}
		}
	}
	return "unguarded", ""
}

func within(outer ast.Node, inner ast.Node) bool {
	return outer != nil && outer.Pos() <= inner.Pos() && inner.End() <= outer.End()
}

// condImplies: cond is `ok` or a && chain containing `ok`
func condImplies(cond ast.Expr, name string) bool {
	switch x := ast.Unparen(cond).(type) {
	case *ast.Ident:
		return x.Name == name
	case *ast.BinaryExpr:
		if x.Op == token.LAND {
			return condImplies(x.X, name) || condImplies(x.Y, name)
		}
	}
	return false
}

// ---- length facts ----

// need describes what an index expression requires: len(X) >= min, or idx < len(X) for a variable idx
type need struct {
	x      string // text of the indexed expression
	min    int    // required minimal length (when idxVar == "")
	idxVar string // variable index: requires idxVar < len(x)
}

// lenFact: cond (taken as `truth`) implies len(x) >= result (0 when nothing is implied)
func (ib *invBuilder) lenFact(cond ast.Expr, truth bool, x string) int {
	pk := ib.pk
	switch c := ast.Unparen(cond).(type) {
	case *ast.CallExpr:
		// strings.HasPrefix(x, "lit") / strings.HasSuffix(x, "lit")
		if se, ok := c.Fun.(*ast.SelectorExpr); ok && truth && len(c.Args) == 2 && (se.Sel.Name == "HasPrefix" || se.Sel.Name == "HasSuffix") {
			if fo, ok := pk.info.Uses[se.Sel].(*types.Func); ok && fo.Pkg() != nil && fo.Pkg().Path() == "strings" && pk.text(c.Args[0]) == x {
				if v := pk.info.Types[c.Args[1]].Value; v != nil && v.Kind() == constant.String {
					return len(constant.StringVal(v))
				}
			}
		}
	case *ast.UnaryExpr:
		if c.Op == token.NOT {
			return ib.lenFact(c.X, !truth, x)
		}
	case *ast.BinaryExpr:
		switch c.Op {
		case token.LAND:
			if truth {
				return maxInt(ib.lenFact(c.X, true, x), ib.lenFact(c.Y, true, x))
			}
			return 0
		case token.LOR:
			if !truth {
				return maxInt(ib.lenFact(c.X, false, x), ib.lenFact(c.Y, false, x))
			}
			return 0
		case token.GTR, token.GEQ, token.LSS, token.LEQ, token.EQL, token.NEQ:
			op := c.Op
			l, r := c.X, c.Y
			isLen := func(e ast.Expr) bool { return pk.text(e) == "len("+x+")" }
			cval := func(e ast.Expr) (int, bool) {
				if v := pk.info.Types[e].Value; v != nil && v.Kind() == constant.Int {
					n, ok := constant.Int64Val(v)
					return int(n), ok
				}
				return 0, false
			}
			if isLen(r) {
				// c op len  ==  len op' c
				l, r = r, l
				switch op {
				case token.GTR:
					op = token.LSS
				case token.GEQ:
					op = token.LEQ
				case token.LSS:
					op = token.GTR
				case token.LEQ:
					op = token.GEQ
				}
			}
			if !isLen(l) {
				return 0
			}
			n, ok := cval(r)
			if !ok {
				return 0
			}
			if !truth {
				switch op {
				case token.GTR:
					op = token.LEQ
				case token.GEQ:
					op = token.LSS
				case token.LSS:
					op = token.GEQ
				case token.LEQ:
					op = token.GTR
				case token.EQL:
					op = token.NEQ
				case token.NEQ:
					op = token.EQL
				}
			}
			switch op {
			case token.GTR:
				return n + 1
			case token.GEQ:
				return n
			case token.EQL:
				return n
			case token.NEQ:
				if n == 0 {
					return 1
				}
			}
		}
	}
	return 0
}

// ltFact: cond (taken as truth) implies idx < len(x)
func (ib *invBuilder) ltFact(cond ast.Expr, truth bool, idx, x string) bool {
	pk := ib.pk
	switch c := ast.Unparen(cond).(type) {
	case *ast.UnaryExpr:
		if c.Op == token.NOT {
			return ib.ltFact(c.X, !truth, idx, x)
		}
	case *ast.BinaryExpr:
		switch c.Op {
		case token.LAND:
			return truth && (ib.ltFact(c.X, true, idx, x) || ib.ltFact(c.Y, true, idx, x))
		case token.LOR:
			return !truth && (ib.ltFact(c.X, false, idx, x) || ib.ltFact(c.Y, false, idx, x))
		case token.LSS:
			return truth && pk.text(c.X) == idx && pk.text(c.Y) == "len("+x+")"
		case token.GTR:
			return truth && pk.text(c.Y) == idx && pk.text(c.X) == "len("+x+")"
		case token.GEQ:
			return !truth && pk.text(c.X) == idx && pk.text(c.Y) == "len("+x+")"
		case token.LEQ:
			return !truth && pk.text(c.Y) == idx && pk.text(c.X) == "len("+x+")"
		}
	}
	return false
}

func maxInt(a, b int) int {
	if a > b {
		return a
	}
	return b
}

func terminates(b *ast.BlockStmt) bool {
	if b == nil || len(b.List) == 0 {
		return false
	}
	switch s := b.List[len(b.List)-1].(type) {
	case *ast.ReturnStmt:
		return true
	case *ast.BranchStmt:
		return s.Tok == token.BREAK || s.Tok == token.CONTINUE || s.Tok == token.GOTO
	case *ast.ExprStmt:
		if c, ok := s.X.(*ast.CallExpr); ok {
			if id, ok := c.Fun.(*ast.Ident); ok && id.Name == "panic" {
				return true
			}
		}
	}
	return false
}

// rootName: the variable at the root of a selector/index chain
func rootName(e ast.Expr) string {
	for {
		switch x := ast.Unparen(e).(type) {
		case *ast.Ident:
			return x.Name
		case *ast.SelectorExpr:
			e = x.X
		case *ast.IndexExpr:
			e = x.X
		case *ast.StarExpr:
			e = x.X
		case *ast.CallExpr:
			return ""
		default:
			return ""
		}
	}
}

// assignedBetween: some statement positioned in (from, to) assigns the expression text x, a prefix of it
// (its root variable or an intermediate field) or -- for field paths -- calls a function that may
// assign the field
func (ib *invBuilder) assignedBetween(x string, from, to token.Pos) bool {
	return ib.assignedIn(ib.fi.decl.Body, x, from, to)
}

func (ib *invBuilder) assignedIn(root ast.Node, x string, from, to token.Pos) bool {
	pk := ib.pk
	found := false
	hit := func(l ast.Expr) {
		t := pk.text(l)
		if t == x || strings.HasPrefix(x, t+".") || strings.HasPrefix(x, t+"[") {
			found = true
		}
	}
	isPath := strings.ContainsAny(x, ".[")
	ast.Inspect(root, func(n ast.Node) bool {
		if n == nil || found {
			return false
		}
		if n.End() <= from || n.Pos() >= to {
			// outside the window (a node spanning the window is still descended into)
			if n.Pos() >= to || n.End() <= from {
				return false
			}
		}
		switch s := n.(type) {
		case *ast.AssignStmt:
			// the assignment that contains the use takes effect after the use was evaluated
			if s.Pos() > from && s.Pos() < to && s.End() <= to {
				for _, l := range s.Lhs {
					hit(l)
				}
			}
		case *ast.IncDecStmt:
			if s.Pos() > from && s.Pos() < to {
				hit(s.X)
			}
		case *ast.RangeStmt:
			if s.Pos() > from && s.Pos() < to {
				if s.Key != nil {
					hit(s.Key)
				}
				if s.Value != nil {
					hit(s.Value)
				}
			}
		case *ast.UnaryExpr:
			if s.Op == token.AND && s.Pos() > from && s.Pos() < to {
				hit(s.X)
			}
		case *ast.CallExpr:
			if isPath && s.Pos() > from && s.Pos() < to {
				if c := pk.calleeOf(s); c != nil {
					// the callee may assign the last field of the path
					if i := strings.LastIndex(x, "."); i >= 0 {
						f := x[i+1:]
						if j := strings.IndexAny(f, "[("); j >= 0 {
							f = f[:j]
						}
						for w := range c.writes {
							if w == "*" || strings.HasSuffix(w, "."+f) || strings.HasSuffix(w, ".*") {
								found = true
							}
						}
					}
				}
			}
		}
		return !found
	})
	return found
}

// enclosingLoops: loop statements on the path that contain pos but start after `after`
func (ib *invBuilder) loopsBetween(after token.Pos) []ast.Node {
	var ls []ast.Node
	for _, n := range ib.path {
		switch n.(type) {
		case *ast.ForStmt, *ast.RangeStmt:
			if n.Pos() > after {
				ls = append(ls, n)
			}
		}
	}
	return ls
}

// stable: x (and idx) are not assigned between the guard and the use, nor anywhere in a loop that
// encloses the use but not the guard
func (ib *invBuilder) stable(names []string, guard, use token.Pos) bool {
	for _, nm := range names {
		if nm == "" {
			continue
		}
		if ib.assignedBetween(nm, guard, use) {
			return false
		}
		for _, l := range ib.loopsBetween(guard) {
			if ib.assignedIn(l, nm, l.Pos(), l.End()) {
				return false
			}
		}
	}
	return true
}

// facts walks from the use outwards and reports whether the need is met; it returns the guard kind
func (ib *invBuilder) guarded(nd need, use ast.Node) (string, string) {
	names := []string{nd.x}
	if nd.idxVar != "" {
		names = append(names, nd.idxVar)
	}
	check := func(cond ast.Expr, truth bool, guardPos token.Pos, kind string) (string, bool) {
		if cond == nil {
			return "", false
		}
		ok := false
		if nd.idxVar != "" {
			ok = ib.ltFact(cond, truth, nd.idxVar, nd.x)
		} else {
			ok = nd.min > 0 && ib.lenFact(cond, truth, nd.x) >= nd.min
		}
		if ok && ib.stable(names, guardPos, use.Pos()) {
			return kind, true
		}
		return "", false
	}
	for i := len(ib.path) - 2; i >= 0; i-- {
		child := ib.path[i+1]
		switch p := ib.path[i].(type) {
		case *ast.BinaryExpr:
			if p.Op == token.LAND && child == ast.Node(p.Y) {
				if k, ok := check(p.X, true, p.X.End(), "and-chain"); ok {
					return k, ib.pk.text(p.X)
				}
			}
			if p.Op == token.LOR && child == ast.Node(p.Y) {
				if k, ok := check(p.X, false, p.X.End(), "or-chain"); ok {
					return k, ib.pk.text(p.X)
				}
			}
		case *ast.IfStmt:
			if child == ast.Node(p.Body) {
				if k, ok := check(p.Cond, true, p.Cond.End(), "if-len"); ok {
					return k, ib.pk.text(p.Cond)
				}
			}
			if p.Else != nil && child == ast.Node(p.Else) {
				if k, ok := check(p.Cond, false, p.Cond.End(), "else-len"); ok {
					return k, ib.pk.text(p.Cond)
				}
			}
		case *ast.ForStmt:
			if child == ast.Node(p.Body) || (p.Post != nil && child == ast.Node(p.Post)) {
				if p.Cond != nil {
					// the condition holds at the start of every iteration; the body must not change the
					// operands before the use
					ok := false
					if nd.idxVar != "" {
						ok = ib.ltFact(p.Cond, true, nd.idxVar, nd.x)
					} else {
						ok = nd.min > 0 && ib.lenFact(p.Cond, true, nd.x) >= nd.min
					}
					if ok {
						good := true
						for _, nm := range names {
							if ib.assignedIn(p.Body, nm, p.Body.Pos(), use.Pos()) {
								good = false
							}
						}
						// an inner loop between could re-run after a change
						for _, l := range ib.loopsBetween(p.Pos()) {
							for _, nm := range names {
								if ib.assignedIn(l, nm, l.Pos(), l.End()) {
									good = false
								}
							}
						}
						if good {
							return "bounded-loop", ib.pk.text(p.Cond)
						}
					}
				}
			}
		case *ast.CaseClause:
			// tagless switch: case cond:
			if i >= 2 {
				if sw, ok := ib.path[i-2].(*ast.SwitchStmt); ok && sw.Tag == nil {
					for _, e := range p.List {
						if len(p.List) == 1 {
							if k, ok := check(e, true, e.End(), "case-len"); ok {
								return k, ib.pk.text(e)
							}
						}
					}
				}
			}
		case *ast.BlockStmt:
			// earlier siblings of the form `if cond { ...; return }`
			for _, s := range p.List {
				if s.End() > child.Pos() {
					break
				}
				if is, ok := s.(*ast.IfStmt); ok && is.Else == nil && terminates(is.Body) {
					if k, ok := check(is.Cond, false, is.End(), "early-exit"); ok {
						return k, ib.pk.text(is.Cond)
					}
				}
			}
		}
	}
	return "unguarded", ""
}

// nonNegVar: every assignment to the local variable named idx is `:= c`, `= c` (c >= 0), ++, += c
func (ib *invBuilder) nonNegVar(idx string) bool {
	pk := ib.pk
	ok := true
	seen := false
	nonneg := func(e ast.Expr) bool {
		if v := pk.info.Types[e].Value; v != nil && v.Kind() == constant.Int {
			return constant.Sign(v) >= 0
		}
		// len(..) and sums of non-negative things
		if c, isCall := ast.Unparen(e).(*ast.CallExpr); isCall {
			if id, isId := c.Fun.(*ast.Ident); isId && id.Name == "len" {
				return true
			}
		}
		if b, isBin := ast.Unparen(e).(*ast.BinaryExpr); isBin && b.Op == token.ADD {
			l := pk.text(b.X) == idx
			if v := pk.info.Types[b.Y].Value; v != nil && constant.Sign(v) >= 0 && l {
				return true
			}
		}
		return false
	}
	ast.Inspect(ib.fi.decl.Body, func(n ast.Node) bool {
		switch s := n.(type) {
		case *ast.AssignStmt:
			for i, l := range s.Lhs {
				if id, isId := l.(*ast.Ident); isId && id.Name == idx {
					seen = true
					switch s.Tok {
					case token.DEFINE, token.ASSIGN:
						if len(s.Lhs) != len(s.Rhs) || !nonneg(s.Rhs[i]) {
							ok = false
						}
					case token.ADD_ASSIGN:
						if !nonneg(s.Rhs[0]) {
							ok = false
						}
					default:
						ok = false
					}
				}
			}
		case *ast.IncDecStmt:
			if id, isId := s.X.(*ast.Ident); isId && id.Name == idx && s.Tok == token.DEC {
				ok = false
			}
		case *ast.RangeStmt:
			for _, e := range []ast.Expr{s.Key} {
				if id, isId := e.(*ast.Ident); isId && id.Name == idx {
					seen = true
				}
			}
			if id, isId := s.Value.(*ast.Ident); isId && id.Name == idx {
				ok = false
			}
		case *ast.UnaryExpr:
			if s.Op == token.AND {
				if id, isId := ast.Unparen(s.X).(*ast.Ident); isId && id.Name == idx {
					ok = false
				}
			}
		}
		return true
	})
	return ok && seen
}

// indexGuard classifies x[idx]
func (ib *invBuilder) indexGuard(x, idx ast.Expr, use ast.Node, _ bool) (string, string) {
	pk := ib.pk
	xs := pk.text(x)
	if use == nil {
		use = ib.path[len(ib.path)-1]
	}
	xt := pk.info.Types[x].Type
	// constant index into an array (checked by the compiler)
	if a, ok := xt.Underlying().(*types.Array); ok {
		if v := pk.info.Types[idx].Value; v != nil {
			if n, ok := constant.Int64Val(v); ok && n >= 0 && n < a.Len() {
				return "array-const", ""
			}
		}
	}
	// constant string indexed by a constant
	if v := pk.info.Types[idx].Value; v != nil && v.Kind() == constant.Int {
		n, _ := constant.Int64Val(v)
		if n < 0 {
			return "unguarded", "negative constant"
		}
		if n == 0 && ib.splitResult(x, use) {
			return "split-result", ""
		}
		return ib.guarded(need{x: xs, min: int(n) + 1}, use)
	}
	// len(x) - k
	if b, ok := ast.Unparen(idx).(*ast.BinaryExpr); ok && b.Op == token.SUB && pk.text(b.X) == "len("+xs+")" {
		if v := pk.info.Types[b.Y].Value; v != nil {
			if k, ok := constant.Int64Val(v); ok && k >= 1 {
				g, d := ib.guarded(need{x: xs, min: int(k)}, use)
				if g != "unguarded" {
					return "last-" + g, d
				}
				return g, d
			}
		}
	}
	// variable index
	if id, ok := ast.Unparen(idx).(*ast.Ident); ok {
		// key of an enclosing range over the same expression
		for i := len(ib.path) - 2; i >= 0; i-- {
			if r, ok := ib.path[i].(*ast.RangeStmt); ok && r.Key != nil && pk.text(r.Key) == id.Name && pk.text(r.X) == xs &&
				within(r.Body, use) {
				if !ib.assignedIn(r.Body, id.Name, r.Body.Pos(), r.Body.End()) && !ib.assignedIn(r.Body, xs, r.Body.Pos(), use.Pos()) {
					return "range", ""
				}
			}
		}
		g, d := ib.guarded(need{x: xs, idxVar: id.Name}, use)
		if g != "unguarded" {
			if !ib.nonNegVar(id.Name) {
				return "unguarded", "index variable may be negative"
			}
			return "lt-" + g, d
		}
	}
	return "unguarded", ""
}

func (ib *invBuilder) sliceGuard(x *ast.SliceExpr) (string, string) {
	pk := ib.pk
	xs := pk.text(x.X)
	cint := func(e ast.Expr) (int, bool) {
		if e == nil {
			return 0, false
		}
		if v := pk.info.Types[e].Value; v != nil && v.Kind() == constant.Int {
			n, ok := constant.Int64Val(v)
			return int(n), ok
		}
		return 0, false
	}
	lenMinus := func(e ast.Expr) (int, bool) {
		if e == nil {
			return 0, false
		}
		if pk.text(e) == "len("+xs+")" {
			return 0, true
		}
		if b, ok := ast.Unparen(e).(*ast.BinaryExpr); ok && b.Op == token.SUB && pk.text(b.X) == "len("+xs+")" {
			if k, ok := cint(b.Y); ok && k >= 0 {
				return k, true
			}
		}
		return 0, false
	}
	if x.Max != nil {
		return "unguarded", "three-index slice"
	}
	switch {
	case x.Low == nil && x.High == nil:
		return "full-slice", ""
	case x.High == nil:
		// x[c:]
		if c, ok := cint(x.Low); ok && c >= 0 {
			if c == 0 {
				return "full-slice", ""
			}
			return ib.guarded(need{x: xs, min: c}, x)
		}
		if k, ok := lenMinus(x.Low); ok {
			if k == 0 {
				return "full-slice", ""
			}
			return ib.guarded(need{x: xs, min: k}, x)
		}
		// x[v+1:] with v < len(x)
		if b, ok := ast.Unparen(x.Low).(*ast.BinaryExpr); ok && b.Op == token.ADD {
			if id, ok := ast.Unparen(b.X).(*ast.Ident); ok {
				if c, ok := cint(b.Y); ok && c == 1 {
					g, d := ib.guarded(need{x: xs, idxVar: id.Name}, x)
					if g != "unguarded" && ib.nonNegVar(id.Name) {
						return "lt-" + g, d
					}
				}
			}
		}
	case x.Low == nil:
		// x[:len(x)-k], x[:c]
		if k, ok := lenMinus(x.High); ok {
			if k == 0 {
				return "full-slice", ""
			}
			return ib.guarded(need{x: xs, min: k}, x)
		}
		if c, ok := cint(x.High); ok && c >= 0 {
			if c == 0 {
				return "full-slice", ""
			}
			return ib.guarded(need{x: xs, min: c}, x)
		}
	default:
		// x[a:b] with constants a <= b
		a, ok1 := cint(x.Low)
		b, ok2 := cint(x.High)
		if ok1 && ok2 && 0 <= a && a <= b {
			return ib.guarded(need{x: xs, min: b}, x)
		}
		if k, ok := lenMinus(x.High); ok && ok1 && a >= 0 {
			return ib.guarded(need{x: xs, min: a + k}, x)
		}
	}
	return "unguarded", ""
}

func sortSites(ss []*invSite) {
	sort.SliceStable(ss, func(i, j int) bool { return ss[i].Key < ss[j].Key })
}

// splitResult: x is a local variable whose only assignment is `x := strings.Split(s, sep)` or
// `strings.SplitN(s, sep, n)` with a non-empty constant sep and a constant n > 0: at least one element
func (ib *invBuilder) splitResult(x ast.Expr, use ast.Node) bool {
	pk := ib.pk
	id, ok := ast.Unparen(x).(*ast.Ident)
	if !ok {
		return false
	}
	o, _ := pk.info.Uses[id].(*types.Var)
	if o == nil {
		return false
	}
	count, good := 0, false
	ast.Inspect(ib.fi.decl.Body, func(n ast.Node) bool {
		switch s := n.(type) {
		case *ast.AssignStmt:
			for i, l := range s.Lhs {
				lid, isId := l.(*ast.Ident)
				if !isId || pk.info.ObjectOf(lid) != types.Object(o) {
					continue
				}
				count++
				if len(s.Lhs) != len(s.Rhs) {
					continue
				}
				c, isCall := ast.Unparen(s.Rhs[i]).(*ast.CallExpr)
				if !isCall {
					continue
				}
				se, isSel := c.Fun.(*ast.SelectorExpr)
				if !isSel {
					continue
				}
				fo, isF := pk.info.Uses[se.Sel].(*types.Func)
				if !isF || fo.Pkg() == nil || fo.Pkg().Path() != "strings" {
					continue
				}
				sepOK := func(e ast.Expr) bool {
					v := pk.info.Types[e].Value
					return v != nil && v.Kind() == constant.String && constant.StringVal(v) != ""
				}
				switch {
				case fo.Name() == "Split" && len(c.Args) == 2 && sepOK(c.Args[1]):
					good = true
				case fo.Name() == "SplitN" && len(c.Args) == 3 && sepOK(c.Args[1]):
					if v := pk.info.Types[c.Args[2]].Value; v != nil && constant.Sign(v) > 0 {
						good = true
					}
				}
			}
		case *ast.UnaryExpr:
			if s.Op == token.AND {
				if aid, isId := ast.Unparen(s.X).(*ast.Ident); isId && pk.info.Uses[aid] == types.Object(o) {
					count += 2
				}
			}
		}
		return true
	})
	return count == 1 && good
}
