package main

import (
	"go/ast"
	"go/constant"
	"go/token"
	"go/types"
)

// externals whose (single, tracked) result is certainly usable
var nonNilExternals = map[string]bool{
	"fmt.Errorf": true, "errors.New": true, "strings.NewReader": true, "strings.Fields": false,
	"lexer.New": true, "bytes.NewReader": true, "bytes.NewBufferString": true, "big.NewInt": true,
	"big.NewFloat": true,
}

// methods of other packages that return their (non-nil, just dereferenced) receiver
var nonNilMethods = map[string]bool{
	"(*math/big.Float).SetInt": true, "(*math/big.Float).SetFloat64": true, "(*math/big.Int).SetInt64": true,
}

func (b *builder) exprs(es []ast.Expr) {
	for _, e := range es {
		b.expr(e)
	}
}

// expr evaluates e (emitting its dereferences, calls and stores) and returns its nil-ness
func (b *builder) expr(e ast.Expr) opnd {
	pk := b.pk
	if e == nil {
		return good
	}
	if tv, ok := pk.info.Types[e]; ok {
		if tv.IsNil() {
			return nilOp
		}
		if tv.Value != nil || tv.IsType() {
			return good
		}
	}
	switch x := e.(type) {
	case *ast.ParenExpr:
		return b.expr(x.X)
	case *ast.BasicLit:
		return good
	case *ast.FuncLit:
		return good // reported by checkForms
	case *ast.Ident:
		switch o := pk.info.Uses[x].(type) {
		case *types.Nil:
			return nilOp
		case *types.Var:
			if !tracked(o.Type()) {
				return good
			}
			if id := b.lookup(o); id >= 0 {
				return opnd{opVar, id}
			}
			// package-level variable, or a local whose address is taken
			return b.unknown(o.Type(), true, x.Pos())
		}
		return good
	case *ast.CompositeLit:
		return b.compositeLit(x)
	case *ast.SelectorExpr:
		return b.selector(x)
	case *ast.IndexExpr:
		xt := b.typeOf(x.X)
		if _, isSig := xt.(*types.Signature); isSig {
			return good // generic instantiation
		}
		op := b.expr(x.X)
		b.expr(x.Index)
		if xt != nil {
			if p, ok := xt.Underlying().(*types.Pointer); ok {
				// pointer to array
				_ = p
				b.use(op, "index through pointer to array", x, x.X)
			}
			if c := elemClass(xt); c != "" && pk.strict[c] {
				return good
			}
		}
		return b.load(b.typeOf(e), elemClass(xt), x.Pos())
	case *ast.IndexListExpr:
		return good
	case *ast.SliceExpr:
		op := b.expr(x.X)
		b.expr(x.Low)
		b.expr(x.High)
		b.expr(x.Max)
		if xt := b.typeOf(x.X); xt != nil && isPtr(xt) {
			b.use(op, "slice of pointer to array", x, x.X)
		}
		return b.unknown(b.typeOf(e), false, x.Pos())
	case *ast.StarExpr:
		op := b.expr(x.X)
		b.use(op, "pointer indirection", x, x.X)
		return b.load(b.typeOf(e), "", x.Pos())
	case *ast.UnaryExpr:
		switch x.Op {
		case token.AND:
			switch y := ast.Unparen(x.X).(type) {
			case *ast.CompositeLit:
				b.compositeLit(y)
				return good
			default:
				b.lvalue(x.X) // &x.f dereferences x
				return good
			}
		case token.ARROW:
			b.expr(x.X)
			return b.unknown(b.typeOf(e), true, x.Pos())
		case token.NOT:
			return b.boolValue(e)
		}
		b.expr(x.X)
		return good
	case *ast.BinaryExpr:
		switch x.Op {
		case token.LAND, token.LOR:
			return b.boolValue(e)
		case token.QUO, token.REM:
			b.expr(x.X)
			b.expr(x.Y)
			return good
		}
		b.expr(x.X)
		b.expr(x.Y)
		return good
	case *ast.CallExpr:
		ops := b.call(x, nil)
		if len(ops) == 1 {
			return ops[0]
		}
		return good
	case *ast.TypeAssertExpr:
		// unchecked assertion (single-value context)
		op := b.expr(x.X)
		if x.Type == nil {
			return op
		}
		tt := b.typeOf(x.Type)
		b.use(op, "unchecked type assertion", x, x.X)
		if !tracked(tt) {
			return good
		}
		if op.k != opVar {
			return good
		}
		t := b.temp(tt)
		n := b.set(t, rAssert, op.v, x.Pos())
		n.toIface = isIface(tt)
		return opnd{opVar, t}
	case *ast.KeyValueExpr:
		b.expr(x.Key)
		return b.expr(x.Value)
	}
	pk.problem(e.Pos(), "expression form %T is not supported (in %s)", e, b.fn.name)
	return b.unknown(b.typeOf(e), true, e.Pos())
}

// boolValue: a short-circuit expression used as a value
func (b *builder) boolValue(e ast.Expr) opnd {
	j := b.nop()
	b.cond(e, j, j)
	b.startAt(j)
	return good
}

// lvalue evaluates the operands of an addressable expression and emits its dereferences
// (without reading the cell itself)
func (b *builder) lvalue(e ast.Expr) {
	switch x := ast.Unparen(e).(type) {
	case *ast.Ident:
		return
	case *ast.SelectorExpr:
		b.selectorBase(x)
	case *ast.IndexExpr:
		op := b.expr(x.X)
		b.expr(x.Index)
		if xt := b.typeOf(x.X); xt != nil && isPtr(xt) {
			b.use(op, "index through pointer to array", x, x.X)
		}
	case *ast.StarExpr:
		op := b.expr(x.X)
		b.use(op, "pointer indirection", x, x.X)
	case *ast.CompositeLit:
		b.compositeLit(x)
	default:
		b.expr(e)
	}
}

// selectorBase evaluates X of X.f and emits the dereference if X is a pointer. It returns the operand
// of X (after the use X is known usable).
func (b *builder) selectorBase(x *ast.SelectorExpr) opnd {
	pk := b.pk
	sel := pk.info.Selections[x]
	if sel == nil {
		// qualified identifier pkg.Name
		return good
	}
	op := b.expr(x.X)
	xt := b.typeOf(x.X)
	switch sel.Kind() {
	case types.FieldVal:
		if len(sel.Index()) > 1 {
			// promoted field: the embedded path may go through pointers
			if sel.Indirect() {
				pk.problem(x.Pos(), "promoted field through a pointer (in %s)", b.fn.name)
			}
		}
		if xt != nil && isPtr(xt) {
			b.use(op, "field access through pointer", x, x.X)
		}
	}
	return op
}

func (b *builder) selector(x *ast.SelectorExpr) opnd {
	pk := b.pk
	sel := pk.info.Selections[x]
	if sel == nil {
		// pkg.Name: a package-level variable of another package
		if o, ok := pk.info.Uses[x.Sel].(*types.Var); ok && tracked(o.Type()) {
			return b.unknown(o.Type(), true, x.Pos())
		}
		return good
	}
	if sel.Kind() != types.FieldVal {
		// method value
		pk.problem(x.Pos(), "method value (in %s)", b.fn.name)
		b.expr(x.X)
		return good
	}
	base := b.selectorBase(x)
	t := b.typeOf(x)
	if !tracked(t) {
		return good
	}
	if op, ok := b.fieldRead(x, base); ok {
		return op
	}
	class := ""
	if sn, f, ok := fieldKeyOf(pk, x); ok {
		class = "field:" + sn + "." + f
	}
	return b.load(t, class, x.Pos())
}

func (b *builder) compositeLit(x *ast.CompositeLit) opnd {
	t := b.typeOf(x)
	if t == nil {
		b.exprs(x.Elts)
		return good
	}
	switch u := t.Underlying().(type) {
	case *types.Struct:
		for i, el := range x.Elts {
			var ft types.Type
			var val ast.Expr = el
			if kv, ok := el.(*ast.KeyValueExpr); ok {
				val = kv.Value
				if id, ok := kv.Key.(*ast.Ident); ok {
					for j := 0; j < u.NumFields(); j++ {
						if u.Field(j).Name() == id.Name {
							ft = u.Field(j).Type()
						}
					}
				}
			} else if i < u.NumFields() {
				ft = u.Field(i).Type()
			}
			op := b.exprTo(val, ft, "literal-field")
			class := ""
			if sn := structName(t); sn != "" {
				if kv, ok := el.(*ast.KeyValueExpr); ok {
					if id, ok := kv.Key.(*ast.Ident); ok {
						class = "field:" + sn + "." + id.Name
					}
				} else if i < u.NumFields() {
					class = "field:" + sn + "." + u.Field(i).Name()
				}
			}
			b.store(op, ft, class, "composite literal field", el)
		}
	case *types.Slice, *types.Array:
		var et types.Type
		if s, ok := u.(*types.Slice); ok {
			et = s.Elem()
		} else {
			et = u.(*types.Array).Elem()
		}
		for _, el := range x.Elts {
			val := el
			if kv, ok := el.(*ast.KeyValueExpr); ok {
				b.expr(kv.Key)
				val = kv.Value
			}
			if cl, ok := val.(*ast.CompositeLit); ok && cl.Type == nil {
				b.compositeLit(cl)
				continue
			}
			op := b.exprTo(val, et, "element")
			b.store(op, et, elemClass(t), "composite literal element", el)
		}
	case *types.Map:
		for _, el := range x.Elts {
			if kv, ok := el.(*ast.KeyValueExpr); ok {
				if cl, ok := kv.Key.(*ast.CompositeLit); !ok || cl.Type != nil {
					b.exprTo(kv.Key, u.Key(), "element")
				}
				if cl, ok := kv.Value.(*ast.CompositeLit); ok && cl.Type == nil {
					b.compositeLit(cl)
					continue
				}
				op := b.exprTo(kv.Value, u.Elem(), "element")
				b.store(op, u.Elem(), "", "composite literal element", el)
			}
		}
	default:
		b.exprs(x.Elts)
	}
	return good
}

// recvExpr: the receiver expression of a method call (nil for a function or a qualified function)
func (b *builder) recvExpr(call *ast.CallExpr) ast.Expr {
	if se, ok := ast.Unparen(call.Fun).(*ast.SelectorExpr); ok {
		if b.pk.info.Selections[se] == nil {
			return nil
		}
		return se.X
	}
	return nil
}

// call translates a call; dests (may be nil) are destination variables for the tracked results of a call
// to a function of package parser (-1: none). The operands of all results are returned (good for untracked).
func (b *builder) call(x *ast.CallExpr, dests []int) []opnd {
	pk := b.pk
	// conversion T(e)
	if tv, ok := pk.info.Types[x.Fun]; ok && tv.IsType() {
		if len(x.Args) != 1 {
			return []opnd{good}
		}
		op := b.expr(x.Args[0])
		from, to := b.typeOf(x.Args[0]), tv.Type
		if !tracked(to) {
			return []opnd{good}
		}
		if isIface(to) {
			return []opnd{b.convert(op, from, to, x.Args[0], "conversion")}
		}
		if from != nil && tracked(from) && !isIface(from) {
			if _, isStr := from.Underlying().(*types.Basic); !isStr {
				return []opnd{op} // pointer -> pointer, slice -> slice: nil-ness is kept
			}
		}
		if op.k == opNil {
			return []opnd{nilOp}
		}
		// []byte("..") etc.
		return []opnd{b.unknown(to, false, x.Pos())}
	}
	// builtins
	if id, ok := ast.Unparen(x.Fun).(*ast.Ident); ok {
		if bi, ok := pk.info.Uses[id].(*types.Builtin); ok {
			return []opnd{b.builtin(bi.Name(), x)}
		}
	}
	rt := b.typeOf(x)
	results := func(dirty bool) []opnd {
		if tup, ok := rt.(*types.Tuple); ok {
			var ops []opnd
			for i := 0; i < tup.Len(); i++ {
				ops = append(ops, b.unknown(tup.At(i).Type(), dirty, x.Pos()))
			}
			return ops
		}
		return []opnd{b.unknown(rt, dirty, x.Pos())}
	}
	c := pk.calleeOf(x)
	recv := b.recvExpr(x)
	if c != nil {
		return b.localCall(x, c, recv, dests)
	}
	se, isSel := ast.Unparen(x.Fun).(*ast.SelectorExpr)
	if isSel && recv != nil {
		// method call on a value of another package's type, or on an interface
		sel := pk.info.Selections[se]
		op := b.expr(recv)
		xt := b.typeOf(recv)
		switch {
		case isIface(xt):
			b.use(op, "method call on interface", x.Fun, recv)
		case isPtr(xt):
			derefs := true
			if m := b.astMethodOf(sel); m != nil {
				derefs = m.derefs || !m.ptrRecv
			}
			if derefs {
				b.use(op, "method call through pointer", x.Fun, recv)
			}
		default:
			// addressable value: &v is never nil
			if sel != nil && len(sel.Index()) > 1 && sel.Indirect() {
				pk.problem(x.Pos(), "promoted method through a pointer (in %s)", b.fn.name)
			}
		}
		b.callArgs(x, sel.Obj().Type().(*types.Signature))
		if fo, ok := sel.Obj().(*types.Func); ok && nonNilMethods[fo.FullName()] {
			return []opnd{good}
		}
		return results(true)
	}
	// function of another package, or a function value
	if isSel && recv == nil {
		if fo, ok := pk.info.Uses[se.Sel].(*types.Func); ok {
			b.callArgs(x, fo.Type().(*types.Signature))
			name := ""
			if fo.Pkg() != nil {
				name = fo.Pkg().Name() + "." + fo.Name()
			}
			if nonNilExternals[name] {
				return []opnd{good}
			}
			return results(true)
		}
	}
	// call of a function value
	op := b.expr(x.Fun)
	b.use(op, "call of a function value", x, x.Fun)
	if sig, ok := b.typeOf(x.Fun).Underlying().(*types.Signature); ok {
		b.callArgs(x, sig)
	} else {
		b.exprs(x.Args)
	}
	return results(true)
}

func (b *builder) astMethodOf(sel *types.Selection) *astMethod {
	if sel == nil {
		return nil
	}
	fo, ok := sel.Obj().(*types.Func)
	if !ok || fo.Pkg() != b.pk.astPkg {
		return nil
	}
	rt := fo.Type().(*types.Signature).Recv().Type()
	if p, ok := rt.(*types.Pointer); ok {
		rt = p.Elem()
	}
	if n, ok := rt.(*types.Named); ok {
		return b.pk.astMethods[n.Obj().Name()+"."+fo.Name()]
	}
	return nil
}

// callArgs evaluates the arguments of a call to a function outside package parser. Interface-typed
// parameters receive converted pointers (fmt.Errorf("%v", x)): no store, the callee does not keep them
// in the tree.
func (b *builder) callArgs(x *ast.CallExpr, sig *types.Signature) {
	for i, a := range x.Args {
		var pt types.Type
		if sig != nil {
			n := sig.Params().Len()
			switch {
			case sig.Variadic() && i >= n-1:
				pt = sig.Params().At(n - 1).Type()
				if x.Ellipsis == token.NoPos {
					pt = pt.(*types.Slice).Elem()
				}
			case i < n:
				pt = sig.Params().At(i).Type()
			}
		}
		_ = pt
		b.expr(a)
	}
}

func (b *builder) builtin(name string, x *ast.CallExpr) opnd {
	switch name {
	case "append":
		if len(x.Args) == 0 {
			return good
		}
		st := b.typeOf(x.Args[0])
		var et types.Type
		if s, ok := st.Underlying().(*types.Slice); ok {
			et = s.Elem()
		}
		first := b.expr(x.Args[0])
		for i, a := range x.Args[1:] {
			if x.Ellipsis != token.NoPos && i == len(x.Args)-2 {
				b.expr(a)
				continue
			}
			op := b.exprTo(a, et, "append")
			b.store(op, et, elemClass(st), "append", a)
		}
		if len(x.Args) > 1 && x.Ellipsis == token.NoPos {
			return good
		}
		if len(x.Args) == 1 {
			return first
		}
		return b.unknown(st, false, x.Pos())
	case "new", "make":
		b.exprs(x.Args[1:])
		return good
	case "panic":
		b.exprs(x.Args)
		// the statement does not return: end the path
		b.jump(b.nop())
		return good
	case "len", "cap", "delete", "copy", "print", "println", "min", "max", "clear", "close":
		b.exprs(x.Args)
		return good
	}
	b.exprs(x.Args)
	return b.unknown(b.typeOf(x), true, x.Pos())
}

// trackedParams lists the variables of the tracked parameters of a function of package parser in order
// (receiver first) as (index into the signature, type); index -1 is the receiver.
type ptype struct {
	idx int
	typ types.Type
}

func trackedParams(sig *types.Signature) []ptype {
	var ps []ptype
	if sig.Recv() != nil && tracked(sig.Recv().Type()) {
		ps = append(ps, ptype{-1, sig.Recv().Type()})
	}
	for i := 0; i < sig.Params().Len(); i++ {
		if tracked(sig.Params().At(i).Type()) {
			ps = append(ps, ptype{i, sig.Params().At(i).Type()})
		}
	}
	return ps
}

func isBool(t types.Type) bool {
	if t == nil {
		return false
	}
	b, ok := t.Underlying().(*types.Basic)
	return ok && b.Info()&types.IsBoolean != 0
}

// trackedResults: the results that can be nil, and the bool results (false is modelled as nil, true as
// usable: `if !p.expect(..) { return nil }` is a guard on the result)
func trackedResults(sig *types.Signature) []ptype {
	var ps []ptype
	for i := 0; i < sig.Results().Len(); i++ {
		if tracked(sig.Results().At(i).Type()) || isBool(sig.Results().At(i).Type()) {
			ps = append(ps, ptype{i, sig.Results().At(i).Type()})
		}
	}
	return ps
}

// localCall: call of a function or method of package parser
func (b *builder) localCall(x *ast.CallExpr, c *fnInfo, recv ast.Expr, dests []int) []opnd {
	pk := b.pk
	sig := c.sig
	if sig.Variadic() {
		pk.problem(x.Pos(), "call of variadic function %s (in %s)", c.name, b.fn.name)
	}
	var args []opnd
	if sig.Recv() != nil {
		var op opnd
		if recv == nil {
			pk.problem(x.Pos(), "method %s called without receiver (in %s)", c.name, b.fn.name)
			op = good
		} else {
			op = b.expr(recv)
			rt := sig.Recv().Type()
			xt := b.typeOf(recv)
			switch {
			case isPtr(rt) && !isPtr(xt):
				op = good // &v
			case !isPtr(rt) && isPtr(xt):
				b.use(op, "method call through pointer", x.Fun, recv) // (*x).M()
				op = good
			}
		}
		if tracked(sig.Recv().Type()) {
			args = append(args, op)
		}
	}
	for i, a := range x.Args {
		if i >= sig.Params().Len() {
			b.expr(a)
			continue
		}
		pt := sig.Params().At(i).Type()
		op := b.exprTo(a, pt, "arg")
		if tracked(pt) {
			args = append(args, op)
		}
	}
	tr := trackedResults(sig)
	rets := make([]int, len(tr))
	out := make([]opnd, sig.Results().Len())
	for i := range out {
		out[i] = good
	}
	for j, r := range tr {
		v := -1
		if dests != nil && j < len(dests) {
			v = dests[j]
		}
		if v == -2 {
			rets[j] = -1 // result dropped
			continue
		}
		if v < 0 {
			v = b.temp(r.typ)
		}
		rets[j] = v
		out[r.idx] = opnd{opVar, v}
	}
	b.emit(&node{kind: kCall, callee: c, args: args, rets: rets, pos: x.Pos()})
	b.afterCall(c)
	return out
}

// ---- conditions ----

func (b *builder) isNilExpr(e ast.Expr) bool {
	if tv, ok := b.pk.info.Types[e]; ok && tv.IsNil() {
		return true
	}
	return false
}

// cond evaluates e as a condition and continues at t (true) or f (false); the current path ends.
func (b *builder) cond(e ast.Expr, t, f *node) {
	pk := b.pk
	switch x := e.(type) {
	case *ast.ParenExpr:
		b.cond(x.X, t, f)
		return
	case *ast.UnaryExpr:
		if x.Op == token.NOT {
			b.cond(x.X, f, t)
			return
		}
	case *ast.Ident:
		if tv, ok := pk.info.Types[x]; ok && tv.Value != nil && tv.Value.Kind() == constant.Bool {
			if constant.BoolVal(tv.Value) {
				b.jump(t)
			} else {
				b.jump(f)
			}
			return
		}
		if o, ok := pk.info.Uses[x].(*types.Var); ok && !o.IsField() && o.Parent() != pk.pkg.Scope() && !b.addrTk[o] {
			b.branch2(&node{kind: kBranch, boolVar: o, pos: x.Pos()}, t, f)
			return
		}
	case *ast.BinaryExpr:
		switch x.Op {
		case token.LAND:
			m := b.nop()
			b.cond(x.X, m, f)
			b.startAt(m)
			b.cond(x.Y, t, f)
			return
		case token.LOR:
			m := b.nop()
			b.cond(x.X, t, m)
			b.startAt(m)
			b.cond(x.Y, t, f)
			return
		case token.EQL, token.NEQ:
			var other ast.Expr
			switch {
			case b.isNilExpr(x.Y):
				other = x.X
			case b.isNilExpr(x.X):
				other = x.Y
			}
			if other != nil {
				op := b.expr(other)
				nnB, nilB := t, f
				if x.Op == token.EQL {
					nnB, nilB = f, t
				}
				switch op.k {
				case opVar:
					b.branch2(&node{kind: kGuard, x: op.v, pos: x.Pos()}, nnB, nilB)
				default:
					b.branch2(&node{kind: kBranch, pos: x.Pos()}, t, f)
				}
				return
			}
		}
	}
	if call, ok := e.(*ast.CallExpr); ok {
		if c := pk.calleeOf(call); c != nil && c.sig.Results().Len() == 1 && isBool(c.sig.Results().At(0).Type()) {
			ops := b.call(call, nil)
			if len(ops) == 1 && ops[0].k == opVar {
				b.branch2(&node{kind: kGuard, x: ops[0].v, pos: e.Pos()}, t, f)
				return
			}
			b.branch2(&node{kind: kBranch, pos: e.Pos()}, t, f)
			return
		}
	}
	b.expr(e)
	b.branch2(&node{kind: kBranch, pos: e.Pos()}, t, f)
}

// boolOperand: the operand of a bool-typed result expression (false = nil, true = usable)
func (b *builder) boolOperand(e ast.Expr) opnd {
	pk := b.pk
	if tv, ok := pk.info.Types[e]; ok && tv.Value != nil && tv.Value.Kind() == constant.Bool {
		if constant.BoolVal(tv.Value) {
			return good
		}
		return nilOp
	}
	if call, ok := ast.Unparen(e).(*ast.CallExpr); ok {
		if c := pk.calleeOf(call); c != nil && c.sig.Results().Len() == 1 && isBool(c.sig.Results().At(0).Type()) {
			ops := b.call(call, nil)
			if len(ops) == 1 {
				return ops[0]
			}
		}
	}
	b.expr(e)
	return b.unknownBool(e.Pos())
}

func (b *builder) unknownBool(pos token.Pos) opnd {
	v := b.temp(types.Typ[types.Bool])
	b.set(v, rUnknown, 0, pos)
	return opnd{opVar, v}
}
