package main

import (
	"fmt"
	"go/ast"
	"go/token"
	"go/types"
)

// ---- graph ----

type nkind int

const (
	kNop nkind = iota
	kSet
	kGuard
	kTypeTest
	kUse
	kStore
	kCall
	kBranch
	kRet
	kHalt // C03 reading: a parse error was recorded, the run is not continued
)

type rhsKind int

const (
	rAlloc rhsKind = iota
	rNil
	rCopy
	rUnknown
	rUnknownDirty
	rConv
	rNormalize
	rAssert
)

type opKind int

const (
	opGood opKind = iota // certainly usable (or a value of a type that cannot be nil)
	opNil
	opVar
)

type opnd struct {
	k opKind
	v int
}

const (
	storeStrict = iota // the value must be usable; loads of the class yield usable values (C01 and C03)
	storeClean         // the value must not be a typed nil; loads of the class are never typed nils (C01 and C03)
	storeDirty         // the class may hold typed nils: loads are dirty; an obligation for C03 only
)

var good = opnd{k: opGood}
var nilOp = opnd{k: opNil}

type site struct {
	id    int    // global number
	kind  string // "use", "store", "mapwrite"
	what  string // "method call on interface", "field access through pointer", ...
	fn    *fnInfo
	text  string // normalised text of the dereferencing expression
	key   string // parser|fn|text[#k]
	pos   token.Pos
	node  *node
	opstr string // text of the operand that must not be nil
	class string // strict stores: the cell class
}

type node struct {
	kind    nkind
	s1, s2  *node
	x, y    int
	rhs     rhsKind
	toIface bool
	strict  bool // kStore: the value must be usable (a strict cell class)
	mode    int  // kStore: storeStrict, storeClean, storeDirty
	ptype   int  // rConv: number of the operand's pointer type; kTypeTest: number of the target pointer type (-1: none)
	site    *site
	callee  *fnInfo
	args    []opnd
	rets    []int // -1: result dropped
	pos     token.Pos
	// jump threading of comma-ok booleans
	assumeVar *types.Var // kNop: the bool variable is known to be assumeVal here
	assumeVal bool
	boolVar   *types.Var // kBranch on a plain bool variable
	barrier   bool       // kNop that stands for a statement which may write bool variables
	id        int
	// analysis
	nn, cl   bitset
	visited  bool
	predNode *node // for path reports
}

type varInfo struct {
	name  string
	obj   *types.Var
	typ   types.Type
	iface bool
	temp  bool
	field string // pseudo-variable for base.Field ("" otherwise)
	base  int
}

type convSite struct {
	fn       *fnInfo
	key      string
	text     string
	context  string // return, assign, field, append, arg, literal-field, element, conversion
	pos      token.Pos
	node     *node // the kSet rConv node (nil when the operand is certainly non-nil)
	certain  bool  // operand certainly non-nil (filled by the analysis)
	dirtyRet bool  // the converted value goes straight to a result that the function declares dirty
}

type cfg struct {
	fn       *fnInfo
	vars     []*varInfo
	varOf    map[*types.Var]int
	params   []int // variables of the tracked parameters (receiver first): always 0..k-1
	results  []int // variables of the tracked results when named, else -1
	nresults int   // number of tracked results
	entry    *node
	nodes    []*node
	sites    []*site
	convs    []*convSite
	stores   []*site
	discard  int
	fieldVar map[string]int // "base#field" -> pseudo variable
}

type loopCtx struct {
	label    string
	brk      *node
	cont     *node
	isSwitch bool
}

type builder struct {
	pk     *pkgInfo
	fn     *fnInfo
	g      *cfg
	cur    *node
	ctx    []loopCtx
	labels map[string]*node
	fallTo *node
	textN  map[string]int
	addrTk map[*types.Var]bool
	// pseudo-variables (fields.go)
	pvs      map[string]*pvInfo
	pvOrder  []string
	discover bool
	fresh    map[*types.Var]bool
}

func (b *builder) nop() *node { return &node{kind: kNop} }

// emit appends an instruction node with one successor
func (b *builder) emit(n *node) *node {
	if b.cur == nil {
		b.cur = b.nop() // unreachable code is still built (and dropped later)
	}
	b.cur.s1 = n
	m := b.nop()
	n.s1 = m
	b.cur = m
	return n
}

func (b *builder) jump(t *node) {
	if b.cur != nil {
		b.cur.s1 = t
	}
	b.cur = nil
}

func (b *builder) startAt(t *node) { b.cur = t }

// branch2 ends the current path with a two-way node
func (b *builder) branch2(n *node, s1, s2 *node) {
	if b.cur == nil {
		b.cur = b.nop()
	}
	n.s1, n.s2 = s1, s2
	b.cur.s1 = n
	b.cur = nil
}

func (b *builder) newVar(name string, obj *types.Var, t types.Type, temp bool) int {
	id := len(b.g.vars)
	b.g.vars = append(b.g.vars, &varInfo{name: name, obj: obj, typ: t, iface: isIface(t), temp: temp})
	if obj != nil {
		b.g.varOf[obj] = id
	}
	return id
}

func (b *builder) temp(t types.Type) int {
	return b.newVar(fmt.Sprintf("t%d", len(b.g.vars)), nil, t, true)
}

// lookup: the variable of a local object (created on first sight), -1 when untracked
func (b *builder) lookup(o *types.Var) int {
	if o == nil || !tracked(o.Type()) {
		return -1
	}
	if id, ok := b.g.varOf[o]; ok {
		return id
	}
	if o.IsField() || o.Parent() == nil || o.Parent() == b.pk.pkg.Scope() || o.Pkg() != b.pk.pkg {
		return -1
	}
	if b.addrTk[o] {
		return -1
	}
	return b.newVar(o.Name(), o, o.Type(), false)
}

func (b *builder) set(x int, r rhsKind, y int, pos token.Pos) *node {
	return b.emit(&node{kind: kSet, x: x, rhs: r, y: y, pos: pos})
}

// assign x := op
func (b *builder) setOp(x int, op opnd, pos token.Pos) {
	switch op.k {
	case opGood:
		b.set(x, rAlloc, 0, pos)
	case opNil:
		b.set(x, rNil, 0, pos)
	default:
		if op.v != x {
			b.set(x, rCopy, op.v, pos)
		}
	}
}

// asVar materialises an operand in a variable
func (b *builder) asVar(op opnd, t types.Type, pos token.Pos) int {
	if op.k == opVar {
		return op.v
	}
	v := b.temp(t)
	b.setOp(v, op, pos)
	return v
}

func (b *builder) unknown(t types.Type, dirty bool, pos token.Pos) opnd {
	if !tracked(t) {
		return good
	}
	v := b.temp(t)
	if dirty && isIface(t) {
		b.set(v, rUnknownDirty, 0, pos)
	} else {
		b.set(v, rUnknown, 0, pos)
	}
	return opnd{opVar, v}
}

// load: the value of a heap cell of type t. Interface cells of a dirty class may hold a typed nil.
func (b *builder) load(t types.Type, class string, pos token.Pos) opnd {
	if class == "" {
		class = ifaceClass(t)
	}
	return b.unknown(t, isIface(t) && b.pk.dirty[class], pos)
}

func ifaceClass(t types.Type) string {
	return "iface:" + types.TypeString(t, func(p *types.Package) string { return p.Name() })
}

func (b *builder) newSite(kind, what string, e ast.Node, operand ast.Node, pos token.Pos) *site {
	s := &site{kind: kind, what: what, fn: b.fn, text: b.pk.text(e), pos: pos}
	if operand != nil {
		s.opstr = b.pk.text(operand)
	}
	k := kind + ":" + s.text
	b.textN[k]++
	s.key = "parser|" + b.fn.name + "|" + s.text
	if kind != "use" {
		s.key = "parser|" + b.fn.name + "|" + kind + " " + s.text
	}
	if n := b.textN[k]; n > 1 {
		s.key += fmt.Sprintf("#%d", n)
	}
	return s
}

// use: op is dereferenced by expression e
func (b *builder) use(op opnd, what string, e ast.Node, operand ast.Node) {
	switch op.k {
	case opGood:
		return
	case opNil:
		// nil.f cannot be written in Go; (*T)(nil).f can: keep it as a use of a nil temporary
		op = opnd{opVar, b.asVar(op, nil, e.Pos())}
	}
	s := b.newSite("use", what, e, operand, e.Pos())
	n := b.emit(&node{kind: kUse, x: op.v, site: s, pos: e.Pos()})
	s.node = n
	b.g.sites = append(b.g.sites, s)
}

// store: the operand is written into a heap cell of type t (class: its cell class, "" if none).
// A strict class requires a usable value; otherwise an interface-typed cell must not receive a typed nil.
func (b *builder) store(op opnd, t types.Type, class string, what string, e ast.Node) {
	strict := class != "" && b.pk.strict[class]
	if !strict && !isIface(t) {
		return
	}
	if op.k == opGood || (op.k == opNil && !strict) {
		return
	}
	if op.k == opNil {
		op = opnd{opVar, b.asVar(op, t, e.Pos())}
	}
	if class == "" {
		class = ifaceClass(t)
	}
	mode := storeClean
	switch {
	case strict:
		mode = storeStrict
	case b.pk.dirty[class]:
		mode = storeDirty
	}
	s := b.newSite("store", what, e, nil, e.Pos())
	s.class = class
	n := b.emit(&node{kind: kStore, x: op.v, site: s, strict: strict, mode: mode, pos: e.Pos()})
	s.node = n
	b.g.sites = append(b.g.sites, s)
	b.g.stores = append(b.g.stores, s)
}

func (b *builder) typeOf(e ast.Expr) types.Type {
	if tv, ok := b.pk.info.Types[e]; ok {
		return tv.Type
	}
	if id, ok := e.(*ast.Ident); ok {
		if o := b.pk.info.ObjectOf(id); o != nil {
			return o.Type()
		}
	}
	return nil
}

// convert op (of static type from) for a destination of static type to
func (b *builder) convert(op opnd, from, to types.Type, e ast.Expr, context string) opnd {
	if to == nil || from == nil || !isIface(to) || isIface(from) {
		return op
	}
	if b, ok := from.Underlying().(*types.Basic); ok && b.Kind() == types.UntypedNil {
		return op
	}
	if !isPtr(from) {
		// a concrete non-pointer value in an interface: the interface is usable
		return good
	}
	cs := &convSite{fn: b.fn, text: b.pk.text(e), context: context, pos: e.Pos()}
	k := "conv:" + context + ":" + cs.text
	b.textN[k]++
	cs.key = "parser|" + b.fn.name + "|" + context + " " + cs.text
	if n := b.textN[k]; n > 1 {
		cs.key += fmt.Sprintf("#%d", n)
	}
	b.g.convs = append(b.g.convs, cs)
	switch op.k {
	case opGood:
		cs.certain = true
		return good
	case opNil:
		op = opnd{opVar, b.asVar(op, from, e.Pos())}
	}
	t := b.temp(to)
	cs.node = b.set(t, rConv, op.v, e.Pos())
	cs.node.ptype = b.pk.typeID(from)
	return opnd{opVar, t}
}

// exprTo evaluates e for a destination of type to
func (b *builder) exprTo(e ast.Expr, to types.Type, context string) opnd {
	op := b.expr(e)
	return b.convert(op, b.typeOf(e), to, e, context)
}
