package main

import (
	"fmt"
	"go/ast"
	"go/constant"
	"go/token"
	"go/types"
	"sort"
	"strings"
)

// ---------------------------------------------------------------------------------------------
// Heap facts used by the translation (all computed from the syntax of the reachable functions):
//
// 1. fnInfo.writes: the fields ("pkg.Type.Field", or "pkg.Type.*" for `*p = v`) that a function or one
//    of its transitive callees assigns. A call can change x.F only if "T.F" is in the callee's set:
//    functions outside package parser cannot assign fields of ast/parser structs (package ast has no
//    assigning method -- checked, see astWrites -- and the other packages cannot name the types).
//
// 2. pseudo-variables x.F (x a local pointer variable or again a pseudo-variable, F a field of pointer,
//    interface or map type): a model variable that mirrors the heap cell. It is set to Unknown at
//    function entry, whenever x is assigned, whenever a field F of the same struct type is assigned
//    through another path, and after every call whose callee may assign T.F; it is copied from the
//    right-hand side of `x.F = v`.
//
// 3. strict cell classes: "elem:E" (all elements of slices with element type E, E a pointer or
//    interface type) and "field:T.F". If every store into cells of the class stores a usable value
//    (checked in Coq: IStore with strict = true) and cells of the class cannot come into being
//    otherwise (no make([]E, n) with n > 0, no array of E, no re-slicing upwards, every composite
//    literal of T sets F and T is never zero-initialised), a load from the class yields a usable value.
// ---------------------------------------------------------------------------------------------

func fieldKeyOf(pk *pkgInfo, x *ast.SelectorExpr) (string, string, bool) {
	sel := pk.info.Selections[x]
	if sel == nil || sel.Kind() != types.FieldVal || len(sel.Index()) != 1 {
		return "", "", false
	}
	xt := pk.info.Types[x.X].Type
	sn := structName(xt)
	if sn == "" {
		return "", "", false
	}
	return sn, x.Sel.Name, true
}

// fieldWrites computes fnInfo.writes (transitively) and the set of fields whose address is taken
func (pk *pkgInfo) fieldWrites() {
	pk.escaped = map[string]bool{}
	mark := func(fi *fnInfo, l ast.Expr) {
		switch x := ast.Unparen(l).(type) {
		case *ast.SelectorExpr:
			if sn, f, ok := fieldKeyOf(pk, x); ok {
				fi.writes[sn+"."+f] = true
			} else if pk.info.Selections[x] != nil {
				fi.writes["*"] = true // promoted field or something unusual: everything
			}
		case *ast.StarExpr:
			if sn := structName(pk.info.Types[x].Type); sn != "" {
				fi.writes[sn+".*"] = true
			}
		case *ast.IndexExpr:
			// element assignment: if the element is a struct value, its fields change
			if sn := structName(pk.info.Types[x].Type); sn != "" && !isPtr(pk.info.Types[x].Type) {
				fi.writes[sn+".*"] = true
			}
		}
	}
	for _, name := range pk.names {
		fi := pk.funcs[name]
		ast.Inspect(fi.decl.Body, func(n ast.Node) bool {
			switch x := n.(type) {
			case *ast.AssignStmt:
				for _, l := range x.Lhs {
					mark(fi, l)
				}
			case *ast.IncDecStmt:
				mark(fi, x.X)
			case *ast.RangeStmt:
				if x.Tok == token.ASSIGN {
					if x.Key != nil {
						mark(fi, x.Key)
					}
					if x.Value != nil {
						mark(fi, x.Value)
					}
				}
			case *ast.UnaryExpr:
				if x.Op == token.AND {
					if se, ok := ast.Unparen(x.X).(*ast.SelectorExpr); ok {
						if sn, f, ok := fieldKeyOf(pk, se); ok {
							pk.escaped[sn+"."+f] = true
						} else if pk.info.Selections[se] != nil {
							pk.escaped["*"] = true
						}
					}
				}
			}
			return true
		})
	}
	for _, name := range pk.names {
		fi := pk.funcs[name]
		fi.direct = map[string]bool{}
		for w := range fi.writes {
			fi.direct[w] = true
		}
	}
	for changed := true; changed; {
		changed = false
		for _, name := range pk.names {
			fi := pk.funcs[name]
			for c := range fi.callees {
				for w := range c.writes {
					if !fi.writes[w] {
						fi.writes[w] = true
						changed = true
					}
				}
			}
		}
	}
}

func (fi *fnInfo) mayWrite(sf string) bool {
	if fi.writes["*"] || fi.writes[sf] {
		return true
	}
	if i := strings.LastIndex(sf, "."); i >= 0 && fi.writes[sf[:i]+".*"] {
		return true
	}
	return false
}

// ---- pseudo-variables ----

type pvInfo struct {
	key    string
	parent string // key of the base ("" when the base is a local variable)
	baseO  *types.Var
	sf     string // "pkg.Type.Field"
	typ    types.Type
}

// pvKey: the pseudo-variable key of expression e (a local variable or a chain of field selections
// starting at one); isVar: e is the plain variable
func (b *builder) pvKey(e ast.Expr) (key string, ok bool) {
	pk := b.pk
	switch x := ast.Unparen(e).(type) {
	case *ast.Ident:
		o, _ := pk.info.Uses[x].(*types.Var)
		if o == nil {
			o, _ = pk.info.Defs[x].(*types.Var)
		}
		if o == nil || !isPtr(o.Type()) || b.lookup(o) < 0 {
			return "", false
		}
		return fmt.Sprintf("%s@%d", o.Name(), o.Pos()), true
	case *ast.SelectorExpr:
		sn, f, ok := fieldKeyOf(pk, x)
		if !ok || pk.escaped[sn+"."+f] || pk.escaped["*"] || pk.astWrites {
			return "", false
		}
		xt := pk.info.Types[x.X].Type
		if !isPtr(xt) {
			return "", false
		}
		ft := pk.info.Types[x].Type
		if !(isPtr(ft) || isIface(ft) || isMap(ft)) {
			return "", false
		}
		bk, ok := b.pvKey(x.X)
		if !ok {
			return "", false
		}
		key := bk + "." + f
		if b.pvs[key] == nil {
			if !b.discover {
				return "", false // not seen in the discovery pass (cannot happen)
			}
			p := &pvInfo{key: key, sf: sn + "." + f, typ: ft}
			if _, isSel := ast.Unparen(x.X).(*ast.SelectorExpr); isSel {
				p.parent = bk
			} else {
				id := ast.Unparen(x.X).(*ast.Ident)
				p.baseO, _ = pk.info.ObjectOf(id).(*types.Var)
			}
			b.pvs[key] = p
		}
		return key, true
	}
	return "", false
}

func (b *builder) pvVar(key string) int {
	if v, ok := b.g.fieldVar[key]; ok {
		return v
	}
	p := b.pvs[key]
	at := strings.Index(key, "@")
	rest := key[at:]
	name := key[:at] + rest[strings.Index(rest, "."):]
	v := b.newVar(name, nil, p.typ, false)
	b.g.vars[v].field = p.sf
	b.g.fieldVar[key] = v
	return v
}

// initPVs: at function entry every pseudo-variable is unknown
func (b *builder) initPVs() {
	var keys []string
	for k := range b.pvs {
		keys = append(keys, k)
	}
	sort.Strings(keys)
	for _, k := range keys {
		b.killPV(k, token.NoPos, false)
	}
}

func (b *builder) killPV(key string, pos token.Pos, deps bool) {
	if b.discover {
		return
	}
	p := b.pvs[key]
	v := b.pvVar(key)
	if isIface(p.typ) && b.pk.dirty["field:"+p.sf] {
		b.set(v, rUnknownDirty, 0, pos)
	} else {
		b.set(v, rUnknown, 0, pos)
	}
	if deps {
		b.killChildren(key, pos)
	}
}

func (b *builder) killChildren(key string, pos token.Pos) {
	for _, k := range b.sortedPVs() {
		if b.pvs[k].parent == key {
			b.killPV(k, pos, true)
		}
	}
}

func (b *builder) sortedPVs() []string {
	if b.pvOrder == nil {
		for k := range b.pvs {
			b.pvOrder = append(b.pvOrder, k)
		}
		sort.Strings(b.pvOrder)
	}
	return b.pvOrder
}

// fieldRead: the operand of x (= X.f) when it is a strict field or a pseudo-variable
func (b *builder) fieldRead(x *ast.SelectorExpr, base opnd) (opnd, bool) {
	if sn, f, ok := fieldKeyOf(b.pk, x); ok && b.pk.strict["field:"+sn+"."+f] {
		return good, true
	}
	key, ok := b.pvKey(x)
	if !ok || b.discover {
		return good, false
	}
	return opnd{opVar, b.pvVar(key)}, true
}

// fieldWrite: X.f = op was executed
func (b *builder) fieldWrite(x *ast.SelectorExpr, op opnd) {
	sn, f, ok := fieldKeyOf(b.pk, x)
	if !ok {
		// unusual selector: forget everything
		for _, k := range b.sortedPVs() {
			b.killPV(k, x.Pos(), false)
		}
		return
	}
	own, _ := b.pvKey(x)
	if b.discover {
		return
	}
	for _, k := range b.sortedPVs() {
		if k != own && b.pvs[k].sf == sn+"."+f && !b.isFreshPV(b.pvs[k]) {
			b.killPV(k, x.Pos(), true)
		}
	}
	if own != "" {
		b.setOp(b.pvVar(own), op, x.Pos())
		if op.k == opVar && op.v == b.pvVar(own) {
			// x.f = x.f
		}
		b.killChildren(own, x.Pos())
	}
}

// afterCall: the callee may have assigned fields
func (b *builder) afterCall(c *fnInfo) {
	if b.discover {
		return
	}
	for _, k := range b.sortedPVs() {
		if c.mayWrite(b.pvs[k].sf) && !b.isFreshPV(b.pvs[k]) {
			b.killPV(k, token.NoPos, false) // children have their own entry if their field is written; a changed parent cell changes them too
			b.killChildren(k, token.NoPos)
		}
	}
}

// killBase: variable v was assigned
func (b *builder) killBase(v int) {
	if b.discover || v < 0 {
		return
	}
	o := b.g.vars[v].obj
	if o == nil {
		return
	}
	for _, k := range b.sortedPVs() {
		if p := b.pvs[k]; p.parent == "" && p.baseO == o {
			b.killPV(k, token.NoPos, true)
		}
	}
}

// ---- strict cell classes ----

func elemClass(t types.Type) string {
	if t == nil {
		return ""
	}
	s, ok := t.Underlying().(*types.Slice)
	if !ok {
		return ""
	}
	if !(isPtr(s.Elem()) || isIface(s.Elem())) {
		return ""
	}
	return "elem:" + types.TypeString(s.Elem(), func(p *types.Package) string { return p.Name() })
}

// strictCandidates: classes whose cells can only come into being by an explicit store
func (pk *pkgInfo) strictCandidates(funcs []*fnInfo) map[string]bool {
	cand := map[string]bool{}
	bad := map[string]bool{}
	// field classes: struct types of package parser that are never zero-initialised and whose
	// composite literals all set the field
	type lit struct{ fields map[string]bool }
	lits := map[string][]lit{}
	zeroed := map[string]bool{}
	qual := func(p *types.Package) string { return p.Name() }
	noteZero := func(t types.Type) {
		// a value of struct type t comes into being zero-initialised
		var walk func(t types.Type, depth int)
		walk = func(t types.Type, depth int) {
			if t == nil || depth > 6 {
				return
			}
			if sn := structName(t); sn != "" && !isPtr(t) {
				zeroed[sn] = true
			}
			switch u := t.Underlying().(type) {
			case *types.Struct:
				for i := 0; i < u.NumFields(); i++ {
					walk(u.Field(i).Type(), depth+1)
				}
			case *types.Array:
				walk(u.Elem(), depth+1)
			}
		}
		walk(t, 0)
	}
	inspect := func(root ast.Node) {
		ast.Inspect(root, func(n ast.Node) bool {
			switch x := n.(type) {
			case *ast.CompositeLit:
				t := pk.info.Types[x].Type
				if t == nil {
					return true
				}
				if sn := structName(t); sn != "" && !isPtr(t) {
					st := t.Underlying().(*types.Struct)
					l := lit{map[string]bool{}}
					for i, el := range x.Elts {
						if kv, ok := el.(*ast.KeyValueExpr); ok {
							if id, ok := kv.Key.(*ast.Ident); ok {
								l.fields[id.Name] = true
							}
						} else if i < st.NumFields() {
							l.fields[st.Field(i).Name()] = true
						}
					}
					lits[sn] = append(lits[sn], l)
					// by-value struct fields of the literal that are not set are zero-initialised
					for i := 0; i < st.NumFields(); i++ {
						if !l.fields[st.Field(i).Name()] {
							noteZero(st.Field(i).Type())
						}
					}
				}
				if a, ok := t.Underlying().(*types.Array); ok {
					bad["elem:"+types.TypeString(a.Elem(), qual)] = true
					noteZero(a.Elem())
				}
				if c := elemClass(t); c != "" {
					cand[c] = true
				}
			case *ast.CallExpr:
				if id, ok := ast.Unparen(x.Fun).(*ast.Ident); ok {
					if bi, ok := pk.info.Uses[id].(*types.Builtin); ok {
						switch bi.Name() {
						case "new":
							noteZero(pk.info.Types[x.Args[0]].Type)
						case "make":
							t := pk.info.Types[x.Args[0]].Type
							if c := elemClass(t); c != "" {
								zeroLen := false
								if len(x.Args) >= 2 {
									if v := pk.info.Types[x.Args[1]].Value; v != nil {
										if n, ok := constant.Int64Val(v); ok && n == 0 {
											zeroLen = true
										}
									}
								}
								if !zeroLen {
									bad[c] = true
								}
							}
							if s, ok := t.Underlying().(*types.Slice); ok {
								noteZero(s.Elem())
							}
						case "append":
							if c := elemClass(pk.info.Types[x].Type); c != "" {
								cand[c] = true
							}
						}
					}
				}
				// slices of the class returned by functions outside package parser
				if pk.calleeOf(x) == nil {
					if t := pk.info.Types[x].Type; t != nil {
						check := func(t types.Type) {
							if c := elemClass(t); c != "" {
								bad[c] = true
							}
						}
						if tup, ok := t.(*types.Tuple); ok {
							for i := 0; i < tup.Len(); i++ {
								check(tup.At(i).Type())
							}
						} else if _, isB := pk.info.Uses[identOf(x.Fun)].(*types.Builtin); !isB {
							if tv, ok := pk.info.Types[x.Fun]; !ok || !tv.IsType() {
								check(t)
							}
						}
					}
				}
			case *ast.SliceExpr:
				if c := elemClass(pk.info.Types[x.X].Type); c != "" && x.High != nil {
					want := "len(" + pk.text(x.X) + ")"
					h := pk.text(x.High)
					if !(h == want || strings.HasPrefix(h, want+"-") || strings.HasPrefix(h, want+" - ")) {
						bad[c] = true
					}
				}
			case *ast.ValueSpec:
				if len(x.Values) == 0 {
					for _, id := range x.Names {
						if o := pk.info.Defs[id]; o != nil {
							noteZero(o.Type())
							if a, ok := o.Type().Underlying().(*types.Array); ok {
								bad["elem:"+types.TypeString(a.Elem(), qual)] = true
							}
						}
					}
				}
			}
			return true
		})
	}
	for _, f := range pk.files {
		inspect(f)
	}
	// struct types of package parser: zero-initialised when embedded by value in another declared type
	for _, name := range pk.pkg.Scope().Names() {
		if tn, ok := pk.pkg.Scope().Lookup(name).(*types.TypeName); ok {
			if st, ok := tn.Type().Underlying().(*types.Struct); ok {
				for i := 0; i < st.NumFields(); i++ {
					_ = i
				}
			}
		}
	}
	// named results and locals of struct type (var x T) are covered by ValueSpec; parameters are copies
	for sn, ls := range lits {
		if !strings.HasPrefix(sn, "parser.") || zeroed[sn] {
			continue
		}
		tn, _ := pk.pkg.Scope().Lookup(strings.TrimPrefix(sn, "parser.")).(*types.TypeName)
		if tn == nil {
			continue
		}
		st := tn.Type().Underlying().(*types.Struct)
		for i := 0; i < st.NumFields(); i++ {
			f := st.Field(i)
			if !(isPtr(f.Type()) || isIface(f.Type())) {
				continue
			}
			all := true
			for _, l := range ls {
				if !l.fields[f.Name()] {
					all = false
				}
			}
			if all && !pk.escaped[sn+"."+f.Name()] && !pk.escaped["*"] {
				cand["field:"+sn+"."+f.Name()] = true
			}
		}
	}
	// a struct value of the type may also be copied as a whole (*p = *q keeps the invariant) -- fine.
	for c := range bad {
		delete(cand, c)
	}
	// functions that are not part of the program must not store into a candidate class... they cannot
	// run (no function values, see checkForms), so their stores do not matter.
	_ = funcs
	return cand
}

func identOf(e ast.Expr) *ast.Ident {
	switch x := ast.Unparen(e).(type) {
	case *ast.Ident:
		return x
	case *ast.SelectorExpr:
		return x.Sel
	}
	return nil
}

// freshLocals: local pointer variables that always hold an object allocated in this function
// (x := &T{..} / new(T) / nil) and never escape before the function returns: every occurrence is
// the base of a selection, the target of an assignment, an operand of ==/!= nil, or an operand of
// return. No callee and no other access path can reach the object, so x.F changes only by `x.F = v`.
func (pk *pkgInfo) freshLocals(fi *fnInfo) map[*types.Var]bool {
	fresh := map[*types.Var]bool{}
	bad := map[*types.Var]bool{}
	okUse := map[*ast.Ident]bool{}
	allocExpr := func(e ast.Expr) bool {
		e = ast.Unparen(e)
		if tv, ok := pk.info.Types[e]; ok && tv.IsNil() {
			return true
		}
		switch x := e.(type) {
		case *ast.UnaryExpr:
			if x.Op == token.AND {
				_, ok := ast.Unparen(x.X).(*ast.CompositeLit)
				return ok
			}
		case *ast.CallExpr:
			if id, ok := ast.Unparen(x.Fun).(*ast.Ident); ok {
				if bi, ok := pk.info.Uses[id].(*types.Builtin); ok && bi.Name() == "new" {
					return true
				}
			}
		}
		return false
	}
	localOf := func(e ast.Expr) (*types.Var, *ast.Ident) {
		id, ok := ast.Unparen(e).(*ast.Ident)
		if !ok {
			return nil, nil
		}
		o, _ := pk.info.ObjectOf(id).(*types.Var)
		if o == nil || o.IsField() || o.Parent() == pk.pkg.Scope() || !isPtr(o.Type()) {
			return nil, nil
		}
		return o, id
	}
	sig := fi.sig
	if sig.Recv() != nil {
		bad[sig.Recv()] = true
	}
	for i := 0; i < sig.Params().Len(); i++ {
		bad[sig.Params().At(i)] = true
	}
	for i := 0; i < sig.Results().Len(); i++ {
		bad[sig.Results().At(i)] = true
	}
	ast.Inspect(fi.decl.Body, func(n ast.Node) bool {
		switch x := n.(type) {
		case *ast.AssignStmt:
			for i, l := range x.Lhs {
				o, id := localOf(l)
				if o == nil {
					continue
				}
				okUse[id] = true
				if len(x.Lhs) == len(x.Rhs) && (x.Tok == token.DEFINE || x.Tok == token.ASSIGN) && allocExpr(x.Rhs[i]) {
					fresh[o] = true
				} else {
					bad[o] = true
				}
			}
		case *ast.ValueSpec:
			for i, id := range x.Names {
				o, _ := pk.info.Defs[id].(*types.Var)
				if o == nil || !isPtr(o.Type()) {
					continue
				}
				if len(x.Values) == 0 || (len(x.Values) == len(x.Names) && allocExpr(x.Values[i])) {
					fresh[o] = true
				} else {
					bad[o] = true
				}
			}
		case *ast.RangeStmt:
			for _, e := range []ast.Expr{x.Key, x.Value} {
				if e != nil {
					if o, _ := localOf(e); o != nil {
						bad[o] = true
					}
				}
			}
		case *ast.SelectorExpr:
			if _, id := localOf(x.X); id != nil {
				sel := pk.info.Selections[x]
				if sel != nil && sel.Kind() == types.FieldVal {
					okUse[id] = true
				}
				if sel != nil && sel.Kind() == types.MethodVal {
					// a method of package ast does not keep its receiver (no assignments in package ast)
					if fo, ok := sel.Obj().(*types.Func); ok && fo.Pkg() == pk.astPkg && !pk.astWrites {
						okUse[id] = true
					}
				}
			}
		case *ast.BinaryExpr:
			if x.Op == token.EQL || x.Op == token.NEQ {
				for _, pr := range [][2]ast.Expr{{x.X, x.Y}, {x.Y, x.X}} {
					if tv, ok := pk.info.Types[pr[1]]; ok && tv.IsNil() {
						if _, id := localOf(pr[0]); id != nil {
							okUse[id] = true
						}
					}
				}
			}
		case *ast.ReturnStmt:
			for _, r := range x.Results {
				if _, id := localOf(r); id != nil {
					okUse[id] = true
				}
			}
		case *ast.TypeSwitchStmt:
			// bound variables are not fresh
			for _, c := range x.Body.List {
				if o, ok := pk.info.Implicits[c].(*types.Var); ok {
					bad[o] = true
				}
			}
		}
		return true
	})
	ast.Inspect(fi.decl.Body, func(n ast.Node) bool {
		if id, ok := n.(*ast.Ident); ok && !okUse[id] {
			if o, ok := pk.info.Uses[id].(*types.Var); ok && fresh[o] {
				bad[o] = true
			}
		}
		return true
	})
	for o := range bad {
		delete(fresh, o)
	}
	return fresh
}

func (b *builder) isFreshPV(p *pvInfo) bool {
	return p.parent == "" && b.fresh[p.baseO]
}
