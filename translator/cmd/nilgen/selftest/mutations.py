#!/usr/bin/env python3
# mutation tests for nilgen + coq/Nil/*.v + Properties/C0[13]_nil.v: each mutant is a scratch copy of /repo (under /tmp/c01-nil/mut) with one edit;
# m* must break an obligation and name the site, h* (harmless refactors) must not. Usage: python3 mutations.py [name ...]
import os, re, shutil, subprocess, sys, json
BASE='/tmp/c01-nil/mut'
ENV=dict(os.environ, GOFLAGS='-mod=mod', GOPROXY='off')
def sub(src, old, new, count=1):
    assert old in src, old[:60]
    return src.replace(old, new, count)

def m_implicit(f):
    e=f['parser/expression.go']
    f['parser/expression.go']=sub(e,'''	// Nothing to alias if the expression failed to parse
	if expr == nil {
		return nil
	}
	// Check if current token can be an implicit alias''','''	// Check if current token can be an implicit alias''')
def m_wrap(f):
    e=f['parser/expression.go']
    i=e.index('func (p *Parser) wrapWithAlias(')
    f['parser/expression.go']=e[:i]+sub(e[i:],'''	// Nothing to alias if the expression failed to parse
	if expr == nil {
		return nil
	}
''','')
def m_trim(f):
    f['parser/parser.go']=sub(f['parser/parser.go'],'''	if len(ops) > len(stmts)-1 {
		ops = ops[:len(stmts)-1]
	}
''','')
def m_norm(f):
    f['parser/parser.go']=sub(f['parser/parser.go'],'''	if v := reflect.ValueOf(stmt); stmt == nil || (v.Kind() == reflect.Ptr && v.IsNil()) {
		return nil
	}
	return stmt''','''	_ = reflect.ValueOf
	return stmt''')
def m_pos(f):
    f['parser/parser.go']=sub(f['parser/parser.go'],'''func (p *Parser) parseUse() *ast.UseQuery {''','''func (p *Parser) parseUse() *ast.UseQuery {
	x := p.parseExpression(LOWEST)
	_ = x.Pos()''')
def m_args0(f):
    f['parser/expression.go']=sub(f['parser/expression.go'],'''	exprs = mergeMultiParamLambdas(exprs)
''','''	exprs = mergeMultiParamLambdas(exprs)
	_ = exprs[0]
''')
def m_assert(f):
    f['parser/parser.go']=sub(f['parser/parser.go'],'''	stmt := p.parseStatementByKeyword()
''','''	stmt := p.parseStatementByKeyword()
	_ = stmt.(*ast.SelectQuery)
''')
def m_ptrfield(f):   # extra: use of a possibly nil *SelectQuery
    f['parser/parser.go']=sub(f['parser/parser.go'],'''	sel := p.parseSelectWithParsedWith(with)
	if sel == nil {
		return nil
	}
''','''	sel := p.parseSelectWithParsedWith(with)
	sel.Distinct = sel.Distinct
	if sel == nil {
		return nil
	}
''')
def m_typednil(f):   # extra: C03 -- a typed nil put into the statement list
    f['parser/parser.go']=sub(f['parser/parser.go'],'''		stmt := p.parseStatement()
		if stmt != nil {
			// Check for PARALLEL WITH to chain statements''','''		stmt := p.parseStatement()
		if stmt == nil {
			stmt = p.parseRename()
		}
		if stmt != nil {
			// Check for PARALLEL WITH to chain statements''')
def m_div(f):   # extra: integer division by a variable
    f['parser/parser.go']=sub(f['parser/parser.go'],'''func (p *Parser) parseUse() *ast.UseQuery {''','''func (p *Parser) parseUse() *ast.UseQuery {
	n := len(p.errors)
	_ = 10 / n''')
def m_panic(f):
    f['parser/parser.go']=sub(f['parser/parser.go'],'''func (p *Parser) parseUse() *ast.UseQuery {''','''func (p *Parser) parseUse() *ast.UseQuery {
	if p.current.Value == "boom" {
		panic("boom")
	}''')
# harmless refactors
def h_rename(f):
    e=f['parser/expression.go']
    i=e.index('func (p *Parser) parseImplicitAlias(')
    j=e.index('func (p *Parser) parseExpression(')
    body=e[i:j]
    body=re.sub(r'\bcanBeAlias\b','aliasPossible',body)
    body=re.sub(r'\bupper\b','upperValue',body)
    f['parser/expression.go']=e[:i]+body+e[j:]
def h_negate(f):
    e=f['parser/expression.go']
    f['parser/expression.go']=sub(e,'''		expr := p.parseExpression(LOWEST)
		if expr != nil {
			// Handle implicit alias (identifier without AS)
			expr = p.parseImplicitAlias(expr)
			exprs = append(exprs, expr)
		}

	return exprs''','''		expr := p.parseExpression(LOWEST)
		if !(expr == nil) {
			// Handle implicit alias (identifier without AS)
			expr = p.parseImplicitAlias(expr)
			exprs = append(exprs, expr)
		}

	return exprs''') if False else sub(e,'''	left := p.parsePrefixExpression()
	if left == nil {
		return nil
	}
''','''	left := p.parsePrefixExpression()
	if !(left != nil) {
		return nil
	}
''')
def h_helper(f):
    p=f['parser/parser.go']
    p=sub(p,'''	parallel := &ast.ParallelWithQuery{
		Position:   first.Pos(),
		Statements: []ast.Statement{first},
	}
''','''	parallel := newParallel(first)
''')
    p=sub(p,'''func (p *Parser) parseStatement() ast.Statement {''','''func newParallel(first ast.Statement) *ast.ParallelWithQuery {
	return &ast.ParallelWithQuery{
		Position:   first.Pos(),
		Statements: []ast.Statement{first},
	}
}

func (p *Parser) parseStatement() ast.Statement {''')
    f['parser/parser.go']=p
def h_earlyreturn(f):  # `if x == nil { return }` fall-through instead of nesting
    e=f['parser/expression.go']
    f['parser/expression.go']=sub(e,'''	if p.currentIs(token.RPAREN) || p.currentIs(token.EOF) {
		return exprs
	}

	expr := p.parseExpression(LOWEST)
	if expr != nil {
		// Handle implicit alias (identifier without AS)
		expr = p.parseImplicitAlias(expr)
		exprs = append(exprs, expr)
	}

	for p.currentIs(token.COMMA) {
		p.nextToken()
		// Handle trailing commas''','''	if p.currentIs(token.RPAREN) || p.currentIs(token.EOF) {
		return exprs
	}

	first := p.parseExpression(LOWEST)
	if nil != first {
		withAlias := p.parseImplicitAlias(first)
		exprs = append(exprs, withAlias)
	}

	for p.currentIs(token.COMMA) {
		p.nextToken()
		// Handle trailing commas''')

MUTS=[('m1_implicitAlias_guard',m_implicit,True),('m2_wrapWithAlias_guard',m_wrap,True),('m3_ops_trimming',m_trim,True),
      ('m4_typed_nil_normalisation',m_norm,True),('m5_x_Pos',m_pos,True),('m6_args0',m_args0,True),('m7_unchecked_assert',m_assert,True),
      ('m8_nil_ptr_field',m_ptrfield,True),('m9_typed_nil_statement',m_typednil,True),('m10_div',m_div,True),('m11_panic',m_panic,True),
      ('h1_rename',h_rename,False),('h2_negate',h_negate,False),('h3_helper',h_helper,False),('h4_reshape',h_earlyreturn,False)]

def run(name, fn, expect_break):
    d=os.path.join(BASE,name)
    shutil.rmtree(d, ignore_errors=True)
    os.makedirs(d)
    repo=os.path.join(d,'repo')
    shutil.copytree('/repo', repo, ignore=shutil.ignore_patterns('.git'))
    files={}
    for rel in ['parser/parser.go','parser/expression.go']:
        files[rel]=open(os.path.join(repo,rel)).read()
    fn(files)
    for rel,src in files.items():
        open(os.path.join(repo,rel),'w').write(src)
    # the mutant must still build
    r=subprocess.run(['go','build','./parser/'],cwd=repo,env=ENV,capture_output=True,text=True)
    if r.returncode!=0:
        return name, 'DOES-NOT-BUILD', r.stderr[:300]
    coq=os.path.join(d,'coq')
    os.makedirs(os.path.join(coq,'Gen')); os.makedirs(os.path.join(coq,'Properties'))
    os.symlink('/verif/coq/Nil', os.path.join(coq,'Nil'))
    for p in ['C01_nil.v','C03_nil.v']:
        shutil.copy('/verif/coq/Properties/'+p, os.path.join(coq,'Properties',p))
    r=subprocess.run(['/verif/build/nilgen','-repo',repo,'-out',os.path.join(coq,'Gen'),'-report',os.path.join(d,'report.json'),'-v'],
                     env=ENV,capture_output=True,text=True)
    if r.returncode!=0:
        return name,'NILGEN-FAILED',r.stderr[:300]
    lines=[l for l in r.stdout.splitlines() if re.match(r'^(c01 |c03 )?(USE|STORE|INDEX|ASSERT|PANIC|CONV|STALE)',l)]
    failed=[]
    for v in ['Gen/ParserNil.v','Gen/ParserNilC03.v','Gen/ParserNilInv.v','Gen/ParserNilAllowed.v','Gen/AstSchema.v','Properties/C01_nil.v','Properties/C03_nil.v']:
        rr=subprocess.run(['coqc','-Q','.','DC','-w','-abstract-large-number',v],cwd=coq,capture_output=True,text=True,timeout=900)
        if rr.returncode!=0:
            m=re.search(r'File "([^"]+)", line (\d+)',rr.stderr)
            thm=''
            if m and m.group(1).startswith('./Properties'):
                src=open(os.path.join(coq,m.group(1))).read().splitlines()
                for k in range(int(m.group(2))-1,-1,-1):
                    mm=re.match(r'(Theorem|Example) (\w+)',src[k])
                    if mm: thm=mm.group(2); break
            failed.append(v+(':'+thm if thm else ''))
            # C03 may still be checked after C01 failed
    broke=bool(failed)
    verdict='OK' if broke==expect_break else 'UNEXPECTED'
    return name, verdict+(' broken: '+', '.join(failed) if broke else ' all obligations hold'), '; '.join(lines[:6])

if __name__=='__main__':
    sel=sys.argv[1:]
    for name,fn,exp in MUTS:
        if sel and name not in sel: continue
        n,v,detail=run(name,fn,exp)
        print(f'{n:32s} {v}\n      {detail}')
        sys.stdout.flush()
