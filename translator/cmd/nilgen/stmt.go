package main

import (
	"go/ast"
	"go/token"
	"go/types"
)

func (b *builder) block(list []ast.Stmt) {
	for _, s := range list {
		b.stmt(s, "")
	}
}

func (b *builder) labelNode(name string) *node {
	if n, ok := b.labels[name]; ok {
		return n
	}
	n := b.nop()
	b.labels[name] = n
	return n
}

func (b *builder) findBreak(label string) *node {
	for i := len(b.ctx) - 1; i >= 0; i-- {
		if label == "" || b.ctx[i].label == label {
			return b.ctx[i].brk
		}
	}
	return nil
}

func (b *builder) findContinue(label string) *node {
	for i := len(b.ctx) - 1; i >= 0; i-- {
		if b.ctx[i].isSwitch {
			continue
		}
		if label == "" || b.ctx[i].label == label {
			return b.ctx[i].cont
		}
	}
	return nil
}

// barrier marks a point where bool variables may have been written (stops jump threading)
func (b *builder) barrierHere() {
	if b.cur == nil {
		return
	}
	m := b.nop()
	m.barrier = true
	b.cur.s1 = m
	n := b.nop()
	m.s1 = n
	b.cur = n
}

func (b *builder) stmt(s ast.Stmt, label string) {
	pk := b.pk
	switch x := s.(type) {
	case nil, *ast.EmptyStmt:
	case *ast.BlockStmt:
		b.block(x.List)
	case *ast.ExprStmt:
		b.expr(x.X)
	case *ast.AssignStmt:
		b.assign(x)
	case *ast.DeclStmt:
		gd, ok := x.Decl.(*ast.GenDecl)
		if !ok || gd.Tok != token.VAR {
			return
		}
		b.barrierHere()
		for _, sp := range gd.Specs {
			vs, ok := sp.(*ast.ValueSpec)
			if !ok {
				continue
			}
			if len(vs.Values) == 0 {
				for _, id := range vs.Names {
					if o, ok := pk.info.Defs[id].(*types.Var); ok {
						if v := b.lookup(o); v >= 0 {
							b.set(v, rNil, 0, id.Pos())
						}
					}
				}
				continue
			}
			lhs := make([]ast.Expr, len(vs.Names))
			for i, id := range vs.Names {
				lhs[i] = id
			}
			b.assignLists(lhs, vs.Values, token.DEFINE, x.Pos())
		}
	case *ast.IncDecStmt:
		b.barrierHere()
		b.lvalue(x.X)
	case *ast.SendStmt:
		b.expr(x.Chan)
		b.expr(x.Value)
	case *ast.GoStmt, *ast.DeferStmt:
		// reported by checkForms
	case *ast.ReturnStmt:
		b.ret(x)
	case *ast.LabeledStmt:
		ln := b.labelNode(x.Label.Name)
		b.jump(ln)
		b.startAt(ln)
		b.stmt(x.Stmt, x.Label.Name)
	case *ast.BranchStmt:
		lab := ""
		if x.Label != nil {
			lab = x.Label.Name
		}
		var t *node
		switch x.Tok {
		case token.BREAK:
			t = b.findBreak(lab)
		case token.CONTINUE:
			t = b.findContinue(lab)
		case token.GOTO:
			t = b.labelNode(lab)
		case token.FALLTHROUGH:
			t = b.fallTo
		}
		if t == nil {
			pk.problem(x.Pos(), "branch statement without target (in %s)", b.fn.name)
			return
		}
		b.jump(t)
	case *ast.IfStmt:
		t, f, j := b.nop(), b.nop(), b.nop()
		if v := b.normalizeIdiom(x); v >= 0 {
			// if w := reflect.ValueOf(v); v == nil || (w.Kind() == reflect.Ptr && w.IsNil()) { body }
			// the body runs iff v is the nil interface or holds a nil pointer; otherwise v is usable.
			tmp := b.temp(b.g.vars[v].typ)
			b.set(tmp, rNormalize, v, x.Pos())
			cont := b.nop()
			b.branch2(&node{kind: kGuard, x: tmp, pos: x.Cond.Pos()}, cont, t)
			b.startAt(cont)
			b.set(v, rCopy, tmp, x.Cond.Pos()) // no-op on the values: tmp = v here
			b.jump(f)
		} else {
			b.stmt(x.Init, "")
			b.cond(x.Cond, t, f)
		}
		b.startAt(t)
		b.block(x.Body.List)
		b.jump(j)
		b.startAt(f)
		if x.Else != nil {
			b.stmt(x.Else, "")
		}
		b.jump(j)
		b.startAt(j)
	case *ast.ForStmt:
		b.stmt(x.Init, "")
		head, body, post, exit := b.nop(), b.nop(), b.nop(), b.nop()
		head.barrier = true
		b.jump(head)
		b.startAt(head)
		if x.Cond != nil {
			b.cond(x.Cond, body, exit)
		} else {
			b.jump(body)
		}
		b.ctx = append(b.ctx, loopCtx{label: label, brk: exit, cont: post})
		b.startAt(body)
		b.block(x.Body.List)
		b.jump(post)
		b.ctx = b.ctx[:len(b.ctx)-1]
		b.startAt(post)
		b.stmt(x.Post, "")
		b.jump(head)
		b.startAt(exit)
	case *ast.RangeStmt:
		xt := b.typeOf(x.X)
		op := b.expr(x.X)
		if xt != nil {
			if _, isFunc := xt.Underlying().(*types.Signature); isFunc {
				pk.problem(x.Pos(), "range over a function (in %s)", b.fn.name)
			}
			if isPtr(xt) {
				b.use(op, "range over pointer to array", x.X, x.X)
			}
		}
		head, body, exit := b.nop(), b.nop(), b.nop()
		head.barrier = true
		b.jump(head)
		b.startAt(head)
		b.branch2(&node{kind: kBranch, pos: x.Pos()}, body, exit)
		b.startAt(body)
		for _, kv := range []ast.Expr{x.Key, x.Value} {
			if kv == nil {
				continue
			}
			if id, ok := kv.(*ast.Ident); ok {
				if id.Name == "_" {
					continue
				}
				var o *types.Var
				if x.Tok == token.DEFINE {
					o, _ = pk.info.Defs[id].(*types.Var)
				} else {
					o, _ = pk.info.Uses[id].(*types.Var)
				}
				if v := b.lookup(o); v >= 0 {
					if c := elemClass(xt); c != "" && pk.strict[c] && kv == x.Value {
						b.set(v, rAlloc, 0, id.Pos())
					} else if isIface(o.Type()) && kv == x.Value && (pk.dirty[elemClass(xt)] || (elemClass(xt) == "" && pk.dirty[ifaceClass(o.Type())])) {
						b.set(v, rUnknownDirty, 0, id.Pos())
					} else {
						b.set(v, rUnknown, 0, id.Pos())
					}
					b.killBase(v)
				}
			} else {
				b.lvalue(kv)
			}
		}
		b.ctx = append(b.ctx, loopCtx{label: label, brk: exit, cont: head})
		b.block(x.Body.List)
		b.jump(head)
		b.ctx = b.ctx[:len(b.ctx)-1]
		b.startAt(exit)
	case *ast.SwitchStmt:
		b.stmt(x.Init, "")
		b.switchStmt(x, label)
	case *ast.TypeSwitchStmt:
		b.stmt(x.Init, "")
		b.typeSwitch(x, label)
	case *ast.SelectStmt:
		exit := b.nop()
		var entries []*node
		var clauses []*ast.CommClause
		for _, cl := range x.Body.List {
			cc := cl.(*ast.CommClause)
			// the channel operands of all cases are evaluated on entry
			switch c := cc.Comm.(type) {
			case *ast.ExprStmt:
				if u, ok := ast.Unparen(c.X).(*ast.UnaryExpr); ok && u.Op == token.ARROW {
					b.expr(u.X)
				}
			case *ast.AssignStmt:
				if len(c.Rhs) == 1 {
					if u, ok := ast.Unparen(c.Rhs[0]).(*ast.UnaryExpr); ok && u.Op == token.ARROW {
						b.expr(u.X)
					}
				}
			case *ast.SendStmt:
				b.expr(c.Chan)
				b.expr(c.Value)
			}
			entries = append(entries, b.nop())
			clauses = append(clauses, cc)
		}
		for i := range entries {
			next := b.nop()
			if i == len(entries)-1 {
				// some clause is taken (a select without ready clause blocks)
				b.jump(entries[i])
			} else {
				b.branch2(&node{kind: kBranch, pos: x.Pos()}, entries[i], next)
			}
			b.startAt(next)
		}
		b.ctx = append(b.ctx, loopCtx{label: label, brk: exit, isSwitch: true})
		for i, cc := range clauses {
			b.startAt(entries[i])
			if as, ok := cc.Comm.(*ast.AssignStmt); ok {
				for _, l := range as.Lhs {
					if id, ok := l.(*ast.Ident); ok {
						o, _ := pk.info.ObjectOf(id).(*types.Var)
						if v := b.lookup(o); v >= 0 {
							b.set(v, rUnknownDirty, 0, id.Pos())
						}
					}
				}
			}
			b.block(cc.Body)
			b.jump(exit)
		}
		b.ctx = b.ctx[:len(b.ctx)-1]
		b.startAt(exit)
	default:
		pk.problem(s.Pos(), "statement form %T is not supported (in %s)", s, b.fn.name)
	}
}

func (b *builder) switchStmt(x *ast.SwitchStmt, label string) {
	exit := b.nop()
	if x.Tag != nil {
		b.expr(x.Tag)
	}
	clauses := x.Body.List
	bodies := make([]*node, len(clauses))
	for i := range clauses {
		bodies[i] = b.nop()
	}
	var deflt *node
	for i, c := range clauses {
		cc := c.(*ast.CaseClause)
		if cc.List == nil {
			deflt = bodies[i]
			continue
		}
		for _, e := range cc.List {
			next := b.nop()
			if x.Tag == nil {
				b.cond(e, bodies[i], next)
			} else {
				b.expr(e)
				b.branch2(&node{kind: kBranch, pos: e.Pos()}, bodies[i], next)
			}
			b.startAt(next)
		}
	}
	if deflt != nil {
		b.jump(deflt)
	} else {
		b.jump(exit)
	}
	b.ctx = append(b.ctx, loopCtx{label: label, brk: exit, isSwitch: true})
	for i, c := range clauses {
		cc := c.(*ast.CaseClause)
		saved := b.fallTo
		b.fallTo = nil
		if i+1 < len(clauses) {
			b.fallTo = bodies[i+1]
		}
		b.startAt(bodies[i])
		b.block(cc.Body)
		b.jump(exit)
		b.fallTo = saved
	}
	b.ctx = b.ctx[:len(b.ctx)-1]
	b.startAt(exit)
}

func (b *builder) typeSwitch(x *ast.TypeSwitchStmt, label string) {
	pk := b.pk
	var subject ast.Expr
	bind := false
	switch a := x.Assign.(type) {
	case *ast.ExprStmt:
		if ta, ok := ast.Unparen(a.X).(*ast.TypeAssertExpr); ok {
			subject = ta.X
		}
	case *ast.AssignStmt:
		if len(a.Rhs) == 1 {
			if ta, ok := ast.Unparen(a.Rhs[0]).(*ast.TypeAssertExpr); ok {
				subject = ta.X
				bind = true
			}
		}
	}
	if subject == nil {
		pk.problem(x.Pos(), "type switch without subject (in %s)", b.fn.name)
		return
	}
	st := b.typeOf(subject)
	sv := b.asVar(b.expr(subject), st, subject.Pos())
	exit := b.nop()
	clauses := x.Body.List
	bodies := make([]*node, len(clauses))
	for i := range clauses {
		bodies[i] = b.nop()
	}
	bindVar := func(cc *ast.CaseClause) int {
		if !bind {
			return -1
		}
		if o, ok := pk.info.Implicits[cc].(*types.Var); ok {
			return b.lookup(o)
		}
		return -1
	}
	var deflt *ast.CaseClause
	var defltBody *node
	for i, c := range clauses {
		cc := c.(*ast.CaseClause)
		if cc.List == nil {
			deflt, defltBody = cc, bodies[i]
			continue
		}
		bv := bindVar(cc)
		if len(cc.List) == 1 && !b.isNilExpr(cc.List[0]) {
			tt := b.typeOf(cc.List[0])
			next := b.nop()
			dst := bv
			if dst < 0 {
				dst = b.g.discard
			}
			n := &node{kind: kTypeTest, x: dst, y: sv, toIface: isIface(tt), ptype: b.targetType(tt), pos: cc.List[0].Pos()}
			if !tracked(tt) {
				// the bound variable is not a pointer or interface
				n.x = b.g.discard
			}
			b.branch2(n, bodies[i], next)
			b.startAt(next)
			continue
		}
		// several types (the binding keeps the static type of the subject) and/or nil
		for _, e := range cc.List {
			next := b.nop()
			pre := b.nop()
			if b.isNilExpr(e) {
				b.branch2(&node{kind: kGuard, x: sv, pos: e.Pos()}, next, pre)
			} else {
				b.branch2(&node{kind: kTypeTest, x: b.g.discard, y: sv, toIface: true, ptype: -1, pos: e.Pos()}, pre, next)
			}
			b.startAt(pre)
			if bv >= 0 {
				b.set(bv, rCopy, sv, e.Pos())
			}
			b.jump(bodies[i])
			b.startAt(next)
		}
	}
	if deflt != nil {
		if bv := bindVar(deflt); bv >= 0 {
			b.set(bv, rCopy, sv, deflt.Pos())
		}
		b.jump(defltBody)
	} else {
		b.jump(exit)
	}
	b.ctx = append(b.ctx, loopCtx{label: label, brk: exit, isSwitch: true})
	for i, c := range clauses {
		cc := c.(*ast.CaseClause)
		b.startAt(bodies[i])
		b.block(cc.Body)
		b.jump(exit)
	}
	b.ctx = b.ctx[:len(b.ctx)-1]
	b.startAt(exit)
}

// ret translates a return statement
func (b *builder) ret(x *ast.ReturnStmt) {
	pk := b.pk
	sig := b.fn.sig
	tr := trackedResults(sig)
	var args []opnd
	switch {
	case len(x.Results) == 0:
		for j := range tr {
			if b.g.results[j] >= 0 {
				args = append(args, opnd{opVar, b.g.results[j]})
			} else {
				// a named result that is not a model variable (bool, or its address is taken)
				v := b.temp(tr[j].typ)
				if isIface(tr[j].typ) {
					b.set(v, rUnknownDirty, 0, x.Pos())
				} else {
					b.set(v, rUnknown, 0, x.Pos())
				}
				args = append(args, opnd{opVar, v})
			}
		}
	case len(x.Results) == 1 && sig.Results().Len() > 1:
		// return f() with a multi-valued f
		call, ok := ast.Unparen(x.Results[0]).(*ast.CallExpr)
		if !ok {
			pk.problem(x.Pos(), "multi-value return of a non-call (in %s)", b.fn.name)
			return
		}
		ops := b.call(call, nil)
		tup, _ := b.typeOf(call).(*types.Tuple)
		for _, r := range tr {
			op := good
			if r.idx < len(ops) {
				op = ops[r.idx]
			}
			if tup != nil && r.idx < tup.Len() {
				op = b.convert(op, tup.At(r.idx).Type(), r.typ, call, "return")
			}
			args = append(args, op)
		}
	default:
		ops := make([]opnd, len(x.Results))
		for i, e := range x.Results {
			var rt types.Type
			if i < sig.Results().Len() {
				rt = sig.Results().At(i).Type()
			}
			if isBool(rt) {
				ops[i] = b.boolOperand(e)
			} else {
				ops[i] = b.exprTo(e, rt, "return")
			}
		}
		for _, r := range tr {
			if r.idx < len(ops) {
				args = append(args, ops[r.idx])
			}
		}
	}
	if b.cur == nil {
		b.cur = b.nop()
	}
	n := &node{kind: kRet, args: args, pos: x.Pos()}
	b.cur.s1 = n
	b.cur = nil
}

// recordsError: the statement assigns the parser's error list (p.errors = append(p.errors, ..))
func (b *builder) recordsError(x *ast.AssignStmt) bool {
	for _, l := range x.Lhs {
		if se, ok := ast.Unparen(l).(*ast.SelectorExpr); ok && se.Sel.Name == "errors" {
			if sn, _, ok := fieldKeyOf(b.pk, se); ok && sn == "parser.Parser" {
				return true
			}
		}
	}
	return false
}

func (b *builder) assign(x *ast.AssignStmt) {
	b.barrierHere()
	switch x.Tok {
	case token.ASSIGN, token.DEFINE:
		b.assignLists(x.Lhs, x.Rhs, x.Tok, x.Pos())
		if b.pk.errHalts && b.recordsError(x) {
			// C03 speaks about runs in which no parse error is recorded: the run ends here
			if b.cur == nil {
				b.cur = b.nop()
			}
			b.cur.s1 = &node{kind: kHalt, pos: x.Pos()}
			b.cur = nil
		}
	default:
		// op=
		for _, l := range x.Lhs {
			b.lvalue(l)
		}
		b.exprs(x.Rhs)
	}
}

// lhsVar: the tracked local variable assigned by an identifier on the left (-1: none, -2: blank)
func (b *builder) lhsVar(l ast.Expr) int {
	id, ok := ast.Unparen(l).(*ast.Ident)
	if !ok {
		return -1
	}
	if id.Name == "_" {
		return -2
	}
	o, _ := b.pk.info.ObjectOf(id).(*types.Var)
	if o == nil {
		return -1
	}
	return b.lookup(o)
}

func (b *builder) boolLhs(l ast.Expr) *types.Var {
	id, ok := ast.Unparen(l).(*ast.Ident)
	if !ok || id.Name == "_" {
		return nil
	}
	o, _ := b.pk.info.ObjectOf(id).(*types.Var)
	if o == nil || o.IsField() || o.Parent() == b.pk.pkg.Scope() || b.addrTk[o] {
		return nil
	}
	return o
}

func (b *builder) assignLists(lhs, rhs []ast.Expr, tok token.Token, pos token.Pos) {
	pk := b.pk
	if len(lhs) == len(rhs) {
		if len(lhs) == 1 {
			b.assign1(lhs[0], rhs[0])
			return
		}
		// parallel assignment: all operands first
		ops := make([]opnd, len(rhs))
		for _, l := range lhs {
			if _, ok := ast.Unparen(l).(*ast.Ident); !ok {
				b.lvalue(l)
			}
		}
		for i, r := range rhs {
			op := b.exprTo(r, b.typeOf(lhs[i]), "assign")
			if op.k == opVar {
				// the value before any of the assignments
				t := b.temp(b.g.vars[op.v].typ)
				b.set(t, rCopy, op.v, r.Pos())
				op = opnd{opVar, t}
			}
			ops[i] = op
		}
		for i, l := range lhs {
			b.storeTo(l, ops[i], rhs[i])
		}
		return
	}
	if len(rhs) != 1 {
		pk.problem(pos, "assignment count mismatch (in %s)", b.fn.name)
		return
	}
	r := ast.Unparen(rhs[0])
	for _, l := range lhs {
		if _, ok := ast.Unparen(l).(*ast.Ident); !ok {
			b.lvalue(l)
		}
	}
	switch y := r.(type) {
	case *ast.TypeAssertExpr:
		// v, ok := e.(T)
		tt := b.typeOf(y.Type)
		st := b.typeOf(y.X)
		sv := b.asVar(b.expr(y.X), st, y.X.Pos())
		dst := b.lhsVar(lhs[0])
		direct := dst >= 0
		if !direct {
			if tracked(tt) {
				dst = b.temp(tt)
			} else {
				dst = b.g.discard
			}
		}
		okN, failN, j := b.nop(), b.nop(), b.nop()
		if direct {
			b.killBase(dst) // the fields of the new value are unknown (nothing reads them before the test)
		}
		if ov := b.boolLhs(lhs[1]); ov != nil {
			okN.assumeVar, okN.assumeVal = ov, true
			failN.assumeVar, failN.assumeVal = ov, false
		}
		b.branch2(&node{kind: kTypeTest, x: dst, y: sv, toIface: isIface(tt), ptype: b.targetType(tt), pos: y.Pos()}, okN, failN)
		okN.s1, failN.s1 = j, j
		b.startAt(j)
		if !direct && tracked(tt) && b.lhsVar(lhs[0]) != -2 {
			b.storeTo(lhs[0], opnd{opVar, dst}, y)
		}
		return
	case *ast.IndexExpr:
		// v, ok := m[k]
		op := b.expr(y)
		b.storeTo(lhs[0], op, y)
		return
	case *ast.UnaryExpr:
		// v, ok := <-ch
		op := b.expr(y)
		b.storeTo(lhs[0], op, y)
		return
	case *ast.CallExpr:
		c := pk.calleeOf(y)
		var dests []int
		if c != nil {
			tr := trackedResults(c.sig)
			dests = make([]int, len(tr))
			for j, rr := range tr {
				dests[j] = -1
				if rr.idx < len(lhs) {
					v := b.lhsVar(lhs[rr.idx])
					if v == -2 || isBool(rr.typ) {
						dests[j] = -2
					} else if v >= 0 && types.Identical(b.g.vars[v].typ, rr.typ) {
						dests[j] = v
					}
				}
			}
		}
		ops := b.call(y, dests)
		tup, _ := b.typeOf(y).(*types.Tuple)
		for i, l := range lhs {
			if i >= len(ops) {
				break
			}
			op := ops[i]
			v := b.lhsVar(l)
			if v == -2 {
				continue
			}
			if v >= 0 && op.k == opVar && op.v == v {
				b.killBase(v)
				continue // assigned by the call itself
			}
			if tup != nil && i < tup.Len() {
				op = b.convert(op, tup.At(i).Type(), b.typeOf(l), y, "assign")
			}
			b.storeTo(l, op, y)
		}
		return
	}
	pk.problem(pos, "multi-value assignment from %T (in %s)", r, b.fn.name)
}

// assign1: l = r (one value)
func (b *builder) assign1(l, r ast.Expr) {
	if v := b.lhsVar(l); v >= 0 {
		// direct call result
		if call, ok := ast.Unparen(r).(*ast.CallExpr); ok {
			if c := b.pk.calleeOf(call); c != nil {
				tr := trackedResults(c.sig)
				if len(tr) == 1 && c.sig.Results().Len() == 1 && types.Identical(tr[0].typ, b.g.vars[v].typ) {
					b.call(call, []int{v})
					b.killBase(v)
					return
				}
			}
		}
	}
	if _, ok := ast.Unparen(l).(*ast.Ident); !ok {
		b.lvalue(l)
	}
	op := b.exprTo(r, b.typeOf(l), "assign")
	b.storeTo(l, op, r)
}

// storeTo writes the (already converted) operand to the left-hand side l; the operands of l have
// been evaluated (lvalue) before.
func (b *builder) storeTo(l ast.Expr, op opnd, r ast.Node) {
	pk := b.pk
	l = ast.Unparen(l)
	switch x := l.(type) {
	case *ast.Ident:
		if x.Name == "_" {
			return
		}
		o, _ := pk.info.ObjectOf(x).(*types.Var)
		if o == nil {
			return
		}
		if v := b.lookup(o); v >= 0 {
			b.setOp(v, op, x.Pos())
			b.killBase(v)
			return
		}
		if tracked(o.Type()) {
			// package-level variable or escaped local: a heap cell
			b.store(op, o.Type(), "", "assignment to a shared variable", l)
		}
	case *ast.SelectorExpr:
		class := ""
		if sn, f, ok := fieldKeyOf(pk, x); ok {
			class = "field:" + sn + "." + f
		}
		b.store(op, b.typeOf(l), class, "field assignment", l)
		b.fieldWrite(x, op)
	case *ast.IndexExpr:
		xt := b.typeOf(x.X)
		if isMap(xt) {
			// writing to a nil map panics
			mop := b.exprNoEffect(x.X)
			if mop.k != opGood {
				if mop.k == opNil {
					mop = opnd{opVar, b.asVar(mop, xt, x.Pos())}
				}
				s := b.newSite("mapwrite", "write to a possibly nil map", l, x.X, l.Pos())
				n := b.emit(&node{kind: kUse, x: mop.v, site: s, pos: l.Pos()})
				s.node = n
				b.g.sites = append(b.g.sites, s)
			}
		}
		b.store(op, b.typeOf(l), elemClass(xt), "element assignment", l)
	case *ast.StarExpr:
		b.store(op, b.typeOf(l), "", "assignment through pointer", l)
	}
}

// exprNoEffect: the operand of an expression that was already evaluated (no new dereference sites for
// plain variables; anything else is re-read as unknown)
func (b *builder) exprNoEffect(e ast.Expr) opnd {
	e = ast.Unparen(e)
	if id, ok := e.(*ast.Ident); ok {
		if o, ok := b.pk.info.Uses[id].(*types.Var); ok {
			if v := b.lookup(o); v >= 0 {
				return opnd{opVar, v}
			}
		}
	}
	if se, ok := e.(*ast.SelectorExpr); ok {
		if op, ok := b.fieldRead(se, good); ok {
			return op
		}
	}
	return b.unknown(b.typeOf(e), false, e.Pos())
}

// normalizeIdiom recognises
//
//	if w := reflect.ValueOf(v); v == nil || (w.Kind() == reflect.Ptr && w.IsNil()) { ... }
//
// for a tracked local interface variable v and returns v's variable (-1 otherwise).
func (b *builder) normalizeIdiom(x *ast.IfStmt) int {
	as, ok := x.Init.(*ast.AssignStmt)
	if !ok || as.Tok != token.DEFINE || len(as.Lhs) != 1 || len(as.Rhs) != 1 {
		return -1
	}
	w, ok := as.Lhs[0].(*ast.Ident)
	if !ok {
		return -1
	}
	call, ok := as.Rhs[0].(*ast.CallExpr)
	if !ok || len(call.Args) != 1 {
		return -1
	}
	se, ok := call.Fun.(*ast.SelectorExpr)
	if !ok || se.Sel.Name != "ValueOf" {
		return -1
	}
	fo, ok := b.pk.info.Uses[se.Sel].(*types.Func)
	if !ok || fo.Pkg() == nil || fo.Pkg().Path() != "reflect" {
		return -1
	}
	vid, ok := call.Args[0].(*ast.Ident)
	if !ok {
		return -1
	}
	o, _ := b.pk.info.Uses[vid].(*types.Var)
	if o == nil || !isIface(o.Type()) {
		return -1
	}
	v := b.lookup(o)
	if v < 0 {
		return -1
	}
	want := vid.Name + " == nil || (" + w.Name + ".Kind() == reflect.Ptr && " + w.Name + ".IsNil())"
	if b.pk.text(x.Cond) != want {
		return -1
	}
	// reflect.Ptr must be the constant of package reflect
	ok = false
	ast.Inspect(x.Cond, func(n ast.Node) bool {
		if s, isSel := n.(*ast.SelectorExpr); isSel && s.Sel.Name == "Ptr" {
			if c, isC := b.pk.info.Uses[s.Sel].(*types.Const); isC && c.Pkg() != nil && c.Pkg().Path() == "reflect" {
				ok = true
			}
		}
		return true
	})
	if !ok {
		return -1
	}
	return v
}

// targetType: the number of the pointer type T of a type test x.(T) (-1 when T is not a pointer type)
func (b *builder) targetType(tt types.Type) int {
	if tt == nil || isIface(tt) || !isPtr(tt) {
		return -1
	}
	return b.pk.typeID(tt)
}
