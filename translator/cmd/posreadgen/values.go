package main

// Inventory (2): comparisons of raw token values.
//
// Taint (three levels, none < folded < raw; join = max), flow-insensitive, over all covered functions to a fixed point:
//
//	source     X.Value where X has type lexer.Item / *lexer.Item                                   raw
//	fold       strings/bytes.ToUpper, ToLower, ToTitle (and *Special), unicode.ToUpper/ToLower/ToTitle/SimpleFold
//	           of a tainted value                                                                    folded
//	carriers   local variables, parameters and results whose type is string, byte, rune or a slice / array / map /
//	           pointer of these, strings.Builder, bytes.Buffer (struct fields are NOT carriers)
//	flow       assignment, definition, range, op-assignment, x[i] = v, append, copy, conversion, concatenation and
//	           arithmetic, slicing, indexing, composite literals, any function of strings / bytes / fmt / strconv ...
//	           returning a carrier (join of its arguments and receiver), writes into a local Builder/Buffer,
//	           arguments to parameters of covered functions (every call site), results of covered functions
//	           (every return), function literals bound to a local (their parameters and results), parameters of
//	           function literals passed as callbacks (join of the other arguments of that call); parameters of a
//	           covered function that is used as a function value, and of a function literal that is neither bound
//	           nor a callback, are raw (in doubt: raw); results of calls through unknown function values are raw.
//
// Recorded: see recordUnit.

import (
	"go/ast"
	"go/constant"
	"go/token"
	"go/types"
	"unicode/utf8"
)

type taint int

const (
	tNone taint = iota
	tFolded
	tRaw
)

func joinT(a, b taint) taint {
	if a > b {
		return a
	}
	return b
}

func foldT(t taint) taint {
	if t == tNone {
		return tNone
	}
	return tFolded
}

type valueTaint struct {
	a        *analysis
	varT     map[*types.Var]taint
	retT     map[*types.Func]taint
	litRet   map[*ast.FuncLit]taint
	closures map[*types.Var][]*ast.FuncLit // local variables bound to function literals
	bound    map[*ast.FuncLit]bool         // literal is bound to a local, a callback argument, or called directly
	mapLits  map[*types.Var]*ast.CompositeLit
	changed  bool
}

func (a *analysis) carrier(t types.Type, depth int) bool {
	if t == nil || depth > 4 {
		return false
	}
	if nt, ok := t.(*types.Named); ok && nt.Obj().Pkg() != nil {
		p, n := nt.Obj().Pkg().Path(), nt.Obj().Name()
		if (p == "strings" && n == "Builder") || (p == "bytes" && n == "Buffer") {
			return true
		}
	}
	switch u := t.Underlying().(type) {
	case *types.Basic:
		return u.Info()&types.IsString != 0 || u.Kind() == types.Uint8 || u.Kind() == types.Int32 || u.Kind() == types.UntypedRune || u.Kind() == types.UntypedString
	case *types.Slice:
		return a.carrier(u.Elem(), depth+1)
	case *types.Array:
		return a.carrier(u.Elem(), depth+1)
	case *types.Pointer:
		return a.carrier(u.Elem(), depth+1)
	case *types.Map:
		return a.carrier(u.Key(), depth+1) || a.carrier(u.Elem(), depth+1)
	}
	return false
}

func (vt *valueTaint) join(v *types.Var, t taint) {
	if v == nil || t == tNone || !vt.a.carrier(v.Type(), 0) {
		return
	}
	if t > vt.varT[v] {
		vt.varT[v] = t
		vt.changed = true
	}
}

func localOf(info *types.Info, e ast.Expr) *types.Var {
	id, ok := unparen(e).(*ast.Ident)
	if !ok || id.Name == "_" {
		return nil
	}
	var v *types.Var
	if o, ok := info.Defs[id].(*types.Var); ok {
		v = o
	} else if o, ok := info.Uses[id].(*types.Var); ok {
		v = o
	}
	if v == nil || v.IsField() || v.Pkg() == nil || v.Parent() == v.Pkg().Scope() {
		return nil
	}
	return v
}

// rootLocal: the local variable whose storage x, x[i], x[i:j], *x denote.
func rootLocal(info *types.Info, e ast.Expr) *types.Var {
	for {
		switch x := unparen(e).(type) {
		case *ast.Ident:
			return localOf(info, x)
		case *ast.IndexExpr:
			e = x.X
		case *ast.SliceExpr:
			e = x.X
		case *ast.StarExpr:
			e = x.X
		default:
			return nil
		}
	}
}

var foldFuncs = map[string]bool{
	"strings.ToUpper": true, "strings.ToLower": true, "strings.ToTitle": true,
	"strings.ToUpperSpecial": true, "strings.ToLowerSpecial": true, "strings.ToTitleSpecial": true,
	"bytes.ToUpper": true, "bytes.ToLower": true, "bytes.ToTitle": true,
	"unicode.ToUpper": true, "unicode.ToLower": true, "unicode.ToTitle": true, "unicode.SimpleFold": true,
}

func qualName(fn *types.Func) string {
	if fn.Pkg() == nil {
		return fn.Name()
	}
	return fn.Pkg().Path() + "." + fn.Name()
}

func (vt *valueTaint) taintOf(info *types.Info, e ast.Expr) taint {
	if e == nil {
		return tNone
	}
	if tv, ok := info.Types[e]; ok && (tv.Value != nil || tv.IsType() || tv.IsNil()) {
		return tNone
	}
	switch x := e.(type) {
	case *ast.ParenExpr:
		return vt.taintOf(info, x.X)
	case *ast.Ident:
		if v, ok := info.Uses[x].(*types.Var); ok {
			return vt.varT[v]
		}
		if v, ok := info.Defs[x].(*types.Var); ok {
			return vt.varT[v]
		}
		return tNone
	case *ast.SelectorExpr:
		if s, ok := info.Selections[x]; ok && s.Kind() == types.FieldVal {
			if s.Obj() == types.Object(vt.a.itemValue) {
				return tRaw
			}
		}
		return tNone
	case *ast.IndexExpr:
		return vt.taintOf(info, x.X)
	case *ast.SliceExpr:
		return vt.taintOf(info, x.X)
	case *ast.StarExpr:
		return vt.taintOf(info, x.X)
	case *ast.TypeAssertExpr:
		return vt.taintOf(info, x.X)
	case *ast.UnaryExpr:
		if x.Op == token.NOT {
			return tNone
		}
		return vt.taintOf(info, x.X)
	case *ast.BinaryExpr:
		switch x.Op {
		case token.EQL, token.NEQ, token.LSS, token.LEQ, token.GTR, token.GEQ, token.LAND, token.LOR:
			return tNone
		}
		return joinT(vt.taintOf(info, x.X), vt.taintOf(info, x.Y))
	case *ast.CompositeLit:
		t := tNone
		for _, el := range x.Elts {
			if kv, ok := el.(*ast.KeyValueExpr); ok {
				t = joinT(t, vt.taintOf(info, kv.Value))
				if tv, ok := info.Types[x]; ok {
					if _, isMap := tv.Type.Underlying().(*types.Map); isMap {
						t = joinT(t, vt.taintOf(info, kv.Key))
					}
				}
			} else {
				t = joinT(t, vt.taintOf(info, el))
			}
		}
		if tv, ok := info.Types[x]; ok && !vt.a.carrier(tv.Type, 0) {
			return tNone
		}
		return t
	case *ast.CallExpr:
		return vt.callTaint(info, x)
	}
	return tNone
}

func (vt *valueTaint) argsTaint(info *types.Info, ce *ast.CallExpr) taint {
	t := tNone
	for _, arg := range ce.Args {
		t = joinT(t, vt.taintOf(info, arg))
	}
	if sel, ok := unparen(ce.Fun).(*ast.SelectorExpr); ok {
		if s, ok := info.Selections[sel]; ok && s.Kind() == types.MethodVal {
			t = joinT(t, vt.taintOf(info, sel.X))
		}
	}
	return t
}

func (vt *valueTaint) resultIsCarrier(info *types.Info, ce *ast.CallExpr) bool {
	tv, ok := info.Types[ce]
	if !ok || tv.Type == nil {
		return false
	}
	if tup, ok := tv.Type.(*types.Tuple); ok {
		for i := 0; i < tup.Len(); i++ {
			if vt.a.carrier(tup.At(i).Type(), 0) {
				return true
			}
		}
		return false
	}
	return vt.a.carrier(tv.Type, 0)
}

func (vt *valueTaint) callTaint(info *types.Info, ce *ast.CallExpr) taint {
	fun := unparen(ce.Fun)
	if tv, ok := info.Types[fun]; ok && tv.IsType() {
		if len(ce.Args) == 1 && vt.resultIsCarrier(info, ce) {
			return vt.taintOf(info, ce.Args[0])
		}
		return tNone
	}
	if id, ok := fun.(*ast.Ident); ok {
		if _, isB := info.Uses[id].(*types.Builtin); isB {
			switch id.Name {
			case "append", "min", "max":
				return vt.argsTaint(info, ce)
			}
			return tNone
		}
	}
	if !vt.resultIsCarrier(info, ce) {
		return tNone
	}
	if fn := calleeFunc(info, ce); fn != nil {
		if foldFuncs[qualName(fn)] {
			return foldT(vt.argsTaint(info, ce))
		}
		if _, ok := vt.a.unitOf[fn]; ok {
			return vt.retT[fn]
		}
		if vt.a.byPkg[fn.Pkg()] != nil {
			// module function without a walked body (token, lexer, uncovered ast helpers): its result is built from its
			// arguments and from state the covered code does not see; lexer results that carry spellings are Items, not carriers
			return vt.argsTaint(info, ce)
		}
		return vt.argsTaint(info, ce)
	}
	if lit, ok := fun.(*ast.FuncLit); ok {
		return vt.litRet[lit]
	}
	if v := localOf(info, fun); v != nil {
		if lits := vt.closures[v]; len(lits) > 0 {
			t := tNone
			for _, l := range lits {
				t = joinT(t, vt.litRet[l])
			}
			return t
		}
	}
	return tRaw // unknown function value returning a carrier: in doubt raw
}

func litParams(info *types.Info, lit *ast.FuncLit) []*types.Var {
	var out []*types.Var
	if lit.Type.Params == nil {
		return out
	}
	for _, f := range lit.Type.Params.List {
		if len(f.Names) == 0 {
			out = append(out, nil)
		}
		for _, id := range f.Names {
			v, _ := info.Defs[id].(*types.Var)
			out = append(out, v)
		}
	}
	return out
}

// passArgs joins the taints of the arguments into the parameter variables.
func (vt *valueTaint) passArgs(info *types.Info, ce *ast.CallExpr, params []*types.Var, variadic bool) {
	for i, arg := range ce.Args {
		t := vt.taintOf(info, arg)
		if t == tNone {
			continue
		}
		j := i
		if j >= len(params) {
			if !variadic || len(params) == 0 {
				continue
			}
			j = len(params) - 1
		}
		vt.join(params[j], t)
	}
}

func sigParams(sig *types.Signature) []*types.Var {
	var out []*types.Var
	for i := 0; i < sig.Params().Len(); i++ {
		out = append(out, sig.Params().At(i))
	}
	return out
}

// findClosures records which function literals are bound to locals / used as callbacks / called directly.
func (vt *valueTaint) findClosures(u *unit) {
	info := u.ld.info
	ast.Inspect(u.body, func(n ast.Node) bool {
		switch s := n.(type) {
		case *ast.AssignStmt:
			if len(s.Lhs) == len(s.Rhs) {
				for i, r := range s.Rhs {
					if lit, ok := unparen(r).(*ast.FuncLit); ok {
						if v := localOf(info, s.Lhs[i]); v != nil {
							vt.closures[v] = append(vt.closures[v], lit)
							vt.bound[lit] = true
						}
					}
				}
			}
		case *ast.ValueSpec:
			if len(s.Names) == len(s.Values) {
				for i, r := range s.Values {
					if lit, ok := unparen(r).(*ast.FuncLit); ok {
						if v := localOf(info, s.Names[i]); v != nil {
							vt.closures[v] = append(vt.closures[v], lit)
							vt.bound[lit] = true
						}
					}
				}
			}
		case *ast.CallExpr:
			if lit, ok := unparen(s.Fun).(*ast.FuncLit); ok {
				vt.bound[lit] = true
			}
			for _, arg := range s.Args {
				if lit, ok := unparen(arg).(*ast.FuncLit); ok {
					vt.bound[lit] = true
				}
			}
		}
		return true
	})
}

func (vt *valueTaint) iterateUnit(u *unit) {
	info := u.ld.info
	var stack []ast.Node
	enclosingLit := func() *ast.FuncLit {
		for i := len(stack) - 1; i >= 0; i-- {
			if l, ok := stack[i].(*ast.FuncLit); ok {
				return l
			}
		}
		return nil
	}
	ast.Inspect(u.body, func(n ast.Node) bool {
		if n == nil {
			stack = stack[:len(stack)-1]
			return true
		}
		defer func() { stack = append(stack, n) }()
		switch s := n.(type) {
		case *ast.AssignStmt:
			if len(s.Lhs) == len(s.Rhs) {
				for i, l := range s.Lhs {
					vt.join(rootLocal(info, l), vt.taintOf(info, s.Rhs[i]))
				}
			} else if len(s.Rhs) == 1 {
				t := vt.taintOf(info, s.Rhs[0])
				for _, l := range s.Lhs {
					vt.join(rootLocal(info, l), t)
				}
			}
		case *ast.ValueSpec:
			if len(s.Names) == len(s.Values) {
				for i, id := range s.Names {
					vt.join(localOf(info, id), vt.taintOf(info, s.Values[i]))
				}
			} else if len(s.Values) == 1 {
				t := vt.taintOf(info, s.Values[0])
				for _, id := range s.Names {
					vt.join(localOf(info, id), t)
				}
			}
		case *ast.RangeStmt:
			t := vt.taintOf(info, s.X)
			if s.Value != nil {
				vt.join(rootLocal(info, s.Value), t)
			}
			if s.Key != nil {
				if tv, ok := info.Types[s.X]; ok {
					if _, isMap := tv.Type.Underlying().(*types.Map); isMap {
						vt.join(rootLocal(info, s.Key), t)
					}
				}
			}
		case *ast.ReturnStmt:
			t := tNone
			for _, r := range s.Results {
				t = joinT(t, vt.taintOf(info, r))
			}
			lit := enclosingLit()
			var sig *types.Signature
			if lit != nil {
				if tv, ok := info.Types[lit]; ok {
					sig, _ = tv.Type.(*types.Signature)
				}
			} else if u.fn != nil {
				sig, _ = u.fn.Type().(*types.Signature)
			}
			if len(s.Results) == 0 && sig != nil {
				for i := 0; i < sig.Results().Len(); i++ {
					t = joinT(t, vt.varT[sig.Results().At(i)])
				}
			}
			if t != tNone {
				if lit != nil {
					if t > vt.litRet[lit] {
						vt.litRet[lit] = t
						vt.changed = true
					}
				} else if u.fn != nil && t > vt.retT[u.fn] {
					vt.retT[u.fn] = t
					vt.changed = true
				}
			}
		case *ast.FuncLit:
			if !vt.bound[s] {
				for _, pv := range litParams(info, s) {
					vt.join(pv, tRaw)
				}
			}
		case *ast.CallExpr:
			fun := unparen(s.Fun)
			if id, ok := fun.(*ast.Ident); ok {
				if _, isB := info.Uses[id].(*types.Builtin); isB {
					if id.Name == "copy" && len(s.Args) == 2 {
						vt.join(rootLocal(info, s.Args[0]), vt.taintOf(info, s.Args[1]))
					}
					return true
				}
			}
			if fn := calleeFunc(info, s); fn != nil {
				if _, ok := vt.a.unitOf[fn]; ok {
					sig := fn.Type().(*types.Signature)
					vt.passArgs(info, s, sigParams(sig), sig.Variadic())
				} else if sel, ok := fun.(*ast.SelectorExpr); ok {
					// a method of a foreign type called on a local carrier (strings.Builder, bytes.Buffer): the arguments flow into it
					if si, ok := info.Selections[sel]; ok && si.Kind() == types.MethodVal {
						t := tNone
						for _, arg := range s.Args {
							t = joinT(t, vt.taintOf(info, arg))
						}
						vt.join(rootLocal(info, sel.X), t)
					}
				}
				// callbacks: the parameters of a function literal argument receive the other arguments
				for i, arg := range s.Args {
					if lit, ok := unparen(arg).(*ast.FuncLit); ok {
						t := tNone
						for j, other := range s.Args {
							if j != i {
								t = joinT(t, vt.taintOf(info, other))
							}
						}
						for _, pv := range litParams(info, lit) {
							vt.join(pv, t)
						}
					}
				}
				return true
			}
			if lit, ok := fun.(*ast.FuncLit); ok {
				sig, _ := info.Types[lit].Type.(*types.Signature)
				vt.passArgs(info, s, litParams(info, lit), sig != nil && sig.Variadic())
				return true
			}
			if v := localOf(info, fun); v != nil {
				for _, lit := range vt.closures[v] {
					sig, _ := info.Types[lit].Type.(*types.Signature)
					vt.passArgs(info, s, litParams(info, lit), sig != nil && sig.Variadic())
				}
			}
		}
		return true
	})
}

// funcValueUses: covered functions referenced other than as the callee of a call get raw carrier parameters.
func (vt *valueTaint) funcValueUses(u *unit) {
	info := u.ld.info
	var stack []ast.Node
	ast.Inspect(u.body, func(n ast.Node) bool {
		if n == nil {
			stack = stack[:len(stack)-1]
			return true
		}
		defer func() { stack = append(stack, n) }()
		id, ok := n.(*ast.Ident)
		if !ok {
			return true
		}
		fn, ok := info.Uses[id].(*types.Func)
		if !ok {
			return true
		}
		if _, covered := vt.a.unitOf[fn]; !covered {
			return true
		}
		// find the expression this identifier is the head of (ident or x.Sel), then its parent
		i := len(stack) - 1
		var expr ast.Node = id
		if i >= 0 {
			if sel, ok := stack[i].(*ast.SelectorExpr); ok && sel.Sel == id {
				expr = sel
				i--
			}
		}
		for i >= 0 {
			if _, ok := stack[i].(*ast.ParenExpr); ok {
				expr = stack[i]
				i--
				continue
			}
			break
		}
		if i >= 0 {
			if ce, ok := stack[i].(*ast.CallExpr); ok && ast.Node(ce.Fun) == expr {
				return true
			}
		}
		sig := fn.Type().(*types.Signature)
		for _, pv := range sigParams(sig) {
			vt.join(pv, tRaw)
		}
		return true
	})
}

// ---------------------------------------------------------------------------------------------
// recording

func constText(tv types.TypeAndValue) (string, bool) {
	if tv.Value == nil {
		return "", false
	}
	switch tv.Value.Kind() {
	case constant.String:
		return constant.StringVal(tv.Value), true
	case constant.Int:
		// only character constants ('x' : rune or byte), not counts and indexes
		b, isBasic := tv.Type.Underlying().(*types.Basic)
		if !isBasic || (b.Kind() != types.UntypedRune && b.Kind() != types.Int32 && b.Kind() != types.Uint8) {
			return "", false
		}
		if v, ok := constant.Int64Val(tv.Value); ok && v >= 0 && v <= utf8.MaxRune {
			return string(rune(v)), true
		}
	}
	return "", false
}

func classOf(t taint) string {
	if t == tRaw {
		return "case-sensitive"
	}
	return "case-insensitive"
}

// strings/bytes functions that take no second operand to compare with (pure transformers / constructors)
var stringsNoOperand = map[string]bool{
	"ToUpper": true, "ToLower": true, "ToTitle": true, "TrimSpace": true, "Clone": true, "Repeat": true, "Join": true,
	"Fields": true, "NewReader": true, "Title": true, "ToValidUTF8": true, "ToUpperSpecial": true, "ToLowerSpecial": true, "ToTitleSpecial": true,
}

// packages whose functions only transform / format / numerically parse their argument (no comparison with a spelling):
// fmt (formatting), strconv (numeric parsers accept both letter cases of 0x, e, inf, nan, hex digits), utf8, errors, math/big.
var transformPkgs = map[string]bool{"fmt": true, "strconv": true, "unicode/utf8": true, "errors": true, "math/big": true, "math": true}

// unicode predicates whose result is the same for both cases of a letter
var unicodeCaseInvariant = map[string]bool{"IsLetter": true, "IsDigit": true, "IsNumber": true, "IsSpace": true, "IsPunct": true,
	"IsControl": true, "IsGraphic": true, "IsPrint": true, "IsSymbol": true, "IsMark": true}

func (vt *valueTaint) recordUnit(u *unit) {
	a := vt.a
	info := u.ld.info
	add := func(n ast.Node, text, class, kind string, consts []string, unknown bool) {
		a.inv.addVal(a.seen, a.key(u, text), class, kind, consts, unknown, a.where(n), a.siteID(n))
	}
	ast.Inspect(u.body, func(n ast.Node) bool {
		switch x := n.(type) {
		case *ast.BinaryExpr:
			switch x.Op {
			case token.EQL, token.NEQ, token.LSS, token.LEQ, token.GTR, token.GEQ:
			default:
				return true
			}
			tx, ty := vt.taintOf(info, x.X), vt.taintOf(info, x.Y)
			t := joinT(tx, ty)
			if t == tNone {
				return true
			}
			var consts []string
			for _, op := range []ast.Expr{x.X, x.Y} {
				if c, ok := constText(info.Types[op]); ok {
					consts = append(consts, c)
				}
			}
			add(x, a.text(x), classOf(t), "compare", consts, len(consts) == 0)
		case *ast.SwitchStmt:
			if x.Tag == nil {
				return true
			}
			t := vt.taintOf(info, x.Tag)
			if t == tNone {
				return true
			}
			var consts []string
			unknown := false
			for _, st := range x.Body.List {
				for _, ce := range st.(*ast.CaseClause).List {
					if c, ok := constText(info.Types[ce]); ok {
						consts = append(consts, c)
					} else {
						unknown = true
					}
				}
			}
			add(x, "switch "+a.text(x.Tag), classOf(t), "switch", consts, unknown)
		case *ast.IndexExpr:
			tv, ok := info.Types[x.X]
			if !ok || tv.Type == nil {
				return true
			}
			if _, isMap := tv.Type.Underlying().(*types.Map); !isMap {
				return true
			}
			t := vt.taintOf(info, x.Index)
			if t == tNone {
				return true
			}
			var consts []string
			unknown := true
			var mv *types.Var
			switch m := unparen(x.X).(type) {
			case *ast.Ident:
				mv, _ = info.Uses[m].(*types.Var)
			case *ast.SelectorExpr:
				mv, _ = info.Uses[m.Sel].(*types.Var)
			}
			if mv != nil {
				if lit := vt.mapLits[mv]; lit != nil {
					unknown = false
					ld := a.byPkg[mv.Pkg()]
					for _, el := range lit.Elts {
						kv, ok := el.(*ast.KeyValueExpr)
						if !ok {
							unknown = true
							continue
						}
						if c, ok := constText(ld.info.Types[kv.Key]); ok {
							consts = append(consts, c)
						} else {
							unknown = true
						}
					}
				}
			}
			add(x, a.text(x), classOf(t), "map-index "+a.text(x.X), consts, unknown)
		case *ast.CallExpr:
			fn := calleeFunc(info, x)
			if fn == nil || fn.Pkg() == nil {
				return true
			}
			if _, covered := a.unitOf[fn]; covered {
				return true
			}
			t := vt.argsTaint(info, x)
			if t == tNone {
				return true
			}
			var consts []string
			for _, arg := range x.Args {
				if c, ok := constText(info.Types[arg]); ok {
					consts = append(consts, c)
				}
			}
			path := fn.Pkg().Path()
			switch {
			case path == "strings" || path == "bytes":
				sig := fn.Type().(*types.Signature)
				if sig.Recv() != nil || stringsNoOperand[fn.Name()] {
					return true // Builder/Buffer/Reader/Replacer methods: writes and reads of the carrier
				}
				class := classOf(t)
				if fn.Name() == "EqualFold" {
					class = "case-insensitive"
				}
				add(x, a.text(x), class, path+"."+fn.Name(), consts, len(consts) == 0)
			case path == "unicode":
				if foldFuncs[qualName(fn)] || unicodeCaseInvariant[fn.Name()] {
					return true
				}
				add(x, a.text(x), classOf(t), "unicode."+fn.Name(), nil, true)
			case transformPkgs[path]:
				return true
			case a.byPkg[fn.Pkg()] != nil:
				add(x, a.text(x), classOf(t), "module-call "+qualName(fn), nil, true)
			default:
				add(x, a.text(x), classOf(t), "external-call "+qualName(fn), consts, true)
			}
		}
		return true
	})
}

func (a *analysis) valueCompares() {
	vt := &valueTaint{a: a, varT: map[*types.Var]taint{}, retT: map[*types.Func]taint{}, litRet: map[*ast.FuncLit]taint{},
		closures: map[*types.Var][]*ast.FuncLit{}, bound: map[*ast.FuncLit]bool{}, mapLits: map[*types.Var]*ast.CompositeLit{}}
	a.vt = vt
	for _, ld := range a.lds {
		for _, f := range ld.files {
			for _, d := range f.Decls {
				gd, ok := d.(*ast.GenDecl)
				if !ok || gd.Tok != token.VAR {
					continue
				}
				for _, sp := range gd.Specs {
					vs := sp.(*ast.ValueSpec)
					if len(vs.Names) != len(vs.Values) {
						continue
					}
					for i, id := range vs.Names {
						if lit, ok := vs.Values[i].(*ast.CompositeLit); ok {
							if v, ok := ld.info.Defs[id].(*types.Var); ok {
								if _, isMap := v.Type().Underlying().(*types.Map); isMap {
									vt.mapLits[v] = lit
								}
							}
						}
					}
				}
			}
		}
	}
	// a package-level map that is written anywhere in the module is not a constant table
	for _, ld := range a.lds {
		for _, f := range ld.files {
			ast.Inspect(f, func(n ast.Node) bool {
				as, ok := n.(*ast.AssignStmt)
				if !ok {
					return true
				}
				for _, l := range as.Lhs {
					var e ast.Expr = l
					if ix, ok := unparen(l).(*ast.IndexExpr); ok {
						e = ix.X
					}
					switch m := unparen(e).(type) {
					case *ast.Ident:
						if v, ok := ld.info.Uses[m].(*types.Var); ok {
							delete(vt.mapLits, v)
						}
					case *ast.SelectorExpr:
						if v, ok := ld.info.Uses[m.Sel].(*types.Var); ok {
							delete(vt.mapLits, v)
						}
					}
				}
				return true
			})
		}
	}
	for _, u := range a.units {
		vt.findClosures(u)
	}
	for _, u := range a.units {
		vt.funcValueUses(u)
	}
	for round := 0; ; round++ {
		vt.changed = false
		for _, u := range a.units {
			vt.iterateUnit(u)
		}
		if !vt.changed {
			break
		}
		if round > 1000 {
			fatalf("the value taint did not reach a fixed point")
		}
	}
	for _, u := range a.units {
		vt.recordUnit(u)
	}
}
