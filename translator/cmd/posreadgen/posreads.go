package main

// Inventory (1) position reads, (3) Item.Quoted reads, (4) Literal.SpacedCommas/SpacedBrackets reads.
//
// Occurrences (each recorded as the OUTERMOST expression: `p.current.Pos.Offset` is one int read, the inner
// `p.current.Pos` is not recorded again; parentheses are transparent):
//
//	position-value  an expression of type token.Position / *token.Position that is read (not the target of = / :=,
//	                not a composite literal constructing one)
//	int-field       a selection of token.Position.Offset / Line / Column that is read
//	offset-local    a read of a local integer variable some assignment of which has an "offset expression" as
//	                its right-hand side (offset expression: int-field | offset-local | offexpr +/- (int constant | offexpr))
//	whole-value     ==, !=, switch tag, map key, conversion to an interface, argument of a function outside the
//	                covered packages, type assertion -- of a value that carries a token.Position by value (lexer.Item,
//	                a node struct) or, for package fmt, whose formatted text can show one (see fmtVisible)
//	reflection      any use of package reflect other than reflect.ValueOf(x) whose result is only asked
//	                .Kind() / .IsNil() / .IsValid(); any import of unsafe
//
// Classes: see classifyPosValue / classifyIntRead below; the default is "other".

import (
	"go/ast"
	"go/constant"
	"go/token"
	"go/types"
	"strings"
)

// ---------------------------------------------------------------------------------------------
// stores into interface-typed struct fields (closed-world approximation of their dynamic types)

func (a *analysis) collectFieldStores() {
	for _, ld := range a.lds {
		if !coveredPkgs[ld.rel] {
			continue
		}
		info := ld.info
		store := func(f *types.Var, e ast.Expr) {
			if f == nil || !f.IsField() || !isInterface(f.Type()) {
				return
			}
			if e == nil {
				a.fieldUnknown[f] = true
				return
			}
			tv, ok := info.Types[e]
			if !ok || tv.Type == nil {
				a.fieldUnknown[f] = true
				return
			}
			if tv.IsNil() {
				return
			}
			a.fieldStores[f] = append(a.fieldStores[f], storeRec{tv.Type, e, info})
		}
		fieldOf := func(e ast.Expr) *types.Var {
			if sel, ok := unparen(e).(*ast.SelectorExpr); ok {
				if s, ok := info.Selections[sel]; ok && s.Kind() == types.FieldVal {
					v, _ := s.Obj().(*types.Var)
					return v
				}
			}
			return nil
		}
		for _, f := range ld.files {
			ast.Inspect(f, func(n ast.Node) bool {
				switch x := n.(type) {
				case *ast.CompositeLit:
					tv, ok := info.Types[x]
					if !ok {
						return true
					}
					st, ok := deref(tv.Type).Underlying().(*types.Struct)
					if !ok {
						return true
					}
					for i, el := range x.Elts {
						if kv, ok := el.(*ast.KeyValueExpr); ok {
							if id, ok := kv.Key.(*ast.Ident); ok {
								fv, _ := info.Uses[id].(*types.Var)
								store(fv, kv.Value)
							}
						} else if i < st.NumFields() {
							store(st.Field(i), el)
						}
					}
				case *ast.AssignStmt:
					for i, lhs := range x.Lhs {
						fv := fieldOf(lhs)
						if fv == nil {
							continue
						}
						if len(x.Lhs) == len(x.Rhs) && (x.Tok == token.ASSIGN || x.Tok == token.DEFINE) {
							store(fv, x.Rhs[i])
						} else {
							store(fv, nil)
						}
					}
				case *ast.UnaryExpr:
					if x.Op == token.AND {
						if fv := fieldOf(x.X); fv != nil && isInterface(fv.Type()) {
							a.fieldUnknown[fv] = true
						}
					}
				case *ast.RangeStmt:
					for _, e := range []ast.Expr{x.Key, x.Value} {
						if e != nil && x.Tok == token.ASSIGN {
							if fv := fieldOf(e); fv != nil {
								store(fv, nil)
							}
						}
					}
				}
				return true
			})
		}
	}
}

// ---------------------------------------------------------------------------------------------
// per-unit walker

type tsInfo struct {
	types     []types.Type
	isDefault bool
	tag       ast.Expr
}

type walker struct {
	a     *analysis
	u     *unit
	info  *types.Info
	stack []ast.Node

	offsetLocals map[*types.Var]bool
	posDefs      map[*types.Var][]ast.Expr // definitions of Position-typed locals (nil entry: not an expression)
	typeSwitch   map[types.Object]*tsInfo
}

func (w *walker) typeOf(e ast.Expr) types.Type {
	if tv, ok := w.info.Types[e]; ok {
		return tv.Type
	}
	if id, ok := e.(*ast.Ident); ok {
		if o := w.info.Defs[id]; o != nil {
			return o.Type()
		}
		if o := w.info.Uses[id]; o != nil {
			return o.Type()
		}
	}
	return nil
}

func (w *walker) localVar(e ast.Expr) *types.Var {
	id, ok := unparen(e).(*ast.Ident)
	if !ok || id.Name == "_" {
		return nil
	}
	var v *types.Var
	if o, ok := w.info.Defs[id].(*types.Var); ok {
		v = o
	} else if o, ok := w.info.Uses[id].(*types.Var); ok {
		v = o
	}
	if v == nil || v.IsField() || v.Pkg() == nil || v.Parent() == v.Pkg().Scope() {
		return nil
	}
	return v
}

func (w *walker) isIntFieldRead(e ast.Expr) bool {
	sel, ok := e.(*ast.SelectorExpr)
	if !ok {
		return false
	}
	s, ok := w.info.Selections[sel]
	if !ok || s.Kind() != types.FieldVal {
		return false
	}
	v, _ := s.Obj().(*types.Var)
	return v != nil && w.a.posField[v]
}

func (w *walker) isIntConst(e ast.Expr) bool {
	tv, ok := w.info.Types[e]
	return ok && tv.Value != nil && tv.Value.Kind() == constant.Int
}

func (w *walker) offsetExpr(e ast.Expr) bool {
	e = unparen(e)
	if w.isIntFieldRead(e) {
		return true
	}
	if v := w.localVar(e); v != nil && w.offsetLocals[v] {
		return true
	}
	if b, ok := e.(*ast.BinaryExpr); ok && (b.Op == token.ADD || b.Op == token.SUB) {
		if w.offsetExpr(b.X) && (w.isIntConst(b.Y) || w.offsetExpr(b.Y)) {
			return true
		}
		if b.Op == token.ADD && w.isIntConst(b.X) && w.offsetExpr(b.Y) {
			return true
		}
	}
	return false
}

func isIntegerType(t types.Type) bool {
	if t == nil {
		return false
	}
	b, ok := t.Underlying().(*types.Basic)
	return ok && b.Info()&types.IsInteger != 0
}

// forEachDef calls f(lhs, rhs) for every one-to-one definition/assignment in the unit (rhs nil: other forms).
func (w *walker) forEachDef(f func(lhs ast.Expr, rhs ast.Expr)) {
	ast.Inspect(w.u.body, func(n ast.Node) bool {
		switch s := n.(type) {
		case *ast.AssignStmt:
			for i, l := range s.Lhs {
				if len(s.Lhs) == len(s.Rhs) && (s.Tok == token.ASSIGN || s.Tok == token.DEFINE) {
					f(l, s.Rhs[i])
				} else {
					f(l, nil)
				}
			}
		case *ast.ValueSpec:
			for i, id := range s.Names {
				switch {
				case len(s.Values) == len(s.Names):
					f(id, s.Values[i])
				case len(s.Values) == 0:
					// zero value: no information flows
				default:
					f(id, nil)
				}
			}
		case *ast.RangeStmt:
			if s.Key != nil {
				f(s.Key, nil)
			}
			if s.Value != nil {
				f(s.Value, nil)
			}
		}
		return true
	})
}

func (w *walker) prepass() {
	for changed := true; changed; {
		changed = false
		w.forEachDef(func(lhs, rhs ast.Expr) {
			v := w.localVar(lhs)
			if v == nil || rhs == nil || !isIntegerType(v.Type()) || w.offsetLocals[v] {
				return
			}
			if w.offsetExpr(rhs) {
				w.offsetLocals[v] = true
				changed = true
			}
		})
	}
	w.forEachDef(func(lhs, rhs ast.Expr) {
		v := w.localVar(lhs)
		if v == nil || !w.a.isPos(v.Type()) {
			return
		}
		w.posDefs[v] = append(w.posDefs[v], rhs)
	})
	ast.Inspect(w.u.body, func(n ast.Node) bool {
		ts, ok := n.(*ast.TypeSwitchStmt)
		if !ok {
			return true
		}
		var tag ast.Expr
		switch s := ts.Assign.(type) {
		case *ast.AssignStmt:
			if len(s.Rhs) == 1 {
				if ta, ok := unparen(s.Rhs[0]).(*ast.TypeAssertExpr); ok {
					tag = ta.X
				}
			}
		case *ast.ExprStmt:
			if ta, ok := unparen(s.X).(*ast.TypeAssertExpr); ok {
				tag = ta.X
			}
		}
		for _, st := range ts.Body.List {
			cl := st.(*ast.CaseClause)
			ti := &tsInfo{tag: tag, isDefault: cl.List == nil}
			for _, te := range cl.List {
				tv, ok := w.info.Types[te]
				if !ok || tv.IsNil() {
					continue
				}
				ti.types = append(ti.types, tv.Type)
				if w.a.isPosLike(tv.Type) || w.a.isItemLike(tv.Type) {
					w.other(te, "whole-value", "type-switch case on a position-carrying type: the value was hidden in an interface")
				}
			}
			if obj := w.info.Implicits[cl]; obj != nil {
				w.typeSwitch[obj] = ti
			}
		}
		return true
	})
}

// ---------------------------------------------------------------------------------------------
// recording

func (w *walker) contextText(n ast.Node) string {
	// the innermost enclosing statement (condition for if/for/switch), for the human reader only
	for i := len(w.stack) - 1; i >= 0; i-- {
		switch st := w.stack[i].(type) {
		case *ast.AssignStmt, *ast.ExprStmt, *ast.ReturnStmt, *ast.IncDecStmt, *ast.ValueSpec, *ast.DeferStmt, *ast.GoStmt, *ast.SendStmt:
			t := w.a.text(st)
			if len(t) > 200 {
				t = t[:200] + "..."
			}
			return t
		case *ast.IfStmt:
			return "if " + w.a.text(st.Cond)
		case *ast.ForStmt:
			if st.Cond != nil {
				return "for " + w.a.text(st.Cond)
			}
		case *ast.SwitchStmt:
			if st.Tag != nil {
				return "switch " + w.a.text(st.Tag)
			}
		case *ast.CaseClause:
			return "case clause"
		}
	}
	return w.a.text(n)
}

func (w *walker) record(site ast.Node, text, class, kind, reason string) {
	w.a.inv.addPos(w.a.seen, w.a.key(w.u, text), class, kind, reason, w.contextText(site), w.a.where(site), w.a.siteID(site))
}

func (w *walker) other(site ast.Node, kind, reason string) {
	w.record(site, w.a.text(site), "other", kind, reason)
}

// ---------------------------------------------------------------------------------------------
// stack helpers

// up returns the k-th proper ancestor of the current node skipping ParenExpr, and the child through which it is reached.
func (w *walker) parentOf(idx int) (parent ast.Node, child ast.Node, pidx int) {
	child = w.stack[idx]
	for i := idx - 1; i >= 0; i-- {
		if _, ok := w.stack[i].(*ast.ParenExpr); ok {
			child = w.stack[i]
			continue
		}
		return w.stack[i], child, i
	}
	return nil, child, -1
}

func (w *walker) enclosingSignature(idx int) *types.Signature {
	for i := idx; i >= 0; i-- {
		if fl, ok := w.stack[i].(*ast.FuncLit); ok {
			if sig, ok := w.typeOf(fl).(*types.Signature); ok {
				return sig
			}
			return nil
		}
	}
	if w.u.fn != nil {
		sig, _ := w.u.fn.Type().(*types.Signature)
		return sig
	}
	return nil
}

func indexOfExpr(list []ast.Expr, c ast.Node) int {
	for i, e := range list {
		if ast.Node(e) == c {
			return i
		}
	}
	return -1
}

// isWriteTarget: the expression at stack index idx is the target of a plain assignment / definition / range.
func (w *walker) isWriteTarget(idx int) bool {
	p, c, _ := w.parentOf(idx)
	switch s := p.(type) {
	case *ast.AssignStmt:
		if s.Tok == token.ASSIGN || s.Tok == token.DEFINE {
			return indexOfExpr(s.Lhs, c) >= 0
		}
	case *ast.RangeStmt:
		return ast.Node(s.Key) == c || ast.Node(s.Value) == c
	case *ast.ValueSpec:
		for _, id := range s.Names {
			if ast.Node(id) == c {
				return true
			}
		}
	}
	return false
}

// ---------------------------------------------------------------------------------------------
// calls

type calleeKind int

const (
	calleeUnknown    calleeKind = iota
	calleeCovered               // function/method of the covered packages, or a function literal / local closure
	calleeErrBuilder            // fmt.Errorf, fmt.Sprintf, fmt.Sprint, fmt.Sprintln, errors.New
	calleeFmt                   // other functions of fmt / log
	calleeModule                // token / lexer (module, not covered)
	calleeExternal              // anything else
	calleeBuiltin
	calleeConversion
)

var errBuilders = map[string]bool{"fmt.Errorf": true, "fmt.Sprintf": true, "fmt.Sprint": true, "fmt.Sprintln": true, "errors.New": true}

func (w *walker) classifyCallee(ce *ast.CallExpr) (calleeKind, *types.Func, string) {
	fun := unparen(ce.Fun)
	if tv, ok := w.info.Types[fun]; ok && tv.IsType() {
		return calleeConversion, nil, ""
	}
	if id, ok := fun.(*ast.Ident); ok {
		if _, isB := w.info.Uses[id].(*types.Builtin); isB {
			return calleeBuiltin, nil, id.Name
		}
	}
	if fn := calleeFunc(w.info, ce); fn != nil {
		name := fn.Name()
		if fn.Pkg() != nil {
			name = fn.Pkg().Path() + "." + name
		}
		if w.a.isCoveredFunc(fn) {
			return calleeCovered, fn, name
		}
		if fn.Pkg() != nil && w.a.byPkg[fn.Pkg()] != nil {
			return calleeModule, fn, name
		}
		if sig, ok := fn.Type().(*types.Signature); ok && sig.Recv() == nil && errBuilders[name] {
			return calleeErrBuilder, fn, name
		}
		if fn.Pkg() != nil && (fn.Pkg().Path() == "fmt" || fn.Pkg().Path() == "log") {
			return calleeFmt, fn, name
		}
		return calleeExternal, fn, name
	}
	if _, ok := fun.(*ast.FuncLit); ok {
		return calleeCovered, nil, "func literal"
	}
	// a func-typed local variable / parameter / field defined by covered code: the callee is covered code
	// (function values come from function literals and method values of the covered packages; a function
	// value obtained from outside would have to be passed in through the public API, which has no such parameter)
	if v := w.localVar(fun); v != nil {
		return calleeCovered, nil, "func value " + v.Name()
	}
	return calleeUnknown, nil, ""
}

// paramType: the type of the parameter that receives argument i.
func paramType(sig *types.Signature, i int, hasEllipsis bool) types.Type {
	if sig == nil {
		return nil
	}
	n := sig.Params().Len()
	if sig.Variadic() && i >= n-1 {
		last := sig.Params().At(n - 1).Type()
		if hasEllipsis {
			return last
		}
		if s, ok := last.(*types.Slice); ok {
			return s.Elem()
		}
		return last
	}
	if i < n {
		return sig.Params().At(i).Type()
	}
	return nil
}

func (w *walker) callSignature(ce *ast.CallExpr) *types.Signature {
	sig, _ := w.typeOf(ce.Fun).(*types.Signature)
	if sig == nil {
		if t := w.typeOf(ce.Fun); t != nil {
			sig, _ = t.Underlying().(*types.Signature)
		}
	}
	return sig
}

// fmtVerbs maps each argument after the format to its verb ('v' when unknown).
func fmtVerbs(format string, n int) []byte {
	verbs := make([]byte, n)
	for i := range verbs {
		verbs[i] = 'v'
	}
	arg := 0
	for i := 0; i < len(format); i++ {
		if format[i] != '%' {
			continue
		}
		i++
		for i < len(format) && strings.IndexByte("+-# 0", format[i]) >= 0 {
			i++
		}
		if i < len(format) && format[i] == '[' {
			for j := range verbs {
				verbs[j] = 'v'
			}
			return verbs // explicit argument indexes: not analysed
		}
		for i < len(format) && (format[i] >= '0' && format[i] <= '9' || format[i] == '.' || format[i] == '*') {
			if format[i] == '*' {
				arg++
			}
			i++
		}
		if i >= len(format) {
			break
		}
		if format[i] == '%' {
			continue
		}
		if arg < n {
			verbs[arg] = format[i]
		}
		arg++
	}
	return verbs
}

// errorSinkOK: the value of the error-builder call at stack index cidx ends in an error: it is (possibly through
// nested builders and append(<[]error>, ...)) assigned to a variable/field of type error or []error, or
// returned as error.
func (w *walker) errorSinkOK(cidx int) bool {
	idx := cidx
	for {
		p, c, pidx := w.parentOf(idx)
		if p == nil {
			return false
		}
		ct := w.typeOf(c.(ast.Expr))
		switch s := p.(type) {
		case *ast.CallExpr:
			k, _, name := w.classifyCallee(s)
			if indexOfExpr(s.Args, c) < 0 {
				return false
			}
			if k == calleeErrBuilder {
				idx = pidx
				continue
			}
			if k == calleeBuiltin && name == "append" && len(s.Args) > 0 && isErrorSlice(w.typeOf(s.Args[0])) && indexOfExpr(s.Args, c) > 0 && isErrorType(ct) {
				idx = pidx
				continue
			}
			return false
		case *ast.AssignStmt:
			i := indexOfExpr(s.Rhs, c)
			if i < 0 || len(s.Lhs) != len(s.Rhs) {
				return false
			}
			lt := w.typeOf(s.Lhs[i])
			return (isErrorType(lt) || isErrorSlice(lt)) && (isErrorType(ct) || isErrorSlice(ct))
		case *ast.ValueSpec:
			return isErrorType(ct) || isErrorSlice(ct)
		case *ast.ReturnStmt:
			return isErrorType(ct)
		default:
			return false
		}
	}
}

func isErrorSlice(t types.Type) bool {
	if t == nil {
		return false
	}
	s, ok := t.Underlying().(*types.Slice)
	return ok && isErrorType(s.Elem())
}

// inErrorMessage: the node at stack index idx is (nested inside) an argument of an error-builder call whose
// result ends in an error; or an argument of a covered function that passes this parameter only to such calls.
func (w *walker) inErrorMessage(idx int) bool {
	child := w.stack[idx]
	for i := idx - 1; i >= 0; i-- {
		n := w.stack[i]
		if _, isExpr := n.(ast.Expr); !isExpr {
			if _, isKV := n.(*ast.KeyValueExpr); !isKV {
				return false
			}
		}
		if _, isLit := n.(*ast.FuncLit); isLit {
			return false
		}
		if ce, ok := n.(*ast.CallExpr); ok {
			ai := indexOfExpr(ce.Args, child)
			if ai >= 0 {
				k, fn, _ := w.classifyCallee(ce)
				if k == calleeErrBuilder {
					return w.errorSinkOK(i)
				}
				if k == calleeCovered && fn != nil && w.a.paramOnlyToErrorBuilders(fn, ai) {
					return true
				}
			}
		}
		child = n
	}
	return false
}

// paramOnlyToErrorBuilders: every use of parameter number ai (the variadic parameter for later arguments) in the
// body of the covered function is nested in an argument of an error-builder call whose result ends in an error.
func (a *analysis) paramOnlyToErrorBuilders(fn *types.Func, ai int) bool {
	u := a.unitOf[fn]
	if u == nil || u.decl == nil {
		return false
	}
	sig, _ := fn.Type().(*types.Signature)
	if sig == nil || sig.Params().Len() == 0 {
		return false
	}
	if ai >= sig.Params().Len() {
		if !sig.Variadic() {
			return false
		}
		ai = sig.Params().Len() - 1
	}
	pv := sig.Params().At(ai)
	w := newWalker(a, u)
	ok, uses := true, 0
	ast.Inspect(u.body, func(n ast.Node) bool {
		if n == nil {
			w.stack = w.stack[:len(w.stack)-1]
			return true
		}
		w.stack = append(w.stack, n)
		if id, isID := n.(*ast.Ident); isID && u.ld.info.Uses[id] == types.Object(pv) {
			uses++
			if !w.inErrorMessage(len(w.stack) - 1) {
				ok = false
			}
		}
		return true
	})
	return ok && uses > 0
}

// ---------------------------------------------------------------------------------------------
// classification of a position value (type token.Position / *token.Position)

func (w *walker) isCursorPos(e ast.Expr) bool {
	sel, ok := unparen(e).(*ast.SelectorExpr)
	if !ok {
		return false
	}
	s, ok := w.info.Selections[sel]
	if !ok || s.Obj() != types.Object(w.a.itemPos) {
		return false
	}
	in, ok := unparen(sel.X).(*ast.SelectorExpr)
	if !ok || (in.Sel.Name != "current" && in.Sel.Name != "peek") || !w.a.isItem(w.typeOf(in)) {
		return false
	}
	id, ok := unparen(in.X).(*ast.Ident)
	if !ok {
		return false
	}
	nt, ok := deref(w.typeOf(id)).(*types.Named)
	return ok && nt.Obj().Name() == "Parser" && w.a.byPkg[nt.Obj().Pkg()] != nil && w.a.byPkg[nt.Obj().Pkg()].rel == "parser"
}

func (w *walker) isNextTokenCall(st ast.Stmt) bool {
	es, ok := st.(*ast.ExprStmt)
	if !ok {
		return false
	}
	ce, ok := es.X.(*ast.CallExpr)
	if !ok || len(ce.Args) != 0 {
		return false
	}
	fn := calleeFunc(w.info, ce)
	if fn == nil || fn.Name() != "nextToken" {
		return false
	}
	ld := w.a.byPkg[fn.Pkg()]
	return ld != nil && ld.rel == "parser"
}

func leaves(st ast.Stmt) bool {
	switch s := st.(type) {
	case *ast.BranchStmt:
		return s.Tok == token.BREAK || s.Tok == token.CONTINUE
	case *ast.ReturnStmt:
		return true
	}
	return false
}

// progressGuard: see the class description in the header of main.go / the task: `cursor == saved` as the whole
// condition of an if without else and without init whose body only leaves or forces progress of a loop.
func (w *walker) progressGuard(bidx int) (bool, string) {
	b := w.stack[bidx].(*ast.BinaryExpr)
	var saved ast.Expr
	switch {
	case w.isCursorPos(b.X):
		saved = b.Y
	case w.isCursorPos(b.Y):
		saved = b.X
	default:
		return false, "neither operand is the parser's cursor position p.current.Pos / p.peek.Pos"
	}
	v := w.localVar(saved)
	if v == nil {
		return false, "the other operand is not a local variable"
	}
	defs := w.posDefs[v]
	if len(defs) == 0 {
		return false, "the local variable is a parameter or has no definition in this function"
	}
	for _, d := range defs {
		if d == nil || !w.isCursorPos(d) {
			return false, "the local variable is not assigned only from p.current.Pos / p.peek.Pos"
		}
	}
	p, c, _ := w.parentOf(bidx)
	is, ok := p.(*ast.IfStmt)
	if !ok || ast.Node(is.Cond) != c {
		return false, "the comparison is not the whole condition of an if statement"
	}
	if is.Else != nil || is.Init != nil {
		return false, "the if statement has an else branch or an init statement"
	}
	body := is.Body.List
	if len(body) == 0 || len(body) > 2 {
		return false, "the body of the if is not one of: break | continue | return ... | p.nextToken() [break|continue|return ...]"
	}
	if len(body) == 1 && (leaves(body[0]) || w.isNextTokenCall(body[0])) {
		return true, ""
	}
	if len(body) == 2 && w.isNextTokenCall(body[0]) && leaves(body[1]) {
		return true, ""
	}
	return false, "the body of the if is not one of: break | continue | return ... | p.nextToken() [break|continue|return ...]"
}

func (w *walker) sameType(t1, t2 types.Type) bool {
	return t1 != nil && t2 != nil && types.Identical(t1, t2)
}

// classifyPosValue: class of the position value at stack index idx.
func (w *walker) classifyPosValue(idx int) (class, reason string, site ast.Node, siteText string) {
	e := w.stack[idx].(ast.Expr)
	t := w.typeOf(e)
	p, c, pidx := w.parentOf(idx)
	moved := func(to types.Type, how string) (string, string, ast.Node, string) {
		if w.sameType(t, to) {
			return "copy-into-node", how, e, ""
		}
		if w.inErrorMessage(idx) {
			return "error-message", "argument of an error message builder", e, ""
		}
		ts := "?"
		if to != nil {
			ts = types.TypeString(to, nil)
		}
		return "other", how + " but the destination has type " + ts + " (conversion, not a move)", e, ""
	}
	switch s := p.(type) {
	case *ast.BinaryExpr:
		if (s.Op == token.EQL || s.Op == token.NEQ) && w.a.isPos(w.typeOf(s.X)) && w.a.isPos(w.typeOf(s.Y)) {
			ok, why := w.progressGuard(pidx)
			if ok {
				return "progress-guard", "cursor position compared with the position saved at the top of the loop body; the result only leaves the loop / forces progress", s, w.a.text(s)
			}
			return "other", "position comparison that is not a progress guard: " + why, e, ""
		}
	case *ast.KeyValueExpr:
		if ast.Node(s.Value) == c {
			gp, _, _ := w.parentOf(pidx)
			if cl, ok := gp.(*ast.CompositeLit); ok {
				ct := w.typeOf(cl)
				if ct != nil {
					switch u := deref(ct).Underlying().(type) {
					case *types.Struct:
						if id, ok := s.Key.(*ast.Ident); ok {
							if fv, ok := w.info.Uses[id].(*types.Var); ok {
								return moved(fv.Type(), "value of field "+fv.Name()+" in a composite literal")
							}
						}
					case *types.Slice:
						return moved(u.Elem(), "element of a composite literal")
					case *types.Array:
						return moved(u.Elem(), "element of a composite literal")
					case *types.Map:
						return moved(u.Elem(), "map element of a composite literal")
					}
				}
			}
		}
	case *ast.CompositeLit:
		if i := indexOfExpr(s.Elts, c); i >= 0 {
			if ct := w.typeOf(s); ct != nil {
				switch u := deref(ct).Underlying().(type) {
				case *types.Struct:
					if i < u.NumFields() {
						return moved(u.Field(i).Type(), "positional field value in a composite literal")
					}
				case *types.Slice:
					return moved(u.Elem(), "element of a composite literal")
				case *types.Array:
					return moved(u.Elem(), "element of a composite literal")
				}
			}
		}
	case *ast.AssignStmt:
		if i := indexOfExpr(s.Rhs, c); i >= 0 && len(s.Lhs) == len(s.Rhs) && (s.Tok == token.ASSIGN || s.Tok == token.DEFINE) {
			if id, ok := s.Lhs[i].(*ast.Ident); ok && id.Name == "_" {
				return "copy-into-node", "assigned to the blank identifier (discarded)", e, ""
			}
			return moved(w.typeOf(s.Lhs[i]), "right-hand side of an assignment")
		}
	case *ast.ValueSpec:
		if i := indexOfExpr(s.Values, c); i >= 0 && len(s.Values) == len(s.Names) {
			return moved(w.typeOf(s.Names[i]), "initialiser of a variable declaration")
		}
	case *ast.ReturnStmt:
		if i := indexOfExpr(s.Results, c); i >= 0 {
			if sig := w.enclosingSignature(pidx); sig != nil && sig.Results().Len() == len(s.Results) {
				return moved(sig.Results().At(i).Type(), "operand of return")
			}
		}
	case *ast.ExprStmt:
		return "copy-into-node", "value discarded", e, ""
	case *ast.CallExpr:
		if i := indexOfExpr(s.Args, c); i >= 0 {
			k, _, name := w.classifyCallee(s)
			switch k {
			case calleeCovered:
				return moved(paramType(w.callSignature(s), i, s.Ellipsis.IsValid()), "argument of covered function "+name)
			case calleeBuiltin:
				if name == "append" && i > 0 {
					if sl, ok := w.typeOf(s.Args[0]).Underlying().(*types.Slice); ok {
						return moved(sl.Elem(), "appended to a slice")
					}
				}
			case calleeErrBuilder:
				if w.errorSinkOK(pidx) {
					return "error-message", "argument of " + name + " whose result ends in an error", e, ""
				}
				return "other", "argument of " + name + " but the result is not (only) turned into an error", e, ""
			default:
				return "other", "passed to " + name + " (outside the covered packages)", e, ""
			}
		}
	case *ast.SelectorExpr:
		if ast.Node(s.X) == c {
			return "other", "method or field selected on a position (not Offset/Line/Column)", e, ""
		}
	}
	if w.inErrorMessage(idx) {
		return "error-message", "nested in an argument of an error message builder whose result ends in an error", e, ""
	}
	return "other", "context not recognised as a move, an error message or a progress guard", e, ""
}

// classifyIntRead: class of an int-field read or offset-local read at stack index idx.
func (w *walker) classifyIntRead(idx int) (class, reason string, site ast.Node, siteText string) {
	e := w.stack[idx].(ast.Expr)
	// (1) climb through parentheses and +/- to the enclosing comparison
	cur := idx
	for {
		p, c, pidx := w.parentOf(cur)
		b, ok := p.(*ast.BinaryExpr)
		if !ok {
			// (2) the whole right-hand side of the definition of an offset-local
			switch s := p.(type) {
			case *ast.AssignStmt:
				if i := indexOfExpr(s.Rhs, c); i >= 0 && len(s.Lhs) == len(s.Rhs) && (s.Tok == token.ASSIGN || s.Tok == token.DEFINE) {
					if v := w.localVar(s.Lhs[i]); v != nil && w.offsetLocals[v] && w.offsetExpr(s.Rhs[i]) {
						return "spaced-detection", "offset saved in a local integer variable all of whose reads are inventoried", s, w.a.text(s)
					}
				}
			case *ast.ValueSpec:
				if i := indexOfExpr(s.Values, c); i >= 0 && len(s.Values) == len(s.Names) {
					if v := w.localVar(s.Names[i]); v != nil && w.offsetLocals[v] && w.offsetExpr(s.Values[i]) {
						return "spaced-detection", "offset saved in a local integer variable all of whose reads are inventoried", s, "var " + w.a.text(s)
					}
				}
			}
			break
		}
		switch b.Op {
		case token.ADD, token.SUB:
			if !w.offsetExpr(b) {
				goto done
			}
			cur = pidx
			continue
		case token.LSS, token.GTR, token.LEQ, token.GEQ:
			if w.offsetExpr(b.X) && w.offsetExpr(b.Y) {
				return "spaced-detection", "ordering comparison of two offsets (distance between two tokens)", b, w.a.text(b)
			}
		}
		break
	}
done:
	if w.inErrorMessage(idx) {
		return "error-message", "nested in an argument of an error message builder whose result ends in an error", e, ""
	}
	return "other", "a position component used outside an offset/offset ordering comparison and outside an error message", e, ""
}

// ---------------------------------------------------------------------------------------------
// whole-value observations

// dynVisible: can formatting expression e with fmt show a position (see fmtVisible; resolves interface-typed
// struct fields through the stores of the covered code and type-switch variables through their case types).
func (w *walker) dynVisible(e ast.Expr, depth int) bool {
	e = unparen(e)
	t := w.typeOf(e)
	if t == nil {
		return true
	}
	if id, ok := e.(*ast.Ident); ok {
		if ti := w.typeSwitch[w.info.Uses[id]]; ti != nil {
			if ti.isDefault || len(ti.types) == 0 {
				if ti.tag == nil || depth > 3 {
					return true
				}
				return w.dynVisible(ti.tag, depth+1)
			}
			for _, ct := range ti.types {
				if w.a.fmtVisible(ct, 0, nil) {
					return true
				}
			}
			return false
		}
	}
	if it, ok := t.Underlying().(*types.Interface); ok && !isErrorType(t) {
		if sel, ok := e.(*ast.SelectorExpr); ok {
			if s, ok := w.info.Selections[sel]; ok && s.Kind() == types.FieldVal {
				if fv, ok := s.Obj().(*types.Var); ok {
					if conc, unknown := w.a.fieldDyn(fv, nil); !unknown {
						for _, st := range conc {
							if w.a.fmtVisible(st, 0, nil) {
								return true
							}
						}
						return false
					}
				}
			}
		}
		_ = it
	}
	return w.a.fmtVisible(t, 0, nil)
}

// fieldDyn: the static non-interface types of everything the covered code stores into the interface-typed struct
// field f (closed world: only trees built by the covered code are considered).  A stored value that is itself a
// read of an interface-typed field is resolved recursively; a stored value of a non-empty interface type is
// replaced by the implementers of that interface; anything else of interface type makes the result unknown.
func (a *analysis) fieldDyn(f *types.Var, visiting map[*types.Var]bool) (conc []types.Type, unknown bool) {
	if f == nil || !f.IsField() || !isInterface(f.Type()) || a.fieldUnknown[f] || !coveredPkgs[pkgRel(a, f.Pkg())] {
		return nil, true
	}
	if visiting == nil {
		visiting = map[*types.Var]bool{}
	}
	if visiting[f] {
		return nil, false
	}
	visiting[f] = true
	for _, st := range a.fieldStores[f] {
		if !isInterface(st.t) {
			conc = append(conc, st.t)
			continue
		}
		if isErrorType(st.t) {
			continue
		}
		if sel, ok := unparen(st.e).(*ast.SelectorExpr); ok {
			if s, ok := st.info.Selections[sel]; ok && s.Kind() == types.FieldVal {
				if g, ok := s.Obj().(*types.Var); ok {
					c2, u2 := a.fieldDyn(g, visiting)
					if u2 {
						return nil, true
					}
					conc = append(conc, c2...)
					continue
				}
			}
		}
		it := st.t.Underlying().(*types.Interface)
		if it.NumMethods() == 0 {
			return nil, true
		}
		conc = append(conc, a.implementers(it)...)
	}
	return conc, false
}

func pkgRel(a *analysis, p *types.Package) string {
	if ld := a.byPkg[p]; ld != nil {
		return ld.rel
	}
	return ""
}

// deepPos: a value of type t can reach a token.Position by following fields, elements, pointers and interfaces
// (what reflection / encoding packages can see).
func (a *analysis) deepPos(t types.Type, seen map[types.Type]bool) bool {
	if t == nil {
		return true
	}
	if a.isPos(t) {
		return true
	}
	if isErrorType(t) {
		return false
	}
	if seen == nil {
		seen = map[types.Type]bool{}
	}
	if seen[t] {
		return false
	}
	seen[t] = true
	switch u := t.Underlying().(type) {
	case *types.Basic, *types.Signature, *types.Chan:
		return false
	case *types.Pointer:
		return a.deepPos(u.Elem(), seen)
	case *types.Slice:
		return a.deepPos(u.Elem(), seen)
	case *types.Array:
		return a.deepPos(u.Elem(), seen)
	case *types.Map:
		return a.deepPos(u.Key(), seen) || a.deepPos(u.Elem(), seen)
	case *types.Struct:
		for i := 0; i < u.NumFields(); i++ {
			if a.deepPos(u.Field(i).Type(), seen) {
				return true
			}
		}
		return false
	case *types.Interface:
		if u.NumMethods() == 0 {
			return true
		}
		for _, impl := range a.implementers(u) {
			if a.deepPos(impl, seen) {
				return true
			}
		}
		return false
	}
	return true
}

func (w *walker) isReflectPkgType(t types.Type) bool {
	if t == nil {
		return false
	}
	nt, ok := deref(t).(*types.Named)
	return ok && nt.Obj().Pkg() != nil && nt.Obj().Pkg().Path() == "reflect"
}

var reflectAllowedMethods = map[string]bool{"Kind": true, "IsNil": true, "IsValid": true}

func (w *walker) checkCall(idx int, ce *ast.CallExpr) {
	k, fn, name := w.classifyCallee(ce)
	switch k {
	case calleeUnknown:
		// a call through a func-typed expression that is not a local: arguments that carry positions are not moves
		for _, arg := range ce.Args {
			if t := w.typeOf(arg); t != nil && (w.a.byValuePos(t, nil) && !w.a.isPos(t)) {
				w.other(arg, "whole-value", "position-carrying value passed to a function value that is not a local of covered code")
			}
		}
	case calleeErrBuilder, calleeFmt:
		fi := -1 // index of the format argument
		switch fn.Name() {
		case "Errorf", "Sprintf", "Printf", "Fatalf", "Panicf":
			fi = 0
		case "Fprintf", "Appendf":
			fi = 1
		}
		first := 0
		var verbs []byte
		if fi >= 0 && fi < len(ce.Args) {
			first = fi + 1
			n := len(ce.Args) - first
			if tv, ok := w.info.Types[ce.Args[fi]]; ok && tv.Value != nil && tv.Value.Kind() == constant.String && !ce.Ellipsis.IsValid() {
				verbs = fmtVerbs(constant.StringVal(tv.Value), n)
			}
		}
		for i := first; i < len(ce.Args); i++ {
			arg := ce.Args[i]
			t := w.typeOf(arg)
			if w.a.isPosLike(t) {
				continue // recorded as a position value with this call as its context
			}
			if verbs != nil && (verbs[i-first] == 'T' || verbs[i-first] == 'p') {
				continue
			}
			if fn.Name() == "New" { // errors.New(string)
				continue
			}
			if !w.dynVisible(arg, 0) {
				continue
			}
			class, reason := "other", "formatted by "+name+": the printed text of this value can contain a token.Position (static type "+types.TypeString(t, nil)+")"
			if k == calleeErrBuilder && w.errorSinkOK(idx) {
				class, reason = "error-message", "whole value formatted into an error message"
			} else {
				w.stack = append(w.stack, arg)
				if w.inErrorMessage(len(w.stack) - 1) {
					class, reason = "error-message", "whole value formatted into an error message"
				}
				w.stack = w.stack[:len(w.stack)-1]
			}
			w.a.inv.addPos(w.a.seen, w.a.key(w.u, w.a.text(ce)), class, "whole-value", reason, "argument "+w.a.text(arg), w.a.where(ce), w.a.siteID(arg))
		}
	case calleeModule, calleeExternal:
		if fn.Pkg() != nil && fn.Pkg().Path() == "reflect" {
			sig, _ := fn.Type().(*types.Signature)
			if sig != nil && sig.Recv() != nil {
				if !reflectAllowedMethods[fn.Name()] {
					w.other(ce, "reflection", "method "+fn.Name()+" of package reflect can expose the contents of a value")
				}
			} else if fn.Name() != "ValueOf" {
				w.other(ce, "reflection", "reflect."+fn.Name()+" is not understood")
			}
			return
		}
		if fn.Pkg() != nil && fn.Pkg().Path() == "unsafe" {
			w.other(ce, "reflection", "package unsafe")
			return
		}
		sig := w.callSignature(ce)
		for i, arg := range ce.Args {
			t := w.typeOf(arg)
			if w.a.isPosLike(t) {
				continue
			}
			pt := paramType(sig, i, ce.Ellipsis.IsValid())
			inspects := pt == nil || isInterface(pt) || isTypeParam(pt)
			if s, ok := pt.(*types.Slice); ok && (isInterface(s.Elem())) {
				inspects = true
			}
			if !inspects {
				// a concrete parameter type: the callee sees exactly that type; it carries a position only if the type does
				if w.a.byValuePos(t, nil) {
					w.other(arg, "whole-value", "position-carrying value passed to "+name+" (outside the covered packages)")
				}
				continue
			}
			if _, isLit := unparen(arg).(*ast.FuncLit); isLit {
				continue
			}
			if w.a.deepPos(t, nil) {
				w.a.inv.addPos(w.a.seen, w.a.key(w.u, w.a.text(ce)), "other", "whole-value",
					"passed as an interface to "+name+" (outside the covered packages), which can inspect it; static type "+types.TypeString(t, nil)+" can reach a token.Position",
					"argument "+w.a.text(arg), w.a.where(ce), w.a.siteID(arg))
			}
		}
	}
}

func isTypeParam(t types.Type) bool {
	_, ok := t.(*types.TypeParam)
	return ok
}

// maybeByValuePos: the dynamic value of expression e may be a struct/array that contains a position by value.
func (w *walker) maybeByValuePos(e ast.Expr) bool {
	tv, ok := w.info.Types[e]
	if !ok || tv.Type == nil || tv.IsNil() {
		return false
	}
	t := tv.Type
	if it, ok := t.Underlying().(*types.Interface); ok {
		if isErrorType(t) {
			return false
		}
		if it.NumMethods() == 0 {
			if sel, ok := unparen(e).(*ast.SelectorExpr); ok {
				if s, ok := w.info.Selections[sel]; ok && s.Kind() == types.FieldVal {
					if fv, ok := s.Obj().(*types.Var); ok {
						if conc, unknown := w.a.fieldDyn(fv, nil); !unknown {
							for _, st := range conc {
								if w.a.byValuePos(st, nil) {
									return true
								}
							}
							return false
						}
					}
				}
			}
			return true
		}
		for _, impl := range w.a.implementers(it) {
			if w.a.byValuePos(impl, nil) {
				return true
			}
		}
		return false
	}
	return w.a.byValuePos(t, nil)
}

// flowTarget: the type the value at stack index idx is converted to by its context (nil: not a conversion context).
func (w *walker) flowTarget(idx int) types.Type {
	p, c, pidx := w.parentOf(idx)
	switch s := p.(type) {
	case *ast.AssignStmt:
		if i := indexOfExpr(s.Rhs, c); i >= 0 && len(s.Lhs) == len(s.Rhs) {
			return w.typeOf(s.Lhs[i])
		}
	case *ast.ValueSpec:
		if i := indexOfExpr(s.Values, c); i >= 0 && len(s.Values) == len(s.Names) {
			return w.typeOf(s.Names[i])
		}
	case *ast.ReturnStmt:
		if i := indexOfExpr(s.Results, c); i >= 0 {
			if sig := w.enclosingSignature(pidx); sig != nil && sig.Results().Len() == len(s.Results) {
				return sig.Results().At(i).Type()
			}
		}
	case *ast.CallExpr:
		if i := indexOfExpr(s.Args, c); i >= 0 {
			k, _, _ := w.classifyCallee(s)
			if k == calleeConversion {
				return w.typeOf(s)
			}
			if k == calleeCovered || k == calleeUnknown {
				return paramType(w.callSignature(s), i, s.Ellipsis.IsValid())
			}
			if k == calleeBuiltin {
				if id, ok := unparen(s.Fun).(*ast.Ident); ok && id.Name == "append" && i > 0 {
					if sl, ok := w.typeOf(s.Args[0]).Underlying().(*types.Slice); ok {
						return sl.Elem()
					}
				}
			}
		}
	case *ast.KeyValueExpr:
		gp, _, _ := w.parentOf(pidx)
		if cl, ok := gp.(*ast.CompositeLit); ok {
			if ct := w.typeOf(cl); ct != nil {
				switch u := deref(ct).Underlying().(type) {
				case *types.Struct:
					if ast.Node(s.Value) == c {
						if id, ok := s.Key.(*ast.Ident); ok {
							if fv, ok := w.info.Uses[id].(*types.Var); ok {
								return fv.Type()
							}
						}
					}
				case *types.Slice:
					return u.Elem()
				case *types.Array:
					return u.Elem()
				case *types.Map:
					if ast.Node(s.Key) == c {
						return u.Key()
					}
					return u.Elem()
				}
			}
		}
	case *ast.CompositeLit:
		if i := indexOfExpr(s.Elts, c); i >= 0 {
			if ct := w.typeOf(s); ct != nil {
				switch u := deref(ct).Underlying().(type) {
				case *types.Struct:
					if i < u.NumFields() {
						return u.Field(i).Type()
					}
				case *types.Slice:
					return u.Elem()
				case *types.Array:
					return u.Elem()
				}
			}
		}
	case *ast.SendStmt:
		if ast.Node(s.Value) == c {
			if ch, ok := w.typeOf(s.Chan).Underlying().(*types.Chan); ok {
				return ch.Elem()
			}
		}
	}
	return nil
}

// ---------------------------------------------------------------------------------------------
// the walk

func newWalker(a *analysis, u *unit) *walker {
	return &walker{a: a, u: u, info: u.ld.info, offsetLocals: map[*types.Var]bool{}, posDefs: map[*types.Var][]ast.Expr{}, typeSwitch: map[types.Object]*tsInfo{}}
}

func (a *analysis) posReadsOfUnit(u *unit) {
	w := newWalker(a, u)
	w.prepass()
	ast.Inspect(u.body, func(n ast.Node) bool {
		if n == nil {
			w.stack = w.stack[:len(w.stack)-1]
			return true
		}
		w.stack = append(w.stack, n)
		w.visit(len(w.stack) - 1)
		return true
	})
}

func (w *walker) isStructLitKey(idx int) bool {
	if idx == 0 {
		return false
	}
	kv, ok := w.stack[idx-1].(*ast.KeyValueExpr)
	if !ok || ast.Node(kv.Key) != w.stack[idx] || idx < 2 {
		return false
	}
	cl, ok := w.stack[idx-2].(*ast.CompositeLit)
	if !ok {
		return false
	}
	t := w.typeOf(cl)
	if t == nil {
		return false
	}
	_, isStruct := deref(t).Underlying().(*types.Struct)
	return isStruct
}

func (w *walker) visit(idx int) {
	n := w.stack[idx]
	a := w.a
	switch x := n.(type) {
	case *ast.ImportSpec:
		return
	case *ast.SwitchStmt:
		if x.Tag != nil {
			if t := w.typeOf(x.Tag); t != nil && !a.isPos(t) && w.maybeByValuePos(x.Tag) && !isInterface(t) {
				w.other(x.Tag, "whole-value", "switch on a value that contains a position by value")
			}
		}
		return
	case *ast.GoStmt, *ast.DeferStmt:
		return
	}
	e, ok := n.(ast.Expr)
	if !ok {
		return
	}
	if _, isParen := e.(*ast.ParenExpr); isParen {
		return
	}
	if _, isKV := e.(*ast.KeyValueExpr); isKV {
		return
	}
	if idx > 0 {
		// the Sel identifier of a selector and the field-name key of a struct literal are not expressions
		if sel, ok := w.stack[idx-1].(*ast.SelectorExpr); ok && ast.Node(sel.Sel) == n {
			return
		}
		if w.isStructLitKey(idx) {
			return
		}
	}
	tv, hasTV := w.info.Types[e]
	if hasTV && tv.IsType() {
		return
	}
	if id, ok := e.(*ast.Ident); ok {
		if _, isDef := w.info.Defs[id]; isDef {
			return // a declaration (parameter of a function literal, := target, label), not a read
		}
		if id.Name == "_" {
			return
		}
	}
	t := w.typeOf(e)

	// --- structural checks that do not depend on the expression being a position
	switch x := e.(type) {
	case *ast.CallExpr:
		w.checkCall(idx, x)
	case *ast.TypeAssertExpr:
		if x.Type != nil {
			if at := w.typeOf(x.Type); a.isPosLike(at) || a.isItemLike(at) {
				w.other(x, "whole-value", "type assertion to a position-carrying type: the value was hidden in an interface")
				return
			}
		}
	case *ast.BinaryExpr:
		if x.Op == token.EQL || x.Op == token.NEQ {
			tx, ty := w.typeOf(x.X), w.typeOf(x.Y)
			if !(a.isPos(tx) && a.isPos(ty)) && w.maybeByValuePos(x.X) && w.maybeByValuePos(x.Y) {
				w.other(x, "whole-value", "== / != on values that (may) contain a position by value: the position takes part in the comparison")
			}
		}
	case *ast.IndexExpr:
		if mt, ok := typeUnderMap(w.typeOf(x.X)); ok {
			kt := w.typeOf(x.Index)
			if !a.isPos(kt) && (a.byValuePos(mt.Key(), nil) || (isInterface(mt.Key()) && w.maybeByValuePos(x.Index))) {
				w.other(x, "whole-value", "map index whose key contains a position by value")
			}
		}
	case *ast.SelectorExpr:
		if s, ok := w.info.Selections[x]; ok && s.Kind() == types.FieldVal {
			if fv, ok := s.Obj().(*types.Var); ok && !w.isWriteTarget(idx) {
				if fv == a.itemQuoted {
					addSimple(a.inv.quoted, a.seen, "quoted", a.key(w.u, a.text(x)), "", a.where(x), a.siteID(x))
				}
				if a.litSpaced[fv] {
					addSimple(a.inv.spaced, a.seen, "spaced", a.key(w.u, a.text(x)), w.u.ld.rel+"|"+w.u.name, a.where(x), a.siteID(x))
				}
			}
		}
		if id, ok := x.X.(*ast.Ident); ok {
			if pn, ok := w.info.Uses[id].(*types.PkgName); ok {
				switch pn.Imported().Path() {
				case "unsafe":
					w.other(x, "reflection", "package unsafe")
				case "reflect":
					if _, isFn := w.info.Uses[x.Sel].(*types.Func); !isFn {
						if _, isConst := w.info.Uses[x.Sel].(*types.Const); !isConst {
							if _, isType := w.info.Uses[x.Sel].(*types.TypeName); !isType {
								w.other(x, "reflection", "reflect."+x.Sel.Name+" is not understood")
							}
						}
					}
				}
			}
		}
	}
	// a reflect.Value / reflect.Type may only be asked Kind/IsNil/IsValid (checked at the call) or be kept in a local
	if w.isReflectPkgType(t) && !isIntegerType(t) {
		if _, isBasic := t.Underlying().(*types.Basic); !isBasic {
			p, c, _ := w.parentOf(idx)
			okUse := false
			switch s := p.(type) {
			case *ast.SelectorExpr:
				okUse = ast.Node(s.X) == c
			case *ast.AssignStmt:
				if i := indexOfExpr(s.Rhs, c); i >= 0 && len(s.Lhs) == len(s.Rhs) {
					okUse = w.localVar(s.Lhs[i]) != nil
				} else {
					okUse = indexOfExpr(s.Lhs, c) >= 0
				}
			case *ast.ValueSpec:
				okUse = true
			}
			if !okUse {
				w.other(e, "reflection", "a reflect value escapes (only .Kind(), .IsNil(), .IsValid() on a local are understood)")
			}
		}
	}

	// --- position values
	if a.isPosLike(t) {
		if _, isLit := e.(*ast.CompositeLit); isLit {
			return
		}
		if u, ok := e.(*ast.UnaryExpr); ok && u.Op == token.AND {
			if _, isLit := unparen(u.X).(*ast.CompositeLit); isLit {
				return
			}
		}
		if w.isWriteTarget(idx) {
			return
		}
		p, c, _ := w.parentOf(idx)
		switch s := p.(type) {
		case *ast.SelectorExpr:
			if ast.Node(s.X) == c && w.isIntFieldRead(s) {
				return // the int-field read is the recorded occurrence
			}
		case *ast.StarExpr:
			if ast.Node(s.X) == c && a.isPos(w.typeOf(s)) {
				return
			}
		case *ast.UnaryExpr:
			if s.Op == token.AND && ast.Node(s.X) == c {
				return
			}
		}
		class, reason, site, text := w.classifyPosValue(idx)
		if text == "" {
			text = a.text(site)
		}
		w.record(site, text, class, "position-value", reason)
		return
	}

	// --- int-field reads and offset-locals
	isField := w.isIntFieldRead(e)
	isLocal := false
	if !isField {
		if id, ok := e.(*ast.Ident); ok {
			if v, ok := w.info.Uses[id].(*types.Var); ok && w.offsetLocals[v] {
				isLocal = true
			}
		}
	}
	if isField || isLocal {
		if w.isWriteTarget(idx) {
			return
		}
		kind := "int-field"
		if isLocal {
			kind = "offset-local"
		}
		if p, c, _ := w.parentOf(idx); p != nil {
			if u, ok := p.(*ast.UnaryExpr); ok && u.Op == token.AND && ast.Node(u.X) == c {
				w.other(u, kind, "address of a position component taken")
				return
			}
		}
		class, reason, site, text := w.classifyIntRead(idx)
		if text == "" {
			text = a.text(site)
		}
		w.record(site, text, class, kind, reason)
		return
	}

	// --- whole values that carry a position by value (lexer.Item, node structs): conversion to an interface
	if t != nil && !isInterface(t) && a.byValuePos(t, nil) {
		if _, isLit := e.(*ast.CompositeLit); isLit {
			return
		}
		if to := w.flowTarget(idx); to != nil && isInterface(to) {
			p, _, _ := w.parentOf(idx)
			if ce, ok := p.(*ast.CallExpr); ok {
				if k, _, _ := w.classifyCallee(ce); k == calleeErrBuilder || k == calleeFmt || k == calleeExternal || k == calleeModule {
					return // reported by checkCall
				}
			}
			w.other(e, "whole-value", "a value that contains a position by value is converted to interface type "+types.TypeString(to, nil))
		}
	}
}

func typeUnderMap(t types.Type) (*types.Map, bool) {
	if t == nil {
		return nil, false
	}
	m, ok := t.Underlying().(*types.Map)
	return m, ok
}
