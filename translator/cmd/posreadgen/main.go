// posreadgen regenerates the inventory behind property C05 ("layout does not matter"):
//
//	coq/Gen/PosReads.v          pos_reads, value_compares, quoted_reads, spaced_flag_reads
//	coq/Gen/PosReadsAllowed.v   the Coq rendering of checks/c05_allowed_sites.json
//	build/posreadgen_report.json the same inventory with file:line lists, reasons, caller chains
//
// Background. The Coq development proves that re-laying-out a text changes only the POSITIONS of its
// tokens (lexer.Item.Pos) and the letter CASE of keyword token values (lexer.Item.Value of keyword tokens).
// This tool lists every place where the parser/printer code can look at either of the two, so that a Coq
// checker can decide that they are looked at only in the allowed ways.
//
// SOUNDNESS CLAIM (trusted; repeated verbatim in the JSON report under "soundness_claim"): see the
// constant soundnessClaim below.
//
// Covered code: every non-test file (build-tag sets {} and {verif}, merged) of the packages `parser` and
// `internal/explain`, and every function of package `ast` whose signature or body contains an expression
// of type token.Position / *token.Position / lexer.Item / *lexer.Item (the Pos()/End() methods). The
// packages `lexer` and `token` PRODUCE positions and token values; they are modelled by hand in Coq
// (coq/Lexer) and are not covered here, except that a method declared on token.Position or lexer.Item
// would be covered (none exists today).
//
// Convention for value_compares: the constants of a "case-sensitive" entry whose comparison partner is not
// statically known (constants_unknown in the report) are completed with EVERY keyword spelling, because the
// unknown partner may be any of them; a "case-insensitive" entry with unknown partner has the constants found.
//
// The classification rules are documented next to the code that implements them (posreads.go: classes of
// position reads and whole-value observations; values.go: the raw-token-value taint and the comparison
// inventory). Everything that is not positively classified is class "other".
//
// Exit status: 0 inventory written (also when it contains "other" entries: the Coq checker decides);
// 2 the sources could not be loaded/type-checked or contain a construct the tool does not understand in a
// way that could hide a read (the inventory is never partial).
package main

import (
	"bytes"
	"encoding/json"
	"flag"
	"fmt"
	"go/ast"
	"go/build"
	"go/constant"
	"go/importer"
	"go/parser"
	"go/printer"
	"go/token"
	"go/types"
	"os"
	"path/filepath"
	"sort"
	"strings"
)

const toolVersion = "posreadgen 1.0 (C05 inventory: pos_reads, value_compares, quoted_reads, spaced_flag_reads)"

const soundnessClaim = `For the covered code (all non-test files of packages parser and internal/explain of the module, ` +
	`under the build-tag sets {} and {verif}, plus every function of package ast that has an expression of type ` +
	`token.Position, *token.Position, lexer.Item or *lexer.Item): ` +
	`(1) every expression occurrence that reads a position -- an expression of static type token.Position or *token.Position ` +
	`(including reads of locals/parameters of that type and calls returning it), a selection of one of the fields ` +
	`Offset/Line/Column of token.Position, a read of a local int variable that was assigned from such a field, a type assertion or ` +
	`type-switch case to token.Position/lexer.Item, and every whole-value observation (==/!=, switch tag, map key, conversion to an ` +
	`interface, argument of a function outside the covered packages that can inspect it such as fmt with a verb other than %T/%p) of a ` +
	`value whose printed/compared representation contains a token.Position by value -- is listed in pos_reads, as the outermost ` +
	`such expression, with the class that its syntactic context justifies; anything not positively recognised is class "other". ` +
	`(2) every comparison (==, !=, <, <=, >, >=, switch, map lookup, strings.HasPrefix/HasSuffix/Contains/Index/EqualFold/..., ` +
	`unicode.IsUpper/IsLower, call into a non-covered package of the module) whose operand is a raw token value ` +
	`(lexer.Item.Value, or a local/parameter/result of type string, byte, rune or slice/array/map of these that may receive one, by a ` +
	`flow-insensitive taint that is closed under assignment, concatenation, slicing, indexing, conversion, append, strings/bytes/fmt ` +
	`functions, strings.Builder writes, calls and returns of covered functions) is listed in value_compares with its string constants; ` +
	`it is "case-insensitive" only if every tainted operand passed through strings.ToUpper/ToLower/ToTitle (or unicode/bytes ` +
	`equivalents) or the comparison is strings.EqualFold, else "case-sensitive". ` +
	`(3) every read of lexer.Item.Quoted is listed in quoted_reads. ` +
	`(4) every read of ast.Literal.SpacedCommas / SpacedBrackets is listed in spaced_flag_reads. ` +
	`NOT covered (assumptions): package reflect beyond reflect.ValueOf(x).Kind()/IsNil()/IsValid() and package unsafe are reported ` +
	`as class "other" rather than analysed; raw token values stored into struct fields (AST nodes) and read back are not tracked ` +
	`(the spelling kept in the AST is the subject of another property); the dynamic type of an interface value is approximated by the ` +
	`named types of the module that implement it and, for interface-typed struct fields, by the static types of all values the ` +
	`covered code stores into that field (closed world: trees built by other code are out of scope); error values are assumed to ` +
	`carry positions only inside their message text; functions of package ast without any position-typed expression ` +
	`(e.g. (*Literal).MarshalJSON, where Position is tagged json:"-") and code outside parser, internal/explain, ast are not covered.`

func must(err error) {
	if err != nil {
		fmt.Fprintln(os.Stderr, "posreadgen:", err)
		os.Exit(2)
	}
}

func fatalf(format string, args ...interface{}) {
	fmt.Fprintf(os.Stderr, "posreadgen: "+format+"\n", args...)
	os.Exit(2)
}

func writeIfChanged(path string, data []byte) {
	old, err := os.ReadFile(path)
	if err == nil && bytes.Equal(old, data) {
		return
	}
	must(os.MkdirAll(filepath.Dir(path), 0o755))
	must(os.WriteFile(path, data, 0o644))
}

// ---------------------------------------------------------------------------------------------
// loading (same scheme as sharedgen: the packages are parsed and type-checked from the directory
// given by -repo, so a scratch copy of the repository can be analysed; the module's own imports are
// resolved inside that directory, the standard library through the source importer)

var modulePkgs = []string{"token", "lexer", "ast", "internal/explain", "parser"}

// packages whose function bodies are walked
var coveredPkgs = map[string]bool{"parser": true, "internal/explain": true, "ast": true}

type loaded struct {
	rel   string
	pkg   *types.Package
	files []*ast.File
	info  *types.Info
}

type loader struct {
	repo, module string
	tags         []string
	fset         *token.FileSet
	std          types.Importer
	cache        map[string]*loaded
}

func (l *loader) Import(path string) (*types.Package, error) { return l.ImportFrom(path, "", 0) }

func (l *loader) ImportFrom(path, dir string, mode types.ImportMode) (*types.Package, error) {
	if path == "C" {
		return nil, fmt.Errorf("cgo is not understood")
	}
	if path == l.module || strings.HasPrefix(path, l.module+"/") {
		rel := strings.TrimPrefix(strings.TrimPrefix(path, l.module), "/")
		ld, err := l.load(rel)
		if err != nil {
			return nil, err
		}
		return ld.pkg, nil
	}
	if from, ok := l.std.(types.ImporterFrom); ok {
		return from.ImportFrom(path, dir, mode)
	}
	return l.std.Import(path)
}

func (l *loader) load(rel string) (*loaded, error) {
	if ld, ok := l.cache[rel]; ok {
		if ld == nil {
			return nil, fmt.Errorf("import cycle through %s", rel)
		}
		return ld, nil
	}
	l.cache[rel] = nil
	dir := filepath.Join(l.repo, filepath.FromSlash(rel))
	ents, err := os.ReadDir(dir)
	if err != nil {
		return nil, err
	}
	ctx := build.Default
	ctx.BuildTags = l.tags
	ctx.CgoEnabled = false
	var files []*ast.File
	for _, e := range ents {
		n := e.Name()
		if e.IsDir() || !strings.HasSuffix(n, ".go") || strings.HasSuffix(n, "_test.go") {
			continue
		}
		ok, err := ctx.MatchFile(dir, n)
		if err != nil {
			return nil, err
		}
		if !ok {
			continue
		}
		f, err := parser.ParseFile(l.fset, filepath.Join(dir, n), nil, parser.ParseComments|parser.SkipObjectResolution)
		if err != nil {
			return nil, err
		}
		files = append(files, f)
	}
	if len(files) == 0 {
		return nil, fmt.Errorf("no Go files in %s", dir)
	}
	info := &types.Info{
		Types:      map[ast.Expr]types.TypeAndValue{},
		Defs:       map[*ast.Ident]types.Object{},
		Uses:       map[*ast.Ident]types.Object{},
		Selections: map[*ast.SelectorExpr]*types.Selection{},
		Implicits:  map[ast.Node]types.Object{},
		Instances:  map[*ast.Ident]types.Instance{},
	}
	var firstErr error
	conf := types.Config{Importer: l, Error: func(err error) {
		if firstErr == nil {
			firstErr = err
		}
	}}
	ipath := l.module
	if rel != "" {
		ipath += "/" + rel
	}
	pkg, _ := conf.Check(ipath, l.fset, files, info)
	if firstErr != nil {
		return nil, fmt.Errorf("type-checking %s: %v", rel, firstErr)
	}
	ld := &loaded{rel: rel, pkg: pkg, files: files, info: info}
	l.cache[rel] = ld
	return ld, nil
}

func modulePath(repo string) string {
	data, err := os.ReadFile(filepath.Join(repo, "go.mod"))
	must(err)
	for _, ln := range strings.Split(string(data), "\n") {
		ln = strings.TrimSpace(ln)
		if strings.HasPrefix(ln, "module ") {
			return strings.TrimSpace(strings.TrimPrefix(ln, "module "))
		}
	}
	fatalf("no module line in %s/go.mod", repo)
	return ""
}

// ---------------------------------------------------------------------------------------------
// text helpers

func nodeText(fset *token.FileSet, n ast.Node) string {
	var b bytes.Buffer
	cfg := printer.Config{Mode: printer.RawFormat}
	must(cfg.Fprint(&b, fset, n))
	return normText(b.String())
}

// normText collapses white space to single spaces and makes the text printable ASCII (other bytes become \xNN).
func normText(s string) string {
	s = strings.Join(strings.Fields(s), " ")
	var sb strings.Builder
	for i := 0; i < len(s); i++ {
		c := s[i]
		if c < 32 || c > 126 {
			fmt.Fprintf(&sb, "\\x%02x", c)
		} else {
			sb.WriteByte(c)
		}
	}
	return sb.String()
}

// funcName: `Recv.Method` or `Func`.
func funcName(fd *ast.FuncDecl) string {
	if fd.Recv == nil || len(fd.Recv.List) == 0 {
		return fd.Name.Name
	}
	t := fd.Recv.List[0].Type
	if s, ok := t.(*ast.StarExpr); ok {
		t = s.X
	}
	name := "?"
	switch x := t.(type) {
	case *ast.Ident:
		name = x.Name
	case *ast.IndexExpr:
		if id, ok := x.X.(*ast.Ident); ok {
			name = id.Name
		}
	case *ast.IndexListExpr:
		if id, ok := x.X.(*ast.Ident); ok {
			name = id.Name
		}
	}
	return name + "." + fd.Name.Name
}

func unparen(e ast.Expr) ast.Expr {
	for {
		p, ok := e.(*ast.ParenExpr)
		if !ok {
			return e
		}
		e = p.X
	}
}

// ---------------------------------------------------------------------------------------------
// inventory data

type PosRead struct {
	Key     string   `json:"key"`
	Class   string   `json:"class"`
	Count   int      `json:"count"`
	Kind    string   `json:"kind"`             // what kind of occurrence (position-value, int-field, offset-local, whole-value, ...)
	Reason  string   `json:"reason,omitempty"` // why this class (first occurrence)
	Context string   `json:"context,omitempty"`
	Where   []string `json:"where"`
}

type ValueCompare struct {
	Key              string   `json:"key"`
	Class            string   `json:"class"`
	Kind             string   `json:"kind"`
	Constants        []string `json:"constants"`
	ConstantsUnknown bool     `json:"constants_unknown"`
	KeywordHit       bool     `json:"keyword_hit"`
	KeywordHits      []string `json:"keyword_hits,omitempty"`
	Count            int      `json:"count"`
	Where            []string `json:"where"`
}

type SimpleRead struct {
	Key     string     `json:"key"`
	Count   int        `json:"count"`
	Where   []string   `json:"where"`
	Func    string     `json:"function,omitempty"`
	Callers [][]string `json:"callers,omitempty"` // level 1 = direct callers of the function, ... up to 4
}

type inventory struct {
	pos    map[string]*PosRead // key \x00 class
	vals   map[string]*ValueCompare
	quoted map[string]*SimpleRead
	spaced map[string]*SimpleRead
}

func addWhere(list []string, w string) []string {
	for _, x := range list {
		if x == w {
			return list
		}
	}
	return append(list, w)
}

// The two tag sets see the same files (except parser/verif_tick_*.go): a site is identified by its
// file:line:col, so it is counted once.
type siteSet map[string]bool

func (inv *inventory) addPos(seen siteSet, key, class, kind, reason, context, where, siteID string) {
	id := "pos\x00" + key + "\x00" + class + "\x00" + siteID
	if seen[id] {
		return
	}
	seen[id] = true
	k := key + "\x00" + class
	e := inv.pos[k]
	if e == nil {
		e = &PosRead{Key: key, Class: class, Kind: kind, Reason: reason, Context: context}
		inv.pos[k] = e
	}
	e.Count++
	e.Where = addWhere(e.Where, where)
}

func (inv *inventory) addVal(seen siteSet, key, class, kind string, consts []string, unknown bool, where, siteID string) {
	id := "val\x00" + key + "\x00" + class + "\x00" + siteID
	if seen[id] {
		return
	}
	seen[id] = true
	k := key + "\x00" + class
	e := inv.vals[k]
	if e == nil {
		e = &ValueCompare{Key: key, Class: class, Kind: kind, Constants: []string{}}
		inv.vals[k] = e
	}
	e.Count++
	e.Where = addWhere(e.Where, where)
	if unknown {
		e.ConstantsUnknown = true
	}
	for _, c := range consts {
		found := false
		for _, x := range e.Constants {
			if x == c {
				found = true
				break
			}
		}
		if !found {
			e.Constants = append(e.Constants, c)
		}
	}
}

func addSimple(m map[string]*SimpleRead, seen siteSet, tag, key, fn, where, siteID string) {
	id := tag + "\x00" + key + "\x00" + siteID
	if seen[id] {
		return
	}
	seen[id] = true
	e := m[key]
	if e == nil {
		e = &SimpleRead{Key: key, Func: fn}
		m[key] = e
	}
	e.Count++
	e.Where = addWhere(e.Where, where)
}

// ---------------------------------------------------------------------------------------------
// keyword spellings: the strings of token.tokens[] strictly between keyword_beg and keyword_end

func keywordSpellings(ld *loaded) []string {
	scope := ld.pkg.Scope()
	cval := func(name string) int64 {
		c, ok := scope.Lookup(name).(*types.Const)
		if !ok {
			fatalf("token.%s is not a constant: cannot compute the keyword spellings", name)
		}
		v, ok := constant.Int64Val(c.Val())
		if !ok {
			fatalf("token.%s has no integer value", name)
		}
		return v
	}
	beg, end := cval("keyword_beg"), cval("keyword_end")
	var lit *ast.CompositeLit
	for _, f := range ld.files {
		for _, d := range f.Decls {
			gd, ok := d.(*ast.GenDecl)
			if !ok || gd.Tok != token.VAR {
				continue
			}
			for _, sp := range gd.Specs {
				vs := sp.(*ast.ValueSpec)
				for i, id := range vs.Names {
					if id.Name == "tokens" && i < len(vs.Values) {
						if cl, ok := vs.Values[i].(*ast.CompositeLit); ok {
							lit = cl
						}
					}
				}
			}
		}
	}
	if lit == nil {
		fatalf("token.tokens is not a package-level variable with a composite literal: cannot compute the keyword spellings")
	}
	byIndex := map[int64]string{}
	for _, el := range lit.Elts {
		kv, ok := el.(*ast.KeyValueExpr)
		if !ok {
			fatalf("token.tokens has a positional element: not understood")
		}
		ktv, ok1 := ld.info.Types[kv.Key]
		vtv, ok2 := ld.info.Types[kv.Value]
		if !ok1 || !ok2 || ktv.Value == nil || vtv.Value == nil || vtv.Value.Kind() != constant.String {
			fatalf("token.tokens has a non-constant element: not understood")
		}
		idx, ok := constant.Int64Val(ktv.Value)
		if !ok {
			fatalf("token.tokens has a non-integer key")
		}
		byIndex[idx] = constant.StringVal(vtv.Value)
	}
	var out []string
	for i := beg + 1; i < end; i++ {
		s, ok := byIndex[i]
		if !ok || s == "" {
			fatalf("keyword token %d has no spelling in token.tokens", i)
		}
		out = append(out, s)
	}
	sort.Strings(out)
	return out
}

func asciiUpper(s string) string {
	b := []byte(s)
	for i, c := range b {
		if c >= 'a' && c <= 'z' {
			b[i] = c - 32
		}
	}
	return string(b)
}

// ---------------------------------------------------------------------------------------------
// emission

func coqStr(s string) string {
	return "\"" + strings.ReplaceAll(s, "\"", "\"\"") + "\""
}

func coqBytes(s string) string {
	var b strings.Builder
	b.WriteString("[")
	for i := 0; i < len(s); i++ {
		if i > 0 {
			b.WriteString("; ")
		}
		fmt.Fprintf(&b, "%d%%N", s[i])
	}
	b.WriteString("]")
	return b.String()
}

func emitList(b *strings.Builder, header string, lines []string) {
	b.WriteString(header)
	if len(lines) == 0 {
		b.WriteString(" [ ].\n")
		return
	}
	b.WriteString("\n  [")
	for i, ln := range lines {
		if i > 0 {
			b.WriteString(";")
		}
		b.WriteString("\n    " + ln)
	}
	b.WriteString("\n  ].\n")
}

func emitCoq(module string, pos []*PosRead, vals []*ValueCompare, quoted, spaced []*SimpleRead) string {
	var b strings.Builder
	b.WriteString("(* GENERATED by /verif/translator/cmd/posreadgen from the Go sources of " + module + " -- do not edit. *)\n")
	b.WriteString("From Coq Require Import List String NArith.\nImport ListNotations.\nLocal Open Scope string_scope.\n\n")
	b.WriteString("(* (key, class, occurrences); class is one of \"copy-into-node\" \"error-message\" \"progress-guard\" \"spaced-detection\" \"other\" *)\n")
	var lines []string
	for _, e := range pos {
		lines = append(lines, fmt.Sprintf("(%s, %s, %d%%N)", coqStr(e.Key), coqStr(e.Class), e.Count))
	}
	emitList(&b, "Definition pos_reads : list (string * string * N) :=", lines)
	b.WriteString("\n(* (key, class, constants as byte lists, occurrences); class is \"case-insensitive\" or \"case-sensitive\" *)\n")
	lines = nil
	for _, e := range vals {
		var cs []string
		for _, c := range e.Constants {
			cs = append(cs, coqBytes(c))
		}
		lines = append(lines, fmt.Sprintf("(%s, %s, [%s], %d%%N)", coqStr(e.Key), coqStr(e.Class), strings.Join(cs, "; "), e.Count))
	}
	emitList(&b, "Definition value_compares : list (string * string * list (list N) * N) :=", lines)
	b.WriteString("\n")
	lines = nil
	for _, e := range quoted {
		lines = append(lines, fmt.Sprintf("(%s, %d%%N)", coqStr(e.Key), e.Count))
	}
	emitList(&b, "Definition quoted_reads : list (string * N) :=", lines)
	b.WriteString("\n")
	lines = nil
	for _, e := range spaced {
		lines = append(lines, fmt.Sprintf("(%s, %d%%N)", coqStr(e.Key), e.Count))
	}
	emitList(&b, "Definition spaced_flag_reads : list (string * N) :=", lines)
	// convenience for reports only: the Coq checker recomputes the hit from the constants and Gen.TokenTable
	b.WriteString("\n(* keys of the \"case-sensitive\" value_compares entries one of whose constants is, ASCII case-insensitively, a keyword spelling *)\n")
	lines = nil
	for _, e := range vals {
		if e.Class == "case-sensitive" && e.KeywordHit {
			lines = append(lines, coqStr(e.Key))
		}
	}
	emitList(&b, "Definition keyword_hit_keys : list string :=", lines)
	return b.String()
}

type allowEntry struct {
	Key     string `json:"key"`
	Why     string `json:"why"`
	Example string `json:"example,omitempty"`
}

// knownFindings: sites that are PRESENT AND REPORTED, NOT justified (they are violations of the property that
// the maintainer knows about); kept apart from the allow-lists so that nothing reads them as a justification.
type knownFindings struct {
	PositionLeaks        []allowEntry `json:"position_leaks"`
	CaseSensitiveKeyword []allowEntry `json:"case_sensitive_keyword"`
}

type allowFile struct {
	Comment       string        `json:"comment"`
	Spaced        []allowEntry  `json:"spaced_detection"`
	CaseSensitive []allowEntry  `json:"case_sensitive_keyword_compares"`
	FlagReads     []allowEntry  `json:"spaced_flag_reads"`
	Known         knownFindings `json:"known_findings"`
}

func readAllow(path string) (*allowFile, bool) {
	data, err := os.ReadFile(path)
	if err != nil {
		if os.IsNotExist(err) {
			return &allowFile{}, false
		}
		must(err)
	}
	var af allowFile
	dec := json.NewDecoder(bytes.NewReader(data))
	dec.DisallowUnknownFields()
	if err := dec.Decode(&af); err != nil {
		fatalf("%s: %v", path, err)
	}
	return &af, true
}

func emitAllowed(path string, af *allowFile, present bool) string {
	var b strings.Builder
	b.WriteString("(* GENERATED by /verif/translator/cmd/posreadgen from " + path + " -- do not edit. *)\n")
	b.WriteString("From Coq Require Import List String.\nImport ListNotations.\nLocal Open Scope string_scope.\n")
	if !present {
		b.WriteString("(* the allow-list file does not exist: empty lists *)\n")
	}
	keys := func(es []allowEntry) []string {
		seen := map[string]bool{}
		var out []string
		for _, e := range es {
			k := normText(e.Key)
			if k == "" || seen[k] {
				continue
			}
			seen[k] = true
			out = append(out, coqStr(k))
		}
		sort.Strings(out)
		return out
	}
	emitList(&b, "Definition allowed_spaced : list string :=", keys(af.Spaced))
	emitList(&b, "Definition allowed_case_sensitive : list string :=", keys(af.CaseSensitive))
	emitList(&b, "Definition allowed_spaced_flag_reads : list string :=", keys(af.FlagReads))
	b.WriteString("(* KNOWN FINDINGS: present and reported, NOT justified *)\n")
	emitList(&b, "Definition known_position_leaks : list string :=", keys(af.Known.PositionLeaks))
	emitList(&b, "Definition known_case_sensitive : list string :=", keys(af.Known.CaseSensitiveKeyword))
	return b.String()
}

// ---------------------------------------------------------------------------------------------

type pkgReport struct {
	Pkg       string   `json:"pkg"`
	Files     []string `json:"files"`
	Functions int      `json:"functions_walked"`
}

type report struct {
	Tool           string                    `json:"tool"`
	SoundnessClaim string                    `json:"soundness_claim"`
	Module         string                    `json:"module"`
	Repo           string                    `json:"repo"`
	TagSets        []string                  `json:"build_tag_sets"`
	Packages       []pkgReport               `json:"packages"`
	Keywords       []string                  `json:"keyword_spellings"`
	Counts         map[string]map[string]int `json:"counts"`
	Allowed        map[string]int            `json:"allow_list_sizes"`
	NotAllowed     map[string][]string       `json:"not_in_allow_list"`
	StaleAllowed   map[string][]string       `json:"allow_list_entries_without_site"`
	PosReads       []*PosRead                `json:"pos_reads"`
	ValueCompares  []*ValueCompare           `json:"value_compares"`
	QuotedReads    []*SimpleRead             `json:"quoted_reads"`
	SpacedFlags    []*SimpleRead             `json:"spaced_flag_reads"`
}

func main() {
	repo := flag.String("repo", "/repo", "repository root (the sources are read from this directory)")
	out := flag.String("out", "/verif/coq/Gen/PosReads.v", "generated Coq inventory")
	allow := flag.String("allow", "/verif/checks/c05_allowed_sites.json", "JSON allow-list (read only)")
	allowOut := flag.String("allow-out", "/verif/coq/Gen/PosReadsAllowed.v", "Coq rendering of the allow-list")
	reportPath := flag.String("report", "/verif/build/posreadgen_report.json", "JSON report")
	propose := flag.String("propose", "", "if set: write an allow-list skeleton with today's spaced-detection sites, flag reads and case-sensitive keyword hits to this path (to be reviewed by hand)")
	flag.Parse()

	absRepo, err := filepath.Abs(*repo)
	must(err)
	module := modulePath(absRepo)
	fset := token.NewFileSet()
	std := importer.ForCompiler(fset, "source", nil)

	inv := &inventory{pos: map[string]*PosRead{}, vals: map[string]*ValueCompare{}, quoted: map[string]*SimpleRead{}, spaced: map[string]*SimpleRead{}}
	seen := siteSet{}
	var keywords []string
	pkgFiles := map[string]map[string]bool{}
	pkgFuncs := map[string]int{}
	callers := map[string]map[string]bool{} // callee "pkg|Func" -> callers
	tagSets := [][]string{nil, {"verif"}}
	var tagNames []string
	for _, tags := range tagSets {
		tagNames = append(tagNames, "{"+strings.Join(tags, ",")+"}")
		l := &loader{repo: absRepo, module: module, tags: tags, fset: fset, std: std, cache: map[string]*loaded{}}
		var lds []*loaded
		for _, rel := range modulePkgs {
			ld, err := l.load(rel)
			must(err)
			lds = append(lds, ld)
		}
		kw := keywordSpellings(l.cache["token"])
		if keywords != nil && strings.Join(kw, ",") != strings.Join(keywords, ",") {
			fatalf("the keyword table differs between build-tag sets")
		}
		keywords = kw
		a := newAnalysis(l, lds, inv, seen)
		a.run()
		for rel, n := range a.funcsWalked {
			if n > pkgFuncs[rel] {
				pkgFuncs[rel] = n
			}
		}
		for _, ld := range lds {
			if !coveredPkgs[ld.rel] {
				continue
			}
			if pkgFiles[ld.rel] == nil {
				pkgFiles[ld.rel] = map[string]bool{}
			}
			for _, f := range ld.files {
				relFile, _ := filepath.Rel(absRepo, fset.Position(f.Pos()).Filename)
				pkgFiles[ld.rel][filepath.ToSlash(relFile)] = true
			}
		}
		for callee, cs := range a.callers {
			if callers[callee] == nil {
				callers[callee] = map[string]bool{}
			}
			for c := range cs {
				callers[callee][c] = true
			}
		}
	}

	// sorted lists
	var pos []*PosRead
	for _, e := range inv.pos {
		sort.Strings(e.Where)
		pos = append(pos, e)
	}
	sort.Slice(pos, func(i, j int) bool {
		if pos[i].Key != pos[j].Key {
			return pos[i].Key < pos[j].Key
		}
		return pos[i].Class < pos[j].Class
	})
	kwSet := map[string]bool{}
	for _, k := range keywords {
		kwSet[asciiUpper(k)] = true
	}
	var vals []*ValueCompare
	for _, e := range inv.vals {
		sort.Strings(e.Where)
		sort.Strings(e.Constants)
		if e.Class == "case-sensitive" && e.ConstantsUnknown {
			// the set of strings this raw value is compared with is not known statically (map that is not a
			// package-level literal, comparison with a non-constant, foreign function): it may contain any keyword
			// spelling, so every keyword is listed as a constant (the Coq side needs no notion of "unknown")
			for _, k := range keywords {
				found := false
				for _, c := range e.Constants {
					if c == k {
						found = true
					}
				}
				if !found {
					e.Constants = append(e.Constants, k)
				}
			}
			sort.Strings(e.Constants)
		}
		for _, c := range e.Constants {
			if kwSet[asciiUpper(c)] {
				e.KeywordHit = true
				e.KeywordHits = append(e.KeywordHits, c)
			}
		}
		vals = append(vals, e)
	}
	sort.Slice(vals, func(i, j int) bool {
		if vals[i].Key != vals[j].Key {
			return vals[i].Key < vals[j].Key
		}
		return vals[i].Class < vals[j].Class
	})
	sortSimple := func(m map[string]*SimpleRead) []*SimpleRead {
		var out []*SimpleRead
		for _, e := range m {
			sort.Strings(e.Where)
			out = append(out, e)
		}
		sort.Slice(out, func(i, j int) bool { return out[i].Key < out[j].Key })
		return out
	}
	quoted := sortSimple(inv.quoted)
	spaced := sortSimple(inv.spaced)
	for _, e := range spaced {
		// caller chains: level k = functions from which the reading function is reached by k calls
		cur := map[string]bool{e.Func: true}
		visited := map[string]bool{e.Func: true}
		for lvl := 0; lvl < 4; lvl++ {
			next := map[string]bool{}
			for f := range cur {
				for c := range callers[f] {
					if !visited[c] {
						visited[c] = true
						next[c] = true
					}
				}
			}
			if len(next) == 0 {
				break
			}
			var names []string
			for n := range next {
				names = append(names, n)
			}
			sort.Strings(names)
			e.Callers = append(e.Callers, names)
			cur = next
		}
	}

	writeIfChanged(*out, []byte(emitCoq(module, pos, vals, quoted, spaced)))
	af, present := readAllow(*allow)
	writeIfChanged(*allowOut, []byte(emitAllowed(*allow, af, present)))

	// report
	rep := &report{Tool: toolVersion, SoundnessClaim: soundnessClaim, Module: module, Repo: absRepo, TagSets: tagNames,
		Keywords: keywords, Counts: map[string]map[string]int{}, Allowed: map[string]int{}, NotAllowed: map[string][]string{}, StaleAllowed: map[string][]string{},
		PosReads: pos, ValueCompares: vals, QuotedReads: quoted, SpacedFlags: spaced}
	if rep.PosReads == nil {
		rep.PosReads = []*PosRead{}
	}
	if rep.ValueCompares == nil {
		rep.ValueCompares = []*ValueCompare{}
	}
	if rep.QuotedReads == nil {
		rep.QuotedReads = []*SimpleRead{}
	}
	if rep.SpacedFlags == nil {
		rep.SpacedFlags = []*SimpleRead{}
	}
	var rels []string
	for rel := range pkgFiles {
		rels = append(rels, rel)
	}
	sort.Strings(rels)
	for _, rel := range rels {
		var fs []string
		for f := range pkgFiles[rel] {
			fs = append(fs, f)
		}
		sort.Strings(fs)
		rep.Packages = append(rep.Packages, pkgReport{Pkg: rel, Files: fs, Functions: pkgFuncs[rel]})
	}
	cnt := func(group, class string, occ int) {
		if rep.Counts[group] == nil {
			rep.Counts[group] = map[string]int{}
		}
		rep.Counts[group][class+" entries"]++
		rep.Counts[group][class+" occurrences"] += occ
	}
	rep.Counts["pos_reads"] = map[string]int{}
	for _, c := range []string{"copy-into-node", "error-message", "progress-guard", "spaced-detection", "other"} {
		rep.Counts["pos_reads"][c+" entries"] = 0
		rep.Counts["pos_reads"][c+" occurrences"] = 0
	}
	rep.Counts["value_compares"] = map[string]int{"case-insensitive entries": 0, "case-insensitive occurrences": 0,
		"case-sensitive entries": 0, "case-sensitive occurrences": 0, "case-sensitive entries with keyword hit": 0}
	for _, e := range pos {
		cnt("pos_reads", e.Class, e.Count)
	}
	for _, e := range vals {
		cnt("value_compares", e.Class, e.Count)
		if e.Class == "case-sensitive" && e.KeywordHit {
			rep.Counts["value_compares"]["case-sensitive entries with keyword hit"]++
		}
	}
	rep.Counts["quoted_reads"] = map[string]int{"entries": len(quoted)}
	rep.Counts["spaced_flag_reads"] = map[string]int{"entries": len(spaced)}
	for _, e := range quoted {
		rep.Counts["quoted_reads"]["occurrences"] += e.Count
	}
	for _, e := range spaced {
		rep.Counts["spaced_flag_reads"]["occurrences"] += e.Count
	}
	// informational cross-check against the allow-list (the Coq checker decides; this is for humans)
	allowSet := func(es []allowEntry) map[string]bool {
		m := map[string]bool{}
		for _, e := range es {
			m[normText(e.Key)] = true
		}
		return m
	}
	as, ac, afl := allowSet(af.Spaced), allowSet(af.CaseSensitive), allowSet(af.FlagReads)
	rep.Allowed["spaced_detection"], rep.Allowed["case_sensitive_keyword_compares"], rep.Allowed["spaced_flag_reads"] = len(as), len(ac), len(afl)
	rep.Allowed["known_findings.position_leaks"], rep.Allowed["known_findings.case_sensitive_keyword"] = len(allowSet(af.Known.PositionLeaks)), len(allowSet(af.Known.CaseSensitiveKeyword))
	usedS, usedC, usedF := map[string]bool{}, map[string]bool{}, map[string]bool{}
	rep.NotAllowed["spaced_detection"], rep.NotAllowed["case_sensitive_keyword_compares"], rep.NotAllowed["spaced_flag_reads"], rep.NotAllowed["other"] = []string{}, []string{}, []string{}, []string{}
	for _, e := range pos {
		switch e.Class {
		case "spaced-detection":
			if as[e.Key] {
				usedS[e.Key] = true
			} else {
				rep.NotAllowed["spaced_detection"] = append(rep.NotAllowed["spaced_detection"], e.Key)
			}
		case "other":
			rep.NotAllowed["other"] = append(rep.NotAllowed["other"], e.Key)
		}
	}
	for _, e := range vals {
		if e.Class == "case-sensitive" && e.KeywordHit {
			if ac[e.Key] {
				usedC[e.Key] = true
			} else {
				rep.NotAllowed["case_sensitive_keyword_compares"] = append(rep.NotAllowed["case_sensitive_keyword_compares"], e.Key)
			}
		} else if ac[e.Key] {
			usedC[e.Key] = true
		}
	}
	for _, e := range spaced {
		if afl[e.Key] {
			usedF[e.Key] = true
		} else {
			rep.NotAllowed["spaced_flag_reads"] = append(rep.NotAllowed["spaced_flag_reads"], e.Key)
		}
	}
	stale := func(all, used map[string]bool) []string {
		out := []string{}
		for k := range all {
			if !used[k] {
				out = append(out, k)
			}
		}
		sort.Strings(out)
		return out
	}
	rep.StaleAllowed["spaced_detection"] = stale(as, usedS)
	rep.StaleAllowed["case_sensitive_keyword_compares"] = stale(ac, usedC)
	rep.StaleAllowed["spaced_flag_reads"] = stale(afl, usedF)

	data, err := json.MarshalIndent(rep, "", " ")
	must(err)
	writeIfChanged(*reportPath, append(data, '\n'))

	if *propose != "" {
		p := allowFile{Comment: "PROPOSAL written by posreadgen -propose: review every entry and write the reason by hand",
			Spaced: []allowEntry{}, CaseSensitive: []allowEntry{}, FlagReads: []allowEntry{}}
		for _, e := range pos {
			if e.Class == "spaced-detection" {
				p.Spaced = append(p.Spaced, allowEntry{Key: e.Key, Why: "TODO " + strings.Join(e.Where, " ")})
			}
		}
		for _, e := range vals {
			if e.Class == "case-sensitive" && e.KeywordHit {
				p.CaseSensitive = append(p.CaseSensitive, allowEntry{Key: e.Key, Why: "TODO " + strings.Join(e.Where, " ") + " constants " + strings.Join(e.KeywordHits, ",")})
			}
		}
		for _, e := range spaced {
			p.FlagReads = append(p.FlagReads, allowEntry{Key: e.Key, Why: "TODO " + strings.Join(e.Where, " ")})
		}
		pd, err := json.MarshalIndent(p, "", " ")
		must(err)
		writeIfChanged(*propose, append(pd, '\n'))
	}

	pc := rep.Counts["pos_reads"]
	vc := rep.Counts["value_compares"]
	fmt.Printf("posreadgen: pos_reads copy-into-node=%d error-message=%d progress-guard=%d spaced-detection=%d other=%d; value_compares case-insensitive=%d case-sensitive=%d (keyword hits %d); quoted_reads=%d spaced_flag_reads=%d\n",
		pc["copy-into-node entries"], pc["error-message entries"], pc["progress-guard entries"], pc["spaced-detection entries"], pc["other entries"],
		vc["case-insensitive entries"], vc["case-sensitive entries"], vc["case-sensitive entries with keyword hit"], len(quoted), len(spaced))
}
