package main

import (
	"fmt"
	"go/ast"
	"go/token"
	"go/types"
	"path/filepath"
	"strings"
)

// storeRec: one value the covered code stores into an interface-typed struct field.
type storeRec struct {
	t    types.Type
	e    ast.Expr
	info *types.Info
}

// unit: one walked function (a FuncDecl, or a package-level variable initialiser as a pseudo-function).
type unit struct {
	ld   *loaded
	name string        // Recv.Method | Func | <init NAME>
	decl *ast.FuncDecl // nil for initialisers
	body ast.Node
	fn   *types.Func // nil for initialisers
}

type analysis struct {
	l     *loader
	lds   []*loaded
	byPkg map[*types.Package]*loaded
	inv   *inventory
	seen  siteSet

	posType                        *types.Named // token.Position
	itemType                       *types.Named // lexer.Item
	posField                       map[*types.Var]bool
	litSpaced                      map[*types.Var]bool // ast.Literal.SpacedCommas / SpacedBrackets
	itemValue, itemQuoted, itemPos *types.Var

	units       []*unit
	unitOf      map[*types.Func]*unit
	funcsWalked map[string]int
	callers     map[string]map[string]bool

	namedTypes   []*types.Named // all package-level named types of the module packages
	implCache    map[*types.Interface][]types.Type
	visCache     map[string]bool
	fieldStores  map[*types.Var][]storeRec // values stored into an interface-typed struct field
	fieldUnknown map[*types.Var]bool       // field address taken / stored by a construct not understood

	// values.go
	vt *valueTaint
}

func newAnalysis(l *loader, lds []*loaded, inv *inventory, seen siteSet) *analysis {
	a := &analysis{l: l, lds: lds, inv: inv, seen: seen, byPkg: map[*types.Package]*loaded{},
		posField: map[*types.Var]bool{}, litSpaced: map[*types.Var]bool{}, unitOf: map[*types.Func]*unit{},
		funcsWalked: map[string]int{}, callers: map[string]map[string]bool{}, implCache: map[*types.Interface][]types.Type{},
		visCache: map[string]bool{}, fieldStores: map[*types.Var][]storeRec{}, fieldUnknown: map[*types.Var]bool{}}
	for _, ld := range lds {
		a.byPkg[ld.pkg] = ld
	}
	named := func(rel, name string) *types.Named {
		ld := l.cache[rel]
		if ld == nil {
			fatalf("package %s not loaded", rel)
		}
		tn, ok := ld.pkg.Scope().Lookup(name).(*types.TypeName)
		if !ok {
			fatalf("%s.%s is not a type: the inventory cannot be computed", rel, name)
		}
		n, ok := tn.Type().(*types.Named)
		if !ok {
			fatalf("%s.%s is not a named type", rel, name)
		}
		return n
	}
	a.posType = named("token", "Position")
	a.itemType = named("lexer", "Item")
	ps, ok := a.posType.Underlying().(*types.Struct)
	if !ok {
		fatalf("token.Position is not a struct")
	}
	for i := 0; i < ps.NumFields(); i++ {
		f := ps.Field(i)
		if b, ok := f.Type().Underlying().(*types.Basic); !ok || b.Info()&types.IsInteger == 0 {
			fatalf("token.Position.%s is not an integer field: not understood", f.Name())
		}
		a.posField[f] = true
	}
	is, ok := a.itemType.Underlying().(*types.Struct)
	if !ok {
		fatalf("lexer.Item is not a struct")
	}
	for i := 0; i < is.NumFields(); i++ {
		f := is.Field(i)
		switch f.Name() {
		case "Value":
			a.itemValue = f
		case "Quoted":
			a.itemQuoted = f
		case "Pos":
			a.itemPos = f
		}
	}
	if a.itemValue == nil || a.itemQuoted == nil || a.itemPos == nil || !types.Identical(a.itemPos.Type(), a.posType) {
		fatalf("lexer.Item does not have the fields Value, Quoted, Pos token.Position: not understood")
	}
	lit := named("ast", "Literal")
	ls, ok := lit.Underlying().(*types.Struct)
	if !ok {
		fatalf("ast.Literal is not a struct")
	}
	for i := 0; i < ls.NumFields(); i++ {
		f := ls.Field(i)
		if f.Name() == "SpacedCommas" || f.Name() == "SpacedBrackets" {
			a.litSpaced[f] = true
		}
	}
	// (a tree without the Spaced* fields simply has no reads of them)
	for _, ld := range lds {
		sc := ld.pkg.Scope()
		for _, n := range sc.Names() {
			if tn, ok := sc.Lookup(n).(*types.TypeName); ok && !tn.IsAlias() {
				if nt, ok := tn.Type().(*types.Named); ok {
					if nt.TypeParams().Len() > 0 {
						if coveredPkgs[ld.rel] {
							fatalf("generic type %s.%s: type parameters are not understood", ld.rel, n)
						}
						continue
					}
					a.namedTypes = append(a.namedTypes, nt)
				}
			}
		}
	}
	return a
}

// ---------------------------------------------------------------------------------------------
// type predicates

func deref(t types.Type) types.Type {
	if p, ok := t.Underlying().(*types.Pointer); ok {
		return p.Elem()
	}
	return t
}

func (a *analysis) isPos(t types.Type) bool { return t != nil && types.Identical(t, a.posType) }
func (a *analysis) isPosPtr(t types.Type) bool {
	p, ok := t.(*types.Pointer)
	return ok && a.isPos(p.Elem())
}
func (a *analysis) isPosLike(t types.Type) bool { return t != nil && (a.isPos(t) || a.isPosPtr(t)) }
func (a *analysis) isItem(t types.Type) bool    { return t != nil && types.Identical(t, a.itemType) }
func (a *analysis) isItemLike(t types.Type) bool {
	return t != nil && (a.isItem(t) || a.isItem(deref(t)))
}

func isErrorType(t types.Type) bool {
	return t != nil && types.Identical(t, types.Universe.Lookup("error").Type())
}

func isInterface(t types.Type) bool {
	if t == nil {
		return false
	}
	_, ok := t.Underlying().(*types.Interface)
	return ok
}

// byValuePos: a value of type t contains a token.Position without an indirection (so ==, use as a map key
// or conversion to an interface carries the position along).
func (a *analysis) byValuePos(t types.Type, seen map[types.Type]bool) bool {
	if t == nil {
		return false
	}
	if a.isPos(t) {
		return true
	}
	if seen == nil {
		seen = map[types.Type]bool{}
	}
	if seen[t] {
		return false
	}
	seen[t] = true
	switch u := t.Underlying().(type) {
	case *types.Struct:
		for i := 0; i < u.NumFields(); i++ {
			if a.byValuePos(u.Field(i).Type(), seen) {
				return true
			}
		}
	case *types.Array:
		return a.byValuePos(u.Elem(), seen)
	}
	return false
}

// implementers: the named types T / *T of the module packages whose method set satisfies the interface.
func (a *analysis) implementers(it *types.Interface) []types.Type {
	if r, ok := a.implCache[it]; ok {
		return r
	}
	var out []types.Type
	for _, nt := range a.namedTypes {
		if isInterface(nt) {
			continue
		}
		if types.Implements(nt, it) {
			out = append(out, nt)
		}
		pt := types.NewPointer(nt)
		if types.Implements(pt, it) {
			out = append(out, pt)
		}
	}
	a.implCache[it] = out
	return out
}

// fmtVisible: can formatting a value of static type t with package fmt (any verb except %T and %p) show a
// token.Position?  fmt follows a pointer only at depth 0 (prints &{...}); below that a pointer prints as an
// address.  Interfaces are transparent: their dynamic type is approximated by implementers(); the empty
// interface is unknown (true) unless the caller resolved it (field-store rule, type-switch rule).
func (a *analysis) fmtVisible(t types.Type, depth int, seen map[string]bool) bool {
	if t == nil {
		return true
	}
	if a.isPos(t) {
		return true
	}
	if isErrorType(t) {
		return false
	}
	key := fmt.Sprintf("%d|%s", min(depth, 1), types.TypeString(t, nil))
	if seen == nil {
		seen = map[string]bool{}
	}
	if seen[key] {
		return false
	}
	seen[key] = true
	switch u := t.Underlying().(type) {
	case *types.Basic:
		return u.Kind() == types.UnsafePointer && false
	case *types.Pointer:
		if depth > 0 {
			return false
		}
		switch u.Elem().Underlying().(type) {
		case *types.Struct, *types.Array, *types.Slice, *types.Map:
			return a.fmtVisible(u.Elem(), depth+1, seen)
		}
		return false
	case *types.Struct:
		for i := 0; i < u.NumFields(); i++ {
			if a.fmtVisible(u.Field(i).Type(), depth+1, seen) {
				return true
			}
		}
		return false
	case *types.Array:
		return a.fmtVisible(u.Elem(), depth+1, seen)
	case *types.Slice:
		return a.fmtVisible(u.Elem(), depth+1, seen)
	case *types.Map:
		return a.fmtVisible(u.Key(), depth+1, seen) || a.fmtVisible(u.Elem(), depth+1, seen)
	case *types.Interface:
		if u.NumMethods() == 0 {
			return true
		}
		for _, impl := range a.implementers(u) {
			if a.fmtVisible(impl, depth, seen) {
				return true
			}
		}
		return false
	case *types.Signature, *types.Chan:
		return false
	}
	return true
}

// ---------------------------------------------------------------------------------------------
// positions in the source

func (a *analysis) where(n ast.Node) string {
	pos := a.l.fset.Position(n.Pos())
	relFile, _ := filepath.Rel(a.l.repo, pos.Filename)
	return fmt.Sprintf("%s:%d", filepath.ToSlash(relFile), pos.Line)
}

func (a *analysis) siteID(n ast.Node) string {
	pos := a.l.fset.Position(n.Pos())
	relFile, _ := filepath.Rel(a.l.repo, pos.Filename)
	return fmt.Sprintf("%s:%d:%d", filepath.ToSlash(relFile), pos.Line, pos.Column)
}

func (a *analysis) text(n ast.Node) string { return nodeText(a.l.fset, n) }

func (a *analysis) key(u *unit, text string) string { return u.ld.rel + "|" + u.name + "|" + text }

// ---------------------------------------------------------------------------------------------
// units and call graph

// mentionsPos: the function has some expression (or parameter/result) of a position-carrying type.
func (a *analysis) mentionsPos(ld *loaded, fd *ast.FuncDecl) bool {
	found := false
	ast.Inspect(fd, func(n ast.Node) bool {
		if found {
			return false
		}
		if e, ok := n.(ast.Expr); ok {
			if tv, ok := ld.info.Types[e]; ok && tv.Type != nil {
				if a.isPosLike(tv.Type) || a.isItemLike(tv.Type) {
					found = true
				}
			}
		}
		return true
	})
	return found
}

func (a *analysis) collectUnits() {
	for _, ld := range a.lds {
		for _, f := range ld.files {
			for _, imp := range f.Imports {
				p := strings.Trim(imp.Path.Value, "\"")
				if p == "C" {
					fatalf("%s imports C: cgo is not understood", a.where(imp))
				}
			}
			for _, cg := range f.Comments {
				for _, c := range cg.List {
					if coveredPkgs[ld.rel] && strings.HasPrefix(c.Text, "//go:linkname") {
						fatalf("%s: //go:linkname is not understood", a.where(c))
					}
				}
			}
			for _, d := range f.Decls {
				switch x := d.(type) {
				case *ast.FuncDecl:
					if x.Type.TypeParams != nil && x.Type.TypeParams.NumFields() > 0 && coveredPkgs[ld.rel] {
						fatalf("%s: generic function %s: type parameters are not understood", a.where(x), x.Name.Name)
					}
					fn, _ := ld.info.Defs[x.Name].(*types.Func)
					covered := false
					switch {
					case ld.rel == "parser" || ld.rel == "internal/explain":
						covered = true
					case ld.rel == "ast":
						covered = a.mentionsPos(ld, x)
					default:
						// token / lexer: only methods declared on the position-carrying types themselves
						if x.Recv != nil && len(x.Recv.List) == 1 {
							if tv, ok := ld.info.Types[x.Recv.List[0].Type]; ok && (a.isPosLike(tv.Type) || a.isItemLike(tv.Type)) {
								covered = true
							}
						}
					}
					if x.Body == nil {
						if covered && coveredPkgs[ld.rel] {
							fatalf("%s: function %s has no body (assembly / linkname): not understood", a.where(x), x.Name.Name)
						}
						continue
					}
					if !covered {
						continue
					}
					u := &unit{ld: ld, name: funcName(x), decl: x, body: x.Body, fn: fn}
					a.units = append(a.units, u)
					if fn != nil {
						a.unitOf[fn] = u
					}
					a.funcsWalked[ld.rel]++
				case *ast.GenDecl:
					if x.Tok != token.VAR || !coveredPkgs[ld.rel] {
						continue
					}
					for _, sp := range x.Specs {
						vs := sp.(*ast.ValueSpec)
						if len(vs.Values) == 0 {
							continue
						}
						u := &unit{ld: ld, name: "<init " + vs.Names[0].Name + ">", body: vs}
						a.units = append(a.units, u)
					}
				}
			}
		}
	}
}

// calleeFunc: the statically known function or method a call invokes (nil for func values, conversions, builtins).
func calleeFunc(info *types.Info, ce *ast.CallExpr) *types.Func {
	switch f := unparen(ce.Fun).(type) {
	case *ast.Ident:
		fn, _ := info.Uses[f].(*types.Func)
		return fn
	case *ast.SelectorExpr:
		fn, _ := info.Uses[f.Sel].(*types.Func)
		return fn
	}
	return nil
}

func (a *analysis) qualFunc(fn *types.Func) string {
	ld := a.byPkg[fn.Pkg()]
	rel := ""
	if ld != nil {
		rel = ld.rel
	} else if fn.Pkg() != nil {
		rel = fn.Pkg().Path()
	}
	name := fn.Name()
	if sig, ok := fn.Type().(*types.Signature); ok && sig.Recv() != nil {
		t := deref(sig.Recv().Type())
		if nt, ok := t.(*types.Named); ok {
			name = nt.Obj().Name() + "." + name
		}
	}
	return rel + "|" + name
}

func (a *analysis) collectCallGraph() {
	for _, u := range a.units {
		caller := u.ld.rel + "|" + u.name
		ast.Inspect(u.body, func(n ast.Node) bool {
			// any reference to a function of the module (call or function value) counts as an edge
			var id *ast.Ident
			switch x := n.(type) {
			case *ast.Ident:
				id = x
			default:
				return true
			}
			fn, ok := u.ld.info.Uses[id].(*types.Func)
			if !ok || fn.Pkg() == nil || a.byPkg[fn.Pkg()] == nil {
				return true
			}
			callee := a.qualFunc(fn)
			if a.callers[callee] == nil {
				a.callers[callee] = map[string]bool{}
			}
			a.callers[callee][caller] = true
			return true
		})
	}
}

func (a *analysis) isCoveredFunc(fn *types.Func) bool {
	if fn == nil || fn.Pkg() == nil {
		return false
	}
	ld := a.byPkg[fn.Pkg()]
	if ld == nil {
		return false
	}
	if ld.rel == "parser" || ld.rel == "internal/explain" {
		return true
	}
	if _, ok := a.unitOf[fn]; ok {
		return true
	}
	// interface methods of package ast (Node.Pos / Node.End): every implementation in ast that mentions a
	// position is covered, and an implementation elsewhere would be in a covered package
	if ld.rel == "ast" {
		if sig, ok := fn.Type().(*types.Signature); ok && sig.Recv() != nil && isInterface(sig.Recv().Type()) {
			return true
		}
	}
	return false
}

func (a *analysis) run() {
	a.collectUnits()
	a.collectCallGraph()
	a.collectFieldStores()
	for _, u := range a.units {
		a.posReadsOfUnit(u)
	}
	a.valueCompares()
}
