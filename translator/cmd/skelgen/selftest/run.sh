#!/bin/bash
# Self-test of the skelgen translator on a synthetic parser package (synth_parser.go.txt):
# every function ok* must be certified, every function bad* must be reported under "blocking"
# (each bad* contains a loop or recursion that can spin without consuming a token and exercises one
# translation rule: continue, labelled continue, fallthrough, backward goto, short-circuit operators in
# value position, composite literals, type switch, once-through elision of tick-free loops, the
# progress-guard idiom used wrongly, jump threading across an assignment, callee preconditions, ...).
# Usage: run.sh [skelgen binary]      exit 0 = as expected
set -eu
here=$(cd "$(dirname "$0")" && pwd)
bin=${1:-/verif/build/skelgen}
tmp=$(mktemp -d /tmp/skelgen-selftest.XXXXXX)
trap 'rm -rf "$tmp"' EXIT
mkdir -p "$tmp/repo/parser"
cp /repo/go.mod "$tmp/repo/"; [ -f /repo/go.sum ] && cp /repo/go.sum "$tmp/repo/"
cp -r /repo/token /repo/lexer /repo/ast "$tmp/repo/"
cp /repo/parser/verif_tick_off.go /repo/parser/verif_tick_on.go "$tmp/repo/parser/"
cp "$here/synth_parser.go.txt" "$tmp/repo/parser/parser.go"
"$bin" -repo "$tmp/repo" -out "$tmp/out" -report "$tmp/out/report.json" 2>"$tmp/err" || { cat "$tmp/err"; exit 2; }
python3 - "$tmp/out/report.json" <<'PY'
import json,sys
r=json.load(open(sys.argv[1]))
bad=set()
for f in r['blocking']:
    bad.add(f['function'])
    for v in f['variants']: bad.add(v.split('@')[0])
names=[f['name'] for f in r['per_function']]
exp={n for n in names if n.startswith('bad')}
ok={n for n in names if n.startswith('ok')}
print("functions: %d ok*, %d bad*; problems: %s" % (len(ok),len(exp),r['problems']))
a=sorted(exp-bad); b=sorted(bad-exp)
print("unexpectedly certified:",a); print("unexpectedly blocked:",b)
sys.exit(1 if a or b or r['problems'] else 0)
PY
