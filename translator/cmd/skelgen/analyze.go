package main

import (
	"fmt"
	"go/ast"
	"go/token"
	"sort"
)

// A variant is a function analysed under a precondition on the current token.
//
// Certificate per node: a (steps since entry, valid while no token was consumed since entry,
// together with the fact fa about the entry token), b (steps since the last certain consumption,
// valid once a token was consumed, with the fact fb about the current token), c (steps since the
// consumption that made the progress snapshot differ).
type variant struct {
	fn      *fnInfo
	g       *cfg
	pre     fact
	key     string
	id      int
	fa, fb  []fact
	callV   []*variant
	cDef    []bool
	A, B, C []int64
	Ldef    bool
	L, T, E int64
	sig     string
}

func (v *variant) aDef(i int) bool { return !v.fa[i].isEmpty() }
func (v *variant) bDef(i int) bool { return !v.fb[i].isEmpty() }
func (v *variant) live(i int) bool { return v.aDef(i) || v.bDef(i) }

type failure struct {
	Function  string   `json:"function"`
	Variants  []string `json:"variants"`
	Kind      string   `json:"kind"` // "loop" | "call-chain"
	Component string   `json:"component"`
	Loop      string   `json:"loop,omitempty"` // position of the enclosing for statement
	Cycle     []string `json:"cycle"`
	Calls     []string `json:"calls_in_cycle,omitempty"`
}

type analysis struct {
	pk         *pkgInfo
	cfgs       map[*fnInfo]*cfg
	mayConsume map[*fnInfo]bool
	variants   map[string]*variant
	order      []*variant
	failures   []failure
	failKeys   map[string]int
	Bglob      int64
	maxSet     int
	main       *variant
	created    bool
}

func popcount(s tokset) int {
	c := 0
	for i := 0; i < s.BitLen(); i++ {
		if s.Bit(i) == 1 {
			c++
		}
	}
	return c
}

func (a *analysis) notEOF() fact    { return fact{true, setOf(a.pk.eofVal)} }
func (a *analysis) onlyEOF() tokset { return setOf(a.pk.eofVal) }

// strongest precondition a call site with fact f uses
func (a *analysis) preFor(f fact) fact {
	if f.isEmpty() {
		return factAny()
	}
	if !f.neg && popcount(f.set) <= a.maxSet {
		return f
	}
	if !f.has(a.pk.eofVal) {
		return a.notEOF()
	}
	return factAny()
}

func vkey(fn *fnInfo, pre fact) string { return fn.name + "@" + pre.key() }

func (a *analysis) getVariant(fn *fnInfo, pre fact) *variant {
	k := vkey(fn, pre)
	if v, ok := a.variants[k]; ok {
		return v
	}
	g := a.cfgs[fn]
	n := len(g.nodes)
	v := &variant{fn: fn, g: g, pre: pre, key: k, fa: make([]fact, n), fb: make([]fact, n), callV: make([]*variant, n)}
	for i := 0; i < n; i++ {
		v.fa[i], v.fb[i] = factNone(), factNone()
	}
	a.variants[k] = v
	a.created = true
	return v
}

type edge struct {
	to   *node
	kind int
	test int // 0: none, 1: intersect with set, 2: minus set
	set  tokset
}

const (
	ePlain = iota
	eNext
	eCall
	eSnap
	eDiff
)

func (e edge) refine(f fact) fact {
	switch e.test {
	case 1:
		return f.inter(e.set)
	case 2:
		return f.minus(e.set)
	}
	return f
}

func (a *analysis) edges(n *node) []edge {
	switch n.kind {
	case kTick:
		return []edge{{to: n.s1, kind: ePlain}}
	case kAssume:
		return []edge{{to: n.s1, kind: eDiff}}
	case kUnknown:
		return []edge{{to: n.s1, kind: ePlain}, {to: n.s2, kind: ePlain}}
	case kPeekNE:
		return []edge{{to: n.s1, kind: ePlain, test: 2, set: a.onlyEOF()}, {to: n.s2, kind: ePlain}}
	case kTestCur:
		return []edge{{to: n.s1, kind: ePlain, test: 1, set: n.set}, {to: n.s2, kind: ePlain, test: 2, set: n.set}}
	case kNext:
		return []edge{{to: n.s1, kind: eNext}}
	case kCall:
		return []edge{{to: n.s1, kind: eCall}}
	case kSnap:
		return []edge{{to: n.s1, kind: eSnap}}
	case kTestProg:
		return []edge{{to: n.s1, kind: ePlain}, {to: n.s2, kind: eDiff}}
	}
	return nil
}

// computeFacts recomputes fa, fb, callV and Ldef of v from the current Ldef of the callees.
func (a *analysis) computeFacts(v *variant) {
	n := len(v.g.nodes)
	fa := make([]fact, n)
	fb := make([]fact, n)
	for i := 0; i < n; i++ {
		fa[i], fb[i] = factNone(), factNone()
	}
	fa[0] = v.pre
	work := []int{0}
	inWork := make([]bool, n)
	inWork[0] = true
	add := func(arr []fact, t int, f fact) {
		if f.isEmpty() {
			return
		}
		nf := arr[t].union(f)
		if !nf.equal(arr[t]) {
			arr[t] = nf
			if !inWork[t] {
				inWork[t] = true
				work = append(work, t)
			}
		}
	}
	eofOnly := a.onlyEOF()
	for len(work) > 0 {
		i := work[0]
		work = work[1:]
		inWork[i] = false
		nd := v.g.nodes[i]
		for _, e := range a.edges(nd) {
			t := e.to.id
			switch e.kind {
			case ePlain, eSnap:
				add(fa, t, e.refine(fa[i]))
				add(fb, t, e.refine(fb[i]))
			case eDiff:
				add(fb, t, fb[i])
			case eNext:
				add(fa, t, fa[i].inter(eofOnly)) // still nothing consumed: the token list is empty
				add(fb, t, factAny())
			case eCall:
				u := a.getVariant(nd.callee, a.preFor(fa[i].union(fb[i])))
				if u.Ldef {
					add(fa, t, fa[i])
					add(fb, t, fb[i])
				}
				if a.mayConsume[nd.callee] {
					add(fb, t, factAny())
				}
			}
		}
	}
	v.fa, v.fb = fa, fb
	for i, nd := range v.g.nodes {
		v.callV[i] = nil
		if nd.kind == kCall && v.live(i) {
			v.callV[i] = a.getVariant(nd.callee, a.preFor(fa[i].union(fb[i])))
		}
		if nd.kind == kRet && v.aDef(i) {
			v.Ldef = true
		}
	}
}

func (v *variant) signature() string {
	var sb []byte
	for i := range v.fa {
		sb = append(sb, v.fa[i].key()...)
		sb = append(sb, '|')
		sb = append(sb, v.fb[i].key()...)
		sb = append(sb, ';')
		if v.callV[i] != nil {
			sb = append(sb, v.callV[i].key...)
		}
	}
	if v.Ldef {
		sb = append(sb, 'L')
	}
	return string(sb)
}

// explore: global fixpoint over all variants reachable from ParseStatements@any
func (a *analysis) explore() {
	a.variants = map[string]*variant{}
	mainFn := a.pk.funcs["ParseStatements"]
	if mainFn == nil || !mainFn.relevant {
		must(fmt.Errorf("entry function ParseStatements not found"))
	}
	a.main = a.getVariant(mainFn, factAny())
	for round := 0; ; round++ {
		if round > 200 {
			must(fmt.Errorf("fact analysis does not converge"))
		}
		var keys []string
		for k := range a.variants {
			keys = append(keys, k)
		}
		sort.Strings(keys)
		changed := false
		a.created = false
		for _, k := range keys {
			v := a.variants[k]
			a.computeFacts(v)
			if s := v.signature(); s != v.sig {
				v.sig = s
				changed = true
			}
		}
		if !changed && !a.created {
			break
		}
	}
	// keep what is reachable from main
	reach := map[*variant]bool{a.main: true}
	q := []*variant{a.main}
	for len(q) > 0 {
		v := q[0]
		q = q[1:]
		for _, u := range v.callV {
			if u != nil && !reach[u] {
				reach[u] = true
				q = append(q, u)
			}
		}
	}
	a.order = a.order[:0]
	var keys []string
	for k, v := range a.variants {
		if reach[v] {
			keys = append(keys, k)
		}
	}
	sort.Strings(keys)
	a.order = append(a.order, a.main)
	for _, k := range keys {
		if a.variants[k] != a.main {
			a.order = append(a.order, a.variants[k])
		}
	}
	for i, v := range a.order {
		v.id = i
	}
}

func (a *analysis) certain(f fact) bool { return !f.has(a.pk.eofVal) }

// ---- longest paths with cycle detection ----

type cedge struct {
	to int
	w  int64
}

// solveLP: val[i] >= init[i] (init<0: no own lower bound), val[to] >= val[from]+w for active
// from (val defined). Returns values (-1 = undefined) and the cyclic SCCs (each as vertex list).
func solveLP(n int, adj [][]cedge, init []int64) ([]int64, [][]int) {
	// Tarjan SCC
	index := make([]int, n)
	low := make([]int, n)
	comp := make([]int, n)
	on := make([]bool, n)
	for i := range index {
		index[i] = -1
		comp[i] = -1
	}
	var st []int
	idx, ncomp := 0, 0
	type fr struct{ v, ei int }
	for s := 0; s < n; s++ {
		if index[s] >= 0 {
			continue
		}
		cs := []fr{{s, 0}}
		index[s], low[s] = idx, idx
		idx++
		st = append(st, s)
		on[s] = true
		for len(cs) > 0 {
			f := &cs[len(cs)-1]
			if f.ei < len(adj[f.v]) {
				w := adj[f.v][f.ei].to
				f.ei++
				if index[w] < 0 {
					index[w], low[w] = idx, idx
					idx++
					st = append(st, w)
					on[w] = true
					cs = append(cs, fr{w, 0})
				} else if on[w] && index[w] < low[f.v] {
					low[f.v] = index[w]
				}
			} else {
				v := f.v
				cs = cs[:len(cs)-1]
				if len(cs) > 0 {
					p := cs[len(cs)-1].v
					if low[v] < low[p] {
						low[p] = low[v]
					}
				}
				if low[v] == index[v] {
					for {
						w := st[len(st)-1]
						st = st[:len(st)-1]
						on[w] = false
						comp[w] = ncomp
						if w == v {
							break
						}
					}
					ncomp++
				}
			}
		}
	}
	// components are numbered in reverse topological order (sinks first)
	members := make([][]int, ncomp)
	for v := 0; v < n; v++ {
		members[comp[v]] = append(members[comp[v]], v)
	}
	val := make([]int64, n)
	for i := range val {
		val[i] = init[i]
	}
	var cyc [][]int
	for c := ncomp - 1; c >= 0; c-- {
		ms := members[c]
		cyclic := len(ms) > 1
		if !cyclic {
			for _, e := range adj[ms[0]] {
				if e.to == ms[0] {
					cyclic = true
				}
			}
		}
		if cyclic {
			// only a problem if some member is defined
			def := false
			for _, m := range ms {
				if val[m] >= 0 {
					def = true
				}
			}
			if def {
				cyc = append(cyc, ms)
				// inside the component: one relaxation sweep in vertex order (edges that close
				// cycles stay violated and make the checker fail there)
				for _, m := range ms {
					if val[m] < 0 {
						continue
					}
					for _, e := range adj[m] {
						if comp[e.to] == c && e.to > m && val[m]+e.w > val[e.to] {
							val[e.to] = val[m] + e.w
						}
					}
				}
			}
		}
		for _, m := range ms {
			if val[m] < 0 {
				continue
			}
			for _, e := range adj[m] {
				if comp[e.to] != c && val[m]+e.w > val[e.to] {
					val[e.to] = val[m] + e.w
				}
			}
		}
	}
	return val, cyc
}

// simple cycle inside an SCC (vertex list), for reporting
func cycleIn(ms []int, adj [][]cedge) []int {
	in := map[int]bool{}
	for _, m := range ms {
		in[m] = true
	}
	start := ms[0]
	for _, m := range ms {
		if m < start {
			start = m
		}
	}
	// BFS from start back to start
	prev := map[int]int{}
	q := []int{start}
	for len(q) > 0 {
		x := q[0]
		q = q[1:]
		for _, e := range adj[x] {
			if !in[e.to] {
				continue
			}
			if e.to == start {
				path := []int{x}
				for x != start {
					x = prev[x]
					path = append(path, x)
				}
				for i, j := 0, len(path)-1; i < j; i, j = i+1, j-1 {
					path[i], path[j] = path[j], path[i]
				}
				return path
			}
			if _, seen := prev[e.to]; !seen && e.to != start {
				prev[e.to] = x
				q = append(q, e.to)
			}
		}
	}
	return ms
}

func max64(a, b int64) int64 {
	if a > b {
		return a
	}
	return b
}

// ---- numeric certificate ----

func (a *analysis) solve() {
	a.failKeys = map[string]int{}
	nv := len(a.order)
	// E-dependency graph between variants: call made where a is defined
	eadj := make([][]cedge, nv)
	for _, v := range a.order {
		seen := map[int]bool{}
		for _, nd := range v.g.nodes {
			if nd.kind == kCall && v.aDef(nd.id) && v.callV[nd.id] != nil && !seen[v.callV[nd.id].id] {
				seen[v.callV[nd.id].id] = true
				eadj[v.id] = append(eadj[v.id], cedge{v.callV[nd.id].id, 1})
			}
		}
		sort.Slice(eadj[v.id], func(i, j int) bool { return eadj[v.id][i].to < eadj[v.id][j].to })
	}
	init := make([]int64, nv)
	_, ecyc := solveLP(nv, eadj, init)
	for _, ms := range ecyc {
		cyc := cycleIn(ms, eadj)
		var names, calls []string
		for i, id := range cyc {
			v := a.order[id]
			names = append(names, v.key)
			nxt := a.order[cyc[(i+1)%len(cyc)]]
			for _, nd := range v.g.nodes {
				if nd.kind == kCall && v.aDef(nd.id) && v.callV[nd.id] == nxt {
					calls = append(calls, fmt.Sprintf("%s -> %s at %s", v.fn.name, nxt.fn.name, a.pk.posString(nd.pos)))
					for _, pi := range a.aPath(v, nd.id) {
						pn := v.g.nodes[pi]
						calls = append(calls, fmt.Sprintf("      via %s %s [%s]", a.pk.posString(pn.pos), kindName(pn), a.factString(v.fa[pi])))
					}
					break
				}
			}
		}
		a.failures = append(a.failures, failure{Function: a.order[cyc[0]].fn.name, Variants: names, Kind: "call-chain",
			Component: "E (calls made before any certain consumption form a cycle: left recursion)", Cycle: calls})
	}
	// order: callees before callers (post-order of the E graph; cycles broken arbitrarily)
	state := make([]int, nv)
	var post []int
	var dfs func(int)
	dfs = func(x int) {
		state[x] = 1
		for _, e := range eadj[x] {
			if state[e.to] == 0 {
				dfs(e.to)
			}
		}
		state[x] = 2
		post = append(post, x)
	}
	for i := 0; i < nv; i++ {
		if state[i] == 0 {
			dfs(i)
		}
	}
	for _, id := range post {
		a.solveA(a.order[id])
	}
	for _, id := range post {
		a.solveBC(a.order[id])
	}
	// E
	for _, id := range post {
		v := a.order[id]
		var e int64 = 1
		for _, nd := range v.g.nodes {
			if !v.aDef(nd.id) {
				continue
			}
			e = max64(e, v.A[nd.id]+1)
			if nd.kind == kCall && v.callV[nd.id] != nil {
				e = max64(e, v.callV[nd.id].E+v.A[nd.id]+1)
			}
		}
		v.E = e
	}
	// B
	var B int64 = 1
	for _, v := range a.order {
		for _, nd := range v.g.nodes {
			if !v.bDef(nd.id) {
				continue
			}
			y := v.B[nd.id]
			B = max64(B, y+1)
			if nd.kind == kCall && v.callV[nd.id] != nil {
				u := v.callV[nd.id]
				B = max64(B, u.E+y+1)
				if a.mayConsume[u.fn] {
					t := nd.s1.id
					B = max64(B, y+2+u.E+u.T-v.B[t])
					if v.cDef[t] {
						B = max64(B, y+2+u.E+u.T-v.C[t])
					}
				}
			}
		}
	}
	a.Bglob = B
}

func (a *analysis) solveA(v *variant) {
	n := len(v.g.nodes)
	adj := make([][]cedge, n)
	init := make([]int64, n)
	for i := range init {
		init[i] = -1
	}
	if v.aDef(0) {
		init[0] = 0
	}
	eofOnly := a.onlyEOF()
	for i, nd := range v.g.nodes {
		if !v.aDef(i) {
			continue
		}
		for _, e := range a.edges(nd) {
			t := e.to.id
			switch e.kind {
			case ePlain, eSnap:
				if !e.refine(v.fa[i]).isEmpty() {
					adj[i] = append(adj[i], cedge{t, 1})
				}
			case eNext:
				if !v.fa[i].inter(eofOnly).isEmpty() {
					adj[i] = append(adj[i], cedge{t, 1})
				}
			case eCall:
				if u := v.callV[i]; u != nil && u.Ldef {
					adj[i] = append(adj[i], cedge{t, 2 + u.L})
				}
			}
		}
	}
	val, cyc := solveLP(n, adj, init)
	v.A = val
	a.reportCycles(v, "a (no token certainly consumed since function entry)", cyc, adj)
	v.L = 0
	for i, nd := range v.g.nodes {
		if nd.kind == kRet && v.aDef(i) {
			v.L = max64(v.L, v.A[i])
		}
	}
}

func (a *analysis) solveBC(v *variant) {
	n := len(v.g.nodes)
	v.cDef = make([]bool, n)
	for i := range v.cDef {
		v.cDef[i] = v.g.snapDef[i] && v.live(i)
	}
	eofOnly := a.onlyEOF()
	init := make([]int64, n)
	for pass := 0; pass < 2; pass++ {
		isC := pass == 0
		adj := make([][]cedge, n)
		for i := range init {
			init[i] = -1
		}
		def := func(i int) bool {
			if isC {
				return v.cDef[i]
			}
			return v.bDef(i)
		}
		lb := func(t int, x int64) {
			if def(t) && x > init[t] {
				init[t] = x
			}
		}
		for i, nd := range v.g.nodes {
			if !v.live(i) {
				continue
			}
			for _, e := range a.edges(nd) {
				t := e.to.id
				if !def(t) {
					continue
				}
				// propagation happens only in the consumed case (b live along the edge)
				prop := func(w int64) {
					if def(i) && v.bDef(i) {
						adj[i] = append(adj[i], cedge{t, w})
					}
				}
				switch e.kind {
				case ePlain:
					if !e.refine(v.fb[i]).isEmpty() {
						prop(1)
					}
				case eSnap:
					if isC {
						lb(t, 0)
					} else {
						prop(1)
					}
				case eNext:
					lb(t, 1)
					if !v.fb[i].inter(eofOnly).isEmpty() {
						prop(1)
					}
				case eCall:
					u := v.callV[i]
					if u == nil {
						continue
					}
					if u.Ldef {
						prop(2 + u.L)
					}
					if a.mayConsume[u.fn] {
						if v.aDef(i) {
							lb(t, u.T+1)
						} else {
							lb(t, 1)
						}
					}
				case eDiff:
					if isC {
						prop(1)
					} else if v.cDef[i] && v.bDef(i) {
						lb(t, v.C[i]+1)
					}
				}
			}
		}
		val, cyc := solveLP(n, adj, init)
		if isC {
			v.C = val
			a.reportCycles(v, "c (steps since the progress snapshot)", cyc, adj)
		} else {
			v.B = val
			a.reportCycles(v, "b (steps since the last certain consumption)", cyc, adj)
		}
	}
	v.T = 0
	for i, nd := range v.g.nodes {
		if nd.kind == kRet && v.bDef(i) {
			v.T = max64(v.T, v.B[i])
		}
	}
}

func (a *analysis) reportCycles(v *variant, comp string, cyc [][]int, adj [][]cedge) {
	for _, ms := range cyc {
		c := cycleIn(ms, adj)
		var poss []token.Pos
		var strs, calls []string
		for _, id := range c {
			nd := v.g.nodes[id]
			poss = append(poss, nd.pos)
			strs = append(strs, fmt.Sprintf("%s %s", a.pk.posString(nd.pos), kindName(nd)))
			if nd.kind == kCall {
				calls = append(calls, nd.callee.name)
			}
		}
		loop := a.enclosingLoop(v.fn, poss)
		k := v.fn.name + "|" + loop
		if i, ok := a.failKeys[k]; ok {
			f := &a.failures[i]
			dup := false
			for _, x := range f.Variants {
				if x == v.key {
					dup = true
				}
			}
			if !dup {
				f.Variants = append(f.Variants, v.key)
			}
			continue
		}
		a.failKeys[k] = len(a.failures)
		a.failures = append(a.failures, failure{Function: v.fn.name, Variants: []string{v.key}, Kind: "loop",
			Component: comp, Loop: loop, Cycle: strs, Calls: calls})
	}
}

func kindName(n *node) string {
	switch n.kind {
	case kTick:
		return "tick"
	case kTestCur:
		return "test-current"
	case kUnknown:
		return "unknown-branch"
	case kNext:
		return "nextToken"
	case kCall:
		return "call " + n.callee.name
	case kRet:
		return "return"
	case kSnap:
		return "snapshot"
	case kTestProg:
		return "test-progress"
	case kAssume:
		return "assume-progress"
	case kPeekNE:
		return "peek-test"
	}
	return "?"
}

// enclosingLoop: innermost for/range statement of fn containing all given positions
// (positions outside fn, from inlined predicates, are ignored).
func (a *analysis) enclosingLoop(fn *fnInfo, poss []token.Pos) string {
	var in []token.Pos
	for _, p := range poss {
		if p >= fn.decl.Pos() && p <= fn.decl.End() {
			in = append(in, p)
		}
	}
	if len(in) == 0 {
		return ""
	}
	best := token.NoPos
	ast.Inspect(fn.decl.Body, func(n ast.Node) bool {
		switch n.(type) {
		case *ast.ForStmt, *ast.RangeStmt:
			all := true
			for _, p := range in {
				if p < n.Pos() || p > n.End() {
					all = false
				}
			}
			if all && n.Pos() > best {
				best = n.Pos()
			}
		}
		return true
	})
	if best == token.NoPos {
		return ""
	}
	return a.pk.posString(best)
}

func (a *analysis) aEdgeOK(v *variant, i int, e edge) bool {
	switch e.kind {
	case ePlain, eSnap:
		return !e.refine(v.fa[i]).isEmpty()
	case eNext:
		return !v.fa[i].inter(a.onlyEOF()).isEmpty()
	case eCall:
		return v.callV[i] != nil && v.callV[i].Ldef
	}
	return false
}

// aPath: a path from the entry to node target along which no token is certainly consumed
func (a *analysis) aPath(v *variant, target int) []int {
	prev := map[int]int{0: -1}
	q := []int{0}
	for len(q) > 0 {
		i := q[0]
		q = q[1:]
		if i == target {
			break
		}
		for _, e := range a.edges(v.g.nodes[i]) {
			if !v.aDef(e.to.id) || !a.aEdgeOK(v, i, e) {
				continue
			}
			if _, s := prev[e.to.id]; !s {
				prev[e.to.id] = i
				q = append(q, e.to.id)
			}
		}
	}
	if _, ok := prev[target]; !ok {
		return nil
	}
	var path []int
	for x := target; x >= 0; x = prev[x] {
		path = append(path, x)
	}
	for i, j := 0, len(path)-1; i < j; i, j = i+1, j-1 {
		path[i], path[j] = path[j], path[i]
	}
	return path
}

// why: print a path from entry to a return along which no token is certainly consumed
func (a *analysis) why(name string, depth int, seen map[string]bool, indent string) {
	for _, v := range a.order {
		if v.fn.name != name && v.key != name {
			continue
		}
		if seen[v.key] {
			fmt.Printf("%s%s: (see above)\n", indent, v.key)
			continue
		}
		seen[v.key] = true
		if !v.Ldef {
			fmt.Printf("%s%s [%s]: always consumes\n", indent, v.key, a.factString(v.pre))
			continue
		}
		end := -1
		for i, nd := range v.g.nodes {
			if nd.kind == kRet && v.aDef(i) {
				end = i
				break
			}
		}
		fmt.Printf("%s%s [%s]: may return without consuming via\n", indent, v.key, a.factString(v.pre))
		if end < 0 {
			continue
		}
		for _, pi := range a.aPath(v, end) {
			nd := v.g.nodes[pi]
			fmt.Printf("%s   %s %s  fa=%s\n", indent, a.pk.posString(nd.pos), kindName(nd), a.factString(v.fa[pi]))
			if nd.kind == kCall && depth > 0 && v.callV[pi] != nil {
				a.why(v.callV[pi].key, depth-1, seen, indent+"      ")
			}
		}
	}
}
