package main

import (
	"fmt"
	"go/ast"
	"go/constant"
	"go/token"
	"go/types"
	"strings"
)

type kind int

const (
	kNop     kind = iota // elidable join / placeholder (no step)
	kTick                // costs a step, one successor (a tick whose result is not branched on)
	kTestCur             // s1 = current token in set, s2 = not in set
	kUnknown             // s1 / s2 both possible
	kNext                // consume a token (no-op at EOF)
	kCall                // call callee, continue at s1
	kRet
	kSnap     // remember the number of remaining tokens
	kTestProg // s1 = no token consumed since Snap, s2 = consumed
	kAssume   // blocks unless a token was consumed since Snap (assumed_progress)
	kPeekNE   // peekIs(T), T != EOF: s1 (true) is possible only when the current token is not EOF; s2 always
)

type node struct {
	kind     kind
	s1, s2   *node
	set      tokset
	callee   *fnInfo
	gvar     *types.Var // Snap / TestProg: the guard variable
	pos      token.Pos
	loopHead token.Pos // for kNop loop heads: position of the for statement
	pure     string    // kUnknown: canonical text of a pure condition over local variables ("" otherwise)
	barrier  bool      // kNop standing for a statement without parser calls (it may write variables)
	id       int
	mark     int
}

// cfg of one function, after clean-up: nodes[0] is the entry
type cfg struct {
	fn                              *fnInfo
	nodes                           []*node
	loops                           []token.Pos // positions of translated (non-elided) loops
	elided                          []token.Pos // tick-free loops that were elided or translated once-through
	inlined                         int
	headOf                          map[*node]token.Pos
	degraded                        []token.Pos // position tests degraded to Unknown
	snapDef                         []bool      // a snapshot has been taken on every path to the node
	builtNext, builtTick, builtCall int         // call expressions visited by the builder (outside inlined bodies)
	assumedUsed                     []token.Pos
	builtLoops                      int // for/range statements visited by the builder (outside inlined bodies)
}

type loopCtx struct {
	label    string
	brk      *node
	cont     *node // nil for switch/select
	isSwitch bool
}

type builder struct {
	pk     *pkgInfo
	fn     *fnInfo // function whose graph is built (the outermost one)
	g      *cfg
	ctx    []loopCtx
	labels map[string]*node
	// inline mode
	inl      bool
	inlT     *node
	inlF     *node
	consts   map[*types.Var]int64 // parameters bound to token constants
	depth    int
	inlStack []*fnInfo
	guard    map[*types.Var]bool
	fallTo   *node
	instID   int // distinguishes the expansions of an inlined predicate (pure conditions of different expansions never match)
}

const maxInlineDepth = 4

func (b *builder) mk(k kind, pos token.Pos) *node {
	return &node{kind: k, pos: pos}
}

func (b *builder) nop(next *node) *node { return &node{kind: kNop, s1: next} }

// barrier: a statement ran here that may have written variables (no event, no step)
func (b *builder) barrier(next *node) *node { return &node{kind: kNop, s1: next, barrier: true} }

// findGuardVars: v := X.current.Pos, v never written again, address never taken
func (pk *pkgInfo) findGuardVars(fi *fnInfo) map[*types.Var]bool {
	cand := map[*types.Var]bool{}
	ast.Inspect(fi.decl.Body, func(n ast.Node) bool {
		as, ok := n.(*ast.AssignStmt)
		if !ok || as.Tok != token.DEFINE || len(as.Lhs) != 1 || len(as.Rhs) != 1 {
			return true
		}
		id, ok := as.Lhs[0].(*ast.Ident)
		if !ok || !pk.isCurField(as.Rhs[0], "Pos") {
			return true
		}
		if v, ok := pk.info.Defs[id].(*types.Var); ok {
			cand[v] = true
		}
		return true
	})
	if len(cand) == 0 {
		return cand
	}
	ast.Inspect(fi.decl.Body, func(n ast.Node) bool {
		kill := func(e ast.Expr) {
			for {
				e = ast.Unparen(e)
				switch x := e.(type) {
				case *ast.Ident:
					if v, ok := pk.info.Uses[x].(*types.Var); ok {
						delete(cand, v)
					}
					return
				case *ast.SelectorExpr:
					e = x.X
				case *ast.IndexExpr:
					e = x.X
				default:
					return
				}
			}
		}
		switch x := n.(type) {
		case *ast.AssignStmt:
			for _, l := range x.Lhs {
				if x.Tok == token.DEFINE {
					// a redefinition in the same scope shows up in Uses
					if id, ok := l.(*ast.Ident); ok {
						if v, ok := pk.info.Uses[id].(*types.Var); ok {
							delete(cand, v)
						}
					}
				} else {
					kill(l)
				}
			}
		case *ast.IncDecStmt:
			kill(x.X)
		case *ast.UnaryExpr:
			if x.Op == token.AND {
				kill(x.X)
			}
		case *ast.RangeStmt:
			if x.Tok == token.ASSIGN {
				if x.Key != nil {
					kill(x.Key)
				}
				if x.Value != nil {
					kill(x.Value)
				}
			}
		}
		return true
	})
	return cand
}

// ---- expressions ----

func (b *builder) values(es []ast.Expr, next *node) *node {
	for i := len(es) - 1; i >= 0; i-- {
		next = b.value(es[i], next)
	}
	return next
}

func (b *builder) value(e ast.Expr, next *node) *node {
	if e == nil || !b.pk.hasRelevant(e) {
		return next
	}
	switch x := e.(type) {
	case *ast.ParenExpr:
		return b.value(x.X, next)
	case *ast.BinaryExpr:
		if x.Op == token.LAND || x.Op == token.LOR {
			j := b.nop(next)
			return b.cond(x, j, j)
		}
		return b.value(x.X, b.value(x.Y, next))
	case *ast.UnaryExpr:
		return b.value(x.X, next)
	case *ast.CallExpr:
		return b.call(x, next)
	case *ast.SelectorExpr:
		return b.value(x.X, next)
	case *ast.IndexExpr:
		return b.value(x.X, b.value(x.Index, next))
	case *ast.IndexListExpr:
		return b.value(x.X, b.values(x.Indices, next))
	case *ast.SliceExpr:
		return b.value(x.X, b.value(x.Low, b.value(x.High, b.value(x.Max, next))))
	case *ast.StarExpr:
		return b.value(x.X, next)
	case *ast.TypeAssertExpr:
		return b.value(x.X, next)
	case *ast.CompositeLit:
		return b.values(x.Elts, next)
	case *ast.KeyValueExpr:
		return b.value(x.Key, b.value(x.Value, next))
	case *ast.FuncLit:
		b.pk.problem(x.Pos(), "function literal")
		return next
	default:
		b.pk.problem(e.Pos(), "expression form %T containing a parser call is not supported", e)
		return next
	}
}

func (b *builder) recvOf(call *ast.CallExpr) ast.Expr {
	if se, ok := ast.Unparen(call.Fun).(*ast.SelectorExpr); ok {
		if id, ok := se.X.(*ast.Ident); ok {
			if _, isPkg := b.pk.info.Uses[id].(*types.PkgName); isPkg {
				return nil
			}
		}
		return se.X
	}
	return nil
}

func (b *builder) call(x *ast.CallExpr, next *node) *node {
	pk := b.pk
	if tv, ok := pk.info.Types[x.Fun]; ok && tv.IsType() {
		return b.values(x.Args, next)
	}
	c := pk.calleeOf(x)
	recv := b.recvOf(x)
	if c != nil && c.relevant {
		if c.decl.Recv != nil && (recv == nil || !pk.isParserExpr(recv)) {
			pk.problem(x.Pos(), "call of %s on something that is not the parser", c.name)
		}
		var n *node
		switch c.prim {
		case "next":
			n = b.mk(kNext, x.Pos())
			n.s1 = next
		case "cur", "peek":
			n = b.mk(kTick, x.Pos())
			n.s1 = next
		default:
			n = b.mk(kCall, x.Pos())
			n.callee = c
			n.s1 = next
		}
		b.count(c)
		return b.value(recv, b.values(x.Args, n))
	}
	// not a relevant callee: only the operands matter
	var fun ast.Expr
	if c == nil {
		fun = x.Fun // dynamic call or external function: evaluate the function expression
		if se, ok := ast.Unparen(x.Fun).(*ast.SelectorExpr); ok {
			fun = recv
			_ = se
		}
	} else {
		fun = recv
	}
	return b.value(fun, b.values(x.Args, next))
}

// count: the builder has translated a call of c that is written in the function itself
func (b *builder) count(c *fnInfo) {
	if b.depth > 0 {
		return
	}
	switch c.prim {
	case "next":
		b.g.builtNext++
	case "cur", "peek":
		b.g.builtTick++
	default:
		b.g.builtCall++
	}
}

func (b *builder) tokenOf(e ast.Expr) (int64, bool) {
	if v, ok := b.pk.tokenConst(e); ok {
		return v, true
	}
	if id, ok := ast.Unparen(e).(*ast.Ident); ok && b.consts != nil {
		if v, ok := b.pk.info.Uses[id].(*types.Var); ok {
			if c, ok := b.consts[v]; ok {
				return c, true
			}
		}
	}
	return 0, false
}

func (b *builder) unknown(pos token.Pos, t, f *node, tick bool) *node {
	if t == f {
		if tick {
			n := b.mk(kTick, pos)
			n.s1 = t
			return n
		}
		return t
	}
	n := b.mk(kUnknown, pos)
	n.s1, n.s2 = t, f
	return n
}

func (b *builder) testCur(pos token.Pos, s tokset, t, f *node) *node {
	n := b.mk(kTestCur, pos)
	n.set, n.s1, n.s2 = s, t, f
	return n
}

// cond: evaluate e as a condition; go to t when true, f when false.
func (b *builder) cond(e ast.Expr, t, f *node) *node {
	pk := b.pk
	switch x := e.(type) {
	case *ast.ParenExpr:
		return b.cond(x.X, t, f)
	case *ast.UnaryExpr:
		if x.Op == token.NOT {
			return b.cond(x.X, f, t)
		}
	case *ast.Ident:
		if tv, ok := pk.info.Types[x]; ok && tv.Value != nil && tv.Value.Kind() == constant.Bool {
			if constant.BoolVal(tv.Value) {
				return t
			}
			return f
		}
	case *ast.BinaryExpr:
		switch x.Op {
		case token.LAND:
			return b.cond(x.X, b.cond(x.Y, t, f), f)
		case token.LOR:
			return b.cond(x.X, t, b.cond(x.Y, t, f))
		case token.EQL, token.NEQ:
			if x.Op == token.NEQ {
				t, f = f, t
			}
			for _, pr := range [][2]ast.Expr{{x.X, x.Y}, {x.Y, x.X}} {
				if pk.isCurField(pr[0], "Token") {
					if v, ok := b.tokenOf(pr[1]); ok {
						return b.testCur(x.Pos(), setOf(v), t, f)
					}
				}
				if pk.isPeekToken(pr[0]) {
					if v, ok := b.tokenOf(pr[1]); ok && v != pk.eofVal {
						// no tick in the real code; the step is only over-counted
						n := b.mk(kPeekNE, x.Pos())
						n.s1, n.s2 = t, f
						return n
					}
				}
				if pk.isCurField(pr[0], "Pos") {
					if id, ok := ast.Unparen(pr[1]).(*ast.Ident); ok {
						if v, ok := pk.info.Uses[id].(*types.Var); ok && b.guard[v] {
							n := b.mk(kTestProg, x.Pos())
							n.gvar, n.s1, n.s2 = v, t, f
							return n
						}
					}
				}
			}
		}
	case *ast.CallExpr:
		c := pk.calleeOf(x)
		if c != nil && (c.relevant || c.inlinable) {
			recv := b.recvOf(x)
			if c.prim == "cur" || c.prim == "peek" {
				b.count(c)
			}
			switch c.prim {
			case "cur":
				if len(x.Args) == 1 {
					if v, ok := b.tokenOf(x.Args[0]); ok {
						return b.value(recv, b.testCur(x.Pos(), setOf(v), t, f))
					}
				}
				return b.value(recv, b.values(x.Args, b.unknown(x.Pos(), t, f, true)))
			case "peek":
				if len(x.Args) == 1 {
					if v, ok := b.tokenOf(x.Args[0]); ok && v != pk.eofVal {
						n := b.mk(kPeekNE, x.Pos())
						n.s1, n.s2 = t, f
						return b.value(recv, n)
					}
				}
				return b.value(recv, b.values(x.Args, b.unknown(x.Pos(), t, f, true)))
			case "next":
			default:
				if c.inlinable && b.depth < maxInlineDepth && !b.onInlStack(c) && recv != nil && pk.isParserExpr(recv) {
					if c.relevant {
						b.count(c)
					}
					return b.value(recv, b.values(x.Args, b.inline(c, x, t, f)))
				}
			}
		}
		// X.current.Token.IsKeyword()
		if se, ok := ast.Unparen(x.Fun).(*ast.SelectorExpr); ok && se.Sel.Name == "IsKeyword" && len(x.Args) == 0 &&
			pk.isCurField(se.X, "Token") && pk.kwBeg > 0 && pk.kwEnd > pk.kwBeg && pk.isKeywordIsRange {
			s := setOf()
			for v := pk.kwBeg + 1; v < pk.kwEnd; v++ {
				s.SetBit(s, int(v), 1)
			}
			return b.testCur(x.Pos(), s, t, f)
		}
	}
	if !pk.hasRelevant(e) {
		n := b.unknown(e.Pos(), t, f, false)
		if n.kind == kUnknown && n != t && n != f {
			n.pure = b.pureKey(e)
		}
		return n
	}
	return b.value(e, b.unknown(e.Pos(), t, f, false))
}

// pureKey: canonical text of a condition that only reads local variables of basic type whose
// address is never taken (so that two evaluations with no statement in between agree); "" otherwise.
func (b *builder) pureKey(e ast.Expr) string {
	pk := b.pk
	var sb strings.Builder
	ok := true
	var walk func(e ast.Expr)
	walk = func(e ast.Expr) {
		if !ok {
			return
		}
		switch x := e.(type) {
		case *ast.ParenExpr:
			sb.WriteString("(")
			walk(x.X)
			sb.WriteString(")")
		case *ast.BasicLit:
			sb.WriteString(x.Value)
		case *ast.UnaryExpr:
			if x.Op == token.AND || x.Op == token.ARROW {
				ok = false
				return
			}
			sb.WriteString(x.Op.String())
			walk(x.X)
		case *ast.BinaryExpr:
			walk(x.X)
			sb.WriteString(" " + x.Op.String() + " ")
			walk(x.Y)
		case *ast.Ident:
			switch o := pk.info.Uses[x].(type) {
			case *types.Const:
				sb.WriteString(o.Val().ExactString())
			case *types.Nil:
				sb.WriteString("nil")
			case *types.Var:
				if o.IsField() || o.Parent() == nil || o.Parent() == pk.pkg.Scope() || pk.addrTaken(b.curFn(), o) {
					ok = false
					return
				}
				if _, basic := o.Type().Underlying().(*types.Basic); !basic {
					ok = false
					return
				}
				fmt.Fprintf(&sb, "%s#%d", o.Name(), o.Pos())
			default:
				ok = false
			}
		default:
			ok = false
		}
	}
	walk(e)
	if !ok {
		return ""
	}
	return fmt.Sprintf("%d:%s", b.instID, sb.String())
}

func (b *builder) curFn() *fnInfo {
	if len(b.inlStack) > 0 {
		return b.inlStack[len(b.inlStack)-1]
	}
	return b.fn
}

func (pk *pkgInfo) addrTaken(fi *fnInfo, v *types.Var) bool {
	if fi.addrTaken == nil {
		fi.addrTaken = map[*types.Var]bool{}
		ast.Inspect(fi.decl, func(n ast.Node) bool {
			switch x := n.(type) {
			case *ast.UnaryExpr:
				if x.Op == token.AND {
					if id, ok := ast.Unparen(x.X).(*ast.Ident); ok {
						if o, ok := pk.info.Uses[id].(*types.Var); ok {
							fi.addrTaken[o] = true
						}
					}
				}
			case *ast.FuncLit:
				// captured variables: be conservative
				ast.Inspect(x, func(m ast.Node) bool {
					if id, ok := m.(*ast.Ident); ok {
						if o, ok := pk.info.Uses[id].(*types.Var); ok {
							fi.addrTaken[o] = true
						}
					}
					return true
				})
			}
			return true
		})
	}
	return fi.addrTaken[v]
}

func (b *builder) onInlStack(c *fnInfo) bool {
	for _, f := range b.inlStack {
		if f == c {
			return true
		}
	}
	return false
}

// inline the body of predicate c; its return statements branch to t / f.
func (b *builder) inline(c *fnInfo, call *ast.CallExpr, t, f *node) *node {
	pk := b.pk
	sub := &builder{pk: pk, fn: b.fn, g: b.g, labels: map[string]*node{}, inl: true, inlT: t, inlF: f,
		consts: map[*types.Var]int64{}, depth: b.depth + 1, inlStack: append(append([]*fnInfo{}, b.inlStack...), c),
		guard: map[*types.Var]bool{}}
	pk.instCounter++
	sub.instID = pk.instCounter
	// bind parameters that receive token constants and are never written in the callee
	sig := c.obj.Type().(*types.Signature)
	if sig.Params().Len() == len(call.Args) && !sig.Variadic() {
		written := pk.writtenVars(c)
		for i := 0; i < sig.Params().Len(); i++ {
			pv := sig.Params().At(i)
			if written[pv] {
				continue
			}
			if v, ok := b.tokenOf(call.Args[i]); ok {
				sub.consts[pv] = v
			}
		}
	}
	b.g.inlined++
	// falling off the end of a bool function cannot happen (the compiler rejects it);
	// use an Unknown to both successors to stay permissive.
	end := sub.unknown(c.decl.End(), t, f, false)
	return sub.block(c.decl.Body.List, end)
}

func (pk *pkgInfo) writtenVars(c *fnInfo) map[*types.Var]bool {
	w := map[*types.Var]bool{}
	mark := func(e ast.Expr) {
		for {
			e = ast.Unparen(e)
			switch x := e.(type) {
			case *ast.Ident:
				if v, ok := pk.info.Uses[x].(*types.Var); ok {
					w[v] = true
				}
				return
			default:
				return
			}
		}
	}
	ast.Inspect(c.decl.Body, func(n ast.Node) bool {
		switch x := n.(type) {
		case *ast.AssignStmt:
			for _, l := range x.Lhs {
				mark(l)
			}
		case *ast.IncDecStmt:
			mark(x.X)
		case *ast.UnaryExpr:
			if x.Op == token.AND {
				mark(x.X)
			}
		case *ast.RangeStmt:
			if x.Key != nil {
				mark(x.Key)
			}
			if x.Value != nil {
				mark(x.Value)
			}
		}
		return true
	})
	return w
}

// ---- statements ----

func (b *builder) block(list []ast.Stmt, next *node) *node {
	for i := len(list) - 1; i >= 0; i-- {
		next = b.stmt(list[i], next, "")
	}
	return next
}

func (b *builder) labelNode(name string) *node {
	if n, ok := b.labels[name]; ok {
		return n
	}
	n := b.nop(nil)
	b.labels[name] = n
	return n
}

func (b *builder) findBreak(label string) *node {
	for i := len(b.ctx) - 1; i >= 0; i-- {
		if label == "" || b.ctx[i].label == label {
			return b.ctx[i].brk
		}
	}
	return nil
}

func (b *builder) findContinue(label string) *node {
	for i := len(b.ctx) - 1; i >= 0; i-- {
		if b.ctx[i].isSwitch {
			continue
		}
		if label == "" || b.ctx[i].label == label {
			return b.ctx[i].cont
		}
	}
	return nil
}

// escapes: the statement contains a return, goto or labelled branch
func escapes(s ast.Node) bool {
	found := false
	ast.Inspect(s, func(n ast.Node) bool {
		switch x := n.(type) {
		case *ast.ReturnStmt:
			found = true
		case *ast.BranchStmt:
			if x.Tok == token.GOTO || x.Label != nil {
				found = true
			}
		}
		return !found
	})
	return found
}

func (b *builder) stmt(s ast.Stmt, next *node, label string) *node {
	switch s.(type) {
	case nil, *ast.EmptyStmt, *ast.BlockStmt, *ast.IfStmt, *ast.LabeledStmt, *ast.BranchStmt, *ast.ReturnStmt,
		*ast.SwitchStmt, *ast.TypeSwitchStmt, *ast.SelectStmt:
		// control flow only; the statements inside get their own barriers. (Conditions are pure or
		// become Unknown nodes, which stop jump threading by themselves.)
		return b.stmt0(s, next, label)
	case *ast.ForStmt, *ast.RangeStmt:
		// a tick-free loop is elided: it may still have written variables
		return b.barrier(b.stmt0(s, b.barrier(next), label))
	}
	return b.barrier(b.stmt0(s, next, label))
}

func (b *builder) stmt0(s ast.Stmt, next *node, label string) *node {
	pk := b.pk
	switch x := s.(type) {
	case nil:
		return next
	case *ast.EmptyStmt:
		return next
	case *ast.BlockStmt:
		return b.block(x.List, next)
	case *ast.ExprStmt:
		return b.value(x.X, next)
	case *ast.AssignStmt:
		if x.Tok == token.DEFINE && len(x.Lhs) == 1 && len(x.Rhs) == 1 {
			if id, ok := x.Lhs[0].(*ast.Ident); ok {
				if v, ok := pk.info.Defs[id].(*types.Var); ok && b.guard[v] {
					n := b.mk(kSnap, x.Pos())
					n.gvar, n.s1 = v, next
					return n
				}
			}
		}
		return b.values(x.Lhs, b.values(x.Rhs, next))
	case *ast.DeclStmt:
		gd, ok := x.Decl.(*ast.GenDecl)
		if !ok {
			return next
		}
		for i := len(gd.Specs) - 1; i >= 0; i-- {
			if vs, ok := gd.Specs[i].(*ast.ValueSpec); ok {
				next = b.values(vs.Values, next)
			}
		}
		return next
	case *ast.IncDecStmt:
		return b.value(x.X, next)
	case *ast.SendStmt:
		return b.value(x.Chan, b.value(x.Value, next))
	case *ast.GoStmt, *ast.DeferStmt:
		pk.problem(s.Pos(), "go/defer statement")
		return next
	case *ast.ReturnStmt:
		if b.inl {
			if len(x.Results) == 1 {
				return b.cond(x.Results[0], b.inlT, b.inlF)
			}
			// named result: unknown value
			return b.unknown(x.Pos(), b.inlT, b.inlF, false)
		}
		r := b.mk(kRet, x.Pos())
		return b.values(x.Results, r)
	case *ast.LabeledStmt:
		ln := b.labelNode(x.Label.Name)
		ln.s1 = b.stmt(x.Stmt, next, x.Label.Name)
		return ln
	case *ast.BranchStmt:
		lab := ""
		if x.Label != nil {
			lab = x.Label.Name
		}
		switch x.Tok {
		case token.BREAK:
			if t := b.findBreak(lab); t != nil {
				return t
			}
		case token.CONTINUE:
			if t := b.findContinue(lab); t != nil {
				return t
			}
		case token.GOTO:
			return b.labelNode(lab)
		case token.FALLTHROUGH:
			if b.fallTo != nil {
				return b.fallTo
			}
		}
		pk.problem(x.Pos(), "branch statement without target")
		return next
	case *ast.IfStmt:
		thenN := b.block(x.Body.List, next)
		elseN := next
		if x.Else != nil {
			elseN = b.stmt(x.Else, next, "")
		}
		return b.stmt(x.Init, b.cond(x.Cond, thenN, elseN), "")
	case *ast.ForStmt:
		if b.depth == 0 {
			b.g.builtLoops++
		}
		if !pk.hasRelevant(x) {
			b.g.elided = append(b.g.elided, x.Pos())
			if !escapes(x.Body) {
				return next
			}
			// once-through: the last iteration is the only one that can have an event (a return)
			b.ctx = append(b.ctx, loopCtx{label: label, brk: next, cont: next})
			body := b.block(x.Body.List, next)
			b.ctx = b.ctx[:len(b.ctx)-1]
			return b.unknown(x.Pos(), body, next, false)
		}
		head := b.nop(nil)
		head.loopHead = x.Pos()
		b.g.loops = append(b.g.loops, x.Pos())
		entry, back := b.assumed(x.Pos(), head)
		post := b.stmt(x.Post, back, "")
		b.ctx = append(b.ctx, loopCtx{label: label, brk: next, cont: post})
		body := b.block(x.Body.List, post)
		b.ctx = b.ctx[:len(b.ctx)-1]
		if x.Cond != nil {
			head.s1 = b.cond(x.Cond, body, next)
		} else {
			head.s1 = body
		}
		return b.stmt(x.Init, entry, "")
	case *ast.RangeStmt:
		if tv, ok := pk.info.Types[x.X]; ok {
			if _, isFunc := tv.Type.Underlying().(*types.Signature); isFunc {
				pk.problem(x.Pos(), "range over a function")
			}
		}
		if b.depth == 0 {
			b.g.builtLoops++
		}
		if pk.hasRelevant(x.Key) || pk.hasRelevant(x.Value) {
			pk.problem(x.Pos(), "parser call in the key/value expression of a range statement")
		}
		if !pk.hasRelevant(x.Body) {
			b.g.elided = append(b.g.elided, x.Pos())
			if !escapes(x.Body) {
				return b.value(x.X, next)
			}
			b.ctx = append(b.ctx, loopCtx{label: label, brk: next, cont: next})
			body := b.block(x.Body.List, next)
			b.ctx = b.ctx[:len(b.ctx)-1]
			return b.value(x.X, b.unknown(x.Pos(), body, next, false))
		}
		head := b.nop(nil)
		head.loopHead = x.Pos()
		b.g.loops = append(b.g.loops, x.Pos())
		entry, back := b.assumed(x.Pos(), head)
		b.ctx = append(b.ctx, loopCtx{label: label, brk: next, cont: back})
		body := b.block(x.Body.List, back)
		b.ctx = b.ctx[:len(b.ctx)-1]
		u := b.mk(kUnknown, x.Pos())
		u.s1, u.s2 = body, next
		head.s1 = u
		return b.value(x.X, entry)
	case *ast.SwitchStmt:
		return b.stmt(x.Init, b.switchStmt(x, next, label), "")
	case *ast.TypeSwitchStmt:
		var subject ast.Expr
		switch a := x.Assign.(type) {
		case *ast.ExprStmt:
			subject = a.X
		case *ast.AssignStmt:
			if len(a.Rhs) == 1 {
				subject = a.Rhs[0]
			}
		}
		b.ctx = append(b.ctx, loopCtx{label: label, brk: next, isSwitch: true})
		test := b.clauseChain(x.Body.List, next, nil)
		b.ctx = b.ctx[:len(b.ctx)-1]
		return b.stmt(x.Init, b.value(subject, test), "")
	case *ast.SelectStmt:
		b.ctx = append(b.ctx, loopCtx{label: label, brk: next, isSwitch: true})
		// any ready clause may be chosen; without default the select blocks (no event)
		var entries []*node
		for _, cl := range x.Body.List {
			cc := cl.(*ast.CommClause)
			body := b.block(cc.Body, next)
			entries = append(entries, b.stmt(cc.Comm, body, ""))
		}
		b.ctx = b.ctx[:len(b.ctx)-1]
		test := next
		for i := len(entries) - 1; i >= 0; i-- {
			test = b.unknown(x.Pos(), entries[i], test, false)
		}
		return test
	default:
		pk.problem(s.Pos(), "statement form %T is not supported", s)
		return next
	}
}

// clauseChain for type switches (and generic switches): Unknown chain over the clauses
func (b *builder) clauseChain(clauses []ast.Stmt, next *node, tagIsCur func(ast.Expr) bool) *node {
	type cl struct {
		cc   *ast.CaseClause
		body *node
	}
	cls := make([]cl, len(clauses))
	var fall *node
	for i := len(clauses) - 1; i >= 0; i-- {
		cc := clauses[i].(*ast.CaseClause)
		saved := b.fallTo
		b.fallTo = fall
		body := b.block(cc.Body, next)
		b.fallTo = saved
		cls[i] = cl{cc, body}
		fall = body
	}
	test := next
	for _, c := range cls {
		if c.cc.List == nil {
			test = c.body
		}
	}
	for i := len(cls) - 1; i >= 0; i-- {
		c := cls[i]
		if c.cc.List == nil {
			continue
		}
		for j := len(c.cc.List) - 1; j >= 0; j-- {
			e := c.cc.List[j]
			if tv, ok := b.pk.info.Types[e]; ok && tv.IsType() {
				test = b.unknown(e.Pos(), c.body, test, false)
			} else {
				test = b.value(e, b.unknown(e.Pos(), c.body, test, false))
			}
		}
	}
	return test
}

func (b *builder) switchStmt(x *ast.SwitchStmt, next *node, label string) *node {
	pk := b.pk
	b.ctx = append(b.ctx, loopCtx{label: label, brk: next, isSwitch: true})
	defer func() { b.ctx = b.ctx[:len(b.ctx)-1] }()
	clauses := x.Body.List
	bodies := make([]*node, len(clauses))
	var fall *node
	for i := len(clauses) - 1; i >= 0; i-- {
		cc := clauses[i].(*ast.CaseClause)
		saved := b.fallTo
		b.fallTo = fall
		bodies[i] = b.block(cc.Body, next)
		b.fallTo = saved
		fall = bodies[i]
	}
	test := next
	for i, c := range clauses {
		if c.(*ast.CaseClause).List == nil {
			test = bodies[i]
		}
	}
	tagCur := x.Tag != nil && pk.isCurField(x.Tag, "Token")
	for i := len(clauses) - 1; i >= 0; i-- {
		cc := clauses[i].(*ast.CaseClause)
		if cc.List == nil {
			continue
		}
		switch {
		case x.Tag == nil:
			// case c1, c2: evaluated left to right, first true wins
			for j := len(cc.List) - 1; j >= 0; j-- {
				test = b.cond(cc.List[j], bodies[i], test)
			}
		case tagCur:
			// group maximal runs of constant tokens into one TestCur
			j := len(cc.List) - 1
			for j >= 0 {
				if v, ok := b.tokenOf(cc.List[j]); ok {
					s := setOf(v)
					k := j - 1
					for k >= 0 {
						v2, ok2 := b.tokenOf(cc.List[k])
						if !ok2 {
							break
						}
						s.SetBit(s, int(v2), 1)
						k--
					}
					test = b.testCur(cc.List[k+1].Pos(), s, bodies[i], test)
					j = k
				} else {
					test = b.value(cc.List[j], b.unknown(cc.List[j].Pos(), bodies[i], test, false))
					j--
				}
			}
		default:
			for j := len(cc.List) - 1; j >= 0; j-- {
				test = b.value(cc.List[j], b.unknown(cc.List[j].Pos(), bodies[i], test, false))
			}
		}
	}
	if x.Tag != nil && !tagCur {
		test = b.value(x.Tag, test)
	}
	return test
}

// assumed: for a loop listed as assumed_progress, the loop is entered through a snapshot and every
// back edge passes an AssumeProgress marker (which blocks unless a token was consumed since the snapshot)
func (b *builder) assumed(pos token.Pos, head *node) (entry, back *node) {
	if !b.pk.assumedLoops[pos] {
		return head, head
	}
	v := types.NewVar(pos, b.pk.pkg, "assumed_progress", types.Typ[types.Int])
	snap := b.mk(kSnap, pos)
	snap.gvar, snap.s1 = v, head
	as := b.mk(kAssume, pos)
	as.gvar, as.s1 = v, snap
	b.g.assumedUsed = append(b.g.assumedUsed, pos)
	return snap, as
}

// ---- whole function ----

func resolve(n *node) *node {
	// skip nops; a cycle of nops (for {}) keeps one tick
	seen := map[*node]bool{}
	for n != nil && n.kind == kNop {
		if seen[n] {
			n.kind = kTick
			return n
		}
		seen[n] = true
		n = n.s1
	}
	return n
}

func (pk *pkgInfo) buildFunc(fi *fnInfo) *cfg {
	g := &cfg{fn: fi, headOf: map[*node]token.Pos{}}
	b := &builder{pk: pk, fn: fi, g: g, labels: map[string]*node{}, guard: fi.guardVars}
	end := b.mk(kRet, fi.decl.End())
	entry := b.block(fi.decl.Body.List, end)
	for name, ln := range b.labels {
		if ln.s1 == nil {
			pk.problem(fi.decl.Pos(), "label %s without statement in %s", name, fi.name)
			ln.s1 = end
		}
	}
	// clean up: number reachable nodes in DFS preorder, resolving nops
	threadJumps(entry)
	entry = resolve(entry)
	if entry == nil {
		entry = end
	}
	var order []*node
	seen := map[*node]bool{}
	var stack []*node
	stack = append(stack, entry)
	for len(stack) > 0 {
		n := stack[len(stack)-1]
		stack = stack[:len(stack)-1]
		if seen[n] {
			continue
		}
		seen[n] = true
		n.id = len(order)
		order = append(order, n)
		if n.s1 != nil {
			if n.s1.kind == kNop && n.s1.loopHead.IsValid() {
				// remember that this edge enters a loop head (for reporting only)
			}
			n.s1 = resolve(n.s1)
		}
		if n.s2 != nil {
			n.s2 = resolve(n.s2)
		}
		if n.kind != kRet && n.s1 == nil {
			pk.problem(n.pos, "internal: node without successor in %s", fi.name)
			n.s1 = end
		}
		if n.s2 != nil {
			stack = append(stack, n.s2)
		}
		if n.s1 != nil {
			stack = append(stack, n.s1)
		}
	}
	g.nodes = order
	return g
}

// threadJumps: an Unknown on a pure condition whose successor (through joins only) is an Unknown
// on the same condition takes the same branch there: no statement runs in between.
func threadJumps(entry *node) {
	seen := map[*node]bool{}
	var all []*node
	var walk func(n *node)
	stack := []*node{entry}
	for len(stack) > 0 {
		n := stack[len(stack)-1]
		stack = stack[:len(stack)-1]
		if n == nil || seen[n] {
			continue
		}
		seen[n] = true
		all = append(all, n)
		stack = append(stack, n.s1, n.s2)
	}
	_ = walk
	for _, n := range all {
		if n.kind != kUnknown || n.pure == "" {
			continue
		}
		for k := 0; k < 4; k++ { // bounded chain
			changed := false
			if m := skipJoins(n.s1); m != nil && m != n && m.kind == kUnknown && m.pure == n.pure {
				n.s1 = m.s1
				changed = true
			}
			if m := skipJoins(n.s2); m != nil && m != n && m.kind == kUnknown && m.pure == n.pure {
				n.s2 = m.s2
				changed = true
			}
			if !changed {
				break
			}
		}
	}
}

// skipJoins follows joins (nops that stand for no statement); nil if a statement intervenes
func skipJoins(n *node) *node {
	for i := 0; n != nil && n.kind == kNop; i++ {
		if n.barrier || i > 1000 {
			return nil
		}
		n = n.s1
	}
	return n
}
