// skelgen translates package /repo/parser into the control-flow skeleton used by property C02
// (coq/Gen/ParserSkeleton.v: a term `skeleton : prog` of DC.Skel.SkelLang with an untrusted
// potential certificate, plus the constants B and E_main) and writes build/skelgen_report.json.
//
// Soundness of the translation is OVER-approximation: the sequence of {consume a token, call,
// return} events of every real execution of ParseStatements is a possible run of the graph for
// some oracle; each real tick (currentIs / peekIs / nextToken) corresponds to at least one
// instruction on that run. What cannot be classified becomes an Unknown branch; what cannot be
// translated at all is listed under "problems" and poisons the skeleton (the checker rejects it).
//
// The certificate (annotations a, b, c, facts; specs E, L, T, pre; the constant B) is computed
// here by dataflow and longest-path analysis; it is checked, not trusted, by
// DC.Skel.SkelCheck.check_prog inside the Coq kernel.
//
// Files: load.go (type-checked package, call graph, primitives, token sets), build.go (Go AST ->
// graph: evaluation order, short-circuit operators, switch/goto/labels, predicate inlining, the
// progress-guard idiom, jump threading), analyze.go (callee preconditions, facts, longest paths,
// blocking cycles), main.go (driver, output). selftest/run.sh runs the translator on a synthetic
// parser whose functions are named after the expected verdict.
//
// Usage: skelgen -repo /repo -out /verif/coq/Gen -report /verif/build/skelgen_report.json
//
//	-v            print the blocking loops / call chains and the problems
//	-why f        explain why function f may return without consuming a token
//	-assume file  assumed_progress entries (none are needed for /repo; see the report)
//
// Exit status 0 when the two files were written (also when no certificate was found: then the
// report has "certified": false and Properties/C02.v does not compile), 2 on a fatal error
// (package does not type-check, entry function missing).
package main

import (
	"bytes"
	"encoding/json"
	"flag"
	"fmt"
	"go/token"
	"go/types"
	"os"
	"path/filepath"
	"sort"
	"strings"
)

func must(err error) {
	if err != nil {
		fmt.Fprintln(os.Stderr, "skelgen:", err)
		os.Exit(2)
	}
}

func writeIfChanged(path string, data []byte) {
	old, err := os.ReadFile(path)
	if err == nil && bytes.Equal(old, data) {
		return
	}
	must(os.MkdirAll(filepath.Dir(path), 0o755))
	must(os.WriteFile(path, data, 0o644))
}

// snapAnalysis: must-analysis "which guard variable was snapshotted last on every path";
// position tests on another variable degrade to Unknown.
func (pk *pkgInfo) snapAnalysis(g *cfg) {
	n := len(g.nodes)
	const (
		unvisited = 0
		none      = 1
		conflict  = 2
		isVar     = 3
	)
	type st struct {
		k int
		v *types.Var
	}
	in := make([]st, n)
	merge := func(x, y st) st {
		if x.k == unvisited {
			return y
		}
		if y.k == unvisited {
			return x
		}
		if x.k == y.k && x.v == y.v {
			return x
		}
		return st{conflict, nil}
	}
	in[0] = st{none, nil}
	work := []int{0}
	for len(work) > 0 {
		i := work[0]
		work = work[1:]
		nd := g.nodes[i]
		out := in[i]
		if nd.kind == kSnap {
			out = st{isVar, nd.gvar}
		}
		for _, s := range []*node{nd.s1, nd.s2} {
			if s == nil {
				continue
			}
			m := merge(in[s.id], out)
			if m != in[s.id] {
				in[s.id] = m
				work = append(work, s.id)
			}
		}
	}
	g.snapDef = make([]bool, n)
	for i, nd := range g.nodes {
		g.snapDef[i] = in[i].k == isVar
		if nd.kind == kTestProg && !(in[i].k == isVar && in[i].v == nd.gvar) {
			nd.kind = kUnknown
			g.degraded = append(g.degraded, nd.pos)
		}
	}
}

func (a *analysis) computeMayConsume() {
	a.mayConsume = map[*fnInfo]bool{}
	for changed := true; changed; {
		changed = false
		for fn, g := range a.cfgs {
			if a.mayConsume[fn] {
				continue
			}
			for _, nd := range g.nodes {
				if nd.kind == kNext || (nd.kind == kCall && a.mayConsume[nd.callee]) {
					a.mayConsume[fn] = true
					changed = true
					break
				}
			}
		}
	}
}

// ---- output ----

func coqOpt(def bool, v int64) string {
	if !def {
		return "None"
	}
	if v < 0 {
		v = 0
	}
	return fmt.Sprintf("(Some %d)", v)
}

type factTable struct {
	idx   map[string]int
	facts []fact
}

func (t *factTable) name(f fact) string {
	k := f.key()
	i, ok := t.idx[k]
	if !ok {
		i = len(t.facts)
		t.idx[k] = i
		t.facts = append(t.facts, f)
	}
	return fmt.Sprintf("F%d", i)
}

func (a *analysis) emitCoq(poison bool) []byte {
	pk := a.pk
	var body strings.Builder
	ft := &factTable{idx: map[string]int{}}
	ft.name(factAny())
	totalNodes := 0
	for _, v := range a.order {
		fmt.Fprintf(&body, "(* %d: %s   pre: %s *)\n", v.id, v.fn.name, a.factString(v.pre))
		tdef := a.mayConsume[v.fn]
		fmt.Fprintf(&body, "Definition f%d : func := mkFunc (mkSpec %d %s %s %s) [\n", v.id, v.E, coqOpt(v.Ldef, v.L), coqOpt(tdef, v.T), ft.name(v.pre))
		for i, nd := range v.g.nodes {
			var ins string
			switch nd.kind {
			case kTick:
				ins = fmt.Sprintf("IGoto %d", nd.s1.id)
			case kTestCur:
				ins = fmt.Sprintf("ITestCur %s %d %d", nd.set.String(), nd.s1.id, nd.s2.id)
			case kUnknown:
				ins = fmt.Sprintf("IUnknown %d %d", nd.s1.id, nd.s2.id)
			case kNext:
				ins = fmt.Sprintf("INext %d", nd.s1.id)
			case kCall:
				if v.callV[i] != nil {
					ins = fmt.Sprintf("ICall %d %d", v.callV[i].id, nd.s1.id)
				} else {
					// unreachable call site (empty fact): any existing function will do
					ins = fmt.Sprintf("ICall %d %d", a.anyVariantOf(nd.callee), nd.s1.id)
				}
			case kRet:
				ins = "IRet"
			case kSnap:
				ins = fmt.Sprintf("ISnap %d", nd.s1.id)
			case kTestProg:
				ins = fmt.Sprintf("ITestProgress %d %d", nd.s1.id, nd.s2.id)
			case kAssume:
				ins = fmt.Sprintf("IAssumeProgress %d", nd.s1.id)
			case kPeekNE:
				ins = fmt.Sprintf("ITestPeek %d %d", nd.s1.id, nd.s2.id)
			}
			sep := ";"
			if i == len(v.g.nodes)-1 {
				sep = ""
			}
			fmt.Fprintf(&body, " nd (%s) %s %s %s %s %s%s\n", ins,
				coqOpt(v.aDef(i), v.A[i]), ft.name(v.fa[i]), coqOpt(v.bDef(i), v.B[i]), ft.name(v.fb[i]), coqOpt(v.cDef[i], v.C[i]), sep)
			totalNodes++
		}
		body.WriteString("].\n")
	}
	var out strings.Builder
	out.WriteString("(* GENERATED by /verif/translator/cmd/skelgen from /repo/parser -- do not edit. *)\n")
	out.WriteString("From Coq Require Import List NArith.\nFrom DC Require Import Skel.SkelLang.\nImport ListNotations.\nLocal Open Scope N_scope.\n\n")
	fmt.Fprintf(&out, "(* %d functions (variants), %d nodes *)\n", len(a.order), totalNodes)
	out.WriteString("Local Notation nd i a fa b fb c := (mkNode i (mkAnn a fa b fb c)) (only parsing).\n\n")
	for i, f := range ft.facts {
		c := "FIn"
		if f.neg {
			c = "FNotIn"
		}
		fmt.Fprintf(&out, "Definition F%d : fact := %s %s. (* %s *)\n", i, c, f.set.String(), a.factString(f))
	}
	out.WriteString("\n")
	out.WriteString(body.String())
	out.WriteString("\nDefinition skeleton : prog := mkProg [\n")
	for i := range a.order {
		sep := ";"
		if i == len(a.order)-1 {
			sep = ""
		}
		fmt.Fprintf(&out, " f%d%s", i, sep)
		if i%16 == 15 {
			out.WriteString("\n")
		}
	}
	if poison {
		// something could not be translated: an out-of-range entry point makes the checker fail
		fmt.Fprintf(&out, "] %d %d.\n", len(a.order)+1, pk.eofVal)
	} else {
		fmt.Fprintf(&out, "] %d %d.\n", a.main.id, pk.eofVal)
	}
	fmt.Fprintf(&out, "\nDefinition B : N := %d.\nDefinition E_main : N := %d.\n", a.Bglob, a.main.E)
	return []byte(out.String())
}

func (a *analysis) anyVariantOf(fn *fnInfo) int {
	for _, v := range a.order {
		if v.fn == fn {
			return v.id
		}
	}
	return 0
}

func (a *analysis) factString(f fact) string {
	var names []string
	for i := 0; i < f.set.BitLen(); i++ {
		if f.set.Bit(i) == 1 {
			n, ok := a.pk.tokNames[int64(i)]
			if !ok {
				n = fmt.Sprintf("#%d", i)
			}
			names = append(names, n)
		}
	}
	if len(names) > 12 {
		names = append(names[:12], fmt.Sprintf("...(%d)", len(names)))
	}
	s := "{" + strings.Join(names, ",") + "}"
	if f.neg {
		if len(names) == 0 {
			return "any"
		}
		return "not " + s
	}
	return "in " + s
}

type variantReport struct {
	Key   string `json:"key"`
	Pre   string `json:"pre"`
	Index int    `json:"index"`
	E     int64  `json:"E"`
	L     *int64 `json:"L"`
	T     *int64 `json:"T"`
}

type funcReport struct {
	Name        string          `json:"name"`
	Pos         string          `json:"pos"`
	Nodes       int             `json:"nodes"`
	Loops       int             `json:"loops"`
	ElidedLoops int             `json:"elided_loops"`
	Inlined     int             `json:"inlined_predicate_calls"`
	NextSites   int             `json:"next_sites"`
	CallSites   int             `json:"call_sites"`
	Certified   bool            `json:"certificate_found"`
	Variants    []variantReport `json:"variants"`
}

type report struct {
	Repo            string       `json:"repo"`
	Entry           string       `json:"entry"`
	Certified       bool         `json:"certified"`
	B               int64        `json:"B"`
	EMain           int64        `json:"E_main"`
	Functions       int          `json:"functions"`
	Variants        int          `json:"variants"`
	Nodes           int          `json:"nodes"`
	Loops           int          `json:"loops"`
	ElidedLoops     []string     `json:"elided_tick_free_loops"`
	Degraded        []string     `json:"position_tests_degraded_to_unknown"`
	HelperLoops     []string     `json:"loops_in_tick_free_helpers"`
	Trusted         []string     `json:"trusted_translation_assumptions"`
	InlinablePreds  []string     `json:"inlined_predicates"`
	Blocking        []failure    `json:"blocking"`
	AssumedProgress interface{}  `json:"assumed_progress"`
	Problems        []string     `json:"problems"`
	Funcs           []funcReport `json:"per_function"`
}

func main() {
	repo := flag.String("repo", "/repo", "repository root")
	out := flag.String("out", "/verif/coq/Gen", "output directory for ParserSkeleton.v")
	rep := flag.String("report", "/verif/build/skelgen_report.json", "report file")
	maxSet := flag.Int("maxset", 64, "largest finite token set used as a callee precondition")
	inlineMax := flag.Int("inline", 80, "largest predicate (in nodes) inlined into conditions")
	verbose := flag.Bool("v", false, "print blocking cycles")
	assumeFile := flag.String("assume", "", "JSON file listing assumed_progress loops: [{\"function\":..,\"loop\":n (n-th for statement of the function, from 1),\"reason\":..}]")
	why := flag.String("why", "", "debug: explain why a function may return without consuming")
	whyDepth := flag.Int("whydepth", 3, "debug: depth of -why")
	flag.Parse()

	absRepo, err := filepath.Abs(*repo)
	must(err)
	*out, err = filepath.Abs(*out)
	must(err)
	*rep, err = filepath.Abs(*rep)
	must(err)
	// the source importer resolves the module's packages through the go command: run inside the module
	must(os.Chdir(absRepo))
	if os.Getenv("GOFLAGS") == "" {
		os.Setenv("GOFLAGS", "-mod=mod")
	}
	if os.Getenv("GOPROXY") == "" {
		os.Setenv("GOPROXY", "off")
	}
	pk := loadPackage(absRepo)

	// assumed_progress entries (the aim is to have none)
	type assumeEntry struct {
		Function string `json:"function"`
		Loop     int    `json:"loop"`
		Reason   string `json:"reason"`
		Pos      string `json:"pos"`
	}
	var assumes []assumeEntry
	if *assumeFile != "" {
		data, err := os.ReadFile(*assumeFile)
		must(err)
		must(json.Unmarshal(data, &assumes))
		for i := range assumes {
			fi := pk.funcs[assumes[i].Function]
			if fi == nil {
				must(fmt.Errorf("assumed_progress: function %s not found", assumes[i].Function))
			}
			ps := pk.loopPositions(fi)
			if assumes[i].Loop < 1 || assumes[i].Loop > len(ps) {
				must(fmt.Errorf("assumed_progress: %s has %d loops", assumes[i].Function, len(ps)))
			}
			pk.assumedLoops[ps[assumes[i].Loop-1]] = true
			assumes[i].Pos = pk.posString(ps[assumes[i].Loop-1])
			fi.noInline = true
		}
	}

	// guard variables and inlinable predicates
	for _, name := range pk.names {
		fi := pk.funcs[name]
		if fi.relevant && fi.prim == "" {
			fi.guardVars = pk.findGuardVars(fi)
		}
	}
	var rel []*fnInfo
	for _, name := range pk.names {
		fi := pk.funcs[name]
		if fi.relevant && fi.prim == "" {
			rel = append(rel, fi)
		}
	}
	// sizes without inlining decide what is inlinable
	var inlinable []string
	n0 := len(pk.problems)
	for _, name := range pk.names {
		fi := pk.funcs[name]
		if fi.prim != "" || !fi.boolResult || fi.recursive || fi.decl.Recv == nil || fi.noInline {
			continue
		}
		if !pk.isParserPtr(fi.obj.Type().(*types.Signature).Recv().Type()) {
			continue
		}
		if fi.guardVars == nil {
			fi.guardVars = pk.findGuardVars(fi)
		}
		g := pk.buildFunc(fi)
		if len(fi.guardVars) == 0 && len(g.nodes) <= *inlineMax &&
			fi.decl.Type.Results != nil && len(fi.decl.Type.Results.List) == 1 && len(fi.decl.Type.Results.List[0].Names) == 0 {
			fi.inlinable = true
			inlinable = append(inlinable, fi.name)
		}
	}
	pk.problems = pk.problems[:n0] // found again below
	a := &analysis{pk: pk, cfgs: map[*fnInfo]*cfg{}, maxSet: *maxSet}
	for _, fi := range rel {
		g := pk.buildFunc(fi)
		pk.snapAnalysis(g)
		a.cfgs[fi] = g
		// structural self-check: the builder has visited every parser call written in the function
		if n, t, c := pk.astCounts(fi); n != g.builtNext || t != g.builtTick || c != g.builtCall {
			pk.problem(fi.decl.Pos(), "structural mismatch in %s: source has %d nextToken / %d currentIs+peekIs / %d calls, translated %d / %d / %d",
				fi.name, n, t, c, g.builtNext, g.builtTick, g.builtCall)
		}
		if nl := len(pk.loopPositions(fi)); nl != g.builtLoops {
			pk.problem(fi.decl.Pos(), "structural mismatch in %s: source has %d loops, translated %d", fi.name, nl, g.builtLoops)
		}
	}
	pk.problems = dedupe(pk.problems)
	a.computeMayConsume()

	a.explore()
	a.solve()
	if *why != "" {
		a.why(*why, *whyDepth, map[string]bool{}, "")
	}
	certified := len(a.failures) == 0 && len(pk.problems) == 0
	coq := a.emitCoq(len(pk.problems) > 0)
	writeIfChanged(filepath.Join(*out, "ParserSkeleton.v"), coq)

	// report
	r := report{Repo: absRepo, Entry: "ParseStatements", Certified: certified, B: a.Bglob, EMain: a.main.E,
		Variants: len(a.order), Blocking: a.failures, Problems: pk.problems, AssumedProgress: []string{},
		InlinablePreds: inlinable, ElidedLoops: []string{}, Degraded: []string{}}
	if len(assumes) > 0 {
		r.AssumedProgress = assumes
	}
	if r.Blocking == nil {
		r.Blocking = []failure{}
	}
	if r.Problems == nil {
		r.Problems = []string{}
	}
	failedFn := map[string]bool{}
	for _, f := range a.failures {
		failedFn[f.Function] = true
		for _, vk := range f.Variants {
			failedFn[strings.SplitN(vk, "@", 2)[0]] = true
		}
	}
	byFn := map[*fnInfo][]*variant{}
	for _, v := range a.order {
		byFn[v.fn] = append(byFn[v.fn], v)
		r.Nodes += len(v.g.nodes)
	}
	elided := map[string]bool{}
	degraded := map[string]bool{}
	for _, fi := range rel {
		vs := byFn[fi]
		if len(vs) == 0 {
			continue // not reachable from the entry point
		}
		g := a.cfgs[fi]
		fr := funcReport{Name: fi.name, Pos: pk.posString(fi.decl.Pos()), Nodes: len(g.nodes), Loops: len(g.loops),
			ElidedLoops: len(g.elided), Inlined: g.inlined, Certified: !failedFn[fi.name]}
		for _, nd := range g.nodes {
			switch nd.kind {
			case kNext:
				fr.NextSites++
			case kCall:
				fr.CallSites++
			}
		}
		for _, p := range g.elided {
			elided[pk.posString(p)] = true
		}
		for _, p := range g.degraded {
			degraded[pk.posString(p)] = true
		}
		for _, v := range vs {
			vr := variantReport{Key: v.key, Pre: a.factString(v.pre), Index: v.id, E: v.E}
			if v.Ldef {
				l := v.L
				vr.L = &l
			}
			if a.mayConsume[v.fn] {
				t := v.T
				vr.T = &t
			}
			fr.Variants = append(fr.Variants, vr)
		}
		r.Functions++
		r.Loops += len(g.loops)
		r.Funcs = append(r.Funcs, fr)
	}
	for p := range elided {
		r.ElidedLoops = append(r.ElidedLoops, p)
	}
	sort.Strings(r.ElidedLoops)
	for p := range degraded {
		r.Degraded = append(r.Degraded, p)
	}
	sort.Strings(r.Degraded)
	// loops of functions that never tick but are called from translated functions: outside the step
	// count (listed for review)
	helperSeen := map[*fnInfo]bool{}
	var visit func(fi *fnInfo)
	visit = func(fi *fnInfo) {
		for c := range fi.callees {
			if !c.relevant && !helperSeen[c] {
				helperSeen[c] = true
				visit(c)
			}
		}
	}
	for fi := range byFn {
		visit(fi)
	}
	r.HelperLoops = []string{}
	for _, name := range pk.names {
		if fi := pk.funcs[name]; helperSeen[fi] {
			for _, p := range pk.loopPositions(fi) {
				r.HelperLoops = append(r.HelperLoops, fi.name+" "+pk.posString(p))
			}
		}
	}
	r.Trusted = []string{
		"the translation over-approximates: every real execution of ParseStatements is a run of the skeleton for some oracle, each currentIs/peekIs/nextToken call being at least one instruction of that run",
		"nextToken, currentIs, peekIs are primitives (Next / TestCur|Goto / TestPeek|Unknown); their bodies are not translated; verifTick is called only from them (checked)",
		"there is one parser: Parser values are built only in New, p.current/peek/peekPeek/lexer are written only in nextToken and New (checked syntactically)",
		"once the lexer has returned EOF it keeps returning EOF (C12): peek != EOF implies current != EOF, and nextToken at EOF consumes nothing",
		"no function values, closures, defer or go statements in package parser (checked; otherwise listed under problems and the skeleton is poisoned)",
		"for/range loops without any parser call are elided (elided_tick_free_loops) and functions that never tick are not translated (loops_in_tick_free_helpers): they add no steps",
		"a panic ends the run early: every prefix of a run obeys the bound",
	}
	js, err := json.MarshalIndent(r, "", " ")
	must(err)
	writeIfChanged(*rep, append(js, '\n'))

	fmt.Fprintf(os.Stderr, "skelgen: %d functions, %d variants %d nodes, %d loops, B=%d, E_main=%d, blocking=%d, problems=%d, certified=%v\n",
		r.Functions, len(a.order), r.Nodes, r.Loops, a.Bglob, a.main.E, len(a.failures), len(pk.problems), certified)
	if *verbose {
		for _, f := range a.failures {
			fmt.Fprintf(os.Stderr, "BLOCKING %s %s loop=%s component=%s variants=%v\n", f.Kind, f.Function, f.Loop, f.Component, f.Variants)
			for _, c := range f.Cycle {
				fmt.Fprintf(os.Stderr, "    %s\n", c)
			}
		}
		for _, p := range pk.problems {
			fmt.Fprintf(os.Stderr, "PROBLEM %s\n", p)
		}
	}
	_ = token.NoPos
}

func dedupe(xs []string) []string {
	seen := map[string]bool{}
	var out []string
	for _, x := range xs {
		if !seen[x] {
			seen[x] = true
			out = append(out, x)
		}
	}
	return out
}
