package main

import (
	"fmt"
	"go/ast"
	"go/build"
	"go/constant"
	"go/importer"
	"go/parser"
	"go/printer"
	"go/token"
	"go/types"
	"math/big"
	"path/filepath"
	"sort"
	"strings"
)

// fnInfo is one function or method declared in package parser.
type fnInfo struct {
	name     string // "parseFoo" (methods of *Parser and package functions share one name space in Go)
	decl     *ast.FuncDecl
	obj      *types.Func
	prim     string // "next", "cur", "peek" for the three tick primitives, "" otherwise
	relevant bool   // can (transitively) reach a tick primitive
	callees  map[*fnInfo]bool
	// inlining
	boolResult bool
	recursive  bool
	guardVars  map[*types.Var]bool // variables of the progress-guard idiom
	addrTaken  map[*types.Var]bool
	inlinable  bool
	noInline   bool
}

type pkgInfo struct {
	repo      string
	fset      *token.FileSet
	files     []*ast.File
	info      *types.Info
	pkg       *types.Package
	parserT   *types.Named // type Parser
	tokenT    *types.Named // token.Token
	eofVal    int64
	tokNames  map[int64]string // token constant value -> name (exported and unexported)
	maxTok    int64
	kwBeg     int64
	kwEnd     int64
	funcs     map[string]*fnInfo
	byObj     map[*types.Func]*fnInfo
	names     []string // sorted
	problems  []string // things the translator cannot classify (make the skeleton uncheckable)
	hasRelMem map[ast.Node]bool
	// token.Token.IsKeyword is literally `tok > keyword_beg && tok < keyword_end`
	isKeywordIsRange bool
	assumedLoops     map[token.Pos]bool // loops listed as assumed_progress
	instCounter      int
}

func (pk *pkgInfo) posString(p token.Pos) string {
	if !p.IsValid() {
		return "-"
	}
	ps := pk.fset.Position(p)
	rel, err := filepath.Rel(pk.repo, ps.Filename)
	if err != nil {
		rel = ps.Filename
	}
	return fmt.Sprintf("%s:%d:%d", rel, ps.Line, ps.Column)
}

func (pk *pkgInfo) problem(p token.Pos, format string, args ...interface{}) {
	pk.problems = append(pk.problems, pk.posString(p)+": "+fmt.Sprintf(format, args...))
}

func loadPackage(repo string) *pkgInfo {
	pk := &pkgInfo{repo: repo, fset: token.NewFileSet(), funcs: map[string]*fnInfo{}, byObj: map[*types.Func]*fnInfo{},
		tokNames: map[int64]string{}, hasRelMem: map[ast.Node]bool{}, assumedLoops: map[token.Pos]bool{}}
	dir := filepath.Join(repo, "parser")
	ctx := build.Default
	ctx.BuildTags = nil // the plain build (verif_tick_off.go); the hook only adds the counter
	bp, err := ctx.ImportDir(dir, 0)
	must(err)
	names := append([]string{}, bp.GoFiles...)
	sort.Strings(names)
	for _, n := range names {
		f, err := parser.ParseFile(pk.fset, filepath.Join(dir, n), nil, parser.ParseComments)
		must(err)
		pk.files = append(pk.files, f)
	}
	// type-check from source; imports of the module are resolved relative to repo
	ctx2 := build.Default
	ctx2.Dir = repo
	imp := importer.ForCompiler(pk.fset, "source", nil)
	conf := types.Config{Importer: &dirImporter{imp: imp.(types.ImporterFrom), dir: dir}}
	pk.info = &types.Info{
		Types:      map[ast.Expr]types.TypeAndValue{},
		Defs:       map[*ast.Ident]types.Object{},
		Uses:       map[*ast.Ident]types.Object{},
		Selections: map[*ast.SelectorExpr]*types.Selection{},
	}
	pk.pkg, err = conf.Check("github.com/sqlc-dev/doubleclick/parser", pk.fset, pk.files, pk.info)
	must(err)

	pobj := pk.pkg.Scope().Lookup("Parser")
	if pobj == nil {
		must(fmt.Errorf("type Parser not found in package parser"))
	}
	pk.parserT = pobj.Type().(*types.Named)
	// token package
	for _, im := range pk.pkg.Imports() {
		if im.Name() == "token" {
			tobj := im.Scope().Lookup("Token")
			if tobj == nil {
				must(fmt.Errorf("token.Token not found"))
			}
			pk.tokenT = tobj.Type().(*types.Named)
			for _, n := range im.Scope().Names() {
				c, ok := im.Scope().Lookup(n).(*types.Const)
				if !ok || !types.Identical(c.Type(), pk.tokenT) {
					continue
				}
				v, ok := constant.Int64Val(c.Val())
				if !ok {
					continue
				}
				if _, dup := pk.tokNames[v]; !dup || ast.IsExported(n) {
					pk.tokNames[v] = n
				}
				if v > pk.maxTok {
					pk.maxTok = v
				}
				switch n {
				case "EOF":
					pk.eofVal = v
				case "keyword_beg":
					pk.kwBeg = v
				case "keyword_end":
					pk.kwEnd = v
				}
			}
		}
	}
	if pk.tokenT == nil {
		must(fmt.Errorf("package token not imported by package parser"))
	}

	// function table
	for _, f := range pk.files {
		for _, d := range f.Decls {
			fd, ok := d.(*ast.FuncDecl)
			if !ok || fd.Body == nil {
				continue
			}
			obj := pk.info.Defs[fd.Name].(*types.Func)
			fi := &fnInfo{name: fd.Name.Name, decl: fd, obj: obj, callees: map[*fnInfo]bool{}}
			if fd.Recv != nil {
				// receiver must be *Parser; methods of other types get a qualified name
				rt := obj.Type().(*types.Signature).Recv().Type()
				if !pk.isParserPtr(rt) {
					fi.name = types.TypeString(rt, func(*types.Package) string { return "" }) + "." + fd.Name.Name
				} else {
					switch fd.Name.Name {
					case "nextToken":
						fi.prim = "next"
					case "currentIs":
						fi.prim = "cur"
					case "peekIs":
						fi.prim = "peek"
					}
				}
			}
			if _, dup := pk.funcs[fi.name]; dup {
				must(fmt.Errorf("duplicate function name %s", fi.name))
			}
			pk.funcs[fi.name] = fi
			pk.byObj[obj] = fi
			sig := obj.Type().(*types.Signature)
			if sig.Results().Len() == 1 {
				if b, ok := sig.Results().At(0).Type().Underlying().(*types.Basic); ok && b.Kind() == types.Bool {
					fi.boolResult = true
				}
			}
		}
	}
	for n := range pk.funcs {
		pk.names = append(pk.names, n)
	}
	sort.Strings(pk.names)

	pk.checkIsKeyword()
	pk.checkPrimitives()
	pk.callGraph()
	return pk
}

func (pk *pkgInfo) checkIsKeyword() {
	fs := token.NewFileSet()
	f, err := parser.ParseFile(fs, filepath.Join(pk.repo, "token", "token.go"), nil, 0)
	if err != nil {
		return
	}
	for _, d := range f.Decls {
		fd, ok := d.(*ast.FuncDecl)
		if !ok || fd.Name.Name != "IsKeyword" || fd.Recv == nil || fd.Body == nil || len(fd.Body.List) != 1 {
			continue
		}
		rs, ok := fd.Body.List[0].(*ast.ReturnStmt)
		if !ok || len(rs.Results) != 1 || len(fd.Recv.List) != 1 || len(fd.Recv.List[0].Names) != 1 {
			continue
		}
		r := fd.Recv.List[0].Names[0].Name
		var sb strings.Builder
		printer.Fprint(&sb, fs, rs.Results[0])
		if sb.String() == r+" > keyword_beg && "+r+" < keyword_end" {
			pk.isKeywordIsRange = true
		}
	}
}

// dirImporter resolves imports with the parser directory as the source directory
// (so that the module's own packages are found through the go command).
type dirImporter struct {
	imp types.ImporterFrom
	dir string
}

func (d *dirImporter) Import(path string) (*types.Package, error) {
	return d.imp.ImportFrom(path, d.dir, 0)
}

func (pk *pkgInfo) isParserPtr(t types.Type) bool {
	if p, ok := t.(*types.Pointer); ok {
		return types.Identical(p.Elem(), pk.parserT)
	}
	return false
}

func (pk *pkgInfo) isParserExpr(e ast.Expr) bool {
	tv, ok := pk.info.Types[e]
	if !ok {
		return false
	}
	return pk.isParserPtr(tv.Type) || types.Identical(tv.Type, pk.parserT)
}

// parserField: e is X.<field> with X of type (*)Parser; returns the field name.
func (pk *pkgInfo) parserField(e ast.Expr) (string, bool) {
	se, ok := ast.Unparen(e).(*ast.SelectorExpr)
	if !ok {
		return "", false
	}
	if !pk.isParserExpr(se.X) {
		return "", false
	}
	sel := pk.info.Selections[se]
	if sel == nil || sel.Kind() != types.FieldVal {
		return "", false
	}
	return se.Sel.Name, true
}

// isCurField: e is X.current.<name>
func (pk *pkgInfo) isCurField(e ast.Expr, name string) bool {
	se, ok := ast.Unparen(e).(*ast.SelectorExpr)
	if !ok || se.Sel.Name != name {
		return false
	}
	f, ok := pk.parserField(se.X)
	return ok && f == "current"
}

// isPeekToken: e is X.peek.Token or X.peekPeek.Token
func (pk *pkgInfo) isPeekToken(e ast.Expr) bool {
	se, ok := ast.Unparen(e).(*ast.SelectorExpr)
	if !ok || se.Sel.Name != "Token" {
		return false
	}
	f, ok := pk.parserField(se.X)
	return ok && (f == "peek" || f == "peekPeek")
}

// tokenConst: e is a constant expression of type token.Token
func (pk *pkgInfo) tokenConst(e ast.Expr) (int64, bool) {
	tv, ok := pk.info.Types[e]
	if !ok || tv.Value == nil || !types.Identical(tv.Type, pk.tokenT) {
		return 0, false
	}
	v, ok := constant.Int64Val(tv.Value)
	if !ok || v < 0 || v > 4095 {
		return 0, false
	}
	return v, true
}

// calleeOf resolves the statically known callee declared in package parser, if any.
func (pk *pkgInfo) calleeOf(call *ast.CallExpr) *fnInfo {
	var id *ast.Ident
	switch f := ast.Unparen(call.Fun).(type) {
	case *ast.Ident:
		id = f
	case *ast.SelectorExpr:
		id = f.Sel
	default:
		return nil
	}
	if fo, ok := pk.info.Uses[id].(*types.Func); ok {
		return pk.byObj[fo]
	}
	return nil
}

// checkPrimitives verifies the assumptions about the three tick primitives and the
// parser state: verifTick is called only from them; current/peek/peekPeek/lexer are
// written only in nextToken and New.
func (pk *pkgInfo) checkPrimitives() {
	for _, p := range []string{"nextToken", "currentIs", "peekIs"} {
		if fi := pk.funcs[p]; fi == nil || fi.prim == "" {
			pk.problem(token.NoPos, "primitive (*Parser).%s not found", p)
		}
	}
	for _, name := range pk.names {
		fi := pk.funcs[name]
		ast.Inspect(fi.decl.Body, func(n ast.Node) bool {
			switch x := n.(type) {
			case *ast.CallExpr:
				if se, ok := ast.Unparen(x.Fun).(*ast.SelectorExpr); ok && se.Sel.Name == "verifTick" && fi.prim == "" {
					pk.problem(x.Pos(), "verifTick called outside the tick primitives (in %s)", name)
				}
				if c := pk.calleeOf(x); c != nil && (c.name == "New" || c.name == "Parse") && name != "Parse" {
					pk.problem(x.Pos(), "a second parser is created (in %s)", name)
				}
			case *ast.AssignStmt:
				for _, l := range x.Lhs {
					if pk.writesParserState(l) && name != "nextToken" && name != "New" {
						pk.problem(l.Pos(), "parser token state written outside nextToken (in %s)", name)
					}
				}
			case *ast.IncDecStmt:
				if pk.writesParserState(x.X) && name != "nextToken" && name != "New" {
					pk.problem(x.Pos(), "parser token state written outside nextToken (in %s)", name)
				}
			case *ast.UnaryExpr:
				if x.Op == token.AND && pk.writesParserState(x.X) {
					pk.problem(x.Pos(), "address of parser token state taken (in %s)", name)
				}
			case *ast.StarExpr:
				// *p = ... or x := *p (copy of the parser)
				if pk.isParserExpr(x.X) {
					pk.problem(x.Pos(), "parser dereferenced as a whole (in %s)", name)
				}
			case *ast.CompositeLit:
				if tv, ok := pk.info.Types[x]; ok && types.Identical(tv.Type, pk.parserT) && name != "New" {
					pk.problem(x.Pos(), "Parser value constructed outside New (in %s)", name)
				}
			case *ast.FuncLit:
				pk.problem(x.Pos(), "function literal (in %s)", name)
			case *ast.GoStmt:
				pk.problem(x.Pos(), "go statement (in %s)", name)
			case *ast.DeferStmt:
				pk.problem(x.Pos(), "defer statement (in %s)", name)
			}
			return true
		})
	}
}

// writesParserState: e is (a path below) X.current / X.peek / X.peekPeek / X.lexer
func (pk *pkgInfo) writesParserState(e ast.Expr) bool {
	for {
		e = ast.Unparen(e)
		if f, ok := pk.parserField(e); ok {
			return f == "current" || f == "peek" || f == "peekPeek" || f == "lexer"
		}
		switch x := e.(type) {
		case *ast.SelectorExpr:
			e = x.X
		case *ast.IndexExpr:
			e = x.X
		case *ast.StarExpr:
			e = x.X
		default:
			return false
		}
	}
}

func (pk *pkgInfo) callGraph() {
	for _, name := range pk.names {
		fi := pk.funcs[name]
		ast.Inspect(fi.decl.Body, func(n ast.Node) bool {
			if call, ok := n.(*ast.CallExpr); ok {
				if c := pk.calleeOf(call); c != nil {
					fi.callees[c] = true
				}
			}
			return true
		})
	}
	// relevant = reaches a primitive
	for _, fi := range pk.funcs {
		if fi.prim != "" {
			fi.relevant = true
		}
	}
	for changed := true; changed; {
		changed = false
		for _, fi := range pk.funcs {
			if fi.relevant {
				continue
			}
			for c := range fi.callees {
				if c.relevant {
					fi.relevant = true
					changed = true
					break
				}
			}
		}
	}
	// recursion (for inlining): fi reaches itself
	for _, fi := range pk.funcs {
		seen := map[*fnInfo]bool{}
		var dfs func(*fnInfo) bool
		dfs = func(g *fnInfo) bool {
			for c := range g.callees {
				if c == fi {
					return true
				}
				if !seen[c] {
					seen[c] = true
					if dfs(c) {
						return true
					}
				}
			}
			return false
		}
		fi.recursive = dfs(fi)
	}
	// function values: any use of a relevant function's identifier outside call position
	callFun := map[*ast.Ident]bool{}
	for _, f := range pk.files {
		ast.Inspect(f, func(n ast.Node) bool {
			if call, ok := n.(*ast.CallExpr); ok {
				switch fx := ast.Unparen(call.Fun).(type) {
				case *ast.Ident:
					callFun[fx] = true
				case *ast.SelectorExpr:
					callFun[fx.Sel] = true
				}
			}
			return true
		})
	}
	var ids []*ast.Ident
	for id := range pk.info.Uses {
		ids = append(ids, id)
	}
	sort.Slice(ids, func(i, j int) bool { return ids[i].Pos() < ids[j].Pos() })
	for _, id := range ids {
		if fo, ok := pk.info.Uses[id].(*types.Func); ok {
			if fi := pk.byObj[fo]; fi != nil && fi.relevant && !callFun[id] {
				pk.problem(id.Pos(), "function value of relevant function %s", fi.name)
			}
		}
	}
	// relevant methods on receivers other than *Parser are not supported
	for _, name := range pk.names {
		fi := pk.funcs[name]
		if fi.relevant && fi.decl.Recv != nil {
			rt := fi.obj.Type().(*types.Signature).Recv().Type()
			if !pk.isParserPtr(rt) {
				pk.problem(fi.decl.Pos(), "relevant method %s on a receiver other than *Parser", name)
			}
		}
	}
}

// hasRelevant: the subtree contains a call of a relevant function (incl. primitives)
func (pk *pkgInfo) hasRelevant(n ast.Node) bool {
	if n == nil {
		return false
	}
	if v, ok := pk.hasRelMem[n]; ok {
		return v
	}
	found := false
	ast.Inspect(n, func(m ast.Node) bool {
		if found {
			return false
		}
		switch x := m.(type) {
		case *ast.CallExpr:
			if c := pk.calleeOf(x); c != nil && c.relevant {
				found = true
			}
		case *ast.FuncLit:
			found = true
		}
		return !found
	})
	pk.hasRelMem[n] = found
	return found
}

// ---- token sets and facts ----

type tokset = *big.Int

func setOf(vs ...int64) tokset {
	s := new(big.Int)
	for _, v := range vs {
		s.SetBit(s, int(v), 1)
	}
	return s
}

// fact: a set of possible current-token kinds, finite (neg=false) or co-finite (neg=true).
type fact struct {
	neg bool
	set tokset
}

func factAny() fact          { return fact{true, new(big.Int)} }
func factNone() fact         { return fact{false, new(big.Int)} }
func (f fact) isEmpty() bool { return !f.neg && f.set.Sign() == 0 }
func (f fact) isAny() bool   { return f.neg && f.set.Sign() == 0 }
func (f fact) has(v int64) bool {
	return (f.set.Bit(int(v)) == 1) != f.neg
}
func (f fact) key() string {
	if f.neg {
		return "~" + f.set.Text(16)
	}
	return "=" + f.set.Text(16)
}
func (f fact) equal(g fact) bool { return f.neg == g.neg && f.set.Cmp(g.set) == 0 }

func (f fact) inter(s tokset) fact { // f ∩ s
	if f.neg {
		return fact{false, new(big.Int).AndNot(s, f.set)}
	}
	return fact{false, new(big.Int).And(f.set, s)}
}
func (f fact) minus(s tokset) fact { // f \ s
	if f.neg {
		return fact{true, new(big.Int).Or(f.set, s)}
	}
	return fact{false, new(big.Int).AndNot(f.set, s)}
}
func (f fact) union(g fact) fact {
	switch {
	case !f.neg && !g.neg:
		return fact{false, new(big.Int).Or(f.set, g.set)}
	case f.neg && g.neg:
		return fact{true, new(big.Int).And(f.set, g.set)}
	case f.neg:
		return fact{true, new(big.Int).AndNot(f.set, g.set)}
	default:
		return fact{true, new(big.Int).AndNot(g.set, f.set)}
	}
}
func (f fact) subsetOf(g fact) bool {
	switch {
	case !f.neg && !g.neg:
		return new(big.Int).AndNot(f.set, g.set).Sign() == 0
	case !f.neg && g.neg:
		return new(big.Int).And(f.set, g.set).Sign() == 0
	case f.neg && g.neg:
		return new(big.Int).AndNot(g.set, f.set).Sign() == 0
	default:
		return false
	}
}

// astCounts: call expressions of the tick primitives and of other relevant functions written in fi
func (pk *pkgInfo) astCounts(fi *fnInfo) (next, tick, call int) {
	ast.Inspect(fi.decl.Body, func(n ast.Node) bool {
		if x, ok := n.(*ast.CallExpr); ok {
			if c := pk.calleeOf(x); c != nil && c.relevant {
				switch c.prim {
				case "next":
					next++
				case "cur", "peek":
					tick++
				default:
					call++
				}
			}
		}
		return true
	})
	return
}

// loopPositions: for/range statements of fi in source order
func (pk *pkgInfo) loopPositions(fi *fnInfo) []token.Pos {
	var ps []token.Pos
	ast.Inspect(fi.decl.Body, func(n ast.Node) bool {
		switch n.(type) {
		case *ast.ForStmt, *ast.RangeStmt:
			ps = append(ps, n.Pos())
		}
		return true
	})
	return ps
}
