// readeruse regenerates coq/Gen/ReaderUse.v: the inventory of every way the code of /repo touches the
// io.Reader given to lexer.New / parser.New / parser.Parse.  It is the side condition of the C14/C15
// theorems (coq/Properties/C14.v, C15.v): the lexer model is parametric in a stream with the two
// operations Peek and ReadRune, and the parser is a function of the NextToken results and of
// Lexer.Err() only.  A new direct use of the reader changes one of the lists below and breaks the
// `reflexivity` proof of C14_reader_use.
//
// What is listed (package lexer and package parser are type-checked from source, for the build-tag
// sets {} and {verif}; the sites of both are merged; any parse or type error aborts with exit 2):
//
//	reader_uses               for every selector expression denoting the field Lexer.reader in package
//	                          lexer: the method selected on it (l.reader.Peek -> "Peek"); "<value>" if the
//	                          field is used in any other way (passed on, copied, compared, ...);
//	                          "<assign>" if it is assigned to
//	source_uses               the same for the field Lexer.source (l.source.err -> "err")
//	underlying_reader_uses    the same for errorTrackingReader.r, the user's io.Reader (e.r.Read -> "Read")
//	reader_inits, source_inits, underlying_reader_inits
//	                          the functions in which the field is set by a composite literal
//	lexer_uses_in_parser      the same for the field Parser.lexer in package parser
//	lexer_inits_in_parser     the functions of package parser in which Parser.lexer is set by a literal
//	io_reader_uses_in_parser  for every identifier of package parser whose type is io.Reader,
//	                          *bufio.Reader or bufio.Reader: the function it is passed to as an argument
//	                          ("lexer.New", "New"), "<other>" for any other use
//
// All lists are sorted and deduplicated.
package main

import (
	"bytes"
	"flag"
	"fmt"
	"go/ast"
	"go/build"
	"go/importer"
	"go/parser"
	"go/token"
	"go/types"
	"os"
	"path/filepath"
	"sort"
	"strings"
)

func must(err error) {
	if err != nil {
		fmt.Fprintln(os.Stderr, "readeruse:", err)
		os.Exit(2)
	}
}

func writeIfChanged(path string, data []byte) {
	old, err := os.ReadFile(path)
	if err == nil && bytes.Equal(old, data) {
		return
	}
	must(os.MkdirAll(filepath.Dir(path), 0o755))
	must(os.WriteFile(path, data, 0o644))
}

type loaded struct {
	pkg   *types.Package
	files []*ast.File
	info  *types.Info
}

type loader struct {
	repo, module string
	tags         []string
	fset         *token.FileSet
	std          types.Importer
	cache        map[string]*loaded
}

func (l *loader) Import(path string) (*types.Package, error) { return l.ImportFrom(path, "", 0) }

func (l *loader) ImportFrom(path, dir string, mode types.ImportMode) (*types.Package, error) {
	if path == l.module || strings.HasPrefix(path, l.module+"/") {
		rel := strings.TrimPrefix(strings.TrimPrefix(path, l.module), "/")
		ld, err := l.load(rel)
		if err != nil {
			return nil, err
		}
		return ld.pkg, nil
	}
	if from, ok := l.std.(types.ImporterFrom); ok {
		return from.ImportFrom(path, dir, mode)
	}
	return l.std.Import(path)
}

func (l *loader) load(rel string) (*loaded, error) {
	if ld, ok := l.cache[rel]; ok {
		if ld == nil {
			return nil, fmt.Errorf("import cycle through %s", rel)
		}
		return ld, nil
	}
	l.cache[rel] = nil
	dir := filepath.Join(l.repo, filepath.FromSlash(rel))
	ents, err := os.ReadDir(dir)
	if err != nil {
		return nil, err
	}
	ctx := build.Default
	ctx.BuildTags = l.tags
	ctx.CgoEnabled = false
	var files []*ast.File
	for _, e := range ents {
		n := e.Name()
		if e.IsDir() || !strings.HasSuffix(n, ".go") || strings.HasSuffix(n, "_test.go") {
			continue
		}
		ok, err := ctx.MatchFile(dir, n)
		if err != nil {
			return nil, err
		}
		if !ok {
			continue
		}
		f, err := parser.ParseFile(l.fset, filepath.Join(dir, n), nil, parser.SkipObjectResolution)
		if err != nil {
			return nil, err
		}
		files = append(files, f)
	}
	if len(files) == 0 {
		return nil, fmt.Errorf("no Go files in %s", dir)
	}
	info := &types.Info{
		Types:      map[ast.Expr]types.TypeAndValue{},
		Defs:       map[*ast.Ident]types.Object{},
		Uses:       map[*ast.Ident]types.Object{},
		Selections: map[*ast.SelectorExpr]*types.Selection{},
	}
	var firstErr error
	conf := types.Config{Importer: l, Error: func(err error) {
		if firstErr == nil {
			firstErr = err
		}
	}}
	ipath := l.module
	if rel != "" {
		ipath += "/" + rel
	}
	pkg, _ := conf.Check(ipath, l.fset, files, info)
	if firstErr != nil {
		return nil, fmt.Errorf("type-checking %s: %v", rel, firstErr)
	}
	ld := &loaded{pkg: pkg, files: files, info: info}
	l.cache[rel] = ld
	return ld, nil
}

func modulePath(repo string) string {
	data, err := os.ReadFile(filepath.Join(repo, "go.mod"))
	must(err)
	for _, ln := range strings.Split(string(data), "\n") {
		ln = strings.TrimSpace(ln)
		if strings.HasPrefix(ln, "module ") {
			return strings.TrimSpace(strings.TrimPrefix(ln, "module "))
		}
	}
	must(fmt.Errorf("no module line in go.mod"))
	return ""
}

// field returns the *types.Var of field `name` of the named struct type `typ` of pkg.
func field(pkg *types.Package, typ, name string) *types.Var {
	obj := pkg.Scope().Lookup(typ)
	if obj == nil {
		must(fmt.Errorf("type %s.%s not found", pkg.Path(), typ))
	}
	st, ok := obj.Type().Underlying().(*types.Struct)
	if !ok {
		must(fmt.Errorf("%s.%s is not a struct", pkg.Path(), typ))
	}
	for i := 0; i < st.NumFields(); i++ {
		if st.Field(i).Name() == name {
			return st.Field(i)
		}
	}
	must(fmt.Errorf("field %s.%s.%s not found", pkg.Path(), typ, name))
	return nil
}

type set map[string]bool

func (s set) sorted() []string {
	out := make([]string, 0, len(s))
	for k := range s {
		out = append(out, k)
	}
	sort.Strings(out)
	return out
}

// walk calls f for every node with the stack of its ancestors (innermost last, excluding the node).
func walk(n ast.Node, f func(n ast.Node, stack []ast.Node)) {
	var stack []ast.Node
	ast.Inspect(n, func(x ast.Node) bool {
		if x == nil {
			stack = stack[:len(stack)-1]
			return true
		}
		f(x, stack)
		stack = append(stack, x)
		return true
	})
}

func enclosingFunc(stack []ast.Node) string {
	for i := len(stack) - 1; i >= 0; i-- {
		if fd, ok := stack[i].(*ast.FuncDecl); ok {
			return fd.Name.Name
		}
	}
	return "<package>"
}

// fieldUses records how the field `fv` is used in the files of ld.
func fieldUses(ld *loaded, fv *types.Var, uses, inits set) {
	for _, file := range ld.files {
		walk(file, func(n ast.Node, stack []ast.Node) {
			switch x := n.(type) {
			case *ast.SelectorExpr:
				sel := ld.info.Selections[x]
				if sel == nil || sel.Obj() != types.Object(fv) {
					return
				}
				if len(stack) == 0 {
					uses["<value>"] = true
					return
				}
				switch p := stack[len(stack)-1].(type) {
				case *ast.SelectorExpr:
					if p.X == ast.Expr(x) {
						uses[p.Sel.Name] = true
						return
					}
				case *ast.AssignStmt:
					for _, l := range p.Lhs {
						if l == ast.Expr(x) {
							uses["<assign>"] = true
							return
						}
					}
				}
				uses["<value>"] = true
			case *ast.KeyValueExpr:
				if id, ok := x.Key.(*ast.Ident); ok && ld.info.Uses[id] == types.Object(fv) {
					inits[enclosingFunc(stack)] = true
				}
			}
		})
	}
}

func isReaderType(t types.Type) bool {
	if p, ok := t.(*types.Pointer); ok {
		t = p.Elem()
	}
	n, ok := t.(*types.Named)
	if !ok || n.Obj().Pkg() == nil {
		return false
	}
	q := n.Obj().Pkg().Path() + "." + n.Obj().Name()
	return q == "io.Reader" || q == "bufio.Reader"
}

func calleeName(ld *loaded, e ast.Expr) string {
	switch f := e.(type) {
	case *ast.Ident:
		return f.Name
	case *ast.SelectorExpr:
		if id, ok := f.X.(*ast.Ident); ok {
			if _, isPkg := ld.info.Uses[id].(*types.PkgName); isPkg {
				return id.Name + "." + f.Sel.Name
			}
		}
		return "<method>." + f.Sel.Name
	}
	return "<other>"
}

// ioReaderUses records, for every identifier use of reader type in ld, what it is passed to.
func ioReaderUses(ld *loaded, uses set) {
	for _, file := range ld.files {
		walk(file, func(n ast.Node, stack []ast.Node) {
			id, ok := n.(*ast.Ident)
			if !ok {
				return
			}
			obj, ok := ld.info.Uses[id].(*types.Var)
			if !ok || obj.IsField() || !isReaderType(obj.Type()) {
				return
			}
			if len(stack) > 0 {
				if call, ok := stack[len(stack)-1].(*ast.CallExpr); ok {
					for _, a := range call.Args {
						if a == ast.Expr(id) {
							uses[calleeName(ld, call.Fun)] = true
							return
						}
					}
				}
			}
			uses["<other>"] = true
		})
	}
}

func coqList(name string, xs []string) string {
	var b strings.Builder
	fmt.Fprintf(&b, "Definition %s : list string :=\n  [", name)
	for i, x := range xs {
		if i > 0 {
			b.WriteString("; ")
		}
		fmt.Fprintf(&b, "%q", x)
	}
	b.WriteString("].\n\n")
	return b.String()
}

func main() {
	repo := flag.String("repo", "/repo", "repository root")
	out := flag.String("out", "/verif/coq/Gen", "output directory for ReaderUse.v (a path ending in .v is taken as the file itself)")
	flag.Parse()
	absRepo, err := filepath.Abs(*repo)
	must(err)
	module := modulePath(absRepo)
	fset := token.NewFileSet()
	std := importer.ForCompiler(fset, "source", nil)

	readerUses, readerInits := set{}, set{}
	sourceUses, sourceInits := set{}, set{}
	underUses, underInits := set{}, set{}
	lexUses, lexInits := set{}, set{}
	ioUses := set{}

	for _, tags := range [][]string{nil, {"verif"}} {
		l := &loader{repo: absRepo, module: module, tags: tags, fset: fset, std: std, cache: map[string]*loaded{}}
		lx, err := l.load("lexer")
		must(err)
		ps, err := l.load("parser")
		must(err)
		fieldUses(lx, field(lx.pkg, "Lexer", "reader"), readerUses, readerInits)
		fieldUses(lx, field(lx.pkg, "Lexer", "source"), sourceUses, sourceInits)
		fieldUses(lx, field(lx.pkg, "errorTrackingReader", "r"), underUses, underInits)
		fieldUses(ps, field(ps.pkg, "Parser", "lexer"), lexUses, lexInits)
		ioReaderUses(ps, ioUses)
	}

	var b strings.Builder
	b.WriteString("(* GENERATED by /verif/translator/cmd/readeruse from /repo/lexer and /repo/parser -- do not edit.\n")
	b.WriteString("   Every way the code touches the io.Reader: see the header of cmd/readeruse/main.go. *)\n")
	b.WriteString("From Coq Require Import List String.\nImport ListNotations.\nLocal Open Scope string_scope.\n\n")
	b.WriteString(coqList("reader_uses", readerUses.sorted()))
	b.WriteString(coqList("reader_inits", readerInits.sorted()))
	b.WriteString(coqList("source_uses", sourceUses.sorted()))
	b.WriteString(coqList("source_inits", sourceInits.sorted()))
	b.WriteString(coqList("underlying_reader_uses", underUses.sorted()))
	b.WriteString(coqList("underlying_reader_inits", underInits.sorted()))
	b.WriteString(coqList("lexer_uses_in_parser", lexUses.sorted()))
	b.WriteString(coqList("lexer_inits_in_parser", lexInits.sorted()))
	b.WriteString(coqList("io_reader_uses_in_parser", ioUses.sorted()))
	outFile := *out
	if !strings.HasSuffix(outFile, ".v") {
		outFile = filepath.Join(outFile, "ReaderUse.v")
	}
	writeIfChanged(outFile, []byte(strings.TrimRight(b.String(), "\n")+"\n"))
}
