// depthgen regenerates coq/Gen/DepthUses.v (the inventory of every use of the `depth` / `indent`
// parameters and of every write to the output builder in internal/explain, used by the C07
// obligation), coq/Gen/DepthAllowed.v (the Coq rendering of checks/c07_allowed_sites.json) and
// build/depthgen_report.json (the same inventory for the python check).
//
// The package is type-checked from source for the build-tag sets {} and {verif}; sites are merged
// by key.  Any parse or type error aborts the run (exit 2): the inventory is never partial.
//
// WHAT IS INVENTORIED (see coq/Embed/DepthCheck.v for the soundness claim (D) that goes with it)
//
// Abstract values.  Inside a function with a parameter `depth int` and/or `indent string`:
//
//	D(k)  an int    expression equal to  depth + k                      (k >= 0 a constant)
//	I(k)  a  string expression equal to  <base> followed by k spaces    (k >= 0 a constant)
//
// where <base> is strings.Repeat(" ", depth) in a function that has `depth`, and the parameter
// `indent` otherwise.  In a function that has both, `indent` is I(0): this is the precondition
// "indent == strings.Repeat(" ", depth)" of the function, established by every call site being
// CONSISTENT (see `pairs`).  The derived expressions are
//
//	depth | indent | a derived local | (e) | e + c | c + e | e + "   " | strings.Repeat(" ", e)
//
// and a DERIVED LOCAL is a local variable all of whose assignments have a derived right-hand side
// of the same sort (several assignments give it a set of possible offsets, chosen by data).
//
// uses[]: every identifier occurrence of `depth`, `indent` or a derived local, classified by what
// the MAXIMAL derived expression E around it is used for:
//
//	indent-def     E (a string) is the right-hand side of the definition of a derived local
//	depth-def      E (an int)   is the right-hand side of the definition of a derived local
//	pass-deeper    E = D(k) is the argument for the parameter `depth`  of a function of the package
//	indent-pass    E = I(k) is the argument for the parameter `indent` of a function of the package
//	indent-prefix  E = I(j) is what a write puts at the START OF A LINE: the argument of a leading
//	               `%s` of fmt.Fprintf(sb, format, E, ...) (format constant; k = j + the number of
//	               literal spaces that follow the `%s`), or of sb.WriteString(E), with sb at a line start
//	depth-test     E is an operand of a comparison or the tag of a switch
//	other          anything else (arithmetic other than + constant, conversion, return value,
//	               argument for a differently named parameter or for a function outside the
//	               package, a `%s` that is not at a line start, capture by a function literal,
//	               re-assignment of the parameter itself, ...)
//
// raw_writes[]: every write to the output builder (a parameter of type *strings.Builder: calls of
// fmt.Fprintf/Fprint/Fprintln on it, its Write* methods) that is reached with the builder AT A LINE
// START (or in an unknown line state) and does not begin with an I(k) prefix; every use of the
// builder other than those writes and passing it on to a function of the package (`sb-escape`);
// writes of a function that owns its builder are `root-write`; a call of such a function from any
// function of the package is `nested-root`, unless the callee is a LINE ROOT: a value-returning
// function that renders into its own builder and hands out nothing but the text before the first
// "\n" (`line, _, _ := strings.Cut(sb.String(), "\n"); return line`, see isLineRoot) -- its result is
// a newline-free string depending on the data only, i.e. ordinary label data.  The line state (start / mid-line)
// is tracked through the statements of each function; a function is summarised as start->start
// (it writes whole lines) or mid->mid (it writes a fragment of the current line), and a call is
// checked against the summary of its callee.  A constant format with a "\n" in the middle is split
// there, each piece is treated as a write of its own.
//
// pairs[]: every call of a function of the package that has a `depth` and/or `indent` parameter,
// with the abstract values of the two arguments; CONSISTENT iff every such argument is derived,
// and, when the callee has both parameters, they are I(ki) and D(kd) with single offsets and
// ki - kd = skew(callee).  skew(f) is 0 unless ALL call sites of f pass one and the same other
// difference c; f is then analysed under the precondition indent == spaces(depth + c), listed with
// a skew key `pkg|f|indent == spaces(depth+c)`, and must be allow-listed (today
// explainTupleInInList, c = -1).  All offsets in the output are relative to spaces(depth).
// A call from a function that has no depth/indent parameter itself is a ROOT call; it is
// consistent iff it passes the constant depth 0 (and the empty indent): Explain: Node(&sb, stmt, 0).
//
// funcs[]: every function that has the builder, depth or indent among its parameters or owns a
// builder, with its line-state summary and skew key.
//
// Keys are `package|function|normalised text[ #n]`, no line numbers.
package main

import (
	"bytes"
	"encoding/json"
	"flag"
	"fmt"
	"go/ast"
	"go/build"
	"go/constant"
	"go/importer"
	"go/parser"
	"go/printer"
	"go/token"
	"go/types"
	"os"
	"path/filepath"
	"sort"
	"strconv"
	"strings"
)

func must(err error) {
	if err != nil {
		fmt.Fprintln(os.Stderr, "depthgen:", err)
		os.Exit(2)
	}
}

func writeIfChanged(path string, data []byte) {
	old, err := os.ReadFile(path)
	if err == nil && bytes.Equal(old, data) {
		return
	}
	must(os.MkdirAll(filepath.Dir(path), 0o755))
	must(os.WriteFile(path, data, 0o644))
}

// ---------------------------------------------------------------------------------------------
// inventory data

type Fn struct {
	Pkg       string `json:"pkg"`
	Name      string `json:"name"`
	HasSink   bool   `json:"has_sink"`
	HasIndent bool   `json:"has_indent"`
	HasDepth  bool   `json:"has_depth"`
	Summary   string `json:"summary"` // start | mid | none (no sink) | root (owns its builder) | line-root (root that hands out its first line only)
	Skew      int    `json:"skew"`    // the function is called with indent == strings.Repeat(" ", depth+skew)
	SkewKey   string `json:"skew_key,omitempty"`
	Where     string `json:"where"`
}

type Use struct {
	Pkg    string `json:"pkg"`
	Func   string `json:"func"`
	Var    string `json:"var"`  // the identifier that is used
	Kind   string `json:"kind"` // see the file comment
	K      []int  `json:"k"`    // the possible offsets of E (plus literal spaces for indent-prefix)
	Callee string `json:"callee,omitempty"`
	Text   string `json:"text"`
	Why    string `json:"why,omitempty"`
	Key    string `json:"key"`
	Where  string `json:"where"`
}

type Write struct {
	Pkg   string `json:"pkg"`
	Func  string `json:"func"`
	Kind  string `json:"kind"`  // raw-write | sb-escape | root-write | state-mismatch | nested-root
	State string `json:"state"` // line state at the write: start | mid | unknown
	Text  string `json:"text"`
	Why   string `json:"why"`
	Key   string `json:"key"`
	Where string `json:"where"`
}

type Pair struct {
	Pkg        string `json:"pkg"`
	Func       string `json:"func"`
	Callee     string `json:"callee"`
	IndentK    []int  `json:"indent_k"` // nil: callee has no indent parameter / argument not derived; relative to spaces(depth)
	DepthK     []int  `json:"depth_k"`
	Consistent bool   `json:"consistent"`
	Root       bool   `json:"root"` // call from a function without depth/indent with constant arguments
	Why        string `json:"why,omitempty"`
	Text       string `json:"text"`
	Key        string `json:"key"`
	Where      string `json:"where"`
}

type Inventory struct {
	Module string         `json:"module"`
	Funcs  []Fn           `json:"funcs"`
	Uses   []Use          `json:"uses"`
	Writes []Write        `json:"raw_writes"`
	Pairs  []Pair         `json:"pairs"`
	Stats  map[string]int `json:"stats"`
}

// ---------------------------------------------------------------------------------------------
// loading (as in cmd/sharedgen)

type loaded struct {
	rel   string
	pkg   *types.Package
	files []*ast.File
	info  *types.Info
}

type loader struct {
	repo, module string
	tags         []string
	fset         *token.FileSet
	std          types.Importer
	cache        map[string]*loaded
}

func (l *loader) Import(path string) (*types.Package, error) { return l.ImportFrom(path, "", 0) }

func (l *loader) ImportFrom(path, dir string, mode types.ImportMode) (*types.Package, error) {
	if path == l.module || strings.HasPrefix(path, l.module+"/") {
		rel := strings.TrimPrefix(strings.TrimPrefix(path, l.module), "/")
		ld, err := l.load(rel)
		if err != nil {
			return nil, err
		}
		return ld.pkg, nil
	}
	if from, ok := l.std.(types.ImporterFrom); ok {
		return from.ImportFrom(path, dir, mode)
	}
	return l.std.Import(path)
}

func (l *loader) load(rel string) (*loaded, error) {
	if ld, ok := l.cache[rel]; ok {
		if ld == nil {
			return nil, fmt.Errorf("import cycle through %s", rel)
		}
		return ld, nil
	}
	l.cache[rel] = nil
	dir := filepath.Join(l.repo, filepath.FromSlash(rel))
	ents, err := os.ReadDir(dir)
	if err != nil {
		return nil, err
	}
	ctx := build.Default
	ctx.BuildTags = l.tags
	ctx.CgoEnabled = false
	var files []*ast.File
	for _, e := range ents {
		n := e.Name()
		if e.IsDir() || !strings.HasSuffix(n, ".go") || strings.HasSuffix(n, "_test.go") {
			continue
		}
		ok, err := ctx.MatchFile(dir, n)
		if err != nil {
			return nil, err
		}
		if !ok {
			continue
		}
		f, err := parser.ParseFile(l.fset, filepath.Join(dir, n), nil, parser.ParseComments|parser.SkipObjectResolution)
		if err != nil {
			return nil, err
		}
		files = append(files, f)
	}
	if len(files) == 0 {
		return nil, fmt.Errorf("no Go files in %s", dir)
	}
	info := &types.Info{
		Types:      map[ast.Expr]types.TypeAndValue{},
		Defs:       map[*ast.Ident]types.Object{},
		Uses:       map[*ast.Ident]types.Object{},
		Selections: map[*ast.SelectorExpr]*types.Selection{},
		Implicits:  map[ast.Node]types.Object{},
	}
	var firstErr error
	conf := types.Config{Importer: l, Error: func(err error) {
		if firstErr == nil {
			firstErr = err
		}
	}}
	ipath := l.module
	if rel != "" {
		ipath += "/" + rel
	}
	pkg, _ := conf.Check(ipath, l.fset, files, info)
	if firstErr != nil {
		return nil, fmt.Errorf("type-checking %s: %v", rel, firstErr)
	}
	ld := &loaded{rel: rel, pkg: pkg, files: files, info: info}
	l.cache[rel] = ld
	return ld, nil
}

func modulePath(repo string) string {
	data, err := os.ReadFile(filepath.Join(repo, "go.mod"))
	must(err)
	for _, ln := range strings.Split(string(data), "\n") {
		ln = strings.TrimSpace(ln)
		if strings.HasPrefix(ln, "module ") {
			return strings.TrimSpace(strings.TrimPrefix(ln, "module "))
		}
	}
	must(fmt.Errorf("no module line in go.mod"))
	return ""
}

func nodeText(fset *token.FileSet, n ast.Node) string {
	var b bytes.Buffer
	cfg := printer.Config{Mode: printer.RawFormat}
	must(cfg.Fprint(&b, fset, n))
	return normText(b.String())
}

// normText collapses white space OUTSIDE string, rune and raw-string literals (inside them every
// byte counts: `indent + " "` and `indent + "  "` are different statements) and makes the text
// printable ASCII (other bytes become \xNN).
func normText(s string) string {
	var sb strings.Builder
	var quote byte // 0 outside a literal
	space := false
	for i := 0; i < len(s); i++ {
		c := s[i]
		if quote == 0 && (c == ' ' || c == '\t' || c == '\n' || c == '\r') {
			space = true
			continue
		}
		if space && sb.Len() > 0 {
			sb.WriteByte(' ')
		}
		space = false
		switch {
		case quote == 0 && (c == '"' || c == '\'' || c == '`'):
			quote = c
		case quote != 0 && quote != '`' && c == '\\' && i+1 < len(s):
			sb.WriteByte(c)
			i++
			c = s[i]
		case quote != 0 && c == quote:
			quote = 0
		}
		if c < 32 || c > 126 {
			fmt.Fprintf(&sb, "\\x%02x", c)
		} else {
			sb.WriteByte(c)
		}
	}
	return sb.String()
}

func funcName(fd *ast.FuncDecl) string {
	if fd.Recv == nil || len(fd.Recv.List) == 0 {
		return fd.Name.Name
	}
	t := fd.Recv.List[0].Type
	if s, ok := t.(*ast.StarExpr); ok {
		t = s.X
	}
	name := "?"
	if x, ok := t.(*ast.Ident); ok {
		name = x.Name
	}
	return name + "." + fd.Name.Name
}

// ---------------------------------------------------------------------------------------------
// abstract values

type sort_ int

const (
	sNone sort_ = iota
	sDepth
	sIndent
)

type aval struct {
	s  sort_
	ks []int // sorted, non-empty when s != sNone
}

func (a aval) ok() bool { return a.s != sNone }

func addK(ks []int, c int) []int {
	out := make([]int, len(ks))
	for i, k := range ks {
		out[i] = k + c
	}
	return out
}

func unionK(a, b []int) []int {
	m := map[int]bool{}
	for _, k := range a {
		m[k] = true
	}
	for _, k := range b {
		m[k] = true
	}
	out := make([]int, 0, len(m))
	for k := range m {
		out = append(out, k)
	}
	sort.Ints(out)
	return out
}

func eqK(a, b []int) bool {
	if len(a) != len(b) {
		return false
	}
	for i := range a {
		if a[i] != b[i] {
			return false
		}
	}
	return true
}

// ---------------------------------------------------------------------------------------------
// per-function analysis

type lineState int

const (
	stStart lineState = iota
	stMid
	stUnknown
	stDead // after return / panic: joins as the identity
)

func (s lineState) String() string {
	switch s {
	case stStart:
		return "start"
	case stMid:
		return "mid"
	case stDead:
		return "dead"
	}
	return "unknown"
}

func join(a, b lineState) lineState {
	switch {
	case a == stDead:
		return b
	case b == stDead:
		return a
	case a == b:
		return a
	}
	return stUnknown
}

type prefixKey struct {
	call *ast.CallExpr
	arg  int
}

type fnInfo struct {
	decl    *ast.FuncDecl
	name    string
	obj     *types.Func
	sink    *types.Var // parameter of type *strings.Builder (the first one)
	depth   *types.Var
	indent  *types.Var
	owns    []*types.Var // local strings.Builder variables whose address is passed to a sink function
	summary lineState    // stStart or stMid (pre == post); meaningful when sink != nil
	skew    int          // precondition of a function with both parameters: indent == spaces(depth+skew)
	// lineRoot: the function owns its builder and hands out NOTHING of it but the text before the
	// first "\n" (see isLineRoot): its result is a newline-free string that depends on the data only
	lineRoot bool
}

type analysis struct {
	l      *loader
	ld     *loaded
	inv    *Inventory
	tagStr string
	seen   map[string]bool
	ord    map[string]int
	fns    map[*types.Func]*fnInfo
	order  []*fnInfo
}

func (a *analysis) where(n ast.Node) string {
	pos := a.l.fset.Position(n.Pos())
	rel, _ := filepath.Rel(a.l.repo, pos.Filename)
	return fmt.Sprintf("%s:%d", filepath.ToSlash(rel), pos.Line)
}

// key allocates `pkg|func|text[ #n]`; n counts the occurrences of the same text in the same list
// and function in source order.  The second result says whether the key is new (not already
// recorded by the other tag set).
func (a *analysis) key(list, fn, text string) (string, bool) {
	base := a.ld.rel + "|" + fn + "|" + text
	ok := list + "\x00" + a.tagStr + "\x00" + base
	a.ord[ok]++
	key := base
	if a.ord[ok] > 1 {
		key = base + " #" + strconv.Itoa(a.ord[ok])
	}
	sk := list + "\x00" + key
	if a.seen[sk] {
		return key, false
	}
	a.seen[sk] = true
	return key, true
}

func isBuilderPtr(t types.Type) bool {
	p, ok := t.(*types.Pointer)
	if !ok {
		return false
	}
	return isBuilder(p.Elem())
}

func isBuilder(t types.Type) bool {
	n, ok := t.(*types.Named)
	if !ok {
		return false
	}
	o := n.Obj()
	return o.Name() == "Builder" && o.Pkg() != nil && o.Pkg().Path() == "strings"
}

func (a *analysis) collectFuncs() {
	for _, f := range a.ld.files {
		for _, d := range f.Decls {
			fd, ok := d.(*ast.FuncDecl)
			if !ok || fd.Body == nil {
				continue
			}
			obj, _ := a.ld.info.Defs[fd.Name].(*types.Func)
			if obj == nil {
				continue
			}
			fi := &fnInfo{decl: fd, name: funcName(fd), obj: obj, summary: stStart}
			sig := obj.Type().(*types.Signature)
			for i := 0; i < sig.Params().Len(); i++ {
				p := sig.Params().At(i)
				switch {
				case isBuilderPtr(p.Type()) && fi.sink == nil:
					fi.sink = p
				case p.Name() == "depth":
					fi.depth = p
				case p.Name() == "indent":
					fi.indent = p
				}
			}
			a.fns[obj] = fi
			a.order = append(a.order, fi)
		}
	}
	sort.SliceStable(a.order, func(i, j int) bool { return a.order[i].name < a.order[j].name })
}

// calleeOf resolves a call to a function of the analysed package.
func (a *analysis) calleeOf(call *ast.CallExpr) *fnInfo {
	var id *ast.Ident
	switch f := ast.Unparen(call.Fun).(type) {
	case *ast.Ident:
		id = f
	case *ast.SelectorExpr:
		id = f.Sel
	default:
		return nil
	}
	fn, _ := a.ld.info.Uses[id].(*types.Func)
	if fn == nil {
		return nil
	}
	return a.fns[fn]
}

// stdCall reports pkgpath.Name for a call of a function of another package (fmt.Fprintf ...).
func (a *analysis) stdCall(call *ast.CallExpr) string {
	sel, ok := ast.Unparen(call.Fun).(*ast.SelectorExpr)
	if !ok {
		return ""
	}
	fn, _ := a.ld.info.Uses[sel.Sel].(*types.Func)
	if fn == nil || fn.Pkg() == nil {
		return ""
	}
	if sig, ok := fn.Type().(*types.Signature); ok && sig.Recv() != nil {
		return ""
	}
	return fn.Pkg().Path() + "." + fn.Name()
}

// builderMethod reports the method name for a call sb.M(...) on a (pointer to a) strings.Builder.
func (a *analysis) builderMethod(call *ast.CallExpr) (recv ast.Expr, name string) {
	sel, ok := ast.Unparen(call.Fun).(*ast.SelectorExpr)
	if !ok {
		return nil, ""
	}
	s := a.ld.info.Selections[sel]
	if s == nil || s.Kind() != types.MethodVal {
		return nil, ""
	}
	t := s.Recv()
	if isBuilderPtr(t) || isBuilder(t) {
		return sel.X, sel.Sel.Name
	}
	return nil, ""
}

type fnAnalysis struct {
	a       *analysis
	fi      *fnInfo
	derived map[*types.Var]aval // derived locals (and the parameters themselves)
	tainted map[*types.Var]bool
	defs    map[*ast.Ident]bool       // identifier occurrences that are assignment targets
	prefix  map[prefixKey][]int       // write arguments accepted as line prefixes, with k
	parents map[ast.Node]ast.Node     // parent links of the body
	writes  []Write                   // raw writes found by the line-state pass
	exit    lineState                 // join of the states at the exits
	litOf   map[ast.Node]*ast.FuncLit // innermost enclosing function literal
}

func (fa *fnAnalysis) info() *types.Info { return fa.a.ld.info }

func (fa *fnAnalysis) varOf(e ast.Expr) *types.Var {
	id, ok := ast.Unparen(e).(*ast.Ident)
	if !ok {
		return nil
	}
	if v, ok := fa.info().Uses[id].(*types.Var); ok {
		return v
	}
	if v, ok := fa.info().Defs[id].(*types.Var); ok {
		return v
	}
	return nil
}

func (fa *fnAnalysis) constInt(e ast.Expr) (int, bool) {
	tv, ok := fa.info().Types[e]
	if !ok || tv.Value == nil || tv.Value.Kind() != constant.Int {
		return 0, false
	}
	v, exact := constant.Int64Val(tv.Value)
	if !exact || v < 0 || v > 1<<20 {
		return 0, false
	}
	return int(v), true
}

// constSpaces: e is a constant string of n spaces (n >= 0)
func (fa *fnAnalysis) constSpaces(e ast.Expr) (int, bool) {
	tv, ok := fa.info().Types[e]
	if !ok || tv.Value == nil || tv.Value.Kind() != constant.String {
		return 0, false
	}
	s := constant.StringVal(tv.Value)
	if strings.Trim(s, " ") != "" {
		return 0, false
	}
	return len(s), true
}

func (fa *fnAnalysis) constString(e ast.Expr) (string, bool) {
	tv, ok := fa.info().Types[e]
	if !ok || tv.Value == nil || tv.Value.Kind() != constant.String {
		return "", false
	}
	return constant.StringVal(tv.Value), true
}

// eval computes the abstract value of an expression.
func (fa *fnAnalysis) eval(e ast.Expr) aval {
	switch x := e.(type) {
	case *ast.ParenExpr:
		return fa.eval(x.X)
	case *ast.Ident:
		v := fa.varOf(x)
		if v == nil || fa.tainted[v] {
			return aval{}
		}
		if av, ok := fa.derived[v]; ok {
			return av
		}
	case *ast.BinaryExpr:
		if x.Op != token.ADD {
			return aval{}
		}
		l, r := fa.eval(x.X), fa.eval(x.Y)
		switch {
		case l.s == sDepth && !r.ok():
			if c, ok := fa.constInt(x.Y); ok {
				return aval{sDepth, addK(l.ks, c)}
			}
		case r.s == sDepth && !l.ok():
			if c, ok := fa.constInt(x.X); ok {
				return aval{sDepth, addK(r.ks, c)}
			}
		case l.s == sIndent && !r.ok():
			if c, ok := fa.constSpaces(x.Y); ok {
				return aval{sIndent, addK(l.ks, c)}
			}
		}
	case *ast.CallExpr:
		if fa.a.stdCall(x) == "strings.Repeat" && len(x.Args) == 2 {
			if c, ok := fa.constSpaces(x.Args[0]); ok && c == 1 {
				if d := fa.eval(x.Args[1]); d.s == sDepth && fa.fi.depth != nil {
					return aval{sIndent, d.ks}
				}
			}
		}
	}
	return aval{}
}

// findDerived computes the derived locals by iteration: a local is derived iff every assignment
// to it has a derived right-hand side of one sort; anything else taints it.
func (fa *fnAnalysis) findDerived() {
	fa.derived = map[*types.Var]aval{}
	fa.tainted = map[*types.Var]bool{}
	fa.defs = map[*ast.Ident]bool{}
	if fa.fi.depth != nil {
		fa.derived[fa.fi.depth] = aval{sDepth, []int{0}}
	}
	if fa.fi.indent != nil {
		k := 0
		if fa.fi.depth != nil {
			k = fa.fi.skew
		}
		fa.derived[fa.fi.indent] = aval{sIndent, []int{k}}
	}
	type asg struct {
		v   *types.Var
		rhs ast.Expr // nil: not a plain single-value assignment
	}
	var asgs []asg
	isParam := func(v *types.Var) bool { return v == fa.fi.depth || v == fa.fi.indent }
	record := func(lhs ast.Expr, rhs ast.Expr) {
		id, ok := ast.Unparen(lhs).(*ast.Ident)
		if !ok {
			return
		}
		v := fa.varOf(id)
		if v == nil {
			return
		}
		fa.defs[id] = true
		asgs = append(asgs, asg{v, rhs})
	}
	ast.Inspect(fa.fi.decl.Body, func(n ast.Node) bool {
		switch s := n.(type) {
		case *ast.AssignStmt:
			if (s.Tok == token.ASSIGN || s.Tok == token.DEFINE) && len(s.Lhs) == len(s.Rhs) {
				for i := range s.Lhs {
					record(s.Lhs[i], s.Rhs[i])
				}
			} else {
				for _, l := range s.Lhs {
					record(l, nil)
				}
			}
		case *ast.IncDecStmt:
			record(s.X, nil)
		case *ast.RangeStmt:
			if s.Key != nil {
				record(s.Key, nil)
			}
			if s.Value != nil {
				record(s.Value, nil)
			}
		case *ast.ValueSpec:
			for i, nm := range s.Names {
				if len(s.Values) == len(s.Names) {
					record(nm, s.Values[i])
				} else if len(s.Values) == 0 {
					// `var x T`: zero value; not derived, but harmless unless used as one
					record(nm, nil)
				} else {
					record(nm, nil)
				}
			}
		case *ast.UnaryExpr:
			if s.Op == token.AND {
				if v := fa.varOf(s.X); v != nil {
					asgs = append(asgs, asg{v, nil})
				}
			}
		}
		return true
	})
	// the parameters themselves must never be assigned
	for _, x := range asgs {
		if isParam(x.v) {
			fa.tainted[x.v] = true
			delete(fa.derived, x.v)
		}
	}
	for iter := 0; iter < 8; iter++ {
		cand := map[*types.Var]aval{}
		bad := map[*types.Var]bool{}
		for _, x := range asgs {
			if isParam(x.v) {
				continue
			}
			if x.rhs == nil {
				bad[x.v] = true
				continue
			}
			av := fa.eval(x.rhs)
			if !av.ok() {
				bad[x.v] = true
				continue
			}
			if old, ok := cand[x.v]; ok {
				if old.s != av.s {
					bad[x.v] = true
					continue
				}
				av.ks = unionK(old.ks, av.ks)
			}
			cand[x.v] = av
		}
		changed := false
		for v, av := range cand {
			if bad[v] {
				continue
			}
			if old, ok := fa.derived[v]; !ok || old.s != av.s || !eqK(old.ks, av.ks) {
				fa.derived[v] = av
				changed = true
			}
		}
		for v := range fa.derived {
			if isParam(v) {
				continue
			}
			if _, ok := cand[v]; !ok || bad[v] {
				delete(fa.derived, v)
				changed = true
			}
		}
		if !changed {
			break
		}
	}
}

func (fa *fnAnalysis) buildParents() {
	fa.parents = map[ast.Node]ast.Node{}
	fa.litOf = map[ast.Node]*ast.FuncLit{}
	var stack []ast.Node
	var lits []*ast.FuncLit
	ast.Inspect(fa.fi.decl.Body, func(n ast.Node) bool {
		if n == nil {
			top := stack[len(stack)-1]
			stack = stack[:len(stack)-1]
			if _, ok := top.(*ast.FuncLit); ok {
				lits = lits[:len(lits)-1]
			}
			return true
		}
		if len(stack) > 0 {
			fa.parents[n] = stack[len(stack)-1]
		}
		if len(lits) > 0 {
			fa.litOf[n] = lits[len(lits)-1]
		}
		stack = append(stack, n)
		if fl, ok := n.(*ast.FuncLit); ok {
			lits = append(lits, fl)
		}
		return true
	})
}

// ---------------------------------------------------------------------------------------------
// the line-state pass

type fmtPiece struct {
	lit  string // literal text (may contain "\n")
	verb byte   // 0 for a literal piece
	arg  int    // index into the operands for a verb piece
}

// parseFormat splits a constant format string; ok is false for formats using `*` or `[n]`.
func parseFormat(f string) (pieces []fmtPiece, ok bool) {
	arg := 0
	var lit strings.Builder
	for i := 0; i < len(f); i++ {
		c := f[i]
		if c != '%' {
			lit.WriteByte(c)
			continue
		}
		i++
		if i >= len(f) {
			return nil, false
		}
		if f[i] == '%' {
			lit.WriteByte('%')
			continue
		}
		for i < len(f) && strings.IndexByte("+-# 0123456789.", f[i]) >= 0 {
			i++
		}
		if i >= len(f) || f[i] == '*' || f[i] == '[' {
			return nil, false
		}
		if lit.Len() > 0 {
			pieces = append(pieces, fmtPiece{lit: lit.String()})
			lit.Reset()
		}
		pieces = append(pieces, fmtPiece{verb: f[i], arg: arg})
		arg++
	}
	if lit.Len() > 0 {
		pieces = append(pieces, fmtPiece{lit: lit.String()})
	}
	return pieces, true
}

func (fa *fnAnalysis) isSink(e ast.Expr) bool {
	return fa.fi.sink != nil && fa.varOf(e) == fa.fi.sink
}

func (fa *fnAnalysis) isOwned(e ast.Expr) bool {
	u, ok := ast.Unparen(e).(*ast.UnaryExpr)
	if ok && u.Op == token.AND {
		e = u.X
	}
	v := fa.varOf(e)
	if v == nil {
		return false
	}
	for _, o := range fa.fi.owns {
		if o == v {
			return true
		}
	}
	return false
}

func (fa *fnAnalysis) raw(n ast.Node, kind string, st lineState, why string) {
	fa.writes = append(fa.writes, Write{Pkg: fa.a.ld.rel, Func: fa.fi.name, Kind: kind, State: st.String(),
		Text: nodeText(fa.a.l.fset, n), Why: why, Where: fa.a.where(n)})
}

// literal text written mid-line: the state after it
func afterLiteral(st lineState, s string) lineState {
	if s == "" {
		return st
	}
	if strings.HasSuffix(s, "\n") {
		return stStart
	}
	if st == stStart || strings.Contains(s, "\n") {
		// text at a line start that is not an indent prefix: the caller reports it
		return stMid
	}
	return st
}

// writeFprintf interprets fmt.Fprintf(sb, format, operands...) from state st.
func (fa *fnAnalysis) writeFprintf(call *ast.CallExpr, st lineState, owned bool) lineState {
	kindRaw := "raw-write"
	if owned {
		kindRaw = "root-write"
	}
	if len(call.Args) < 2 {
		fa.raw(call, kindRaw, st, "Fprintf without a format")
		return stUnknown
	}
	format, ok := fa.constString(call.Args[1])
	if !ok {
		fa.raw(call, kindRaw, st, "format is not a constant")
		return stUnknown
	}
	pieces, ok := parseFormat(format)
	if !ok {
		fa.raw(call, kindRaw, st, "format uses * or [n]")
		return stUnknown
	}
	ops := call.Args[2:]
	reported := false
	report := func(why string) {
		if !reported {
			fa.raw(call, kindRaw, st, why)
			reported = true
		}
	}
	cur := st
	for pi := 0; pi < len(pieces); pi++ {
		p := pieces[pi]
		if p.verb == 0 {
			// literal text, possibly several lines
			rest := p.lit
			for rest != "" {
				nl := strings.IndexByte(rest, '\n')
				seg := rest
				if nl >= 0 {
					seg, rest = rest[:nl+1], rest[nl+1:]
				} else {
					rest = ""
				}
				if cur != stMid && seg != "\n" {
					report(fmt.Sprintf("literal text %q at a line %s without an indent prefix", seg, cur))
				} else if cur == stUnknown {
					report("write in an unknown line state")
				}
				if strings.HasSuffix(seg, "\n") {
					cur = stStart
				} else {
					cur = stMid
				}
			}
			continue
		}
		if p.arg >= len(ops) {
			report("format has more verbs than operands")
			return stUnknown
		}
		op := ops[p.arg]
		av := fa.eval(op)
		if cur == stStart && p.verb == 's' && av.s == sIndent && !owned {
			// an indent prefix: count the literal spaces that follow
			k := 0
			if pi+1 < len(pieces) && pieces[pi+1].verb == 0 {
				lit := pieces[pi+1].lit
				for k < len(lit) && lit[k] == ' ' {
					k++
				}
			}
			if ks := addK(av.ks, k); ks[0] >= 0 {
				fa.prefix[prefixKey{call, 2 + p.arg}] = ks
				cur = stMid
				continue
			}
		}
		if cur != stMid {
			if cur == stStart {
				report(fmt.Sprintf("operand %s of %%%c at a line start is not an indent prefix", nodeText(fa.a.l.fset, op), p.verb))
			} else {
				report("write in an unknown line state")
			}
		}
		cur = stMid
	}
	return cur
}

// callEffect interprets one call expression (its arguments have been interpreted already).
func (fa *fnAnalysis) callEffect(call *ast.CallExpr, st lineState) lineState {
	if fa.litOf[call] != nil {
		// inside a function literal: any touch of the builder is reported by checkSinkUses
		return st
	}
	std := fa.a.stdCall(call)
	switch std {
	case "fmt.Fprintf", "fmt.Fprint", "fmt.Fprintln":
		if len(call.Args) == 0 {
			return st
		}
		sink, owned := fa.isSink(call.Args[0]), fa.isOwned(call.Args[0])
		if !sink && !owned {
			return st // a write to some other writer (a local builder that is not an output)
		}
		if std == "fmt.Fprintf" {
			return fa.writeFprintf(call, st, owned)
		}
		kindRaw := "raw-write"
		if owned {
			kindRaw = "root-write"
		}
		cur := st
		if len(call.Args) > 1 {
			if cur != stMid {
				fa.raw(call, kindRaw, st, "operands written at a line "+cur.String()+" without an indent prefix")
			}
			cur = stMid
		}
		if std == "fmt.Fprintln" {
			cur = stStart
		}
		return cur
	}
	if recv, m := fa.a.builderMethod(call); recv != nil {
		sink, owned := fa.isSink(recv), fa.isOwned(recv)
		if !sink && !owned {
			return st
		}
		kindRaw := "raw-write"
		if owned {
			kindRaw = "root-write"
		}
		switch m {
		case "WriteString":
			if len(call.Args) == 1 {
				if av := fa.eval(call.Args[0]); av.s == sIndent && st == stStart && !owned && av.ks[0] >= 0 {
					fa.prefix[prefixKey{call, 0}] = av.ks
					return stMid
				}
				if s, ok := fa.constString(call.Args[0]); ok {
					if st != stMid && s != "\n" {
						fa.raw(call, kindRaw, st, fmt.Sprintf("literal text %q at a line %s without an indent prefix", s, st))
					}
					return afterLiteral(st, s)
				}
			}
			if st != stMid {
				fa.raw(call, kindRaw, st, "text written at a line "+st.String()+" without an indent prefix")
			}
			return stMid
		case "WriteByte", "WriteRune", "Write":
			if len(call.Args) == 1 {
				if tv, ok := fa.info().Types[call.Args[0]]; ok && tv.Value != nil {
					if v, ok := constant.Int64Val(constant.ToInt(tv.Value)); ok && v == '\n' {
						return stStart
					}
				}
			}
			if st != stMid {
				fa.raw(call, kindRaw, st, "text written at a line "+st.String()+" without an indent prefix")
			}
			return stMid
		case "String", "Len", "Cap":
			if sink {
				fa.raw(call, "sb-escape", st, "the output written so far is read back")
			}
			return st
		default:
			fa.raw(call, "sb-escape", st, "method "+m+" of the output builder")
			return stUnknown
		}
	}
	// a function of the package that takes the builder
	if cal := fa.a.calleeOf(call); cal != nil && cal.sink != nil {
		sig := cal.obj.Type().(*types.Signature)
		for i, arg := range call.Args {
			if i >= sig.Params().Len() || sig.Params().At(i) != cal.sink {
				continue
			}
			sink, owned := fa.isSink(arg), fa.isOwned(arg)
			if !sink && !owned {
				return st
			}
			if cal.summary != st {
				fa.raw(call, "state-mismatch", st, fmt.Sprintf("%s expects the builder at a line %s", cal.name, cal.summary))
				return stUnknown
			}
			return st
		}
	}
	return st
}

// exprEffect interprets the calls of an expression in evaluation order (operands before the call).
func (fa *fnAnalysis) exprEffect(e ast.Node, st lineState) lineState {
	if e == nil {
		return st
	}
	var walk func(n ast.Node)
	walk = func(n ast.Node) {
		switch x := n.(type) {
		case nil:
			return
		case *ast.FuncLit:
			return
		case *ast.CallExpr:
			walk(x.Fun)
			for _, a := range x.Args {
				walk(a)
			}
			st = fa.callEffect(x, st)
			return
		case *ast.BinaryExpr:
			if x.Op == token.LAND || x.Op == token.LOR {
				walk(x.X)
				before := st
				walk(x.Y)
				st = join(before, st)
				return
			}
		}
		ast.Inspect(n, func(c ast.Node) bool {
			if c == n || c == nil {
				return true
			}
			walk(c)
			return false
		})
	}
	walk(e)
	return st
}

// loopCtx is an enclosing loop (break and continue must arrive in the entry state, which is also
// the state after the loop) or an enclosing switch (break joins into the state after the switch).
type loopCtx struct {
	entry    lineState
	isSwitch bool
	breaks   *lineState
}

func (fa *fnAnalysis) block(stmts []ast.Stmt, st lineState, loops []loopCtx) lineState {
	for _, s := range stmts {
		st = fa.stmt(s, st, loops)
	}
	return st
}

func (fa *fnAnalysis) jumpTo(n ast.Node, st, want lineState, what string) {
	if st != stDead && st != want {
		fa.raw(n, "state-mismatch", st, what+" reached at a line "+st.String()+", the loop was entered at a line "+want.String())
	}
}

func (fa *fnAnalysis) stmt(s ast.Stmt, st lineState, loops []loopCtx) lineState {
	if st == stDead {
		return st
	}
	switch x := s.(type) {
	case nil:
		return st
	case *ast.BlockStmt:
		return fa.block(x.List, st, loops)
	case *ast.ExprStmt:
		st = fa.exprEffect(x.X, st)
		if call, ok := x.X.(*ast.CallExpr); ok {
			if id, ok := call.Fun.(*ast.Ident); ok && id.Name == "panic" {
				if _, isBuiltin := fa.info().Uses[id].(*types.Builtin); isBuiltin {
					return stDead
				}
			}
		}
		return st
	case *ast.AssignStmt:
		for _, r := range x.Rhs {
			st = fa.exprEffect(r, st)
		}
		for _, l := range x.Lhs {
			st = fa.exprEffect(l, st)
		}
		return st
	case *ast.DeclStmt:
		return fa.exprEffect(x.Decl, st)
	case *ast.IncDecStmt:
		return fa.exprEffect(x.X, st)
	case *ast.SendStmt:
		return fa.exprEffect(x.Value, fa.exprEffect(x.Chan, st))
	case *ast.ReturnStmt:
		for _, r := range x.Results {
			st = fa.exprEffect(r, st)
		}
		fa.exit = join(fa.exit, st)
		return stDead
	case *ast.BranchStmt:
		switch x.Tok {
		case token.BREAK, token.CONTINUE:
			if x.Label != nil || len(loops) == 0 {
				fa.raw(x, "state-mismatch", st, "labelled or stray branch")
				return stDead
			}
			for i := len(loops) - 1; i >= 0; i-- {
				c := loops[i]
				if c.isSwitch {
					if x.Tok == token.BREAK {
						*c.breaks = join(*c.breaks, st)
						return stDead
					}
					continue // `continue` looks for the loop
				}
				fa.jumpTo(x, st, c.entry, x.Tok.String())
				return stDead
			}
			fa.raw(x, "state-mismatch", st, "continue outside a loop")
			return stDead
		case token.FALLTHROUGH:
			return st
		default:
			fa.raw(x, "state-mismatch", st, "goto")
			return stDead
		}
	case *ast.IfStmt:
		st = fa.stmt(x.Init, st, loops)
		st = fa.exprEffect(x.Cond, st)
		a := fa.block(x.Body.List, st, loops)
		b := st
		if x.Else != nil {
			b = fa.stmt(x.Else, st, loops)
		}
		return join(a, b)
	case *ast.ForStmt:
		st = fa.stmt(x.Init, st, loops)
		st = fa.exprEffect(x.Cond, st)
		out := fa.block(x.Body.List, st, append(loops, loopCtx{entry: st}))
		out = fa.stmt(x.Post, out, loops)
		fa.jumpTo(x, out, st, "end of the loop body")
		return st
	case *ast.RangeStmt:
		st = fa.exprEffect(x.X, st)
		out := fa.block(x.Body.List, st, append(loops, loopCtx{entry: st}))
		fa.jumpTo(x, out, st, "end of the loop body")
		return st
	case *ast.SwitchStmt:
		st = fa.stmt(x.Init, st, loops)
		st = fa.exprEffect(x.Tag, st)
		return fa.clauses(x.Body, st, loops)
	case *ast.TypeSwitchStmt:
		st = fa.stmt(x.Init, st, loops)
		st = fa.stmt(x.Assign, st, loops)
		return fa.clauses(x.Body, st, loops)
	case *ast.LabeledStmt:
		return fa.stmt(x.Stmt, st, loops)
	case *ast.DeferStmt, *ast.GoStmt, *ast.SelectStmt:
		touches := false
		ast.Inspect(x, func(n ast.Node) bool {
			if id, ok := n.(*ast.Ident); ok && fa.fi.sink != nil && fa.info().Uses[id] == fa.fi.sink {
				touches = true
			}
			return true
		})
		if touches {
			fa.raw(x, "sb-escape", st, "defer/go/select touching the output builder")
			return stUnknown
		}
		return st
	case *ast.EmptyStmt:
		return st
	}
	fa.raw(s, "state-mismatch", st, fmt.Sprintf("unhandled statement %T", s))
	return stUnknown
}

// clauses: a switch; break leaves the switch (its state joins the exit state), continue goes to the loop
func (fa *fnAnalysis) clauses(body *ast.BlockStmt, st lineState, loops []loopCtx) lineState {
	out := stDead
	breaks := stDead
	hasDefault := false
	for _, c := range body.List {
		cc, ok := c.(*ast.CaseClause)
		if !ok {
			continue
		}
		if cc.List == nil {
			hasDefault = true
		}
		in := st
		for _, e := range cc.List {
			in = fa.exprEffect(e, in)
		}
		o := fa.block(cc.Body, in, append(loops, loopCtx{entry: st, isSwitch: true, breaks: &breaks}))
		out = join(out, o)
	}
	out = join(out, breaks)
	if !hasDefault {
		out = join(out, st)
	}
	return out
}

// runLineState analyses the body from the given entry state; it returns the raw writes found and
// whether the function is state-preserving (every exit in the entry state).
func (fa *fnAnalysis) runLineState(entry lineState) (writes []Write, preserving bool) {
	fa.writes = nil
	fa.prefix = map[prefixKey][]int{}
	fa.exit = stDead
	end := fa.block(fa.fi.decl.Body.List, entry, nil)
	fa.exit = join(fa.exit, end)
	return fa.writes, fa.exit == entry || fa.exit == stDead
}

// ---------------------------------------------------------------------------------------------
// classification of the uses

func (fa *fnAnalysis) maximal(id *ast.Ident) (ast.Expr, aval) {
	var e ast.Expr = id
	av := fa.eval(id)
	for {
		p, ok := fa.parents[e].(ast.Expr)
		if !ok {
			break
		}
		pav := fa.eval(p)
		if !pav.ok() {
			// strings.Repeat(" ", E): the argument list is not an Expr parent, handled by eval(p)
			break
		}
		e, av = p, pav
	}
	return e, av
}

func paramName(sig *types.Signature, i int) string {
	if i < sig.Params().Len() {
		return sig.Params().At(i).Name()
	}
	return "?"
}

func (fa *fnAnalysis) classifyUses() {
	a := fa.a
	add := func(id *ast.Ident, kind string, ks []int, callee string, textNode ast.Node, why string) {
		text := nodeText(a.l.fset, textNode)
		key, fresh := a.key("uses", fa.fi.name, text)
		if !fresh {
			return
		}
		a.inv.Uses = append(a.inv.Uses, Use{Pkg: a.ld.rel, Func: fa.fi.name, Var: id.Name, Kind: kind, K: ks, Callee: callee,
			Text: text, Why: why, Key: key, Where: a.where(id)})
	}
	var idents []*ast.Ident
	ast.Inspect(fa.fi.decl.Body, func(n ast.Node) bool {
		id, ok := n.(*ast.Ident)
		if !ok {
			return true
		}
		v, _ := fa.info().Uses[id].(*types.Var)
		if v == nil {
			return true // not a variable, or the defining occurrence of `x := ...`
		}
		_, isDerived := fa.derived[v]
		isParam := v == fa.fi.depth || v == fa.fi.indent
		if !isDerived && !isParam && !fa.tainted[v] {
			return true
		}
		if fa.tainted[v] && !isParam {
			// a local that once held a derived value but is not derived: its defining right-hand
			// sides are reported as `other` where they use depth/indent; its own uses are data
			return true
		}
		idents = append(idents, id)
		return true
	})
	for _, id := range idents {
		v := fa.info().Uses[id].(*types.Var)
		if fa.defs[id] {
			if v == fa.fi.depth || v == fa.fi.indent {
				add(id, "other", nil, "", fa.parents[id], "the parameter is assigned")
			}
			continue // assignment target of a derived local
		}
		if fa.tainted[v] {
			add(id, "other", nil, "", fa.parents[id], "use of a parameter that is assigned in the function")
			continue
		}
		if fa.litOf[id] != nil {
			add(id, "other", nil, "", fa.litOf[id], "captured by a function literal")
			continue
		}
		e, av := fa.maximal(id)
		parent := fa.parents[e]
		// strings.Repeat(" ", E) where the result is not derived (no depth parameter ...)
		switch p := parent.(type) {
		case *ast.AssignStmt:
			done := false
			for i, r := range p.Rhs {
				if r == e && len(p.Lhs) == len(p.Rhs) {
					if lv := fa.varOf(p.Lhs[i]); lv != nil {
						if _, ok := fa.derived[lv]; ok && lv != fa.fi.depth && lv != fa.fi.indent {
							kind := "indent-def"
							if av.s == sDepth {
								kind = "depth-def"
							}
							add(id, kind, av.ks, "", p, "")
							done = true
						}
					}
				}
			}
			if !done {
				add(id, "other", av.ks, "", p, "assigned to something that is not a derived local")
			}
		case *ast.ValueSpec:
			done := false
			for i, r := range p.Values {
				if r == e && len(p.Names) == len(p.Values) {
					if lv := fa.varOf(p.Names[i]); lv != nil {
						if _, ok := fa.derived[lv]; ok {
							kind := "indent-def"
							if av.s == sDepth {
								kind = "depth-def"
							}
							add(id, kind, av.ks, "", p, "")
							done = true
						}
					}
				}
			}
			if !done {
				add(id, "other", av.ks, "", p, "initialises something that is not a derived local")
			}
		case *ast.CallExpr:
			argIdx := -1
			for i, x := range p.Args {
				if x == e {
					argIdx = i
				}
			}
			if argIdx < 0 {
				add(id, "other", av.ks, "", p, "used as the function of a call")
				break
			}
			if ks, ok := fa.prefix[prefixKey{p, argIdx}]; ok {
				add(id, "indent-prefix", ks, "", p, "")
				break
			}
			if recv, m := a.builderMethod(p); recv != nil && m == "WriteString" {
				if ks, ok := fa.prefix[prefixKey{p, 0}]; ok && argIdx == 0 {
					add(id, "indent-prefix", ks, "", p, "")
					break
				}
			}
			if cal := a.calleeOf(p); cal != nil {
				sig := cal.obj.Type().(*types.Signature)
				if sig.Variadic() && argIdx >= sig.Params().Len()-1 {
					add(id, "other", av.ks, cal.name, p, "passed in the variadic part")
					break
				}
				pv := sig.Params().At(argIdx)
				switch {
				case av.s == sDepth && pv == cal.depth:
					add(id, "pass-deeper", av.ks, cal.name, p, "")
				case av.s == sIndent && pv == cal.indent:
					add(id, "indent-pass", av.ks, cal.name, p, "")
				default:
					add(id, "other", av.ks, cal.name, p, "argument for parameter `"+paramName(sig, argIdx)+"` of "+cal.name)
				}
				break
			}
			why := "argument of a call outside the package"
			if std := a.stdCall(p); std != "" {
				why = "argument of " + std
				if strings.HasPrefix(std, "fmt.Fprint") {
					why += " that is not an indent prefix at a line start"
				}
			}
			add(id, "other", av.ks, "", p, why)
		case *ast.BinaryExpr:
			switch p.Op {
			case token.EQL, token.NEQ, token.LSS, token.GTR, token.LEQ, token.GEQ:
				add(id, "depth-test", av.ks, "", p, "")
			default:
				add(id, "other", av.ks, "", p, "operand of "+p.Op.String())
			}
		case *ast.SwitchStmt:
			add(id, "depth-test", av.ks, "", p.Tag, "switch tag")
		case *ast.CaseClause:
			add(id, "depth-test", av.ks, "", e, "case expression")
		default:
			var n ast.Node = e
			if parent != nil {
				n = parent
			}
			add(id, "other", av.ks, "", n, fmt.Sprintf("used in %T", parent))
		}
	}
}

// classifyPairs records every call of a package function that has depth/indent parameters.
func (fa *fnAnalysis) classifyPairs() {
	a := fa.a
	ast.Inspect(fa.fi.decl.Body, func(n ast.Node) bool {
		call, ok := n.(*ast.CallExpr)
		if !ok {
			return true
		}
		cal := a.calleeOf(call)
		if cal == nil || (cal.depth == nil && cal.indent == nil) {
			return true
		}
		sig := cal.obj.Type().(*types.Signature)
		var iav, dav aval
		var iarg, darg ast.Expr
		for i, arg := range call.Args {
			if i >= sig.Params().Len() {
				break
			}
			switch sig.Params().At(i) {
			case cal.depth:
				darg, dav = arg, fa.eval(arg)
			case cal.indent:
				iarg, iav = arg, fa.eval(arg)
			}
		}
		p := Pair{Pkg: a.ld.rel, Func: fa.fi.name, Callee: cal.name, Where: a.where(call)}
		if iav.s == sIndent {
			p.IndentK = iav.ks
		}
		if dav.s == sDepth {
			p.DepthK = dav.ks
		}
		callerHas := fa.fi.depth != nil || fa.fi.indent != nil
		switch {
		case fa.litOf[call] != nil:
			p.Why = "call inside a function literal"
		case !callerHas:
			// a root: constant depth 0 (and, if the callee has it, the empty indent)
			okD := cal.depth == nil
			if darg != nil {
				if c, ok := fa.constInt(darg); ok && c == 0 {
					okD = true
				}
			}
			okI := cal.indent == nil
			if iarg != nil {
				if c, ok := fa.constSpaces(iarg); ok && c == 0 {
					okI = true
				}
			}
			p.Root = true
			p.Consistent = okD && okI
			if !p.Consistent {
				p.Why = "root call with a depth other than the constant 0 or a non-empty indent"
			}
		case cal.depth != nil && dav.s != sDepth:
			p.Why = "the depth argument is not depth + constant"
		case cal.indent != nil && iav.s != sIndent:
			p.Why = "the indent argument is not indent + spaces"
		case cal.depth != nil && cal.indent != nil:
			if len(iav.ks) == 1 && len(dav.ks) == 1 && iav.ks[0]-dav.ks[0] == cal.skew {
				p.Consistent = true
			} else {
				p.Why = fmt.Sprintf("spaces(depth + %v) together with depth + %v, the callee expects the difference %d", iav.ks, dav.ks, cal.skew)
			}
		default:
			p.Consistent = true
		}
		text := nodeText(a.l.fset, call)
		key, fresh := a.key("pairs", fa.fi.name, text)
		if fresh {
			p.Text, p.Key = text, key
			a.inv.Pairs = append(a.inv.Pairs, p)
		}
		return true
	})
}

// checkNestedRoots reports calls, from ANY function of the package, of a function that owns an
// output builder of its own (Explain, ExplainStatements): the text of such a nested rendering
// starts at depth 0 whatever the depth of the caller and has several lines; it could only reach the
// caller's output as data, where every line after the first would be a line of the caller's text
// that no depth shifts.  (Reported for value-returning callers too: their result may be inserted
// by a printing function.)  A LINE ROOT (isLineRoot) is not reported: what it returns is a string
// without "\n" that depends on the data only -- an ordinary piece of a label.  Where the caller
// writes it is checked like any other data by the line-state pass (text at a line start that is
// not an indent prefix is a raw-write).
func (fa *fnAnalysis) checkNestedRoots() {
	ast.Inspect(fa.fi.decl.Body, func(n ast.Node) bool {
		call, ok := n.(*ast.CallExpr)
		if !ok {
			return true
		}
		if cal := fa.a.calleeOf(call); cal != nil && len(cal.owns) > 0 && !cal.lineRoot {
			fa.raw(call, "nested-root", stUnknown, cal.name+" renders into a builder of its own, starting at depth 0, and hands out more than its first line")
		}
		return true
	})
}

// isLineRoot recognises the one shape in which a nested rendering is harmless:
//
//	func f(data...) string {            no builder, depth or indent parameter
//		...
//		var sb strings.Builder            exactly one owned builder
//		Node(&sb, x, 0)                   handed to functions of the package (root calls, checked as pairs)
//		line, _, _ := strings.Cut(sb.String(), "\n")     the ONLY other use of sb
//		return line                       every result is `line` or a constant without "\n"
//	}
//
// strings.Cut returns the text before the first separator (the whole text if there is none), so
// `line` contains no "\n" whatever was rendered; f has no depth/indent parameter, so `line` is a
// function of the data alone.
func (fa *fnAnalysis) isLineRoot() bool {
	fi := fa.fi
	if fi.sink != nil || fi.depth != nil || fi.indent != nil || len(fi.owns) == 0 {
		return false
	}
	own := fi.owns[0]
	for _, o := range fi.owns {
		if o != own {
			return false
		}
	}
	var line *types.Var
	ok := true
	ast.Inspect(fi.decl.Body, func(n ast.Node) bool {
		if _, isLit := n.(*ast.FuncLit); isLit {
			ok = false // keep it simple: no function literals in a line root
			return false
		}
		id, isId := n.(*ast.Ident)
		if !isId || fa.info().Uses[id] != own {
			return true
		}
		// &sb as the builder argument of a function of the package
		if u, isU := fa.parents[id].(*ast.UnaryExpr); isU && u.Op == token.AND {
			if call, isCall := fa.parents[u].(*ast.CallExpr); isCall {
				if cal := fa.a.calleeOf(call); cal != nil && cal.sink != nil {
					sig := cal.obj.Type().(*types.Signature)
					for i, arg := range call.Args {
						if arg == u && i < sig.Params().Len() && sig.Params().At(i) == cal.sink {
							return true
						}
					}
				}
			}
			ok = false
			return true
		}
		// sb.String() as the first argument of strings.Cut(., "\n") in `line, _, _ := ...`
		sel, isSel := fa.parents[id].(*ast.SelectorExpr)
		if !isSel || sel.X != id || sel.Sel.Name != "String" {
			ok = false
			return true
		}
		strCall, isCall := fa.parents[sel].(*ast.CallExpr)
		if !isCall || strCall.Fun != sel {
			ok = false
			return true
		}
		cut, isCut := fa.parents[strCall].(*ast.CallExpr)
		if !isCut || fa.a.stdCall(cut) != "strings.Cut" || len(cut.Args) != 2 || cut.Args[0] != strCall {
			ok = false
			return true
		}
		if sep, isConst := fa.constString(cut.Args[1]); !isConst || sep != "\n" {
			ok = false
			return true
		}
		asg, isAsg := fa.parents[cut].(*ast.AssignStmt)
		if !isAsg || len(asg.Lhs) != 3 || len(asg.Rhs) != 1 || line != nil {
			ok = false
			return true
		}
		blank := func(e ast.Expr) bool { b, isB := e.(*ast.Ident); return isB && b.Name == "_" }
		if !blank(asg.Lhs[1]) || !blank(asg.Lhs[2]) {
			ok = false
			return true
		}
		if line = fa.varOf(asg.Lhs[0]); line == nil {
			ok = false
		}
		return true
	})
	if !ok || line == nil {
		return false
	}
	// `line` is assigned once (by the Cut) and every result is `line` or a newline-free constant
	ast.Inspect(fi.decl.Body, func(n ast.Node) bool {
		switch x := n.(type) {
		case *ast.AssignStmt:
			for _, l := range x.Lhs {
				if fa.varOf(l) == line {
					if c, isCall := x.Rhs[0].(*ast.CallExpr); !isCall || len(x.Rhs) != 1 || fa.a.stdCall(c) != "strings.Cut" {
						ok = false
					}
				}
			}
		case *ast.IncDecStmt:
			if fa.varOf(x.X) == line {
				ok = false
			}
		case *ast.UnaryExpr:
			if x.Op == token.AND && fa.varOf(x.X) == line {
				ok = false
			}
		case *ast.ReturnStmt:
			if len(x.Results) != 1 {
				ok = false
				break
			}
			if fa.varOf(x.Results[0]) == line {
				break
			}
			if c, isConst := fa.constString(x.Results[0]); !isConst || strings.Contains(c, "\n") {
				ok = false
			}
		}
		return true
	})
	sig := fi.obj.Type().(*types.Signature)
	if sig.Results().Len() != 1 {
		return false
	}
	return ok
}

// checkSinkUses reports every use of the builder parameter that is not a recognised write or a
// hand-over to a function of the package.
func (fa *fnAnalysis) checkSinkUses() {
	if fa.fi.sink == nil {
		return
	}
	ast.Inspect(fa.fi.decl.Body, func(n ast.Node) bool {
		id, ok := n.(*ast.Ident)
		if !ok || fa.info().Uses[id] != fa.fi.sink {
			return true
		}
		if fa.litOf[id] != nil {
			fa.raw(fa.litOf[id], "sb-escape", stUnknown, "the output builder is captured by a function literal")
			return true
		}
		switch p := fa.parents[id].(type) {
		case *ast.CallExpr:
			for i, x := range p.Args {
				if x != id {
					continue
				}
				if std := fa.a.stdCall(p); i == 0 && (std == "fmt.Fprintf" || std == "fmt.Fprint" || std == "fmt.Fprintln") {
					return true
				}
				if cal := fa.a.calleeOf(p); cal != nil {
					sig := cal.obj.Type().(*types.Signature)
					if i < sig.Params().Len() && sig.Params().At(i) == cal.sink {
						return true
					}
				}
			}
		case *ast.SelectorExpr:
			if call, ok := fa.parents[p].(*ast.CallExpr); ok && call.Fun == p {
				if recv, _ := fa.a.builderMethod(call); recv == id {
					return true
				}
			}
		}
		fa.raw(fa.parents[id], "sb-escape", stUnknown, "the output builder is used other than by a write or a hand-over")
		return true
	})
}

func (fa *fnAnalysis) findOwned() {
	ast.Inspect(fa.fi.decl.Body, func(n ast.Node) bool {
		call, ok := n.(*ast.CallExpr)
		if !ok {
			return true
		}
		cal := fa.a.calleeOf(call)
		if cal == nil || cal.sink == nil {
			return true
		}
		sig := cal.obj.Type().(*types.Signature)
		for i, arg := range call.Args {
			if i < sig.Params().Len() && sig.Params().At(i) == cal.sink {
				if u, ok := ast.Unparen(arg).(*ast.UnaryExpr); ok && u.Op == token.AND {
					if v := fa.varOf(u.X); v != nil && isBuilder(v.Type()) {
						fa.fi.owns = append(fa.fi.owns, v)
					}
				} else if v := fa.varOf(arg); v != nil && v != fa.fi.sink {
					fa.fi.owns = append(fa.fi.owns, v)
				}
			}
		}
		return true
	})
}

// ---------------------------------------------------------------------------------------------

func (a *analysis) run() {
	a.collectFuncs()
	fas := map[*fnInfo]*fnAnalysis{}
	for _, fi := range a.order {
		fa := &fnAnalysis{a: a, fi: fi}
		fa.buildParents()
		fa.findOwned()
		fas[fi] = fa
	}
	for _, fi := range a.order {
		fi.lineRoot = fas[fi].isLineRoot()
	}
	// skews: a function with both parameters is analysed under the precondition
	// indent == spaces(depth + skew); skew is what ALL its call sites pass (0 if they disagree, and
	// then the disagreeing pairs are inconsistent).  Least fixpoint from skew = 0 everywhere.
	for iter := 0; iter < 8; iter++ {
		seenSkews := map[*fnInfo]map[int]bool{}
		for _, fi := range a.order {
			fa := fas[fi]
			fa.findDerived()
			if fi.depth == nil && fi.indent == nil {
				continue
			}
			ast.Inspect(fi.decl.Body, func(n ast.Node) bool {
				call, ok := n.(*ast.CallExpr)
				if !ok {
					return true
				}
				cal := a.calleeOf(call)
				if cal == nil || cal.depth == nil || cal.indent == nil {
					return true
				}
				sig := cal.obj.Type().(*types.Signature)
				var iav, dav aval
				for i, arg := range call.Args {
					if i >= sig.Params().Len() {
						break
					}
					switch sig.Params().At(i) {
					case cal.depth:
						dav = fa.eval(arg)
					case cal.indent:
						iav = fa.eval(arg)
					}
				}
				if iav.s == sIndent && dav.s == sDepth && len(iav.ks) == 1 && len(dav.ks) == 1 {
					if seenSkews[cal] == nil {
						seenSkews[cal] = map[int]bool{}
					}
					seenSkews[cal][iav.ks[0]-dav.ks[0]] = true
				}
				return true
			})
		}
		changed := false
		for _, fi := range a.order {
			want := 0
			if m := seenSkews[fi]; len(m) == 1 {
				for k := range m {
					want = k
				}
			}
			if fi.skew != want {
				fi.skew, changed = want, true
			}
		}
		if !changed {
			break
		}
	}
	for _, fi := range a.order {
		fas[fi].findDerived()
	}
	// summaries: optimistic start->start, demoted to mid->mid when only that analysis is clean
	for iter := 0; iter < 10; iter++ {
		changed := false
		for _, fi := range a.order {
			if fi.sink == nil {
				continue
			}
			fa := fas[fi]
			wS, pS := fa.runLineState(stStart)
			if len(wS) == 0 && pS {
				if fi.summary != stStart {
					fi.summary, changed = stStart, true
				}
				continue
			}
			wM, pM := fa.runLineState(stMid)
			if len(wM) == 0 && pM {
				if fi.summary != stMid {
					fi.summary, changed = stMid, true
				}
			} else if fi.summary != stStart {
				fi.summary, changed = stStart, true
			}
		}
		if !changed {
			break
		}
	}
	for _, fi := range a.order {
		fa := fas[fi]
		entry := stStart
		summary := "none"
		if fi.sink != nil {
			entry = fi.summary
			summary = fi.summary.String()
		}
		if len(fi.owns) > 0 {
			summary = "root"
			if fi.lineRoot {
				summary = "line-root"
			}
		}
		ws, preserving := fa.runLineState(entry)
		if (fi.sink != nil || len(fi.owns) > 0) && !preserving {
			fa.raw(fi.decl.Name, "state-mismatch", fa.exit, "the function does not leave the builder in the line state it found it in")
			ws = fa.writes
		}
		fa.writes = ws
		fa.checkSinkUses()
		fa.checkNestedRoots()
		for _, w := range fa.writes {
			key, fresh := a.key("writes", fi.name, w.Kind+": "+w.Text)
			if fresh {
				w.Key = key
				a.inv.Writes = append(a.inv.Writes, w)
			}
		}
		if fi.depth != nil || fi.indent != nil {
			fa.classifyUses()
		}
		fa.classifyPairs()
		if _, fresh := a.key("funcs", fi.name, ""); fresh && (fi.sink != nil || fi.depth != nil || fi.indent != nil || len(fi.owns) > 0) {
			f := Fn{Pkg: a.ld.rel, Name: fi.name, HasSink: fi.sink != nil, HasIndent: fi.indent != nil,
				HasDepth: fi.depth != nil, Summary: summary, Skew: fi.skew, Where: a.where(fi.decl)}
			if fi.skew != 0 {
				f.SkewKey = fmt.Sprintf("%s|%s|indent == spaces(depth%+d)", a.ld.rel, fi.name, fi.skew)
			}
			a.inv.Funcs = append(a.inv.Funcs, f)
		}
	}
}

// ---------------------------------------------------------------------------------------------
// output

func coqStr(s string) string { return "\"" + strings.ReplaceAll(s, "\"", "\"\"") + "\"" }

func coqBool(b bool) string {
	if b {
		return "true"
	}
	return "false"
}

func coqKs(ks []int) string {
	parts := make([]string, len(ks))
	for i, k := range ks {
		if k < 0 {
			parts[i] = "(" + strconv.Itoa(k) + ")%Z"
		} else {
			parts[i] = strconv.Itoa(k) + "%Z"
		}
	}
	return "[" + strings.Join(parts, "; ") + "]"
}

func emitCoq(inv *Inventory) []byte {
	var b strings.Builder
	b.WriteString("(* GENERATED by /verif/translator/cmd/depthgen from the Go sources of " + inv.Module + " -- do not edit. *)\n")
	b.WriteString("From Coq Require Import List String ZArith.\nFrom DC Require Import Embed.DepthInv.\nImport ListNotations.\nLocal Open Scope string_scope.\n\n")
	b.WriteString("Definition depth_funcs : list dfun :=\n  [")
	for i, f := range inv.Funcs {
		if i > 0 {
			b.WriteString(";")
		}
		fmt.Fprintf(&b, "\n    mk_dfun %s %s %s %s %s %s %s", coqStr(f.Pkg), coqStr(f.Name), coqBool(f.HasSink), coqBool(f.HasIndent), coqBool(f.HasDepth), coqStr(f.Summary), coqStr(f.SkewKey))
	}
	b.WriteString("\n  ].\n\nDefinition depth_uses : list duse :=\n  [")
	for i, u := range inv.Uses {
		if i > 0 {
			b.WriteString(";")
		}
		fmt.Fprintf(&b, "\n    mk_duse %s %s %s %s %s\n      %s\n      %s", coqStr(u.Func), coqStr(u.Var), coqStr(u.Kind), coqKs(u.K), coqStr(u.Callee), coqStr(u.Text), coqStr(u.Key))
	}
	b.WriteString("\n  ].\n\nDefinition depth_raw_writes : list dwrite :=\n  [")
	for i, w := range inv.Writes {
		if i > 0 {
			b.WriteString(";")
		}
		fmt.Fprintf(&b, "\n    mk_dwrite %s %s %s\n      %s\n      %s", coqStr(w.Func), coqStr(w.Kind), coqStr(w.State), coqStr(w.Text), coqStr(w.Key))
	}
	b.WriteString("\n  ].\n\nDefinition depth_pairs : list dpair :=\n  [")
	for i, p := range inv.Pairs {
		if i > 0 {
			b.WriteString(";")
		}
		fmt.Fprintf(&b, "\n    mk_dpair %s %s %s %s %s %s\n      %s", coqStr(p.Func), coqStr(p.Callee), coqKs(p.IndentK), coqKs(p.DepthK), coqBool(p.Consistent), coqBool(p.Root), coqStr(p.Key))
	}
	b.WriteString("\n  ].\n\nDefinition depth_inventory : dinventory :=\n  mk_dinventory depth_funcs depth_uses depth_raw_writes depth_pairs.\n")
	return []byte(b.String())
}

type allowEntry struct {
	Key string `json:"key"`
	Why string `json:"why"`
}

type allowFile struct {
	Comment    string       `json:"comment"`
	DepthTests []allowEntry `json:"depth_tests"`
	RootWrites []allowEntry `json:"root_writes"`
	Skewed     []allowEntry `json:"skewed_functions"`
	Quarantine []allowEntry `json:"known_findings_quarantined_functions"`
}

func emitAllowed(af *allowFile) []byte {
	var b strings.Builder
	b.WriteString("(* GENERATED by /verif/translator/cmd/depthgen from /verif/checks/c07_allowed_sites.json -- do not edit. *)\n")
	b.WriteString("From Coq Require Import List String.\nImport ListNotations.\nLocal Open Scope string_scope.\n")
	emit := func(name string, es []allowEntry) {
		keys := make([]string, 0, len(es))
		for _, e := range es {
			keys = append(keys, e.Key)
		}
		sort.Strings(keys)
		fmt.Fprintf(&b, "Definition %s : list string :=\n  [", name)
		for i, k := range keys {
			if i > 0 {
				b.WriteString(";")
			}
			b.WriteString("\n    " + coqStr(k))
		}
		b.WriteString("\n  ].\n")
	}
	emit("allowed_depth_tests", af.DepthTests)
	emit("allowed_root_writes", af.RootWrites)
	emit("allowed_skewed", af.Skewed)
	emit("quarantined_funcs", af.Quarantine)
	return []byte(b.String())
}

func main() {
	repo := flag.String("repo", "/repo", "repository root")
	out := flag.String("out", "/verif/coq/Gen", "output directory for DepthUses.v and DepthAllowed.v")
	report := flag.String("report", "/verif/build/depthgen_report.json", "JSON report path")
	allow := flag.String("allow", "/verif/checks/c07_allowed_sites.json", "JSON allow-list (read only)")
	flag.Parse()

	absRepo, err := filepath.Abs(*repo)
	must(err)
	inv := &Inventory{Module: modulePath(absRepo), Stats: map[string]int{}, Funcs: []Fn{}, Uses: []Use{}, Writes: []Write{}, Pairs: []Pair{}}
	fset := token.NewFileSet()
	std := importer.ForCompiler(fset, "source", nil)
	seen, ord := map[string]bool{}, map[string]int{}
	for _, tags := range [][]string{nil, {"verif"}} {
		l := &loader{repo: absRepo, module: inv.Module, tags: tags, fset: fset, std: std, cache: map[string]*loaded{}}
		ld, err := l.load("internal/explain")
		must(err)
		a := &analysis{l: l, ld: ld, inv: inv, tagStr: strings.Join(tags, ","), seen: seen, ord: ord, fns: map[*types.Func]*fnInfo{}}
		a.run()
	}
	sort.SliceStable(inv.Uses, func(i, j int) bool { return inv.Uses[i].Func < inv.Uses[j].Func })
	for _, u := range inv.Uses {
		inv.Stats["use:"+u.Kind]++
	}
	for _, w := range inv.Writes {
		inv.Stats["write:"+w.Kind]++
	}
	for _, p := range inv.Pairs {
		switch {
		case p.Root:
			inv.Stats["pair:root"]++
		case p.Consistent:
			inv.Stats["pair:consistent"]++
		default:
			inv.Stats["pair:inconsistent"]++
		}
	}
	for _, f := range inv.Funcs {
		inv.Stats["func:"+f.Summary]++
	}
	inv.Stats["funcs"] = len(inv.Funcs)

	var af allowFile
	data, err := os.ReadFile(*allow)
	must(err)
	must(json.Unmarshal(data, &af))

	writeIfChanged(filepath.Join(*out, "DepthUses.v"), emitCoq(inv))
	writeIfChanged(filepath.Join(*out, "DepthAllowed.v"), emitAllowed(&af))
	js, err := json.MarshalIndent(inv, "", " ")
	must(err)
	writeIfChanged(*report, append(js, '\n'))

	keys := make([]string, 0, len(inv.Stats))
	for k := range inv.Stats {
		keys = append(keys, k)
	}
	sort.Strings(keys)
	var sb strings.Builder
	for _, k := range keys {
		fmt.Fprintf(&sb, " %s=%d", k, inv.Stats[k])
	}
	fmt.Fprintf(os.Stderr, "depthgen:%s\n", sb.String())
}
