// posmsggen regenerates coq/Gen/PosMessages.v from /repo/parser/*.go (by syntax): the inventory of
// every place where package parser formats a "line %d" / "column %d" into a message, with the Go
// expressions passed for the line and the column, and the inventory of every write to the parser's
// three token registers (current, peek, peekPeek).  The file is rewritten only when its content
// changes.  Lexer/PosMessagesCheck.v and Properties/C13.v state the obligation over the inventory.
//
// SOUNDNESS ARGUMENT (why `from_token_pos = true` for every message AND `iw_allowed = true` for every
// register write AND no address of a register is taken imply that every printed "line L, column C" is
// the (Line, Column) of an item of the token list of the input):
//
//  1. Registers.  Parser.current, Parser.peek, Parser.peekPeek have type lexer.Item (a struct of
//     value fields, no pointers: Token, Value string, Pos token.Position, Quoted).  The generator
//     records EVERY assignment, inc/dec statement and range clause in the package whose left-hand side
//     is rooted at <x>.current / <x>.peek / <x>.peekPeek (a field write like p.current.Pos.Line = ... is
//     rooted there too), every composite literal of Parser that sets one of the three fields, every
//     whole-struct write `*x = ...` where x is the receiver, and every `&` applied to an expression
//     rooted there.  `iw_allowed` holds only for the three statements of nextToken():
//     p.current = p.peek;  p.peek = p.peekPeek;  p.peekPeek = p.lexer.NextToken()
//     Hence, by induction over the execution, at every moment each register holds either the zero Item
//     (only before the third nextToken() of New(), during which no message is produced: New calls
//     nothing but lexer.New and nextToken) or a value returned by p.lexer.NextToken(), unmodified.
//     Go has no other way to mutate these fields: they are unexported, so code outside the package
//     cannot name them; package reflect refuses to Set a Value obtained through an unexported field
//     (CanSet is false, also inside the defining package); only package unsafe could - the generator
//     records the imports of the package and PosMessagesCheck requires "unsafe" to be absent.
//  2. Token list.  The successive results of (*Lexer).NextToken() are, by definition of
//     lexer.Tokenize, the items of the token list (and after EOF, by C12, NextToken keeps returning the
//     same EOF item).  So every register value is an item of the token list; its .Pos is that item's
//     position, for which C13 (a),(b) hold.
//  3. Messages.  `from_token_pos` holds for a call iff the argument consumed by the `%d` after "line "
//     is syntactically  X.Pos.Line  and the one after "column " is  X.Pos.Column  for the SAME X, where
//     X is  r.current / r.peek / r.peekPeek  (r the method receiver), or a local variable all of whose
//     assignments in the enclosing function are `v := r.current|r.peek|r.peekPeek` (a copy of a
//     register, taken at some earlier moment: still an item of the token list) and which is never
//     otherwise written, field-assigned or address-taken; or the arguments are  v.Line / v.Column  for a
//     local v all of whose assignments are `v := X.Pos` with X as before.  The two arguments are
//     evaluated at the same moment from the same struct value, so the printed pair is (Line, Column)
//     of ONE item.  A message that prints a computed position (e.g. pos.Line+1), mixes two items, or
//     reads a position from an AST node is reported with from_token_pos = false and breaks
//     C13_messages_use_token_positions.
//  4. Completeness of the inventory.  Every string literal of the package (outside _test files) that
//     contains "line %d" or "column %d" is recorded; when it is not directly the format argument of a
//     call (e.g. stored in a constant first) it is recorded with from_token_pos = false.  Messages
//     assembled without such a literal (e.g. "line " + strconv.Itoa(..)) are not found by this
//     generator; the Go-side oracle (harness/cmd/posmsg) covers them by regexp on the produced text.
//     Both build variants (verif_tick_on.go / verif_tick_off.go) are scanned.
package main

import (
	"bytes"
	"flag"
	"fmt"
	"go/ast"
	"go/parser"
	"go/token"
	"go/types"
	"os"
	"path/filepath"
	"sort"
	"strconv"
	"strings"
)

func must(err error) {
	if err != nil {
		fmt.Fprintln(os.Stderr, "posmsggen:", err)
		os.Exit(2)
	}
}

func writeIfChanged(path string, data []byte) {
	old, err := os.ReadFile(path)
	if err == nil && bytes.Equal(old, data) {
		return
	}
	must(os.MkdirAll(filepath.Dir(path), 0o755))
	must(os.WriteFile(path, data, 0o644))
}

var registers = map[string]bool{"current": true, "peek": true, "peekPeek": true}

type message struct {
	fn, where, callee, format string
	lineArg, colArg, root     string
	ok                        bool
	why                       string
}

type write struct {
	fn, where, lhs, rhs string
	ok                  bool
}

func coqString(s string) string {
	var sb strings.Builder
	sb.WriteByte('"')
	for i := 0; i < len(s); i++ {
		c := s[i]
		switch {
		case c == '"':
			sb.WriteString(`""`)
		case c == '\n':
			sb.WriteString(`\n`) // kept visible; Coq strings have no escapes, this is two characters
		case c < 32 || c >= 127:
			fmt.Fprintf(&sb, "\\x%02x", c)
		default:
			sb.WriteByte(c)
		}
	}
	sb.WriteByte('"')
	return sb.String()
}

func coqBool(b bool) string {
	if b {
		return "true"
	}
	return "false"
}

// rootRegister returns (receiver expression text, register name) when e is rooted at X.current etc:
// e = X.reg, X.reg.f, X.reg.f.g, (X.reg), X.reg[i] ...
func rootRegister(e ast.Expr) (string, string, bool) {
	for {
		switch x := e.(type) {
		case *ast.ParenExpr:
			e = x.X
		case *ast.IndexExpr:
			e = x.X
		case *ast.StarExpr:
			e = x.X
		case *ast.SelectorExpr:
			if registers[x.Sel.Name] {
				if _, isSel := x.X.(*ast.SelectorExpr); !isSel {
					return types.ExprString(x.X), x.Sel.Name, true
				}
			}
			e = x.X
		default:
			return "", "", false
		}
	}
}

// verbs returns, for each verb of a Printf-style format, the byte offset of its '%' (the verbs that
// consume an argument; "%%" is skipped; '*' width/precision is not supported and reported as an error).
func verbs(format string) ([]int, error) {
	var out []int
	for i := 0; i < len(format); i++ {
		if format[i] != '%' {
			continue
		}
		j := i + 1
		for j < len(format) && strings.IndexByte("+-# 0123456789.[]", format[j]) >= 0 {
			if format[j] == '[' {
				return nil, fmt.Errorf("explicit argument index in %q", format)
			}
			j++
		}
		if j >= len(format) {
			return nil, fmt.Errorf("dangling %% in %q", format)
		}
		if format[j] == '*' {
			return nil, fmt.Errorf("'*' in %q", format)
		}
		if format[j] != '%' {
			out = append(out, i)
		}
		i = j
	}
	return out, nil
}

type funcInfo struct {
	name string
	recv string // receiver variable name ("" for functions)
	body *ast.BlockStmt
}

// localDefs collects, for a local variable name, the right-hand sides of all its assignments in the
// function body, and whether it is written in any other way (field assignment, &v, inc/dec, range,
// var declaration without the allowed initialiser, multi-value assignment).
func localDefs(fi funcInfo, v string) (rhs []ast.Expr, tainted bool) {
	isV := func(e ast.Expr) bool {
		id, ok := e.(*ast.Ident)
		return ok && id.Name == v
	}
	rootedAtV := func(e ast.Expr) bool {
		for {
			switch x := e.(type) {
			case *ast.ParenExpr:
				e = x.X
			case *ast.SelectorExpr:
				e = x.X
			case *ast.IndexExpr:
				e = x.X
			case *ast.StarExpr:
				e = x.X
			case *ast.Ident:
				return x.Name == v
			default:
				return false
			}
		}
	}
	ast.Inspect(fi.body, func(n ast.Node) bool {
		switch s := n.(type) {
		case *ast.AssignStmt:
			for i, l := range s.Lhs {
				if isV(l) {
					if len(s.Lhs) == len(s.Rhs) && (s.Tok == token.DEFINE || s.Tok == token.ASSIGN) {
						rhs = append(rhs, s.Rhs[i])
					} else {
						tainted = true
					}
				} else if rootedAtV(l) {
					tainted = true
				}
			}
		case *ast.IncDecStmt:
			if rootedAtV(s.X) {
				tainted = true
			}
		case *ast.RangeStmt:
			if (s.Key != nil && rootedAtV(s.Key)) || (s.Value != nil && rootedAtV(s.Value)) {
				tainted = true
			}
		case *ast.UnaryExpr:
			if s.Op == token.AND && rootedAtV(s.X) {
				tainted = true
			}
		case *ast.ValueSpec:
			for i, nm := range s.Names {
				if nm.Name == v {
					if len(s.Values) == len(s.Names) {
						rhs = append(rhs, s.Values[i])
					} else {
						tainted = true
					}
				}
			}
		case *ast.FuncLit:
			// a closure could write v; treat any mention inside a closure as a taint
			ast.Inspect(s.Body, func(m ast.Node) bool {
				if id, ok := m.(*ast.Ident); ok && id.Name == v {
					tainted = true
				}
				return true
			})
			return false
		}
		return true
	})
	return
}

// isRegister: e is  r.current / r.peek / r.peekPeek  with r the receiver of fi.
func isRegister(fi funcInfo, e ast.Expr) bool {
	sel, ok := e.(*ast.SelectorExpr)
	if !ok || !registers[sel.Sel.Name] || fi.recv == "" {
		return false
	}
	id, ok := sel.X.(*ast.Ident)
	return ok && id.Name == fi.recv
}

// itemSource: e denotes an item of the token list: a register, or a local copy of one.
func itemSource(fi funcInfo, e ast.Expr) bool {
	if isRegister(fi, e) {
		return true
	}
	id, ok := e.(*ast.Ident)
	if !ok || id.Name == fi.recv {
		return false
	}
	rhs, tainted := localDefs(fi, id.Name)
	if tainted || len(rhs) == 0 {
		return false
	}
	for _, r := range rhs {
		if !isRegister(fi, r) {
			return false
		}
	}
	return true
}

// posSource: e denotes the Pos of an item of the token list: X.Pos, or a local copy of one.
// Returns the text of the item expression.
func posSource(fi funcInfo, e ast.Expr) (string, bool) {
	if sel, ok := e.(*ast.SelectorExpr); ok && sel.Sel.Name == "Pos" && itemSource(fi, sel.X) {
		return types.ExprString(sel.X), true
	}
	id, ok := e.(*ast.Ident)
	if !ok || id.Name == fi.recv {
		return "", false
	}
	rhs, tainted := localDefs(fi, id.Name)
	if tainted || len(rhs) == 0 {
		return "", false
	}
	for _, r := range rhs {
		sel, ok := r.(*ast.SelectorExpr)
		if !ok || sel.Sel.Name != "Pos" || !itemSource(fi, sel.X) {
			return "", false
		}
	}
	return id.Name, true
}

func classify(fi funcInfo, lineArg, colArg ast.Expr) (root string, ok bool, why string) {
	ls, ok1 := lineArg.(*ast.SelectorExpr)
	cs, ok2 := colArg.(*ast.SelectorExpr)
	if !ok1 || !ok2 || ls.Sel.Name != "Line" || cs.Sel.Name != "Column" {
		return "", false, "arguments are not <X>.Line / <X>.Column"
	}
	if types.ExprString(ls.X) != types.ExprString(cs.X) {
		return "", false, "line and column come from different expressions"
	}
	r, ok := posSource(fi, ls.X)
	if !ok {
		return types.ExprString(ls.X), false, "position is not the Pos of a token register or of a local copy of one"
	}
	return r, true, ""
}

func main() {
	repo := flag.String("repo", "/repo", "repository root")
	out := flag.String("out", "/verif/coq/Gen", "output directory")
	flag.Parse()

	dir := filepath.Join(*repo, "parser")
	fset := token.NewFileSet()
	entries, err := os.ReadDir(dir)
	must(err)
	var files []*ast.File
	var names []string
	for _, e := range entries {
		n := e.Name()
		if e.IsDir() || !strings.HasSuffix(n, ".go") || strings.HasSuffix(n, "_test.go") {
			continue
		}
		// ParseFile ignores build constraints: both verif_tick_on.go and verif_tick_off.go are read.
		f, err := parser.ParseFile(fset, filepath.Join(dir, n), nil, parser.SkipObjectResolution)
		must(err)
		if f.Name.Name != "parser" {
			continue
		}
		files = append(files, f)
		names = append(names, n)
	}
	if len(files) == 0 {
		must(fmt.Errorf("no Go files of package parser in %s", dir))
	}

	where := func(p token.Pos) string {
		pos := fset.Position(p)
		return fmt.Sprintf("%s:%d", filepath.Base(pos.Filename), pos.Line)
	}

	var msgs []message
	var writes []write
	var addrs []string
	importSet := map[string]bool{}
	nLits := 0

	for _, f := range files {
		for _, im := range f.Imports {
			p, _ := strconv.Unquote(im.Path.Value)
			importSet[p] = true
		}
		for _, d := range f.Decls {
			fd, ok := d.(*ast.FuncDecl)
			if !ok {
				// package-level var/const: literals there are never a direct call argument
				ast.Inspect(d, func(n ast.Node) bool {
					if bl, ok := n.(*ast.BasicLit); ok && bl.Kind == token.STRING {
						s, err := strconv.Unquote(bl.Value)
						if err == nil && (strings.Contains(s, "line %d") || strings.Contains(s, "column %d")) {
							nLits++
							msgs = append(msgs, message{fn: "<package level>", where: where(bl.Pos()), format: s,
								why: "format string is not a direct call argument"})
						}
					}
					return true
				})
				continue
			}
			if fd.Body == nil {
				continue
			}
			fi := funcInfo{name: fd.Name.Name, body: fd.Body}
			if fd.Recv != nil && len(fd.Recv.List) == 1 && len(fd.Recv.List[0].Names) == 1 {
				fi.recv = fd.Recv.List[0].Names[0].Name
			}
			handled := map[*ast.BasicLit]bool{}

			// 1. calls with a position format
			ast.Inspect(fd.Body, func(n ast.Node) bool {
				call, ok := n.(*ast.CallExpr)
				if !ok {
					return true
				}
				for ai, a := range call.Args {
					bl, ok := a.(*ast.BasicLit)
					if !ok || bl.Kind != token.STRING {
						continue
					}
					s, err := strconv.Unquote(bl.Value)
					if err != nil || !(strings.Contains(s, "line %d") || strings.Contains(s, "column %d")) {
						continue
					}
					handled[bl] = true
					nLits++
					m := message{fn: fi.name, where: where(call.Pos()), callee: types.ExprString(call.Fun), format: s}
					vs, err := verbs(s)
					rest := call.Args[ai+1:]
					li := strings.Index(s, "line %d")
					ci := strings.Index(s, "column %d")
					switch {
					case err != nil:
						m.why = err.Error()
					case call.Ellipsis != token.NoPos:
						m.why = "variadic call with ..."
					case li < 0 || ci < 0:
						m.why = "format has only one of line %d / column %d"
					case strings.Count(s, "line %d") != 1 || strings.Count(s, "column %d") != 1:
						m.why = "format has several line %d / column %d"
					case len(vs) != len(rest):
						m.why = fmt.Sprintf("%d verbs but %d arguments", len(vs), len(rest))
					default:
						lv, cv := -1, -1
						for k, off := range vs {
							if off == li+len("line ") {
								lv = k
							}
							if off == ci+len("column ") {
								cv = k
							}
						}
						if lv < 0 || cv < 0 {
							m.why = "cannot locate the verbs"
							break
						}
						m.lineArg = types.ExprString(rest[lv])
						m.colArg = types.ExprString(rest[cv])
						m.root, m.ok, m.why = classify(fi, rest[lv], rest[cv])
					}
					msgs = append(msgs, m)
				}
				return true
			})
			// 2. position formats that are not a direct call argument
			ast.Inspect(fd.Body, func(n ast.Node) bool {
				if bl, ok := n.(*ast.BasicLit); ok && bl.Kind == token.STRING && !handled[bl] {
					s, err := strconv.Unquote(bl.Value)
					if err == nil && (strings.Contains(s, "line %d") || strings.Contains(s, "column %d")) {
						nLits++
						msgs = append(msgs, message{fn: fi.name, where: where(bl.Pos()), format: s,
							why: "format string is not a direct call argument"})
					}
				}
				return true
			})
			// 3. register writes
			allowed := func(lhs, rhs string) bool {
				if fi.name != "nextToken" || fi.recv == "" {
					return false
				}
				r := fi.recv
				switch lhs {
				case r + ".current":
					return rhs == r+".peek"
				case r + ".peek":
					return rhs == r+".peekPeek"
				case r + ".peekPeek":
					return rhs == r+".lexer.NextToken()"
				}
				return false
			}
			ast.Inspect(fd.Body, func(n ast.Node) bool {
				switch s := n.(type) {
				case *ast.AssignStmt:
					for i, l := range s.Lhs {
						_, _, isReg := rootRegister(l)
						wholeStruct := false
						if st, ok := l.(*ast.StarExpr); ok {
							if id, ok := st.X.(*ast.Ident); ok && id.Name == fi.recv && fi.recv != "" {
								wholeStruct = true
							}
						}
						if !isReg && !wholeStruct {
							continue
						}
						rhs := "<multi-value>"
						if len(s.Lhs) == len(s.Rhs) {
							rhs = types.ExprString(s.Rhs[i])
						}
						lhs := types.ExprString(l)
						writes = append(writes, write{fn: fi.name, where: where(s.Pos()), lhs: lhs, rhs: s.Tok.String() + " " + rhs,
							ok: s.Tok == token.ASSIGN && len(s.Lhs) == len(s.Rhs) && allowed(lhs, rhs)})
					}
				case *ast.IncDecStmt:
					if _, _, isReg := rootRegister(s.X); isReg {
						writes = append(writes, write{fn: fi.name, where: where(s.Pos()), lhs: types.ExprString(s.X), rhs: s.Tok.String()})
					}
				case *ast.RangeStmt:
					for _, e := range []ast.Expr{s.Key, s.Value} {
						if e == nil {
							continue
						}
						if _, _, isReg := rootRegister(e); isReg {
							writes = append(writes, write{fn: fi.name, where: where(s.Pos()), lhs: types.ExprString(e), rhs: "range"})
						}
					}
				case *ast.UnaryExpr:
					if s.Op == token.AND {
						if _, _, isReg := rootRegister(s.X); isReg {
							addrs = append(addrs, fi.name+" "+where(s.Pos())+" &"+types.ExprString(s.X))
						}
					}
				case *ast.CompositeLit:
					if id, ok := s.Type.(*ast.Ident); ok && id.Name == "Parser" {
						for _, el := range s.Elts {
							kv, ok := el.(*ast.KeyValueExpr)
							if !ok {
								writes = append(writes, write{fn: fi.name, where: where(s.Pos()), lhs: "Parser{positional}", rhs: types.ExprString(el)})
								continue
							}
							if k, ok := kv.Key.(*ast.Ident); ok && registers[k.Name] {
								writes = append(writes, write{fn: fi.name, where: where(kv.Pos()), lhs: "Parser{" + k.Name + ":}", rhs: types.ExprString(kv.Value)})
							}
						}
					}
				}
				return true
			})
		}
	}

	sort.SliceStable(msgs, func(i, j int) bool { return msgs[i].where < msgs[j].where })
	sort.SliceStable(writes, func(i, j int) bool { return writes[i].where < writes[j].where })
	sort.Strings(addrs)
	var imports []string
	for p := range importSet {
		imports = append(imports, p)
	}
	sort.Strings(imports)

	var b strings.Builder
	b.WriteString("(* GENERATED by /verif/translator/cmd/posmsggen from /repo/parser/*.go -- do not edit.\n")
	fmt.Fprintf(&b, "   Files scanned: %s.\n", strings.Join(names, ", "))
	b.WriteString("   pos_messages: every string literal of package parser containing \"line %d\" or \"column %d\", with the\n")
	b.WriteString("   call it is the format of and the Go expressions consumed by those two verbs.\n")
	b.WriteString("   item_writes: every write to Parser.current / .peek / .peekPeek (or below them).\n")
	b.WriteString("   The soundness argument is in the generator's header comment. *)\n")
	b.WriteString("From Coq Require Import List String Bool.\nImport ListNotations.\nLocal Open Scope string_scope.\n\n")
	b.WriteString("Record pos_message := {\n  pm_func : string;        (* enclosing function *)\n  pm_where : string;       (* file:line of the call *)\n")
	b.WriteString("  pm_callee : string;      (* e.g. fmt.Errorf *)\n  pm_format : string;\n  pm_line_arg : string;    (* Go expression consumed by the %d after \"line \" *)\n")
	b.WriteString("  pm_col_arg : string;     (* ... after \"column \" *)\n  pm_item : string;        (* the token register / local copy both are read from *)\n")
	b.WriteString("  from_token_pos : bool;   (* both are <X>.Pos.Line / <X>.Pos.Column of the same token register X *)\n  pm_why_not : string\n}.\n\n")
	b.WriteString("Record item_write := {\n  iw_func : string; iw_where : string; iw_lhs : string; iw_rhs : string;\n")
	b.WriteString("  iw_allowed : bool        (* one of the three assignments of nextToken() *)\n}.\n\n")
	b.WriteString("Definition pos_messages : list pos_message := [\n")
	for i, m := range msgs {
		sep := ";"
		if i == len(msgs)-1 {
			sep = ""
		}
		fmt.Fprintf(&b, "  {| pm_func := %s; pm_where := %s; pm_callee := %s;\n     pm_format := %s;\n     pm_line_arg := %s; pm_col_arg := %s; pm_item := %s;\n     from_token_pos := %s; pm_why_not := %s |}%s\n",
			coqString(m.fn), coqString(m.where), coqString(m.callee), coqString(m.format),
			coqString(m.lineArg), coqString(m.colArg), coqString(m.root), coqBool(m.ok), coqString(m.why), sep)
	}
	b.WriteString("].\n\n")
	b.WriteString("Definition item_writes : list item_write := [\n")
	for i, w := range writes {
		sep := ";"
		if i == len(writes)-1 {
			sep = ""
		}
		fmt.Fprintf(&b, "  {| iw_func := %s; iw_where := %s; iw_lhs := %s; iw_rhs := %s; iw_allowed := %s |}%s\n",
			coqString(w.fn), coqString(w.where), coqString(w.lhs), coqString(w.rhs), coqBool(w.ok), sep)
	}
	b.WriteString("].\n\n")
	b.WriteString("(* places where the address of a token register (or of something below it) is taken *)\n")
	b.WriteString("Definition item_addr_taken : list string := [")
	for i, a := range addrs {
		if i > 0 {
			b.WriteString("; ")
		}
		b.WriteString(coqString(a))
	}
	b.WriteString("].\n\n")
	b.WriteString("(* import paths of package parser (unsafe would defeat the argument) *)\n")
	b.WriteString("Definition parser_imports : list string := [")
	for i, p := range imports {
		if i > 0 {
			b.WriteString("; ")
		}
		b.WriteString(coqString(p))
	}
	b.WriteString("].\n")
	writeIfChanged(filepath.Join(*out, "PosMessages.v"), []byte(b.String()))
	fmt.Fprintf(os.Stderr, "posmsggen: %d files, %d position formats (%d from token positions), %d register writes (%d allowed), %d address-of, %d imports\n",
		len(files), len(msgs), countOK(msgs), len(writes), countW(writes), len(addrs), len(imports))
	_ = nLits
}

func countOK(ms []message) int {
	n := 0
	for _, m := range ms {
		if m.ok {
			n++
		}
	}
	return n
}

func countW(ws []write) int {
	n := 0
	for _, w := range ws {
		if w.ok {
			n++
		}
	}
	return n
}
