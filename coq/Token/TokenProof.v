(* C17, table half: consistency of the keyword table, over the table regenerated from /repo/token/token.go.
   The finite facts are computed in the kernel (vm_compute) and lifted; "found from no other string" is a
   general lemma about how token.init() builds the Keywords map (Lexer/LexerModel.lookup). *)
From Coq Require Import List NArith Bool Lia.
From DC Require Import Gen.TokenTable Lexer.LexerModel.
Import ListNotations.
Local Open Scope N_scope.
Local Open Scope bool_scope.

Definition entry := (N * list N * list N)%type.
Definition e_idx (e : entry) : N := fst (fst e).
Definition e_spell (e : entry) : list N := snd e.

Definition kw_entry (e : entry) : bool := (keyword_beg <? e_idx e) && (e_idx e <? keyword_end).
Definition keywords : list entry := filter kw_entry token_table.

Lemma bytes_eqb_eq : forall a b, bytes_eqb a b = true <-> a = b.
Proof.
  induction a as [|x a IH]; destruct b as [|y b]; cbn; split; intros H; try reflexivity; try discriminate.
  - apply andb_prop in H. destruct H as [H1 H2]. apply N.eqb_eq in H1. apply IH in H2. subst. reflexivity.
  - inversion H; subst. rewrite N.eqb_refl. apply IH. reflexivity.
Qed.

(* upper-case ASCII spelling: non-empty, every byte is A-Z, 0-9 or '_' *)
Definition upper_byte (b : N) : bool := ((65 <=? b) && (b <=? 90)) || ((48 <=? b) && (b <=? 57)) || (b =? 95).
Definition good_spelling (s : list N) : bool := negb (Nat.eqb (length s) 0) && forallb upper_byte s.

Fixpoint nodup_spell (l : list entry) : bool :=
  match l with
  | [] => true
  | e :: l' => negb (existsb (fun e' => bytes_eqb (e_spell e) (e_spell e')) l') && nodup_spell l'
  end.
Fixpoint nodup_idx (l : list entry) : bool :=
  match l with
  | [] => true
  | e :: l' => negb (existsb (fun e' => e_idx e =? e_idx e') l') && nodup_idx l'
  end.

(* every index between keyword_beg and keyword_end has a table entry (the enum has no holes) *)
Definition all_indices_present : bool :=
  forallb (fun k => existsb (fun e => e_idx e =? k) token_table)
          (map N.of_nat (seq (S (N.to_nat keyword_beg)) (N.to_nat keyword_end - N.to_nat keyword_beg - 1))).

Definition table_ok : bool :=
  forallb (fun e => good_spelling (e_spell e)) keywords &&
  nodup_spell keywords && nodup_idx token_table &&
  forallb (fun e => lookup (e_spell e) =? e_idx e) keywords &&
  forallb (fun e => is_keyword (e_idx e)) keywords &&
  all_indices_present && (T_IDENT <? keyword_beg) && (T_EOF <? keyword_beg).

(* the per-run obligation *)
Lemma table_ok_true : table_ok = true.
Proof. vm_compute. reflexivity. Qed.

(* lookup returns IDENT or the index of a keyword entry whose spelling is the argument *)
Lemma lookup_shape : forall s,
  lookup s = T_IDENT \/ exists e, In e token_table /\ kw_entry e = true /\ e_spell e = s /\ lookup s = e_idx e.
Proof.
  intros s. unfold lookup.
  assert (G : forall tbl acc,
    (acc = T_IDENT \/ exists e, In e token_table /\ kw_entry e = true /\ e_spell e = s /\ acc = e_idx e) ->
    (forall e, In e tbl -> In e token_table) ->
    let r := fold_left (fun (acc : N) (e : N * list N * list N) => let '(i, _, sp) := e in
       if (keyword_beg <? i) && (i <? keyword_end) && bytes_eqb sp s then i else acc) tbl acc in
    r = T_IDENT \/ exists e, In e token_table /\ kw_entry e = true /\ e_spell e = s /\ r = e_idx e).
  { induction tbl as [|[[i nm] sp] tbl IH]; intros acc Hacc Hin; cbn [fold_left]; [exact Hacc|].
    apply IH; [|intros e He; apply Hin; right; exact He].
    destruct ((keyword_beg <? i) && (i <? keyword_end) && bytes_eqb sp s) eqn:C; [|exact Hacc].
    right. exists (i, nm, sp). apply andb_prop in C. destruct C as [C1 C2].
    split; [apply Hin; left; reflexivity|]. split; [exact C1|]. split; [apply bytes_eqb_eq; exact C2|reflexivity]. }
  apply (G token_table T_IDENT); [left; reflexivity|auto].
Qed.

Lemma nodup_idx_unique : forall l e1 e2, nodup_idx l = true -> In e1 l -> In e2 l -> e_idx e1 = e_idx e2 -> e1 = e2.
Proof.
  induction l as [|e l IH]; intros e1 e2 H H1 H2 Hi; [contradiction|].
  cbn in H. apply andb_prop in H. destruct H as [Hn Hr]. apply negb_true_iff in Hn.
  assert (Hno : forall e', In e' l -> e_idx e <> e_idx e').
  { intros e' He' Heq. assert (existsb (fun e'0 => e_idx e =? e_idx e'0) l = true).
    { apply existsb_exists. exists e'. split; [exact He'|apply N.eqb_eq; exact Heq]. } congruence. }
  destruct H1 as [H1|H1], H2 as [H2|H2]; subst.
  - reflexivity.
  - exfalso. apply (Hno e2 H2). exact Hi.
  - exfalso. apply (Hno e1 H1). symmetry. exact Hi.
  - apply IH; assumption.
Qed.

Section Facts.
Let ok := table_ok_true.

Lemma ok_parts :
  forallb (fun e => good_spelling (e_spell e)) keywords = true /\ nodup_spell keywords = true /\ nodup_idx token_table = true /\
  forallb (fun e => lookup (e_spell e) =? e_idx e) keywords = true /\ forallb (fun e => is_keyword (e_idx e)) keywords = true.
Proof.
  pose proof ok as H. unfold table_ok in H. rewrite !andb_true_iff in H.
  destruct H as (((((((H1 & H2) & H3) & H4) & H5) & H6) & H7) & H8). repeat split; assumption.
Qed.

Lemma keyword_in : forall e, In e token_table -> kw_entry e = true -> In e keywords.
Proof. intros e H K. unfold keywords. apply filter_In. split; assumption. Qed.

(* every keyword token has a unique, non-empty upper-case spelling, is found by Lookup from it, and IsKeyword holds *)
Theorem keyword_table_consistent : forall e, In e token_table -> kw_entry e = true ->
  good_spelling (e_spell e) = true /\ lookup (e_spell e) = e_idx e /\ is_keyword (e_idx e) = true /\
  (forall e', In e' token_table -> kw_entry e' = true -> e_spell e' = e_spell e -> e' = e).
Proof.
  intros e He Ke. destruct ok_parts as (Hg & Hns & Hni & Hl & Hk).
  pose proof (keyword_in e He Ke) as Hin.
  split; [exact (proj1 (forallb_forall _ _) Hg e Hin)|].
  split; [apply N.eqb_eq; exact (proj1 (forallb_forall _ _) Hl e Hin)|].
  split; [exact (proj1 (forallb_forall _ _) Hk e Hin)|].
  intros e' He' Ke' Hs.
  pose proof (keyword_in e' He' Ke') as Hin'.
  assert (L1 : lookup (e_spell e) = e_idx e) by (apply N.eqb_eq; exact (proj1 (forallb_forall _ _) Hl e Hin)).
  assert (L2 : lookup (e_spell e') = e_idx e') by (apply N.eqb_eq; exact (proj1 (forallb_forall _ _) Hl e' Hin')).
  rewrite Hs in L2. rewrite L1 in L2.
  symmetry. apply (nodup_idx_unique token_table e e' Hni He He' L2).
Qed.

(* ... and from no other string; Lookup never returns a non-keyword token other than IDENT *)
Theorem lookup_only_from_spelling : forall s,
  lookup s = T_IDENT \/
  exists e, In e token_table /\ kw_entry e = true /\ lookup s = e_idx e /\ s = e_spell e.
Proof.
  intros s. destruct (lookup_shape s) as [H|(e & He & Ke & Hs & Hl)]; [left; exact H|].
  right. exists e. repeat split; try assumption. symmetry; exact Hs.
Qed.

Theorem lookup_keyword_iff : forall s e, In e token_table -> kw_entry e = true ->
  (lookup s = e_idx e <-> s = e_spell e).
Proof.
  intros s e He Ke. split.
  - intros Hl. destruct (lookup_only_from_spelling s) as [Hi|(e' & He' & Ke' & Hl' & Hs')].
    + exfalso. rewrite Hl in Hi. unfold kw_entry in Ke. apply andb_prop in Ke. destruct Ke as [K1 _].
      apply N.ltb_lt in K1. rewrite Hi in K1.
      pose proof ok as H. unfold table_ok in H. rewrite !andb_true_iff in H.
      destruct H as (((((((H1 & H2) & H3) & H4) & H5) & H6) & H7) & H8).
      apply N.ltb_lt in H7. lia.
    + destruct ok_parts as (_ & _ & Hni & _ & _).
      assert (Heq : e' = e) by (apply (nodup_idx_unique token_table e' e Hni He' He); congruence).
      rewrite Heq in Hs'. exact Hs'.
  - intros ->. destruct (keyword_table_consistent e He Ke) as (_ & H & _). exact H.
Qed.
End Facts.
