(* Converse of the classification clause: IsKeyword accepts ONLY kinds that have a keyword entry in the table
   (the enum range keyword_beg .. keyword_end has no hole), and that entry's spelling is found by Lookup.
   Used by Properties/C17.v (C17_is_keyword_only_keywords). *)
From Coq Require Import List Arith NArith Bool Lia.
From DC Require Import Gen.TokenTable Lexer.LexerModel Token.TokenProof.
Import ListNotations.

Lemma all_indices_present_true : all_indices_present = true.
Proof.
  pose proof table_ok_true as H. unfold table_ok in H. rewrite !andb_true_iff in H.
  destruct H as (((_ & H) & _) & _). exact H.
Qed.

Theorem is_keyword_only_keywords : forall t, is_keyword t = true ->
  exists e, In e token_table /\ kw_entry e = true /\ e_idx e = t /\
            good_spelling (e_spell e) = true /\ lookup (e_spell e) = t.
Proof.
  intros t Ht.
  assert (Hr : (keyword_beg < t /\ t < keyword_end)%N).
  { unfold is_keyword in Ht. apply andb_prop in Ht. destruct Ht as [A B].
    apply N.ltb_lt in A. apply N.ltb_lt in B. split; assumption. }
  pose proof all_indices_present_true as Hp. unfold all_indices_present in Hp.
  rewrite forallb_forall in Hp.
  assert (Hin : In t (map N.of_nat (seq (S (N.to_nat keyword_beg)) (N.to_nat keyword_end - N.to_nat keyword_beg - 1)))).
  { apply in_map_iff. exists (N.to_nat t). split; [apply N2Nat.id|]. apply in_seq. lia. }
  specialize (Hp t Hin). apply existsb_exists in Hp. destruct Hp as (e & He & Hi).
  apply N.eqb_eq in Hi.
  assert (Hk : kw_entry e = true).
  { unfold kw_entry. rewrite Hi. exact Ht. }
  destruct (keyword_table_consistent e He Hk) as (G & L & _ & _).
  exists e. subst t. auto.
Qed.
