(* UTF-8 decoding and encoding exactly as Go's unicode/utf8 DecodeRune / AppendRune.
   Bytes and runes are N.  Model only (total, computable); lemmas live in Utf8Facts.v. *)
From Coq Require Import List NArith Bool.
Local Open Scope bool_scope.
Import ListNotations.
Local Open Scope N_scope.

Definition rune_error : N := 65533.   (* U+FFFD *)
Definition max_rune : N := 1114111.   (* U+10FFFF *)

(* in_range lo hi b  <->  lo <= b <= hi *)
Definition in_range (lo hi b : N) : bool := (lo <=? b) && (b <=? hi).

(* continuation byte 0x80..0xBF *)
Definition is_cont (b : N) : bool := in_range 128 191 b.

(* decode_rune p = (rune, size); size = 0 only for the empty input (Go: RuneError, 0). *)
Definition decode_rune (p : list N) : N * nat :=
  match p with
  | [] => (rune_error, 0%nat)
  | p0 :: t =>
    if p0 <? 128 then (p0, 1%nat)
    else if p0 <? 194 then (rune_error, 1%nat)                     (* 0x80..0xC1: invalid *)
    else if p0 <? 224 then                                          (* 0xC2..0xDF: two bytes *)
      match t with
      | b1 :: _ => if is_cont b1 then ((p0 - 192) * 64 + (b1 - 128), 2%nat) else (rune_error, 1%nat)
      | _ => (rune_error, 1%nat)
      end
    else if p0 <? 240 then                                          (* 0xE0..0xEF: three bytes *)
      match t with
      | b1 :: b2 :: _ =>
        let lo := if p0 =? 224 then 160 else 128 in
        let hi := if p0 =? 237 then 159 else 191 in
        if in_range lo hi b1 then
          if is_cont b2 then ((p0 - 224) * 4096 + (b1 - 128) * 64 + (b2 - 128), 3%nat)
          else (rune_error, 1%nat)
        else (rune_error, 1%nat)
      | _ => (rune_error, 1%nat)
      end
    else if p0 <? 245 then                                          (* 0xF0..0xF4: four bytes *)
      match t with
      | b1 :: b2 :: b3 :: _ =>
        let lo := if p0 =? 240 then 144 else 128 in
        let hi := if p0 =? 244 then 143 else 191 in
        if in_range lo hi b1 then
          if is_cont b2 then
            if is_cont b3 then
              ((p0 - 240) * 262144 + (b1 - 128) * 4096 + (b2 - 128) * 64 + (b3 - 128), 4%nat)
            else (rune_error, 1%nat)
          else (rune_error, 1%nat)
        else (rune_error, 1%nat)
      | _ => (rune_error, 1%nat)
      end
    else (rune_error, 1%nat)                                        (* 0xF5..0xFF: invalid *)
  end.

(* Go's three-byte case checks b1 before looking at whether b2 exists: with n < sz it returns
   (RuneError,1) first.  Both give (RuneError,1), so the order is unobservable. *)

Definition is_surrogate (r : N) : bool := in_range 55296 57343 r.

(* utf8.AppendRune / strings.Builder.WriteRune *)
Definition encode_rune (r : N) : list N :=
  if r <? 128 then [r]
  else if r <? 2048 then [192 + r / 64; 128 + r mod 64]
  else if (max_rune <? r) || is_surrogate r then [239; 191; 189]
  else if r <? 65536 then [224 + r / 4096; 128 + (r / 64) mod 64; 128 + r mod 64]
  else [240 + r / 262144; 128 + (r / 4096) mod 64; 128 + (r / 64) mod 64; 128 + r mod 64].

(* utf8.FullRune: does p begin with a full encoding (invalid prefixes count as full, width 1) *)
Definition full_rune (p : list N) : bool :=
  match p with
  | [] => false
  | p0 :: t =>
    if p0 <? 194 then true
    else if p0 <? 224 then
      match t with [] => false | _ => true end
    else if p0 <? 240 then
      let lo := if p0 =? 224 then 160 else 128 in
      let hi := if p0 =? 237 then 159 else 191 in
      match t with
      | [] => false
      | b1 :: t2 => if in_range lo hi b1 then (match t2 with [] => false | _ => true end) else true
      end
    else if p0 <? 245 then
      let lo := if p0 =? 240 then 144 else 128 in
      let hi := if p0 =? 244 then 143 else 191 in
      match t with
      | [] => false
      | b1 :: t2 =>
        if in_range lo hi b1 then
          match t2 with
          | [] => false
          | b2 :: t3 => if is_cont b2 then (match t3 with [] => false | _ => true end) else true
          end
        else true
      end
    else true
  end.
