(* Go's unicode.IsSpace / IsLetter / IsDigit / ToUpper as look-ups in the generated tables. *)
From Coq Require Import List NArith ZArith Bool.
Local Open Scope bool_scope.
From DC Require Import Gen.UnicodeTables.
Import ListNotations.
Local Open Scope N_scope.

Fixpoint in_ranges (rs : list (N * N)) (r : N) : bool :=
  match rs with
  | [] => false
  | (lo, hi) :: rs' => if (lo <=? r) && (r <=? hi) then true else in_ranges rs' r
  end.

(* The table look-ups, exactly Go's predicates. *)
Definition is_space_tbl (r : N) : bool := in_ranges unicode_space_ranges r.
Definition is_letter_tbl (r : N) : bool := in_ranges unicode_letter_ranges r.
Definition is_digit_tbl (r : N) : bool := in_ranges unicode_digit_ranges r.

(* The same with an ASCII fast path (for the speed of the extracted model); UnicodeFacts.v proves
   is_X = is_X_tbl against the generated tables. *)
Definition rng (lo hi r : N) : bool := (lo <=? r) && (r <=? hi).
Definition is_space (r : N) : bool :=
  if r <? 128 then rng 9 13 r || (r =? 32) else is_space_tbl r.
Definition is_letter (r : N) : bool :=
  if r <? 128 then rng 65 90 r || rng 97 122 r else is_letter_tbl r.
Definition is_digit (r : N) : bool :=
  if r <? 128 then rng 48 57 r else is_digit_tbl r.

Fixpoint upper_lookup (rs : list (N * N * Z)) (r : N) : N :=
  match rs with
  | [] => r
  | (lo, hi, d) :: rs' =>
      if (lo <=? r) && (r <=? hi) then Z.to_N (Z.of_N r + d) else upper_lookup rs' r
  end.

Definition to_upper_tbl (r : N) : N := upper_lookup unicode_upper_runs r.
Definition to_upper (r : N) : N :=
  if r <? 128 then (if rng 97 122 r then r - 32 else r) else to_upper_tbl r.
