(* The interface through which lexer.go touches its bufio.Reader: Peek(n) and ReadRune().
   A stream implementation is a state type with these two operations.  The pure stream is the list
   of remaining bytes; Stream/BufioModel.v gives the bufio.Reader implementation over chunked readers. *)
From Coq Require Import List NArith.
From DC Require Import Base.Utf8.
Import ListNotations.

Record stream_ops (S : Type) := {
  (* Peek(n): the bytes returned (the error is ignored by every caller in lexer.go except for
     "err != nil || len = 0" in peekChar, which is len = 0 whenever it matters) and the new state *)
  s_peek : nat -> S -> list N * S;
  (* ReadRune(): Some (rune, size) or None when it returns an error (io.EOF or any other) *)
  s_read_rune : S -> option (N * nat) * S
}.
Arguments s_peek {S}.
Arguments s_read_rune {S}.

Definition bufio_size : nat := 4096.

(* The pure stream: all remaining bytes are available at once. *)
Definition pure_peek (n : nat) (s : list N) : list N * list N :=
  (firstn (Nat.min n bufio_size) s, s).

Definition pure_read_rune (s : list N) : option (N * nat) * list N :=
  match s with
  | [] => (None, [])
  | _ => let '(r, sz) := decode_rune s in (Some (r, sz), skipn sz s)
  end.

Definition pure_stream : stream_ops (list N) :=
  {| s_peek := pure_peek; s_read_rune := pure_read_rune |}.
