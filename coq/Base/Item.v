(* lexer.Item: the token record shared by the lexer model and the parser models. *)
From Coq Require Import List NArith Bool.
Import ListNotations.
Local Open Scope N_scope.

Record pos := { p_off : N; p_line : N; p_col : N }.
Definition pos_eqb (a b : pos) : bool :=
  (p_off a =? p_off b) && (p_line a =? p_line b) && (p_col a =? p_col b).

Record item := {
  it_tok : N;            (* token.Token, numbered as in Gen.TokenTable *)
  it_val : list N;       (* Value, as bytes *)
  it_pos : pos;
  it_quoted : bool
}.
