(* The ASCII fast paths of Base/Unicode.v agree with the generated tables (re-checked whenever the
   tables are regenerated), and the few facts about the tables that the lexer proofs use. *)
From Coq Require Import List NArith Bool Lia.
From DC Require Import Gen.UnicodeTables Base.Unicode.
Import ListNotations.
Local Open Scope N_scope.

Definition ascii : list N := map N.of_nat (seq 0 128).

Lemma ascii_complete : forall r, r < 128 -> In r ascii.
Proof.
  intros r Hr. unfold ascii. apply in_map_iff. exists (N.to_nat r). split.
  - apply Nnat.N2Nat.id.
  - apply in_seq. lia.
Qed.

Lemma fast_paths_ok_ascii :
  forallb (fun r => Bool.eqb (is_space r) (is_space_tbl r) && Bool.eqb (is_letter r) (is_letter_tbl r)
                    && Bool.eqb (is_digit r) (is_digit_tbl r) && (to_upper r =? to_upper_tbl r)) ascii = true.
Proof. vm_compute. reflexivity. Qed.

Lemma fast_paths_ok : forall r,
  is_space r = is_space_tbl r /\ is_letter r = is_letter_tbl r /\ is_digit r = is_digit_tbl r /\ to_upper r = to_upper_tbl r.
Proof.
  intros r. destruct (N.ltb_spec r 128) as [Hlt|Hge].
  - pose proof (proj1 (forallb_forall _ _) fast_paths_ok_ascii r (ascii_complete r Hlt)) as H.
    repeat (apply andb_prop in H; destruct H as [H ?]).
    repeat split; try (apply eqb_prop; assumption). apply N.eqb_eq; assumption.
  - unfold is_space, is_letter, is_digit, to_upper.
    destruct (N.ltb_spec r 128); [lia|]. repeat split; reflexivity.
Qed.

(* NUL belongs to no class (used for "loops stop at end of input", where l.ch = 0) *)
Lemma zero_no_class : is_space 0 = false /\ is_letter 0 = false /\ is_digit 0 = false.
Proof. vm_compute. repeat split. Qed.
