(* C04 (part C) -- count-vs-emit model of the DDL printers of /repo/internal/explain:
     explain.go     Column, explainCodecExpr / explainCodecFunction, explainStatisticsExpr /
                    explainStatisticsFunction, Index
     statements.go  explainCreateQuery (all four variants: CREATE FUNCTION, CREATE/ALTER USER,
                    CREATE DICTIONARY, and the general one with its "Columns definition" and
                    "Storage definition" sub-tallies), explainAlterQuery, explainAlterCommand /
                    countAlterCommandChildren, explainProjection / explainProjectionSelectQuery,
                    explainStatisticsCommand / explainStatisticsTypeFunction.

   DEFINITIONS ONLY.  Hand-written transcription of /repo revision 472349192, in the style of
   Select/SelectExplainModel.v: the "(children N)" header is computed by the [count_*] functions,
   the children are emitted by separate code, exactly as in Go: same order of emission, same
   conditions, same derived locals (hasDatabase, hasColumnPrimaryKey, settingsInStorage,
   orderByInRegularStorage / hasOrderByInStorage, hasStorageChild / hasStorage, hasFormat,
   hasEphemeralDefault, primaryKeyColumns), every early return, nothing shared between the two
   sides that Go does not share.  The tie to the Go code is the correspondence run
   /verif/harness/cmd/ddlcount  vs  /verif/driver/ddlcount.

   Abstraction.  A sub-node that the Go code hands to [Node(sb, x, depth)] (expressions, data
   types, the AS SELECT statement, dictionary attribute / definition printers, explainFunctionCall
   for an index type) is an already rendered tree ([rose]): such a call is assumed to print exactly
   that one tree at that depth (for the SELECT printers this is C04_select; for the others it is
   an assumption, listed in Properties/C04_ddl.v).  [Node(sb, nil, d)] prints the two-line tree
   [nil_tree]; where Go passes a possibly-nil interface without a guard the model has an
   [option rose] printed by [node_nilable].  What the code branches on is kept: presence of every
   optional field, lengths of lists, flags, the dynamic type tests (`x.( *ast.Identifier)`,
   `x.( *ast.Literal)` with Type == LiteralTuple, the upper-cased name "ALL").
   Strings are the bytes as printed (after sanitizeUTF8 / EscapeIdentifier / escapeStringLiteral,
   all of which map the empty string to itself and a non-empty one to a non-empty one), so the
   Go test `s != ""` is [nonempty s].  List members are non-nil pointers. *)
From Coq Require Import List NArith Bool String Ascii.
From DC Require Import Tree.LineTree Select.SelectExplainModel.
Import ListNotations.

(* ---------------------------------------------------------------------------------------- *)
(** * Labels *)

Definition L_Identifier (x : list N) : list N := bytes_of "Identifier " ++ x.
Definition L_Function (x : list N) : list N := bytes_of "Function " ++ x.
(* fmt.Fprintf(sb, "%s Literal \\'%s\\'\n", ..) *)
Definition L_Literal_q (x : list N) : list N := bytes_of "Literal \'" ++ x ++ bytes_of "\'".
Definition L_ColumnDeclaration (x : list N) : list N := bytes_of "ColumnDeclaration " ++ x.
Definition L_Function_CODEC := bytes_of "Function CODEC".
Definition L_Function_STATISTICS := bytes_of "Function STATISTICS".
Definition L_Function_defaultValueOfTypeName := bytes_of "Function defaultValueOfTypeName".
Definition L_Index := bytes_of "Index".
Definition L_AlterCommand (x : list N) : list N := bytes_of "AlterCommand " ++ x.
Definition L_Partition := bytes_of "Partition".
Definition L_Partition_ID := bytes_of "Partition_ID".
Definition L_Partition_ID_all := bytes_of "Partition_ID ".               (* "%s Partition_ID \n" *)
Definition L_Partition_ID_Literal (v : list N) : list N :=
  bytes_of "Partition_ID Literal_\'" ++ v ++ bytes_of "\'".
Definition L_Constraint := bytes_of "Constraint".
Definition L_TTLElement := bytes_of "TTLElement".
Definition L_Assignment (x : list N) : list N := bytes_of "Assignment " ++ x.
Definition L_Projection := bytes_of "Projection".
Definition L_ProjectionSelectQuery := bytes_of "ProjectionSelectQuery".
Definition L_Stat := bytes_of "Stat".
Definition L_CreateFunctionQuery (x : list N) : list N := bytes_of "CreateFunctionQuery " ++ x.
Definition L_CreateUserQuery := bytes_of "CreateUserQuery".
Definition L_AuthenticationData := bytes_of "AuthenticationData".
Definition L_PublicSSHKey := bytes_of "PublicSSHKey".
Definition L_CreateQuery (x : list N) : list N := bytes_of "CreateQuery " ++ x.
Definition L_Columns_definition := bytes_of "Columns definition".
Definition L_Storage_definition := bytes_of "Storage definition".
Definition L_Dictionary_definition := bytes_of "Dictionary definition".
Definition L_Refresh := bytes_of "Refresh strategy definition".
Definition L_TimeInterval := bytes_of "TimeInterval".
Definition L_ViewTargets := bytes_of "ViewTargets".
Definition L_StorageOrderByElement := bytes_of "StorageOrderByElement".
Definition SPC : list N := bytes_of " ".

(* ---------------------------------------------------------------------------------------- *)
(** * Emission primitives (in addition to those of SelectExplainModel) *)

(* if n > 0 { Fprintf("%s<lab> (children %d)\n", .., n) } else { Fprintf("%s<lab>\n", ..) } *)
Definition hdr_pos (d : nat) (lab : list N) (n : nat) : line :=
  if pos n then hdr d lab n else leaf d lab.

(* what Node(sb, nil, d) prints *)
Definition nil_tree : rose := Node L_Function_tuple [Node L_ExpressionList []].

(* Node(sb, x, d) for an interface value the code does not test for nil *)
Definition node_nilable (d : nat) (o : option rose) : list line :=
  match o with Some t => render d t | None => render d nil_tree end.

(* ---------------------------------------------------------------------------------------- *)
(** * Functions printed by the column printers: codecs and statistics kinds *)

Record fn_call := mkFn { fn_name : list N; fn_args : list rose }.

(* explainCodecFunction / explainStatisticsFunction (the two have the same text), [d] = depth of
   the Function line *)
Definition explain_plain_function (d : nat) (f : fn_call) : list line :=
  if nonempty (fn_args f) then
    hdr d (L_Function (fn_name f)) 1
    :: hdr (S d) L_ExpressionList (List.length (fn_args f))
    :: nodes (S (S d)) (fn_args f)
  else [leaf d (L_Function (fn_name f))].

(* explainCodecExpr(sb, codec, indent(d), d) *)
Definition explain_codec_expr (d : nat) (codecs : list fn_call) : list line :=
  hdr d L_Function_CODEC 1
  :: hdr (S d) L_ExpressionList (List.length codecs)
  :: flat_map (explain_plain_function (S (S d))) codecs.

(* explainStatisticsExpr(sb, stats, indent(d), d) *)
Definition explain_statistics_expr (d : nat) (stats : list fn_call) : list line :=
  hdr d L_Function_STATISTICS 1
  :: hdr (S d) L_ExpressionList (List.length stats)
  :: flat_map (explain_plain_function (S (S d))) stats.

(* ---------------------------------------------------------------------------------------- *)
(** * Column *)

Record column_decl := mkCol {
  cd_name : list N;
  cd_type : option rose;                 (* col.Type != nil *)
  cd_statistics : list fn_call;
  cd_default : option rose;
  cd_ephemeral : bool;                   (* col.DefaultKind == "EPHEMERAL" *)
  cd_ttl : option rose;
  cd_codec : option (list fn_call);      (* col.Codec != nil, and col.Codec.Codecs *)
  cd_settings : nat;                     (* len(col.Settings) *)
  cd_comment : list N;
  cd_primary_key : bool                  (* read by explainCreateQuery only *)
}.

Definition has_ephemeral_default (c : column_decl) : bool :=
  cd_ephemeral c && negb (is_some (cd_default c)).

(* the tally at the top of Column *)
Definition count_column_children (c : column_decl) : nat :=
  b2n (is_some (cd_type c))
  + b2n (nonempty (cd_statistics c))
  + b2n (is_some (cd_default c) || has_ephemeral_default c)
  + b2n (is_some (cd_ttl c))
  + b2n (is_some (cd_codec c))
  + b2n (pos (cd_settings c))
  + b2n (nonempty (cd_comment c)).

(* Column(sb, col, d) *)
Definition explain_column (d : nat) (c : column_decl) : list line :=
  hdr_pos d (L_ColumnDeclaration (cd_name c)) (count_column_children c)
  :: opt_node (S d) (cd_type c)
  ++ when (pos (cd_settings c)) [leaf (S d) L_Set]
  ++ (match cd_default c with
      | Some t => node (S d) t
      | None => when (has_ephemeral_default c) [leaf (S d) L_Function_defaultValueOfTypeName]
      end)
  ++ opt_node (S d) (cd_ttl c)
  ++ (match cd_codec c with Some cs => explain_codec_expr (S d) cs | None => [] end)
  ++ when (nonempty (cd_statistics c)) (explain_statistics_expr (S d) (cd_statistics c))
  ++ when (nonempty (cd_comment c)) [leaf (S d) (L_Literal_q (cd_comment c))].

(* ---------------------------------------------------------------------------------------- *)
(** * Expressions whose dynamic type the printers look at *)

Inductive key_view :=
| KV_ident (name : list N)        (* *ast.Identifier; ident.Name() as printed *)
| KV_tuple (elems : list rose)    (* *ast.Literal with Type == LiteralTuple; Value.([]ast.Expression), nil when the assertion fails *)
| KV_other.

Record key_expr := mkKey { k_view : key_view; k_tree : rose (* what Node(sb, x, _) prints *) }.

(* ---------------------------------------------------------------------------------------- *)
(** * Index *)

Record index_def := mkIdx {
  ix_expr : option key_expr;             (* idx.Expression; only identifier-or-not is looked at *)
  ix_type : option rose                  (* idx.Type, printed by explainFunctionCall *)
}.

Definition count_index_children (i : index_def) : nat :=
  b2n (is_some (ix_expr i)) + b2n (is_some (ix_type i)).

(* Index(sb, idx, d) *)
Definition explain_index (d : nat) (i : index_def) : list line :=
  hdr d L_Index (count_index_children i)
  :: (match ix_expr i with
      | Some k => match k_view k with
                  | KV_ident n => [leaf (S d) (L_Identifier n)]
                  | _ => node (S d) (k_tree k)
                  end
      | None => []
      end)
  ++ opt_node (S d) (ix_type i).

(* ---------------------------------------------------------------------------------------- *)
(** * Projection *)

Record proj_select := mkPS {
  ps_with : list rose; ps_columns : list rose; ps_group_by : list rose; ps_order_by : list rose
}.

Record projection := mkProj { pj_select : option proj_select }.

Definition count_projection_select_children (q : proj_select) : nat :=
  b2n (nonempty (ps_with q)) + b2n (nonempty (ps_columns q))
  + b2n (nonempty (ps_order_by q)) + b2n (nonempty (ps_group_by q)).

(* `Function tuple (children 1)` / `ExpressionList (children len)` / the members *)
Definition explain_tuple_wrap (d : nat) (ts : list rose) : list line :=
  hdr d L_Function_tuple 1 :: hdr (S d) L_ExpressionList (List.length ts) :: nodes (S (S d)) ts.

(* explainProjectionSelectQuery(sb, q, indent(d), d) *)
Definition explain_projection_select_query (d : nat) (q : proj_select) : list line :=
  hdr d L_ProjectionSelectQuery (count_projection_select_children q)
  :: when (nonempty (ps_with q)) (expr_list (S d) (ps_with q))
  ++ when (nonempty (ps_columns q)) (expr_list (S d) (ps_columns q))
  ++ when (nonempty (ps_group_by q)) (expr_list (S d) (ps_group_by q))
  ++ (match ps_order_by q with
      | [] => []
      | [o] => node (S d) o
      | obs => explain_tuple_wrap (S d) obs
      end).

(* explainProjection(sb, p, indent(d), d) *)
Definition explain_projection (d : nat) (p : projection) : list line :=
  hdr d L_Projection (b2n (is_some (pj_select p)))
  :: (match pj_select p with Some q => explain_projection_select_query (S d) q | None => [] end).

(* ---------------------------------------------------------------------------------------- *)
(** * TTL clauses *)

Record ttl_element := mkTE { te_expr : option rose; te_where : option rose }.

Record ttl_clause := mkTTL {
  ttl_elements : list ttl_element;
  ttl_expression : option rose;
  ttl_expressions : list rose
}.

(* the Elements branch (same text in explainCreateQuery and explainAlterCommand); [d] = depth of
   the ExpressionList line *)
Definition explain_ttl_elements (d : nat) (els : list ttl_element) : list line :=
  hdr d L_ExpressionList (List.length els)
  :: flat_map (fun e =>
       hdr (S d) L_TTLElement (if is_some (te_where e) then 2 else 1)
       :: node_nilable (S (S d)) (te_expr e)
       ++ opt_node (S (S d)) (te_where e)) els.

(* the legacy Expression / Expressions branch *)
Definition explain_ttl_legacy (d : nat) (t : ttl_clause) : list line :=
  hdr d L_ExpressionList (1 + List.length (ttl_expressions t))
  :: hdr (S d) L_TTLElement 1
  :: node_nilable (S (S d)) (ttl_expression t)
  ++ flat_map (fun x => hdr (S d) L_TTLElement 1 :: node (S (S d)) x) (ttl_expressions t).

(* ---------------------------------------------------------------------------------------- *)
(** * AlterCommand *)

Inductive alter_type :=
| AT_AddColumn | AT_DropColumn | AT_ModifyColumn | AT_RenameColumn | AT_ClearColumn
| AT_MaterializeColumn | AT_CommentColumn
| AT_AddIndex | AT_DropIndex | AT_ClearIndex | AT_MaterializeIndex
| AT_AddConstraint | AT_DropConstraint
| AT_ModifyTTL | AT_MaterializeTTL | AT_RemoveTTL
| AT_ModifySetting | AT_ResetSetting
| AT_DropPartition | AT_DropDetachedPartition | AT_DetachPartition | AT_AttachPartition
| AT_ReplacePartition | AT_FetchPartition | AT_MovePartition | AT_FreezePartition | AT_Freeze
| AT_ApplyPatches | AT_DeleteWhere | AT_Update
| AT_AddProjection | AT_DropProjection | AT_MaterializeProjection | AT_ClearProjection
| AT_AddStatistics | AT_ModifyStatistics | AT_DropStatistics | AT_ClearStatistics
| AT_MaterializeStatistics
| AT_ModifyComment | AT_ModifyOrderBy | AT_ModifySampleBy | AT_ModifyQuery | AT_RemoveSampleBy
| AT_ApplyDeletedMask
| AT_Other (name : list N).     (* any other string (the empty one included); never one of the constants *)

(* the constants of ast.AlterCommandType *)
Definition alter_type_name (t : alter_type) : list N :=
  match t with
  | AT_AddColumn => bytes_of "ADD_COLUMN" | AT_DropColumn => bytes_of "DROP_COLUMN"
  | AT_ModifyColumn => bytes_of "MODIFY_COLUMN" | AT_RenameColumn => bytes_of "RENAME_COLUMN"
  | AT_ClearColumn => bytes_of "CLEAR_COLUMN" | AT_MaterializeColumn => bytes_of "MATERIALIZE_COLUMN"
  | AT_CommentColumn => bytes_of "COMMENT_COLUMN"
  | AT_AddIndex => bytes_of "ADD_INDEX" | AT_DropIndex => bytes_of "DROP_INDEX"
  | AT_ClearIndex => bytes_of "CLEAR_INDEX" | AT_MaterializeIndex => bytes_of "MATERIALIZE_INDEX"
  | AT_AddConstraint => bytes_of "ADD_CONSTRAINT" | AT_DropConstraint => bytes_of "DROP_CONSTRAINT"
  | AT_ModifyTTL => bytes_of "MODIFY_TTL" | AT_MaterializeTTL => bytes_of "MATERIALIZE_TTL"
  | AT_RemoveTTL => bytes_of "REMOVE_TTL"
  | AT_ModifySetting => bytes_of "MODIFY_SETTING" | AT_ResetSetting => bytes_of "RESET_SETTING"
  | AT_DropPartition => bytes_of "DROP_PARTITION"
  | AT_DropDetachedPartition => bytes_of "DROP_DETACHED_PARTITION"
  | AT_DetachPartition => bytes_of "DETACH_PARTITION" | AT_AttachPartition => bytes_of "ATTACH_PARTITION"
  | AT_ReplacePartition => bytes_of "REPLACE_PARTITION" | AT_FetchPartition => bytes_of "FETCH_PARTITION"
  | AT_MovePartition => bytes_of "MOVE_PARTITION" | AT_FreezePartition => bytes_of "FREEZE_PARTITION"
  | AT_Freeze => bytes_of "FREEZE" | AT_ApplyPatches => bytes_of "APPLY_PATCHES"
  | AT_DeleteWhere => bytes_of "DELETE_WHERE" | AT_Update => bytes_of "UPDATE"
  | AT_AddProjection => bytes_of "ADD_PROJECTION" | AT_DropProjection => bytes_of "DROP_PROJECTION"
  | AT_MaterializeProjection => bytes_of "MATERIALIZE_PROJECTION"
  | AT_ClearProjection => bytes_of "CLEAR_PROJECTION"
  | AT_AddStatistics => bytes_of "ADD_STATISTICS" | AT_ModifyStatistics => bytes_of "MODIFY_STATISTICS"
  | AT_DropStatistics => bytes_of "DROP_STATISTICS" | AT_ClearStatistics => bytes_of "CLEAR_STATISTICS"
  | AT_MaterializeStatistics => bytes_of "MATERIALIZE_STATISTICS"
  | AT_ModifyComment => bytes_of "MODIFY_COMMENT" | AT_ModifyOrderBy => bytes_of "MODIFY_ORDER_BY"
  | AT_ModifySampleBy => bytes_of "MODIFY_SAMPLE_BY" | AT_ModifyQuery => bytes_of "MODIFY_QUERY"
  | AT_RemoveSampleBy => bytes_of "REMOVE_SAMPLE_BY" | AT_ApplyDeletedMask => bytes_of "APPLY_DELETED_MASK"
  | AT_Other n => n
  end.

(* cmd.Partition as the printers look at it *)
Inductive part_view :=
| PV_all                           (* *ast.Identifier with strings.ToUpper(Name()) == "ALL" *)
| PV_literal (v : list N)          (* *ast.Literal; v = fmt %v of lit.Value *)
| PV_other.

Record partition := mkPart { pt_view : part_view; pt_tree : rose }.

Record assignment := mkAssign { as_column : list N; as_value : option rose }.

Record alter_command := mkAC {
  ac_type : alter_type;
  ac_column : option column_decl;
  ac_column_name : list N;
  ac_after_column : list N;
  ac_new_name : list N;
  ac_index : list N;
  ac_index_def : option index_def;
  ac_after_index : list N;
  ac_constraint : option (option rose);      (* cmd.Constraint != nil, and its Expression *)
  ac_constraint_name : list N;
  ac_partition : option partition;
  ac_partition_is_id : bool;
  ac_is_part : bool;
  ac_from_table : bool;                      (* cmd.FromTable != "" *)
  ac_ttl : option ttl_clause;
  ac_settings : nat;
  ac_where : option rose;
  ac_assignments : list assignment;
  ac_projection : option projection;
  ac_projection_name : list N;
  ac_stat_columns : list (list N);
  ac_stat_types : list fn_call;
  ac_comment : list N;
  ac_order_by : list rose;
  ac_sample_by : option rose;
  ac_reset_settings : list (list N);
  ac_query : option rose
}.

(* countAlterCommandChildren *)
Definition count_alter_command_children (c : alter_command) : nat :=
  match ac_type c with
  | AT_AddColumn | AT_ModifyColumn =>
      b2n (is_some (ac_column c)) + b2n (nonempty (ac_after_column c))
      + b2n (pos (ac_settings c)) + b2n (nonempty (ac_reset_settings c))
  | AT_DropColumn => b2n (nonempty (ac_column_name c))
  | AT_CommentColumn => b2n (nonempty (ac_column_name c)) + b2n (nonempty (ac_comment c))
  | AT_ModifyComment => b2n (nonempty (ac_comment c))
  | AT_RenameColumn => b2n (nonempty (ac_column_name c)) + b2n (nonempty (ac_new_name c))
  | AT_ClearColumn => b2n (nonempty (ac_column_name c)) + b2n (is_some (ac_partition c))
  | AT_AddIndex =>
      (match ac_index_def c with
       | Some i => if is_some (ix_expr i) || is_some (ix_type i) then 1 else b2n (nonempty (ac_index c))
       | None => b2n (nonempty (ac_index c))
       end)
      + b2n (nonempty (ac_after_index c))
  | AT_DropIndex | AT_ClearIndex => b2n (nonempty (ac_index c)) + b2n (is_some (ac_partition c))
  | AT_MaterializeIndex => b2n (nonempty (ac_index c)) + b2n (is_some (ac_partition c))
  | AT_MaterializeColumn => b2n (nonempty (ac_column_name c)) + b2n (is_some (ac_partition c))
  | AT_AddConstraint => b2n (is_some (ac_constraint c))
  | AT_DropConstraint => b2n (nonempty (ac_constraint_name c))
  | AT_ModifyTTL =>
      b2n (match ac_ttl c with Some t => is_some (ttl_expression t) | None => false end)
  | AT_ModifySetting => 1
  | AT_DropPartition | AT_DropDetachedPartition | AT_DetachPartition | AT_AttachPartition
  | AT_ReplacePartition | AT_FetchPartition | AT_MovePartition | AT_FreezePartition
  | AT_ApplyPatches | AT_ApplyDeletedMask => b2n (is_some (ac_partition c))
  | AT_Freeze => 0
  | AT_DeleteWhere => b2n (is_some (ac_where c))
  | AT_Update =>
      b2n (is_some (ac_partition c)) + b2n (nonempty (ac_assignments c)) + b2n (is_some (ac_where c))
  | AT_AddProjection => b2n (is_some (ac_projection c))
  | AT_DropProjection | AT_MaterializeProjection | AT_ClearProjection =>
      b2n (nonempty (ac_projection_name c))
  | AT_AddStatistics | AT_ModifyStatistics =>
      if nonempty (ac_stat_columns c) || nonempty (ac_stat_types c) then 1 else 0
  | AT_DropStatistics | AT_ClearStatistics | AT_MaterializeStatistics =>
      if nonempty (ac_stat_columns c) then 1 else 0
  | AT_ModifyOrderBy => if nonempty (ac_order_by c) then 1 else 0
  | AT_ModifySampleBy => if is_some (ac_sample_by c) then 1 else 0
  | AT_ModifyQuery => if is_some (ac_query c) then 1 else 0
  | AT_ResetSetting => if nonempty (ac_reset_settings c) then 1 else 0
  | AT_MaterializeTTL | AT_RemoveTTL | AT_RemoveSampleBy | AT_Other _ =>     (* default: *)
      b2n (is_some (ac_partition c))
  end.

(* the cmdType normalisation at the top of explainAlterCommand *)
Definition alter_type_label (c : alter_command) : list N :=
  match ac_type c with
  | AT_ClearStatistics => alter_type_name AT_DropStatistics
  | AT_AttachPartition =>
      if ac_from_table c then alter_type_name AT_ReplacePartition else alter_type_name AT_AttachPartition
  | AT_DetachPartition => alter_type_name AT_DropPartition
  | AT_ClearColumn => alter_type_name AT_DropColumn
  | AT_ClearIndex => alter_type_name AT_DropIndex
  | AT_ClearProjection => alter_type_name AT_DropProjection
  | AT_DeleteWhere => bytes_of "DELETE"
  | AT_Freeze => bytes_of "FREEZE_ALL"
  | t => alter_type_name t
  end.

(* the partition blocks; [d] = depth of the AlterCommand line *)
Definition part_wrapped (d : nat) (p : partition) : list line :=
  hdr (S d) L_Partition 1 :: node (S (S d)) (pt_tree p).

Definition part_id (d : nat) (p : partition) : list line :=
  match pt_view p with
  | PV_literal v => hdr (S d) (L_Partition_ID_Literal v) 1 :: node (S (S d)) (pt_tree p)
  | _ => hdr (S d) L_Partition_ID 1 :: node (S (S d)) (pt_tree p)
  end.

Definition is_all (p : partition) : bool :=
  match pt_view p with PV_all => true | _ => false end.

(* CLEAR COLUMN, DROP / CLEAR INDEX: ALL, else wrapped *)
Definition part_all_or_wrapped (d : nat) (o : option partition) : list line :=
  match o with
  | Some p => if is_all p then [leaf (S d) L_Partition_ID_all] else part_wrapped d p
  | None => []
  end.

(* MATERIALIZE INDEX: PartitionIsID, else wrapped (no ALL test) *)
Definition part_id_or_wrapped (d : nat) (is_id : bool) (o : option partition) : list line :=
  match o with
  | Some p => if is_id then part_id d p else part_wrapped d p
  | None => []
  end.

(* the DROP / DETACH / ATTACH / ... PARTITION group *)
Definition part_group (d : nat) (is_id is_part : bool) (o : option partition) : list line :=
  match o with
  | Some p =>
      if is_all p then [leaf (S d) L_Partition_ID_all]
      else if is_id then part_id d p
      else if is_part then node (S d) (pt_tree p)
      else part_wrapped d p
  | None => []
  end.

(* UPDATE: as the group, without the PART case *)
Definition part_update (d : nat) (is_id : bool) (o : option partition) : list line :=
  match o with
  | Some p =>
      if is_all p then [leaf (S d) L_Partition_ID_all]
      else if is_id then part_id d p
      else part_wrapped d p
  | None => []
  end.

(* `if s != "" { Fprintf("%s Identifier %s\n", indent, s) }` *)
Definition ident_if (d : nat) (s : list N) : list line :=
  when (nonempty s) [leaf (S d) (L_Identifier s)].

Definition comment_if (d : nat) (s : list N) : list line :=
  when (nonempty s) [leaf (S d) (L_Literal_q s)].

(* `ExpressionList (children len)` of `Identifier <name>` lines *)
Definition ident_list (d : nat) (names : list (list N)) : list line :=
  hdr d L_ExpressionList (List.length names) :: map (fun n => leaf (S d) (L_Identifier n)) names.

(* explainStatisticsTypeFunction(sb, fn, indent(d), d): always "(children 1)", the empty
   ExpressionList printed as a leaf; the arguments by Node(sb, arg, depth+2), beneath the
   ExpressionList (/repo 472349192; before that commit they were printed at depth+1, beside it) *)
Definition explain_statistics_type_function (d : nat) (f : fn_call) : list line :=
  hdr d (L_Function (fn_name f)) 1
  :: (if nonempty (fn_args f)
      then hdr (S d) L_ExpressionList (List.length (fn_args f)) :: nodes (S (S d)) (fn_args f)
      else [leaf (S d) L_ExpressionList]).

(* explainStatisticsCommand(sb, cmd, indent(d), d); [d] = depth of the AlterCommand line *)
Definition explain_statistics_command (d : nat) (c : alter_command) : list line :=
  hdr (S d) L_Stat (b2n (nonempty (ac_stat_columns c)) + b2n (nonempty (ac_stat_types c)))
  :: when (nonempty (ac_stat_columns c)) (ident_list (S (S d)) (ac_stat_columns c))
  ++ when (nonempty (ac_stat_types c))
          (hdr (S (S d)) L_ExpressionList (List.length (ac_stat_types c))
           :: flat_map (explain_statistics_type_function (3 + d)) (ac_stat_types c)).

(* explainAlterCommand(sb, cmd, indent(d), d) *)
Definition explain_alter_command (d : nat) (c : alter_command) : list line :=
  hdr_pos d (L_AlterCommand (alter_type_label c)) (count_alter_command_children c)
  :: match ac_type c with
     | AT_AddColumn =>
         (match ac_column c with Some col => explain_column (S d) col | None => [] end)
         ++ ident_if d (ac_after_column c)
     | AT_ModifyColumn =>
         (match ac_column c with Some col => explain_column (S d) col | None => [] end)
         ++ ident_if d (ac_after_column c)
         ++ when (pos (ac_settings c)) [leaf (S d) L_Set]
         ++ when (nonempty (ac_reset_settings c)) (ident_list (S d) (ac_reset_settings c))
     | AT_DropColumn => ident_if d (ac_column_name c)
     | AT_RenameColumn => ident_if d (ac_column_name c) ++ ident_if d (ac_new_name c)
     | AT_ClearColumn => ident_if d (ac_column_name c) ++ part_all_or_wrapped d (ac_partition c)
     | AT_CommentColumn => ident_if d (ac_column_name c) ++ comment_if d (ac_comment c)
     | AT_ModifyComment => comment_if d (ac_comment c)
     | AT_AddIndex =>
         (match ac_index_def c with
          | Some i => if is_some (ix_expr i) || is_some (ix_type i) then explain_index (S d) i
                      else ident_if d (ac_index c)
          | None => ident_if d (ac_index c)
          end)
         ++ ident_if d (ac_after_index c)
     | AT_DropIndex | AT_ClearIndex => ident_if d (ac_index c) ++ part_all_or_wrapped d (ac_partition c)
     | AT_MaterializeIndex =>
         ident_if d (ac_index c) ++ part_id_or_wrapped d (ac_partition_is_id c) (ac_partition c)
     | AT_MaterializeColumn =>
         ident_if d (ac_column_name c)
         ++ (match ac_partition c with Some p => part_wrapped d p | None => [] end)
     | AT_AddConstraint =>
         (match ac_constraint c with
          | Some (Some e) => hdr (S d) L_Constraint 1 :: node (S (S d)) e
          | Some None => [leaf (S d) L_Constraint]
          | None => []
          end)
     | AT_DropConstraint => ident_if d (ac_constraint_name c)
     | AT_ModifyTTL =>
         (match ac_ttl c with
          | Some t =>
              if nonempty (ttl_elements t) then explain_ttl_elements (S d) (ttl_elements t)
              else if is_some (ttl_expression t) then explain_ttl_legacy (S d) t
              else []
          | None => []
          end)
     | AT_ModifySetting => [leaf (S d) L_Set]
     | AT_DropPartition | AT_DropDetachedPartition | AT_DetachPartition | AT_AttachPartition
     | AT_ReplacePartition | AT_FetchPartition | AT_MovePartition | AT_FreezePartition
     | AT_ApplyPatches | AT_ApplyDeletedMask =>
         part_group d (ac_partition_is_id c) (ac_is_part c) (ac_partition c)
     | AT_Freeze => []
     | AT_DeleteWhere => opt_node (S d) (ac_where c)
     | AT_Update =>
         part_update d (ac_partition_is_id c) (ac_partition c)
         ++ opt_node (S d) (ac_where c)
         ++ when (nonempty (ac_assignments c))
                 (hdr (S d) L_ExpressionList (List.length (ac_assignments c))
                  :: flat_map (fun a => hdr (S (S d)) (L_Assignment (as_column a)) 1
                                        :: node_nilable (3 + d) (as_value a))
                              (ac_assignments c))
     | AT_AddProjection =>
         (match ac_projection c with Some p => explain_projection (S d) p | None => [] end)
     | AT_DropProjection | AT_MaterializeProjection | AT_ClearProjection =>
         ident_if d (ac_projection_name c)
     | AT_AddStatistics | AT_ModifyStatistics
     | AT_DropStatistics | AT_ClearStatistics | AT_MaterializeStatistics =>
         explain_statistics_command d c
     | AT_ModifyOrderBy =>
         (match ac_order_by c with
          | [] => []
          | [e] => node (S d) e
          | es => explain_tuple_wrap (S d) es
          end)
     | AT_ModifySampleBy => opt_node (S d) (ac_sample_by c)
     | AT_ModifyQuery => opt_node (S d) (ac_query c)
     | AT_ResetSetting =>
         when (nonempty (ac_reset_settings c)) (ident_list (S d) (ac_reset_settings c))
     | AT_MaterializeTTL | AT_RemoveTTL | AT_RemoveSampleBy | AT_Other _ =>     (* default: *)
         (match ac_partition c with Some p => node (S d) (pt_tree p) | None => [] end)
     end.

(* ---------------------------------------------------------------------------------------- *)
(** * AlterQuery *)

Record alter_query := mkAQ {
  aq_database : list N;
  aq_table : list N;
  aq_commands : list alter_command;
  aq_settings : nat;
  aq_format : list N
}.

Definition count_alter_query_children (n : alter_query) : nat :=
  (if nonempty (aq_database n) then 3 else 2)
  + b2n (pos (aq_settings n)) + b2n (nonempty (aq_format n)).

Definition alter_query_label (n : alter_query) : list N :=
  if nonempty (aq_database n)
  then bytes_of "AlterQuery " ++ aq_database n ++ SPC ++ aq_table n
  else bytes_of "AlterQuery  " ++ aq_table n.

(* explainAlterQuery(sb, n, indent(d), d) *)
Definition explain_alter_query (d : nat) (n : alter_query) : list line :=
  hdr d (alter_query_label n) (count_alter_query_children n)
  :: hdr (S d) L_ExpressionList (List.length (aq_commands n))
  :: flat_map (explain_alter_command (S (S d))) (aq_commands n)
  ++ ident_if d (aq_database n)
  ++ [leaf (S d) (L_Identifier (aq_table n))]
  ++ ident_if d (aq_format n)
  ++ when (pos (aq_settings n)) [leaf (S d) L_Set].

(* ---------------------------------------------------------------------------------------- *)
(** * CreateQuery *)

Record engine := mkEngine { en_name : list N; en_has_parens : bool; en_params : list rose }.

(* n.AsSelect: printed by Node, or by explainAsSelectWithoutFormat when the CreateQuery has a FORMAT *)
Record as_select := mkAsSelect { as_plain : rose; as_no_format : rose }.

Record create_query := mkCQ {
  (* CREATE FUNCTION *)
  cq_create_function : bool;
  cq_function_name : list N;
  cq_function_body : option rose;
  (* CREATE / ALTER USER *)
  cq_create_user : bool;
  cq_alter_user : bool;
  cq_has_authentication_data : bool;
  cq_authentication_values : list (list N);
  cq_ssh_key_count : nat;
  (* CREATE DICTIONARY *)
  cq_create_dictionary : bool;
  cq_dictionary_attrs : list rose;           (* each printed by explainDictionaryAttributeDeclaration *)
  cq_dictionary_def : option rose;           (* printed by explainDictionaryDefinition *)
  (* names *)
  cq_create_database : bool;
  cq_database : list N;
  cq_table : list N;
  cq_view : list N;
  (* column list *)
  cq_columns : list column_decl;
  cq_indexes : list index_def;
  cq_projections : list projection;
  cq_constraints : list (option rose);       (* constraint.Expression, printed by Node without a nil test *)
  cq_columns_primary_key : list rose;
  cq_has_empty_columns_primary_key : bool;
  (* storage *)
  cq_engine : option engine;
  cq_inner_engine : option engine;
  cq_order_by : list key_expr;
  cq_order_by_has_modifiers : bool;
  cq_partition_by : option key_expr;
  cq_primary_key : list key_expr;
  cq_sample_by : option rose;
  cq_ttl : option ttl_clause;
  cq_settings : nat;
  cq_query_settings : nat;
  cq_settings_before_comment : bool;
  (* the rest *)
  cq_comment : list N;
  cq_has_refresh : bool;
  cq_materialized : bool;
  cq_window_view : bool;
  cq_to : bool;                              (* n.To != "" *)
  cq_as_select : option as_select;
  cq_as_table_function : option rose;
  cq_format : list N
}.

(* ---- CREATE FUNCTION ---- *)
Definition explain_create_function (d : nat) (n : create_query) : list line :=
  hdr d (L_CreateFunctionQuery (cq_function_name n)) 2          (* children := 2 // identifier + lambda *)
  :: leaf (S d) (L_Identifier (cq_function_name n))
  :: opt_node (S d) (cq_function_body n).

(* ---- CREATE / ALTER USER ---- *)
Definition explain_create_user (d : nat) (n : create_query) : list line :=
  if cq_has_authentication_data n then
    if nonempty (cq_authentication_values n) then
      hdr d L_CreateUserQuery (List.length (cq_authentication_values n))
      :: flat_map (fun v => [hdr (S d) L_AuthenticationData 1; leaf (S (S d)) (L_Literal_q v)])
                  (cq_authentication_values n)
    else if pos (cq_ssh_key_count n) then
      hdr d L_CreateUserQuery 1
      :: hdr (S d) L_AuthenticationData (cq_ssh_key_count n)
      :: repeat (leaf (S (S d)) L_PublicSSHKey) (cq_ssh_key_count n)
    else [hdr d L_CreateUserQuery 1; leaf (S d) L_AuthenticationData]
  else [leaf d L_CreateUserQuery].

(* ---- CREATE DICTIONARY ---- *)
Definition count_create_dictionary_children (n : create_query) : nat :=
  1 + b2n (nonempty (cq_database n)) + b2n (nonempty (cq_dictionary_attrs n))
  + b2n (is_some (cq_dictionary_def n)) + b2n (nonempty (cq_comment n)).

Definition explain_create_dictionary (d : nat) (n : create_query) : list line :=
  (if nonempty (cq_database n)
   then [hdr d (L_CreateQuery (cq_database n ++ SPC ++ cq_table n)) (count_create_dictionary_children n);
         leaf (S d) (L_Identifier (cq_database n))]
   else [hdr d (L_CreateQuery (cq_table n)) (count_create_dictionary_children n)])
  ++ [leaf (S d) (L_Identifier (cq_table n))]
  ++ when (nonempty (cq_dictionary_attrs n)) (expr_list (S d) (cq_dictionary_attrs n))
  ++ opt_node (S d) (cq_dictionary_def n)
  ++ comment_if d (cq_comment n).

(* ---- the general CREATE ---- *)

Definition create_name (n : create_query) : list N :=
  if cq_create_database n then cq_database n
  else if nonempty (cq_view n) then cq_view n
  else cq_table n.

Definition has_database (n : create_query) : bool :=
  nonempty (cq_database n) && negb (cq_create_database n)
  && (nonempty (cq_table n) || nonempty (cq_view n)).

(* `for _, col := range n.Columns { if col.PrimaryKey { hasColumnPrimaryKey = true; break } }` *)
Definition has_column_primary_key (n : create_query) : bool := existsb cd_primary_key (cq_columns n).

Definition has_columns_block (n : create_query) : bool :=
  nonempty (cq_columns n) || nonempty (cq_indexes n)
  || nonempty (cq_projections n) || nonempty (cq_constraints n).

Definition settings_in_storage (n : create_query) : bool :=
  pos (cq_settings n) && (negb (nonempty (cq_comment n)) || cq_settings_before_comment n).

Definition settings_after_comment (n : create_query) : bool :=
  nonempty (cq_comment n) && pos (cq_settings n) && negb (cq_settings_before_comment n).

Definition window_inner (n : create_query) : bool :=
  cq_window_view n && is_some (cq_inner_engine n).

(* count side *)
Definition order_by_in_regular_storage (n : create_query) : bool :=
  nonempty (cq_order_by n) && negb (window_inner n).

Definition has_storage_child (n : create_query) : bool :=
  is_some (cq_engine n) || order_by_in_regular_storage n || nonempty (cq_primary_key n)
  || is_some (cq_partition_by n) || is_some (cq_sample_by n) || is_some (cq_ttl n)
  || settings_in_storage n || nonempty (cq_columns_primary_key n) || has_column_primary_key n.

(* emit side (the same expressions, written a second time in Go) *)
Definition has_order_by_in_storage (n : create_query) : bool :=
  nonempty (cq_order_by n) && negb (window_inner n).

Definition has_storage (n : create_query) : bool :=
  is_some (cq_engine n) || has_order_by_in_storage n || nonempty (cq_primary_key n)
  || is_some (cq_partition_by n) || is_some (cq_sample_by n) || is_some (cq_ttl n)
  || settings_in_storage n || nonempty (cq_columns_primary_key n) || has_column_primary_key n.

(* the tally at the top of the general part of explainCreateQuery *)
Definition count_create_query_children (n : create_query) : nat :=
  1
  + b2n (has_database n)
  + b2n (has_columns_block n)
  + b2n (has_storage_child n)
  + b2n (settings_after_comment n)
  + b2n (pos (cq_query_settings n))
  + b2n (cq_has_refresh n)
  + b2n (cq_materialized n && cq_to n && negb (has_storage_child n))
  + b2n (window_inner n)
  + b2n (is_some (cq_as_select n))
  + b2n (is_some (cq_as_table_function n))
  + b2n (nonempty (cq_format n))
  + b2n (nonempty (cq_comment n)).

(* `var primaryKeyColumns []string; for .. { if col.PrimaryKey { append(.., col.Name) } }` *)
Definition primary_key_columns (n : create_query) : list (list N) :=
  map cd_name (filter cd_primary_key (cq_columns n)).

Definition has_inline_primary_key (n : create_query) : bool :=
  nonempty (cq_columns_primary_key n) || cq_has_empty_columns_primary_key n.

(* childrenCount of "Columns definition" *)
Definition count_columns_definition_children (n : create_query) : nat :=
  b2n (nonempty (cq_columns n)) + b2n (nonempty (cq_indexes n))
  + b2n (nonempty (cq_projections n)) + b2n (nonempty (cq_constraints n))
  + b2n (nonempty (primary_key_columns n))
  + b2n (has_inline_primary_key n).

(* the "Columns definition" block; [d] = depth of that line *)
Definition explain_columns_definition (d : nat) (n : create_query) : list line :=
  hdr d L_Columns_definition (count_columns_definition_children n)
  :: when (nonempty (cq_columns n))
          (hdr (S d) L_ExpressionList (List.length (cq_columns n))
           :: flat_map (explain_column (S (S d))) (cq_columns n))
  ++ when (nonempty (cq_indexes n))
          (hdr (S d) L_ExpressionList (List.length (cq_indexes n))
           :: flat_map (explain_index (S (S d))) (cq_indexes n))
  ++ when (nonempty (cq_projections n))
          (hdr (S d) L_ExpressionList (List.length (cq_projections n))
           :: flat_map (explain_projection (S (S d))) (cq_projections n))
  ++ when (nonempty (cq_constraints n))
          (hdr (S d) L_ExpressionList (List.length (cq_constraints n))
           :: flat_map (fun e => hdr (S (S d)) L_Constraint 1 :: node_nilable (3 + d) e)
                       (cq_constraints n))
  ++ when (nonempty (primary_key_columns n))
          (hdr (S d) L_Function_tuple 1
           :: ident_list (S (S d)) (primary_key_columns n))
  ++ when (has_inline_primary_key n)
          (if cq_has_empty_columns_primary_key n then
             [hdr (S d) L_Function_tuple 1; leaf (S (S d)) L_ExpressionList]
           else match cq_columns_primary_key n with
                | _ :: _ :: _ => explain_tuple_wrap (S d) (cq_columns_primary_key n)
                | pks => nodes (S d) pks
                end).

(* an engine clause; [d] = depth of its Function line *)
Definition explain_engine (d : nat) (e : engine) : list line :=
  if en_has_parens e then
    hdr d (L_Function (en_name e)) 1
    :: (if nonempty (en_params e)
        then hdr (S d) L_ExpressionList (List.length (en_params e)) :: nodes (S (S d)) (en_params e)
        else [leaf (S d) L_ExpressionList])
  else [leaf d (L_Function (en_name e))].

(* a tuple literal: `Function tuple (children 1)` and its ExpressionList, the empty one a leaf *)
Definition explain_tuple_literal (d : nat) (es : list rose) : list line :=
  hdr d L_Function_tuple 1
  :: (if nonempty es
      then hdr (S d) L_ExpressionList (List.length es) :: nodes (S (S d)) es
      else [leaf (S d) L_ExpressionList]).

(* PRIMARY KEY in the storage definition; [d] = depth of the storage children *)
Definition explain_storage_primary_key (d : nat) (pk : list key_expr) : list line :=
  match pk with
  | [] => []
  | [k] => match k_view k with
           | KV_ident nm => [leaf d (L_Identifier nm)]
           | KV_tuple es => explain_tuple_literal d es
           | KV_other => node d (k_tree k)
           end
  | _ => explain_tuple_wrap d (map k_tree pk)
  end.

(* ORDER BY in the storage definition *)
Definition explain_storage_order_by (d : nat) (mods : bool) (ob : list key_expr) : list line :=
  match ob with
  | [] => []
  | [k] => match k_view k with
           | KV_ident nm =>
               if mods then [hdr d L_StorageOrderByElement 1; leaf (S d) (L_Identifier nm)]
               else [leaf d (L_Identifier nm)]
           | KV_tuple es => if mods then [leaf d L_Function_tuple] else explain_tuple_literal d es
           | KV_other => node d (k_tree k)
           end
  | _ => explain_tuple_wrap d (map k_tree ob)
  end.

(* ORDER BY inside the ViewTargets of a window view (no tuple-literal case) *)
Definition explain_inner_order_by (d : nat) (ob : list key_expr) : list line :=
  match ob with
  | [] => []
  | [k] => match k_view k with
           | KV_ident nm => [leaf d (L_Identifier nm)]
           | _ => node d (k_tree k)
           end
  | _ => explain_tuple_wrap d (map k_tree ob)
  end.

Definition explain_create_ttl (d : nat) (t : ttl_clause) : list line :=
  if nonempty (ttl_elements t) then explain_ttl_elements d (ttl_elements t)
  else explain_ttl_legacy d t.

(* storageChildren *)
Definition count_storage_children (n : create_query) : nat :=
  b2n (is_some (cq_engine n)) + b2n (is_some (cq_partition_by n))
  + b2n (nonempty (cq_order_by n)) + b2n (nonempty (cq_primary_key n))
  + b2n (is_some (cq_sample_by n)) + b2n (is_some (cq_ttl n))
  + b2n (settings_in_storage n).

(* the "Storage definition" line at depth [d] and its children *)
Definition explain_storage_definition (d : nat) (n : create_query) : list line :=
  hdr_pos d L_Storage_definition (count_storage_children n)
  :: (match cq_engine n with Some e => explain_engine (S d) e | None => [] end)
  ++ (match cq_partition_by n with
      | Some k => match k_view k with
                  | KV_ident nm => [leaf (S d) (L_Identifier nm)]
                  | _ => node (S d) (k_tree k)
                  end
      | None => []
      end)
  ++ explain_storage_primary_key (S d) (cq_primary_key n)
  ++ explain_storage_order_by (S d) (cq_order_by_has_modifiers n) (cq_order_by n)
  ++ opt_node (S d) (cq_sample_by n)
  ++ (match cq_ttl n with Some t => explain_create_ttl (S d) t | None => [] end)
  ++ when (settings_in_storage n) [leaf (S d) L_Set].

(* ViewTargets of a window view with INNER ENGINE; [d] = depth of the CreateQuery line *)
Definition explain_window_view_targets (d : nat) (n : create_query) : list line :=
  match cq_inner_engine n with
  | Some e =>
      hdr (S d) L_ViewTargets 1
      :: hdr (S (S d)) L_Storage_definition (1 + b2n (nonempty (cq_order_by n)))
      :: explain_engine (3 + d) e
      ++ explain_inner_order_by (3 + d) (cq_order_by n)
  | None => []
  end.

(* `if hasFormat { explainAsSelectWithoutFormat(..) } else { Node(..) }` *)
Definition explain_as_select (d : nat) (n : create_query) : list line :=
  match cq_as_select n with
  | Some s => if nonempty (cq_format n) then node d (as_no_format s) else node d (as_plain s)
  | None => []
  end.

Definition explain_create_general (d : nat) (n : create_query) : list line :=
  (if cq_create_database n then
     [hdr d (L_CreateQuery (create_name n ++ SPC)) (count_create_query_children n);
      leaf (S d) (L_Identifier (create_name n))]
   else if has_database n then
     [hdr d (L_CreateQuery (cq_database n ++ SPC ++ create_name n)) (count_create_query_children n);
      leaf (S d) (L_Identifier (cq_database n));
      leaf (S d) (L_Identifier (create_name n))]
   else
     [hdr d (L_CreateQuery (create_name n)) (count_create_query_children n);
      leaf (S d) (L_Identifier (create_name n))])
  ++ when (has_columns_block n) (explain_columns_definition (S d) n)
  ++ when (cq_has_refresh n) [hdr (S d) L_Refresh 1; leaf (S (S d)) L_TimeInterval]
  ++ when (cq_materialized n) (explain_as_select (S d) n)
  ++ (if has_storage n then
        if cq_materialized n
        then hdr (S d) L_ViewTargets 1 :: explain_storage_definition (S (S d)) n
        else explain_storage_definition (S d) n
      else when (cq_materialized n && cq_to n) [leaf (S d) L_ViewTargets])
  ++ when (cq_window_view n) (explain_as_select (S d) n)
  ++ when (window_inner n) (explain_window_view_targets d n)
  ++ when (negb (cq_materialized n) && negb (cq_window_view n)) (explain_as_select (S d) n)
  ++ opt_node (S d) (cq_as_table_function n)
  ++ ident_if d (cq_format n)
  ++ comment_if d (cq_comment n)
  ++ when (settings_after_comment n) [leaf (S d) L_Set]
  ++ when (pos (cq_query_settings n)) [leaf (S d) L_Set].

(* explainCreateQuery(sb, n, indent(d), d) for n != nil *)
Definition explain_create_query (d : nat) (n : create_query) : list line :=
  if cq_create_function n then explain_create_function d n
  else if cq_create_user n || cq_alter_user n then explain_create_user d n
  else if cq_create_dictionary n then explain_create_dictionary d n
  else explain_create_general d n.
